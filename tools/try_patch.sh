#!/bin/bash
# tools/try_patch.sh <patch.diff> [props...]  -- apply a patch to a scratch copy of /repo (under /tmp, removed afterwards) and run the
# quick checks against it.  Used to test behaviour-preserving refactoring patches for false alarms (DESIGN.md §8.8).
P=$(readlink -f "$1"); shift
D=$(mktemp -d /tmp/np.XXXXXX)
cp -r /repo/elftools /repo/scripts $D/
( cd $D && git init -q . 2>/dev/null; git -C $D apply --whitespace=nowarn "$P" ) || { echo "PATCH DOES NOT APPLY: $P"; rm -rf $D; exit 3; }
cd /verif
if [ $# -eq 0 ]; then set -- all; fi
OUT=$(./check "$@" --root $D --no-evidence 2>&1)
echo "$OUT" | grep "^FINDING\|^ANALYSIS" | cut -c1-330
echo "== $(basename $P): pass=$(echo "$OUT" | grep -c '^PASS') findings=$(echo "$OUT" | grep -c '^FINDING') errors=$(echo "$OUT" | grep -c '^ANALYSIS')"
rm -rf $D
