#!/usr/bin/env python3
"""tools/probe_partial.py [root]  -- list every J-PARTIAL obligation on a tree (used to confirm the instances by reading)"""
import sys, os
sys.path.insert(0, os.path.dirname(os.path.dirname(os.path.abspath(__file__))))
from sa.report import Ctx
from sa.world import get_world
from sa import partial
ctx = Ctx('C10', tier='quick', root=sys.argv[1] if len(sys.argv) > 1 else '/repo', seed=0, quiet=True)
w = get_world(ctx)
real = ctx.ob
def ob(rule, construct, instance, ok, **k):
    print('ok ' if ok else 'BAD', construct, '|', instance, '|', k.get('sample') if ok else k.get('got'))
    return real(rule, construct, instance, ok, **k)
ctx.ob = ob
partial.check_partial(ctx, w)
