#!/usr/bin/env python3
"""tools/store_seed2.py <worktree> <property> <seed-name> <first_run> "<note>" <detected_by props...>
   round-5/6 layout: <worktree>/out/<property>/{patch.diff,demo.py,note.txt} -> /verif/seeded/<seed-name>/{patch.diff,demo.py,meta.json}"""
import json, os, shutil, sys, re
wt, prop, name, first, note = sys.argv[1:6]
det = sys.argv[6:]
src = os.path.join(wt, 'out', prop)
d = os.path.join('/verif/seeded', name)
os.makedirs(d, exist_ok=True)
shutil.copy(os.path.join(src, 'patch.diff'), os.path.join(d, 'patch.diff'))
shutil.copy(os.path.join(src, 'demo.py'), os.path.join(d, 'demo.py'))
txt = open(os.path.join(src, 'note.txt')).read().strip()
files = sorted(set(re.findall(r'^\+\+\+ b/(\S+)', open(os.path.join(d, 'patch.diff')).read(), re.M)))
meta = dict(property=prop, summary=txt, needs='(see summary: the change needs the specific input / call sequence described there to manifest)',
            files_changed=files, why_tests_pass='see summary; pytest result unchanged: 111 passed, 1 failed (test_core_notes32_mips, pre-existing), 2 collection errors',
            round=int(os.environ.get("SEED_ROUND", "6")),
            confirmed=dict(ran='tools/confirm_seed2.sh: pinned pytest suite in the worktree with the change (111 passed, same as baseline); demo.py exits 1 '
                               'with the change and 0 without; ./check all --root <worktree>',
                           status='caught' if first == 'caught' else ('caught after strengthening' if det else 'missed'), note=note),
            first_run=first, detected_by=det, rule=note.split()[0])
json.dump(meta, open(os.path.join(d, 'meta.json'), 'w'), indent=1)
print('stored', d, meta['confirmed']['status'])
