#!/bin/bash
# tools/confirm_seed.sh <worktree> <property> [more properties to run]
# Confirms a sub-agent's seeded change (tests unchanged, demo fails with / passes without), runs the checks against the
# worktree with the change applied, and stores it under /verif/seeded/<name>/ when confirmed.
WT=$1; shift; PROP=$1
NAME=$(basename $WT)
cd $WT || exit 2
[ -f seed_patch.diff ] || { echo "no seed_patch.diff"; exit 2; }
git diff --quiet -- elftools && { echo "worktree has no change applied; applying patch"; git apply seed_patch.diff || exit 2; }
echo "== files changed:"; git diff --stat -- elftools | tail -3
T=$(PYTHONPATH=$WT timeout 900 /venv/bin/python -m pytest -q -p no:cacheprovider --timeout=900 --continue-on-collection-errors 2>&1 | tail -1)
echo "== tests with change: $T"
PYTHONPATH=$WT timeout 120 /venv/bin/python seed_demo.py $WT > /tmp/seed_demo_with.txt 2>&1; W=$?
git stash -q -- elftools
PYTHONPATH=$WT timeout 120 /venv/bin/python seed_demo.py $WT > /tmp/seed_demo_without.txt 2>&1; WO=$?
git stash pop -q
echo "== demo with change: exit $W ($(tail -1 /tmp/seed_demo_with.txt | cut -c1-150)); without: exit $WO"
cd /verif
for P in "$@"; do
  OUT=$(timeout 600 ./check $P --root $WT --no-evidence 2>&1)
  echo "== check $P on the changed tree: exit $? ; $(echo "$OUT" | grep -c '^FINDING') findings"
  echo "$OUT" | grep '^FINDING\|^ANALYSIS' | cut -c1-260 | head -5
done
case "$T" in *"111 passed"*) ;; *) echo "!! tests differ"; esac
