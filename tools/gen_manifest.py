#!/usr/bin/env python3
"""Regenerate /verif/MANIFEST.json from props/claims.py (single source of truth for claims)."""
import json
import os
import sys

HERE = os.path.dirname(os.path.dirname(os.path.abspath(__file__)))
sys.path.insert(0, HERE)
from props import claims  # noqa

BASELINE = ("cd /repo && env -u PYELFTOOLS_VERIF /venv/bin/python -m pytest -ra -q -p no:cacheprovider "
            "--timeout=900 --continue-on-collection-errors")


def main():
    checks = []
    for pid in sorted(claims.CLAIMS):
        c = claims.CLAIMS[pid]
        checks.append(dict(
            property_id=pid,
            quick_cmd='./check %s --tier quick' % pid,
            thorough_cmd='./check %s --tier thorough' % pid,
            evidence_file='/verif/evidence/%s.json' % pid,
            replay_cmd_template='./check %s --replay {path}' % pid,
            engine='sa',
            level_claimed=dict(category='other', text=c['level'], design_ref='DESIGN.md §3 ' + pid),
            level_note=c['note'],
            technique=c['technique'],
        ))
    na = [dict(property_id=p, reason=r) for p, r in sorted(claims.NOT_APPLICABLE.items())]
    man = dict(
        version=1,
        setup_cmd='/venv/bin/python -m compileall -q sa props spec tools >/dev/null && ./check --self-check',
        hooks=dict(guard='PYELFTOOLS_VERIF', enable='none needed: static analysis reads the sources of /repo as they are',
                   baseline_off_cmd=BASELINE, source_commits=[], add_only=True),
        engines=[dict(name='sa', path='/verif/sa', serves_properties=sorted(claims.CLAIMS),
                      kind_free_text='repository-specific static analysis over the Python AST: abstract interpretation of '
                                     'table/struct-building code, layout conformance against vendored registries, dispatch '
                                     'extraction, affine normal forms, path enumeration, stream-cursor typestate')],
        checks=checks,
        notes='Static analysis only; nothing in /repo is imported or executed by the deciding step. Exit 0 pass, 1 '
              'violation (VIOLATION line), 2 analysis error (vanished anchor / unmodelled construct; never a VIOLATION line). '
              'Genuine defects repaired in /repo by fix: commits are listed under "fixed" in known_findings.json.',
        not_applicable=na,
    )
    with open(os.path.join(HERE, 'MANIFEST.json'), 'w') as fp:
        json.dump(man, fp, indent=1)
    print('MANIFEST.json: %d checks, %d not applicable' % (len(checks), len(na)))


if __name__ == '__main__':
    main()
