#!/usr/bin/env python3
"""tools/store_seed.py <worktree> <property> <caught|missed> "<rule or note>" [detected_by props...]"""
import json, os, shutil, sys, subprocess
wt, prop, status, note = sys.argv[1:5]
det = sys.argv[5:] or [prop]
name = os.path.basename(wt.rstrip('/'))
d = os.path.join('/verif/seeded', name)
os.makedirs(d, exist_ok=True)
diff = subprocess.run(['git', '-C', wt, 'diff', '--', 'elftools'], capture_output=True, text=True).stdout
if not diff.strip():
    diff = open(os.path.join(wt, 'seed_patch.diff')).read()
open(os.path.join(d, 'patch.diff'), 'w').write(diff)
shutil.copy(os.path.join(wt, 'seed_demo.py'), os.path.join(d, 'demo.py'))
try:
    meta = json.load(open(os.path.join(wt, 'seed_meta.json')))
except Exception as e:
    meta = {'property': prop, 'summary': 'meta unreadable: %s' % e}
meta['property'] = prop
meta['confirmed'] = dict(
    ran='tools/confirm_seed.sh: pinned pytest suite in the worktree with the change (111 passed, same as baseline); demo.py exits 1 '
        'with the change and 0 without; ./check %s --root <worktree>' % ' '.join(det),
    status=status, note=note)
meta['detected_by'] = det if status == 'caught' else []
if status == 'caught':
    meta['rule'] = note.split()[0]
else:
    meta['expected'] = 'miss'
meta.setdefault('first_run', status)
json.dump(meta, open(os.path.join(d, 'meta.json'), 'w'), indent=1)
print('stored', d, status)
