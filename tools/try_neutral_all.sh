#!/bin/bash
# tools/try_neutral_all.sh [pattern]  -- run every saved neutral patch (neutral/*.diff) through the quick checks in parallel and summarise
cd /verif
ls neutral/${1:-}*_?.diff | xargs -P 8 -I{} sh -c 'tools/try_patch.sh {} > /tmp/np_$(basename {}).out 2>&1'
for f in neutral/${1:-}*_?.diff; do tail -1 /tmp/np_$(basename $f).out; done
