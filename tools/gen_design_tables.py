#!/usr/bin/env python3
"""tools/gen_design_tables.py -- regenerate the generated tables of DESIGN.md §8 (between the GENERATED markers) from
known_findings.json, seeded/*/meta.json and the MUTANTS tables.  Hand-written prose around the markers is left alone."""
import importlib
import json
import os
import re
import sys

V = os.path.dirname(os.path.dirname(os.path.abspath(__file__)))
sys.path.insert(0, V)


def esc(s):
    return str(s).replace('|', '\\|').replace('\n', ' ')


def findings_table():
    k = json.load(open(os.path.join(V, 'known_findings.json')))
    out = ['| property | commit in /repo | rule and construct that reported it | what failed (demonstration) |', '|---|---|---|---|']
    for f in k['fixed']:
        rule, construct = (f['key'].split('|') + ['', ''])[:2]
        what = re.sub(r'^fixed: property=\S+ (\(also \S+\) )?(\S+ )?', '', f['what']) if f['what'].startswith('fixed:') else f['what']
        out.append('| %s | `%s` | %s at `%s` | %s |' % (f['property'], f['commit'], rule, esc(construct), esc(what)))
    out.append('')
    out.append('Known findings (recorded, not repaired; the check prints `KNOWN-FINDING:` and exits 0):')
    out.append('')
    out.append('| property | key (rule, construct, instance) | why it is recorded rather than repaired |')
    out.append('|---|---|---|')
    for f in k['known']:
        out.append('| %s | `%s` | %s |' % (f['property'], esc(f['key']), esc(f['what'])))
    return '\n'.join(out)


def seeds_table():
    sd = os.path.join(V, 'seeded')
    out = ['| seed | property | change (by a sub-agent that saw only the property text) | needs, to manifest | first run | now reported by |', '|---|---|---|---|---|---|']
    for d in sorted(os.listdir(sd)):
        p = os.path.join(sd, d, 'meta.json')
        if not os.path.exists(p):
            continue
        m = json.load(open(p))
        c = m.get('confirmed', {})
        first = m.get('first_run') or c.get('status', '?')
        out.append('| %s | %s | %s | %s | %s | %s: %s |' % (d, m.get('property'), esc(m.get('summary', ''))[:300], esc(m.get('needs', ''))[:200], esc(first),
                                                           ', '.join(m.get('detected_by') or []), esc(c.get('note', m.get('rule', '')))[:260]))
    return '\n'.join(out)


def mutants_table():
    out = ['| property | mutants in the MUTANTS table | rules they exercise |', '|---|---|---|']
    for n in range(1, 21):
        pid = 'C%02d' % n
        try:
            mod = importlib.import_module('props.' + pid)
        except Exception:
            continue
        ms = getattr(mod, 'MUTANTS', [])
        rules = sorted(set(str(m[4]) for m in ms))
        out.append('| %s | %d | %s |' % (pid, len(ms), ', '.join(rules)))
    return '\n'.join(out)


def main():
    p = os.path.join(V, 'DESIGN.md')
    s = open(p).read()
    for name, fn in (('findings', findings_table), ('seeds', seeds_table), ('mutants', mutants_table)):
        b, e = '<!-- BEGIN GENERATED:%s -->' % name, '<!-- END GENERATED:%s -->' % name
        if b not in s or e not in s:
            print('marker missing:', name)
            continue
        i, j = s.index(b) + len(b), s.index(e)
        s = s[:i] + '\n' + fn() + '\n' + s[j:]
    open(p, 'w').write(s)
    print('DESIGN.md tables regenerated')


if __name__ == '__main__':
    main()
