"""Tiny ELF64/ELF32 LE/BE image builder for finding demonstrations (not used by any check)."""
import struct


def build(sections, elfclass=64, le=True, e_type=2, e_machine=62, segments=(), shstrndx_override=None,
          shoff_override=None, shnum_override=None):
    """sections: list of dict(name, type, flags=0, data=b'', link=0, info=0, entsize=0, addr=0, align=1)
    A null section and .shstrtab are added automatically. Returns bytes."""
    E = '<' if le else '>'
    secs = [dict(name='', type=0, data=b'')] + [dict(s) for s in sections]
    names = b'\0'
    for s in secs[1:]:
        s['name_off'] = len(names)
        names += s['name'].encode() + b'\0'
    shstr = dict(name='.shstrtab', type=3, data=None)
    shstr['name_off'] = len(names)
    names += b'.shstrtab\0'
    shstr['data'] = names
    secs.append(shstr)
    secs[0]['name_off'] = 0
    ehsize = 64 if elfclass == 64 else 52
    phentsize = 56 if elfclass == 64 else 32
    off = ehsize + phentsize * len(segments)
    for s in secs[1:]:
        al = s.get('align', 8)
        off = (off + al - 1) // al * al
        s['offset'] = off
        off += len(s.get('data', b''))
    secs[0]['offset'] = 0
    shoff = (off + 7) // 8 * 8
    ident = b'\x7fELF' + bytes([2 if elfclass == 64 else 1, 1 if le else 2, 1, 0]) + b'\0' * 8
    shnum = len(secs) if shnum_override is None else shnum_override
    shstrndx = len(secs) - 1 if shstrndx_override is None else shstrndx_override
    if elfclass == 64:
        hdr = ident + struct.pack(E + 'HHIQQQIHHHHHH', e_type, e_machine, 1, 0, ehsize if segments else 0,
                                  shoff if shoff_override is None else shoff_override, 0, ehsize, phentsize,
                                  len(segments), 64, shnum, shstrndx)
    else:
        hdr = ident + struct.pack(E + 'HHIIIIIHHHHHH', e_type, e_machine, 1, 0, ehsize if segments else 0,
                                  shoff if shoff_override is None else shoff_override, 0, ehsize, phentsize,
                                  len(segments), 40, shnum, shstrndx)
    out = bytearray(hdr)
    for seg in segments:
        if elfclass == 64:
            out += struct.pack(E + 'IIQQQQQQ', seg['type'], seg.get('flags', 4), seg['offset'], seg.get('vaddr', 0),
                               seg.get('vaddr', 0), seg['filesz'], seg.get('memsz', seg['filesz']), seg.get('align', 1))
        else:
            out += struct.pack(E + 'IIIIIIII', seg['type'], seg['offset'], seg.get('vaddr', 0), seg.get('vaddr', 0),
                               seg['filesz'], seg.get('memsz', seg['filesz']), seg.get('flags', 4), seg.get('align', 1))
    for s in secs[1:]:
        out += b'\0' * (s['offset'] - len(out))
        out += s.get('data', b'')
    out += b'\0' * (shoff - len(out))
    for s in secs:
        d = s.get('data', b'')
        size = s.get('size', len(d))
        if elfclass == 64:
            out += struct.pack(E + 'IIQQQQIIQQ', s['name_off'], s['type'], s.get('flags', 0), s.get('addr', 0), s['offset'],
                               size, s.get('link', 0), s.get('info', 0), s.get('align', 1), s.get('entsize', 0))
        else:
            out += struct.pack(E + 'IIIIIIIIII', s['name_off'], s['type'], s.get('flags', 0), s.get('addr', 0), s['offset'],
                               size, s.get('link', 0), s.get('info', 0), s.get('align', 1), s.get('entsize', 0))
    return bytes(out), dict((s['name'], s['offset']) for s in secs)


def sym64(name_off, info=0x12, other=0, shndx=1, value=0, size=0, le=True):
    return struct.pack(('<' if le else '>') + 'IBBHQQ', name_off, info, other, shndx, value, size)
