#!/usr/bin/env python3
"""tools/gen_locals.py -- regenerate spec/locals.json (reference spelling and binding signatures of function locals) from
the confirmed /repo tree.  Run by hand after a fix commit in /repo; never at check time."""
import json, os, sys
V = os.path.dirname(os.path.dirname(os.path.abspath(__file__)))
sys.path.insert(0, V)
from sa.model import read_sources
from sa import canon
ref = canon.build_reference(read_sources(sys.argv[1] if len(sys.argv) > 1 else '/repo'))
json.dump(ref, open(os.path.join(V, 'spec', 'locals.json'), 'w'), indent=0, sort_keys=True)
print('spec/locals.json: %d modules, %d functions, %d locals' % (len(ref), sum(len(v) for v in ref.values()), sum(len(x) for v in ref.values() for x in v.values())))
