#!/usr/bin/env python3
"""tools/addfixed.py PROP COMMIT KEY WHAT  -- append a 'fixed' record to known_findings.json (by hand, never at check time)"""
import json, sys, os
p = os.path.join(os.path.dirname(os.path.dirname(os.path.abspath(__file__))), 'known_findings.json')
k = json.load(open(p))
prop, commit, key, what = sys.argv[1:5]
k['fixed'].append(dict(property=prop, commit=commit, key=key, what='fixed: property=%s %s %s' % (prop, commit, what)))
json.dump(k, open(p, 'w'), indent=1)
