#!/usr/bin/env python3
"""tools/refresh_seeds.py -- re-base every seeded patch on the current /repo tree (a later fix: commit may have moved its context):
the patch is applied in memory with the tolerant patcher and written back as a plain unified diff that `git -C /repo apply` takes."""
import difflib, os, subprocess, sys
V = os.path.dirname(os.path.dirname(os.path.abspath(__file__)))
sys.path.insert(0, V)
from sa.selfval import apply_unified_diff
from sa.model import read_sources
src = read_sources('/repo')
cands = [(d, os.path.join(V, 'seeded', d, 'patch.diff')) for d in sorted(os.listdir(os.path.join(V, 'seeded')))]
cands += [(d, os.path.join(V, 'neutral', d)) for d in sorted(os.listdir(os.path.join(V, 'neutral'))) if d.endswith('.diff')]
for d, pp in cands:
    if not os.path.exists(pp):
        continue
    ok = subprocess.run(['git', '-C', '/repo', 'apply', '--check', pp], capture_output=True).returncode == 0
    if ok:
        continue
    ov = apply_unified_diff(src, open(pp).read())
    if ov is None:
        print('CANNOT re-base', d)
        continue
    out = ''
    for rel, new in sorted(ov.items()):
        out += 'diff --git a/%s b/%s\n' % (rel, rel)
        out += ''.join(difflib.unified_diff(src[rel].splitlines(True), new.splitlines(True), 'a/' + rel, 'b/' + rel, n=3))
    open(pp, 'w').write(out)
    ok = subprocess.run(['git', '-C', '/repo', 'apply', '--check', pp], capture_output=True).returncode == 0
    print('re-based', d, 'applies' if ok else 'STILL FAILS')
