#!/usr/bin/env python3
"""tools/neutral_variants.py <kind> <outdir> [src_root] -- write a behaviour-preserving variant of the repository's elftools+scripts
to <outdir> (kinds: see sa/neutral.py KINDS).  The same variants are applied in memory by the thorough tier (sa/selfval.py)."""
import os, shutil, sys
V = os.path.dirname(os.path.dirname(os.path.abspath(__file__)))
sys.path.insert(0, V)
from sa import neutral
from sa.model import read_sources


def main():
    kind, out = sys.argv[1], sys.argv[2]
    src_root = sys.argv[3] if len(sys.argv) > 3 else '/repo'
    if os.path.exists(out):
        shutil.rmtree(out)
    os.makedirs(out)
    for d in ('elftools', 'scripts'):
        shutil.copytree(os.path.join(src_root, d), os.path.join(out, d))
    ov = neutral.variant_sources(kind, read_sources(src_root))
    for rel, text in ov.items():
        open(os.path.join(out, rel), 'w').write(text)
    print('%s: %d files written to %s' % (kind, len(ov), out))


if __name__ == '__main__':
    main()
