#!/usr/bin/env python3
"""tools/neutral_variants.py <kind> <outdir>  -- write a behaviour-preserving variant of /repo's elftools+scripts to <outdir>.

Used to test the checks for false alarms (DESIGN.md §8.7): every check must stay silent on these.
kinds:
  unparse   every module re-emitted by ast.unparse (formatting, comments, parenthesisation, string quoting normalised)
  rename    every function-local variable (not parameters, not globals) renamed  x -> x_r  consistently
  reorder   `a == b` comparisons of a name/subscript with a constant flipped to `b == a` is NOT done (changes nothing we
            test); instead: if/else with a negated test is not generated either -- kept minimal on purpose
  docstrip  docstrings removed, `pass` inserted where a body would become empty
"""
import ast
import os
import shutil
import sys
import builtins


def local_names(fn):
    params = set(a.arg for a in fn.args.args + fn.args.kwonlyargs + fn.args.posonlyargs)
    if fn.args.vararg:
        params.add(fn.args.vararg.arg)
    if fn.args.kwarg:
        params.add(fn.args.kwarg.arg)
    declared = set()
    stores = set()
    nested_params = set()
    for n in ast.walk(fn):
        if isinstance(n, (ast.Global, ast.Nonlocal)):
            declared |= set(n.names)
        elif isinstance(n, ast.Name) and isinstance(n.ctx, (ast.Store, ast.Del)):
            stores.add(n.id)
        elif isinstance(n, (ast.FunctionDef, ast.Lambda)) and n is not fn:
            a = n.args
            nested_params |= set(x.arg for x in a.args + a.kwonlyargs + a.posonlyargs)
            if isinstance(n, ast.FunctionDef):
                stores.discard(n.name)
        elif isinstance(n, ast.ExceptHandler) and n.name:
            pass
    return stores - params - declared - nested_params - set(dir(builtins))


class Renamer(ast.NodeTransformer):
    def visit_FunctionDef(self, fn):
        names = local_names(fn)
        # do not descend with a second renaming into nested defs: one consistent map for the whole subtree
        for n in ast.walk(fn):
            if isinstance(n, ast.Name) and n.id in names:
                n.id = n.id + '_r'
        # nested functions: their own locals were renamed by the walk above only if they collide; run on them too
        for i, st in enumerate(fn.body):
            pass
        return fn


class AugExpand(ast.NodeTransformer):
    """x += e  ->  x = x + e   (names only)"""
    def visit_AugAssign(self, n):
        self.generic_visit(n)
        if isinstance(n.target, ast.Name):
            return ast.Assign(targets=[ast.Name(id=n.target.id, ctx=ast.Store())],
                              value=ast.BinOp(left=ast.Name(id=n.target.id, ctx=ast.Load()), op=n.op, right=n.value), lineno=n.lineno)
        return n


class IfInvert(ast.NodeTransformer):
    """if c: A else: B  ->  if not c: B else: A   (plain two-armed ifs whose else is not an elif chain)"""
    def visit_If(self, n):
        self.generic_visit(n)
        if n.orelse and not (len(n.orelse) == 1 and isinstance(n.orelse[0], ast.If)):
            return ast.If(test=ast.UnaryOp(op=ast.Not(), operand=n.test), body=n.orelse, orelse=n.body, lineno=n.lineno)
        return n


class CmpFlip(ast.NodeTransformer):
    """a < b -> b > a ; a == b -> b == a   (single comparisons)"""
    FLIP = {ast.Lt: ast.Gt, ast.Gt: ast.Lt, ast.LtE: ast.GtE, ast.GtE: ast.LtE, ast.Eq: ast.Eq, ast.NotEq: ast.NotEq}

    def visit_Compare(self, n):
        self.generic_visit(n)
        if len(n.ops) == 1 and type(n.ops[0]) in self.FLIP:
            return ast.Compare(left=n.comparators[0], ops=[self.FLIP[type(n.ops[0])]()], comparators=[n.left])
        return n


class ExtractLocal(ast.NodeTransformer):
    """return <expr>  ->  result__ = <expr>; return result__     (single new single-assignment local per return)"""
    def __init__(self):
        self.k = 0

    def _block(self, stmts):
        out = []
        for st in stmts:
            if isinstance(st, ast.Return) and st.value is not None and not isinstance(st.value, (ast.Name, ast.Constant)):
                self.k += 1
                nm = 'result__%d' % self.k
                out.append(ast.Assign(targets=[ast.Name(id=nm, ctx=ast.Store())], value=st.value, lineno=st.lineno))
                out.append(ast.Return(value=ast.Name(id=nm, ctx=ast.Load()), lineno=st.lineno))
            else:
                out.append(st)
        return out

    def generic_visit(self, node):
        super().generic_visit(node)
        for fld in ('body', 'orelse', 'finalbody'):
            b = getattr(node, fld, None)
            if isinstance(b, list) and b and isinstance(b[0], ast.stmt):
                setattr(node, fld, self._block(b))
        return node


class DocStrip(ast.NodeTransformer):
    def _strip(self, node):
        self.generic_visit(node)
        b = node.body
        if b and isinstance(b[0], ast.Expr) and isinstance(b[0].value, ast.Constant) and isinstance(b[0].value.value, str):
            node.body = b[1:] or [ast.Pass()]
        return node
    visit_FunctionDef = _strip
    visit_ClassDef = _strip
    visit_Module = _strip


def main():
    kind, out = sys.argv[1], sys.argv[2]
    src_root = sys.argv[3] if len(sys.argv) > 3 else '/repo'
    if os.path.exists(out):
        shutil.rmtree(out)
    os.makedirs(out)
    for d in ('elftools', 'scripts'):
        shutil.copytree(os.path.join(src_root, d), os.path.join(out, d))
    n = 0
    for root, dirs, files in os.walk(out):
        for f in files:
            if not f.endswith('.py'):
                continue
            p = os.path.join(root, f)
            try:
                t = ast.parse(open(p).read())
            except SyntaxError:
                continue
            if kind == 'rename':
                # top-level functions and methods only (nested defs share the map of their outermost function)
                for node in t.body:
                    if isinstance(node, ast.FunctionDef):
                        Renamer().visit_FunctionDef(node)
                    elif isinstance(node, ast.ClassDef):
                        for m in node.body:
                            if isinstance(m, ast.FunctionDef):
                                Renamer().visit_FunctionDef(m)
            elif kind == 'docstrip':
                t = DocStrip().visit(t)
            elif kind == 'augexpand':
                t = AugExpand().visit(t)
            elif kind == 'ifinvert':
                t = IfInvert().visit(t)
            elif kind == 'cmpflip':
                t = CmpFlip().visit(t)
            elif kind == 'extract':
                t = ExtractLocal().visit(t)
            elif kind == 'unparse':
                pass
            else:
                raise SystemExit('unknown kind')
            ast.fix_missing_locations(t)
            open(p, 'w').write(ast.unparse(t) + '\n')
            n += 1
    print('%s: %d files written to %s' % (kind, n, out))


if __name__ == '__main__':
    main()
