#!/bin/bash
# tools/confirm_seed2.sh <worktree> <property> <seed-name>   (round-5 layout: <worktree>/out/<property>/{patch.diff,demo.py,note.txt})
# Confirms a sub-agent's seeded change: suite unchanged with the change, demo exits 1 with / 0 without, then runs every check
# against the changed worktree.  Leaves the worktree clean.
WT=$1; PROP=$2; NAME=$3
cd $WT || exit 2
git checkout -q -- . ; git apply out/$PROP/patch.diff || { echo "patch does not apply"; exit 2; }
echo "== $NAME files changed: $(git diff --stat -- elftools | tail -1)"
T=$(PYTHONPATH=$WT timeout 1500 /venv/bin/python -m pytest -q -p no:cacheprovider --timeout=900 --continue-on-collection-errors 2>&1 | tail -1)
echo "== $NAME tests with change: $T"
PYTHONPATH=$WT timeout 120 /venv/bin/python out/$PROP/demo.py $WT > /tmp/seed_demo_with_$NAME.txt 2>&1; W=$?
git checkout -q -- .
PYTHONPATH=$WT timeout 120 /venv/bin/python out/$PROP/demo.py $WT > /tmp/seed_demo_without_$NAME.txt 2>&1; WO=$?
echo "== $NAME demo with change: exit $W ($(tail -1 /tmp/seed_demo_with_$NAME.txt | cut -c1-150)); without: exit $WO"
git apply out/$PROP/patch.diff
cd /verif
OUT=$(timeout 900 ./check all --root $WT --no-evidence 2>&1)
echo "== $NAME checks on the changed tree: $(echo "$OUT" | grep -c '^FINDING') findings, violations: $(echo "$OUT" | grep '^VIOLATION' | sed 's/VIOLATION property=//; s/ replay.*//' | tr '\n' ' ') errors: $(echo "$OUT" | grep -c '^ANALYSIS')"
echo "$OUT" | grep '^FINDING\|^ANALYSIS' | cut -c1-300 | head -6
git -C $WT checkout -q -- .
rm -f /tmp/seed_demo_with_$NAME.txt /tmp/seed_demo_without_$NAME.txt
