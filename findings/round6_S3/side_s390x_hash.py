#!/usr/bin/env python
# Side finding (UNCHANGED code, property C03): on ELF64 EM_S390 (big-endian) and
# ELF64 EM_ALPHA (little-endian) the SysV .hash section has 8-byte entries
# (sh_entsize == 8; BFD: elf64-s390.c / elf64-alpha.c set sizeof_hash_entry = 8,
# binutils readelf special-cases exactly these two machines). pyelftools'
# Elf_Hash struct reads 4-byte words for every machine, so on such files the
# symbol count is wrong and present names are not found.
# usage: side_s390x_hash.py <tree root>; exit 1 when the violation is observed.
import io
import struct
import sys

sys.path.insert(0, sys.argv[1])
from elftools.elf.elffile import ELFFile


def sysv_hash(name):
    h = 0
    for c in bytearray(name):
        h = (h << 4) + c
        g = h & 0xf0000000
        if g:
            h ^= g >> 24
        h &= ~g
    return h


def build(machine, little):
    e = '<' if little else '>'
    names = [b'', b'alpha', b'beta', b'gamma', b'delta']
    dynstr = b'\0' + b'\0'.join(names[1:]) + b'\0'
    dynsym = b''
    for n in names:
        off = dynstr.index(n + b'\0') if n else 0
        dynsym += struct.pack(e + 'IBBHQQ', off, 0x12 if n else 0, 0,
                              1 if n else 0, 0x1000 + off, 4 if n else 0)
    nbucket = 3
    buckets = [0] * nbucket
    chains = [0] * len(names)
    for i in range(1, len(names)):
        b = sysv_hash(names[i]) % nbucket
        chains[i] = buckets[b]
        buckets[b] = i
    words = [nbucket, len(names)] + buckets + chains
    hashsec = b''.join(struct.pack(e + 'Q', w) for w in words)   # 8-byte entries

    shstr = b'\0.dynsym\0.dynstr\0.hash\0.shstrtab\0'
    so = lambda n: shstr.index(n)
    bodies = [dynsym, dynstr, hashsec, shstr]
    offsets, pos = [], 64
    for b in bodies:
        pos = (pos + 7) & ~7
        offsets.append(pos)
        pos += len(b)
    shoff = (pos + 7) & ~7

    def shdr(name, typ, offset, size, link, info, entsize):
        return struct.pack(e + 'IIQQQQIIQQ', name, typ, 2, 0, offset, size,
                           link, info, 8, entsize)
    shdrs = [shdr(0, 0, 0, 0, 0, 0, 0),
             shdr(so(b'.dynsym'), 11, offsets[0], len(dynsym), 2, 1, 24),
             shdr(so(b'.dynstr'), 3, offsets[1], len(dynstr), 0, 0, 0),
             shdr(so(b'.hash'), 5, offsets[2], len(hashsec), 1, 0, 8),
             shdr(so(b'.shstrtab'), 3, offsets[3], len(shstr), 0, 0, 0)]
    ident = b'\x7fELF' + bytes([2, 1 if little else 2, 1, 0]) + b'\0' * 8
    hdr = ident + struct.pack(e + 'HHIQQQIHHHHHH', 3, machine, 1, 0, 0, shoff,
                              0, 64, 0, 0, 64, 5, 4)
    blob = bytearray(shoff + 64 * 5)
    blob[:64] = hdr
    for o, b in zip(offsets, bodies):
        blob[o:o + len(b)] = b
    blob[shoff:] = b''.join(shdrs)
    return bytes(blob), [n.decode() for n in names]


bad = False
for label, machine, little in (('EM_S390  ELF64 MSB', 22, False),
                               ('EM_ALPHA ELF64 LSB', 0x9026, True)):
    blob, names = build(machine, little)
    elf = ELFFile(io.BytesIO(blob))
    hs = elf.get_section_by_name('.hash')
    dynsym = elf.get_section_by_name('.dynsym')
    print('%s: .hash sh_entsize=%d, .dynsym has %d symbols'
          % (label, hs['sh_entsize'], dynsym.num_symbols()))
    n = hs.get_number_of_symbols()
    ok = n == dynsym.num_symbols()
    print('   get_number_of_symbols() -> %r (true length %d) %s'
          % (n, dynsym.num_symbols(), 'ok' if ok else 'VIOLATION'))
    bad |= not ok
    for name in names[1:]:
        try:
            sym = hs.get_symbol(name)
            got = None if sym is None else sym.name
        except Exception as exc:
            got = '%s: %s' % (type(exc).__name__, exc)
        ok = got == name
        print('   get_symbol(%r) -> %r %s' % (name, got, 'ok' if ok else 'VIOLATION'))
        bad |= not ok
sys.exit(1 if bad else 0)
