"""C13: ARanges.cu_offset_at_addr over a table with no ranges (an empty .debug_aranges section, or sets holding only their
terminator) raises IndexError instead of returning None.  Exit 0 = None returned."""
import io, struct, sys
sys.path.insert(0, sys.argv[1] if len(sys.argv) > 1 else '/repo')
from elftools.dwarf.aranges import ARanges
from elftools.dwarf.structs import DWARFStructs
st = DWARFStructs(True, 32, 8, 4)
# one set with only the (0,0) terminator: unit_length=28: version 2, info offset 0, addr size 8, seg 0, pad 4, tuple (0,0)
body = struct.pack('<HIBB', 2, 0, 8, 0) + b'\0' * 4 + struct.pack('<QQ', 0, 0)
data = struct.pack('<I', len(body)) + body
ok = True
for blob in (b'', data):
    ar = ARanges(io.BytesIO(blob), len(blob), st)
    try:
        r = ar.cu_offset_at_addr(0x1000)
    except Exception as e:
        r = 'EXC %s' % type(e).__name__
    print(len(blob), 'bytes ->', r)
    ok = ok and r is None
sys.exit(0 if ok else 1)
