# Side finding 1 (C10, unchanged tree): Dynamic.get_tag(n) for an index behind
# the DT_NULL terminator returns a tag on a fresh object but raises IndexError
# once num_tags() has been called (the lazily cached _num_tags changes the answer).
import os, sys
root = os.path.abspath(sys.argv[1]); sys.path.insert(0, root)
from elftools.elf.elffile import ELFFile

path = os.path.join(root, 'test', 'testfiles_for_unittests', 'lib_versioned64.so.1.elf')

def dyn():
    f = open(path, 'rb')
    return ELFFile(f).get_section_by_name('.dynamic')

d = dyn()
n = d.num_tags()          # index of first slot behind DT_NULL
fresh = dyn()
try:
    a = repr(fresh.get_tag(n))
except Exception as e:
    a = 'raises %s' % type(e).__name__
used = dyn(); used.num_tags()
try:
    b = repr(used.get_tag(n))
except Exception as e:
    b = 'raises %s' % type(e).__name__
print('get_tag(%d) on fresh object      :' % n, a)
print('get_tag(%d) after num_tags() call:' % n, b)
sys.exit(1 if a != b else 0)
