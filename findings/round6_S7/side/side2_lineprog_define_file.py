# Side finding 2 (C10, unchanged tree): the file table of a line program
# (lineprog.header.file_entry / lineprog['file_entry']) is a different answer
# before and after get_entries(): decoding appends every DW_LNE_define_file
# operand to the cached header (lineprogram.py, DW_LNE_define_file branch).
# The same query on the same object so depends on whether the decoded-entries
# cache was filled.  (With a DWARF5 header file_entry is a tuple and the same
# opcode would raise AttributeError instead.)
import io, os, struct, sys
root = os.path.abspath(sys.argv[1]); sys.path.insert(0, root)
from elftools.elf.elffile import ELFFile

def uleb(v):
    out = bytearray()
    while True:
        b = v & 0x7f; v >>= 7
        if v: out.append(b | 0x80)
        else:
            out.append(b); return bytes(out)

def build_elf(sections):
    names = [''] + [n for n, _ in sections] + ['.shstrtab']
    shstr = b''; name_off = {}
    for n in names:
        name_off[n] = len(shstr); shstr += n.encode() + b'\0'
    blobs = [d for _, d in sections] + [shstr]
    pos = 64; offsets = []; body = b''
    for d in blobs:
        offsets.append(pos); body += d; pos += len(d)
    pad = (-pos) % 8; body += b'\0' * pad; shoff = pos + pad
    shdrs = struct.pack('<IIQQQQIIQQ', 0, 0, 0, 0, 0, 0, 0, 0, 0, 0)
    for i, (n, d) in enumerate(sections):
        shdrs += struct.pack('<IIQQQQIIQQ', name_off[n], 1, 0, 0, offsets[i], len(d), 0, 0, 1, 0)
    shdrs += struct.pack('<IIQQQQIIQQ', name_off['.shstrtab'], 3, 0, 0, offsets[-1], len(shstr), 0, 0, 1, 0)
    nsec = len(sections) + 2
    ehdr = (b'\x7fELF' + bytes([2, 1, 1, 0]) + b'\0' * 8 +
            struct.pack('<HHIQQQIHHHHHH', 2, 62, 1, 0, 0, shoff, 0, 64, 0, 0, 64, nsec, nsec - 1))
    return ehdr + body + shdrs

# CU: DW_TAG_compile_unit with DW_AT_stmt_list (DW_FORM_sec_offset) = 0
abbrev = uleb(1) + uleb(0x11) + b'\0' + uleb(0x10) + uleb(0x17) + b'\0\0' + b'\0'
dies = uleb(1) + struct.pack('<I', 0)
hdr = struct.pack('<HIB', 4, 0, 8)
info = struct.pack('<I', len(hdr) + len(dies)) + hdr + dies

# line program, version 3, one file in the header, one defined by the program
std_lens = bytes([0, 1, 1, 1, 1, 0, 0, 0, 1, 0, 0, 1])
after_hl = (bytes([1, 1]) + struct.pack('b', -5) + bytes([14, 13]) + std_lens +
            b'\0' +                                   # no include directories
            b'a.c\0' + uleb(0) + uleb(0) + uleb(0) + b'\0')
define_file = b'gen.c\0' + uleb(0) + uleb(0) + uleb(0)
program = (b'\0' + uleb(1 + len(define_file)) + b'\x03' + define_file +   # DW_LNE_define_file
           b'\0' + uleb(9) + b'\x02' + struct.pack('<Q', 0x1000) +        # DW_LNE_set_address
           b'\x01' +                                                      # DW_LNS_copy
           b'\0' + uleb(1) + b'\x01')                                     # DW_LNE_end_sequence
body = struct.pack('<H', 3) + struct.pack('<I', len(after_hl)) + after_hl + program
line = struct.pack('<I', len(body)) + body

blob = build_elf([('.debug_info', info), ('.debug_abbrev', abbrev), ('.debug_line', line)])

def names(lp):
    return [f.name for f in lp.header.file_entry]

d = ELFFile(io.BytesIO(blob)).get_dwarf_info()
cu = next(d.iter_CUs())
lp = d.line_program_for_CU(cu)
before = names(lp)
lp.get_entries()
after = names(d.line_program_for_CU(cu))
print('file table before get_entries():', before)
print('file table after  get_entries():', after)
sys.exit(1 if before != after else 0)
