# Side findings 3 and 4 (C11, unchanged tree), legacy GNU ".zdebug" container.
#
# 3) Mixed naming.  With --compress-debug-sections=zlib-gnu binutils renames a
#    section to .zdebug_* only when compressing actually shrank it; small
#    sections (typically .debug_abbrev/.debug_str of tiny objects) stay plain
#    under their .debug_* name.  ELFFile.get_dwarf_info() switches ALL names to
#    .zdebug_* as soon as .zdebug_info exists, so the plain leftovers are not
#    found (debug_abbrev_sec is None) and the DWARF view differs from that of
#    the plainly stored file (here: crash on the first DIE).
#
# 4) Relocatable object.  For .zdebug_info the relocation section is named
#    .rela.zdebug_info; _read_dwarf_section() finds it (name based lookup) and
#    applies the relocations to the still COMPRESSED bytes, because
#    _decompress_dwarf_section() only runs afterwards.  The plain and the gABI
#    (SHF_COMPRESSED) encodings relocate the inflated data.
import io, os, struct, sys, zlib
root = os.path.abspath(sys.argv[1]); sys.path.insert(0, root)
from elftools.elf.elffile import ELFFile

def uleb(v):
    out = bytearray()
    while True:
        b = v & 0x7f; v >>= 7
        if v: out.append(b | 0x80)
        else:
            out.append(b); return bytes(out)

def build_elf(sections, e_type=2):
    """ sections: list of dicts name,data,type,flags,link,info,entsize """
    secs = [dict(dict(type=1, flags=0, link=0, info=0, entsize=0), **s) for s in sections]
    names = [''] + [s['name'] for s in secs] + ['.shstrtab']
    shstr = b''; name_off = {}
    for n in names:
        name_off[n] = len(shstr); shstr += n.encode() + b'\0'
    secs.append(dict(name='.shstrtab', data=shstr, type=3, flags=0, link=0, info=0, entsize=0))
    pos = 64; body = b''
    for s in secs:
        pad = (-pos) % 8; body += b'\0' * pad; pos += pad
        s['off'] = pos; body += s['data']; pos += len(s['data'])
    pad = (-pos) % 8; body += b'\0' * pad; shoff = pos + pad
    shdrs = struct.pack('<IIQQQQIIQQ', 0, 0, 0, 0, 0, 0, 0, 0, 0, 0)
    for s in secs:
        shdrs += struct.pack('<IIQQQQIIQQ', name_off[s['name']], s['type'], s['flags'], 0,
                             s['off'], len(s['data']), s['link'], s['info'], 1, s['entsize'])
    nsec = len(secs) + 1
    ehdr = (b'\x7fELF' + bytes([2, 1, 1, 0]) + b'\0' * 8 +
            struct.pack('<HHIQQQIHHHHHH', e_type, 62, 1, 0, 0, shoff, 0, 64, 0, 0, 64, nsec, nsec - 1))
    return ehdr + body + shdrs

def gnu_z(data):
    return b'ZLIB' + struct.pack('>Q', len(data)) + zlib.compress(data)

def gabi_z(data):
    return struct.pack('<IIQQ', 1, 0, len(data), 1) + zlib.compress(data)

def dump(blob):
    try:
        d = ELFFile(io.BytesIO(blob)).get_dwarf_info()
        return [(die.offset, die.tag, tuple((a.name, a.value) for a in die.attributes.values()))
                for cu in d.iter_CUs() for die in cu.iter_DIEs()]
    except Exception as e:
        return 'raises %s: %s' % (type(e).__name__, e)

abbrev = (uleb(1) + uleb(0x11) + b'\x01' + uleb(0x03) + uleb(0x0e) + b'\0\0' +
          uleb(2) + uleb(0x34) + b'\x00' + uleb(0x03) + uleb(0x0e) + b'\0\0' + b'\0')
strtab = b'main.c\0counter\0'
def info(name_var):
    dies = uleb(1) + struct.pack('<I', 0) + uleb(2) + struct.pack('<I', name_var) + b'\0'
    hdr = struct.pack('<HIB', 4, 0, 8)
    return struct.pack('<I', len(hdr) + len(dies)) + hdr + dies

rc = 0
# ---- 3) mixed naming ------------------------------------------------------
plain = build_elf([dict(name='.debug_info', data=info(7)),
                   dict(name='.debug_abbrev', data=abbrev),
                   dict(name='.debug_str', data=strtab)])
mixed = build_elf([dict(name='.zdebug_info', data=gnu_z(info(7))),
                   dict(name='.debug_abbrev', data=abbrev),      # left plain: did not shrink
                   dict(name='.debug_str', data=strtab)])        # left plain: did not shrink
a, b = dump(plain), dump(mixed)
print('[3] plain                          :', a)
print('[3] .zdebug_info + plain leftovers :', b)
if a != b:
    print('[3] VIOLATION: views differ'); rc = 1

# ---- 4) relocations against a .zdebug section ------------------------------
# symtab: null + one section symbol for .debug_str (section index 3)
symtab = struct.pack('<IBBHQQ', 0, 0, 0, 0, 0, 0) + struct.pack('<IBBHQQ', 0, 3, 0, 3, 0, 0)
# R_X86_64_32 (10) at the DW_AT_name field of the variable DIE (0x11), addend 7
rela = struct.pack('<QQq', 0x11, (1 << 32) | 10, 7)
def relobj(info_name, info_data, flags=0):
    return build_elf([
        dict(name=info_name, data=info_data, flags=flags),                       # 1
        dict(name='.debug_abbrev', data=abbrev),                                 # 2
        dict(name='.debug_str', data=strtab),                                    # 3
        dict(name='.strtab', data=b'\0', type=3),                                # 4
        dict(name='.symtab', data=symtab, type=2, link=4, info=2, entsize=24),   # 5
        dict(name='.rela' + info_name, data=rela, type=4, link=5, info=1, entsize=24),
    ], e_type=1)
p = dump(relobj('.debug_info', info(0)))
g = dump(relobj('.debug_info', gabi_z(info(0)), flags=0x800))
# all three .z names so that only the relocation issue is exercised
def relobj_z():
    return build_elf([
        dict(name='.zdebug_info', data=gnu_z(info(0))),
        dict(name='.zdebug_abbrev', data=gnu_z(abbrev)),
        dict(name='.zdebug_str', data=gnu_z(strtab)),
        dict(name='.strtab', data=b'\0', type=3),
        dict(name='.symtab', data=symtab, type=2, link=4, info=2, entsize=24),
        dict(name='.rela.zdebug_info', data=rela, type=4, link=5, info=1, entsize=24),
    ], e_type=1)
z = dump(relobj_z())
print('[4] ET_REL plain          :', p)
print('[4] ET_REL SHF_COMPRESSED :', g)
print('[4] ET_REL .zdebug        :', z)
if not (p == g == z):
    print('[4] VIOLATION: views differ'); rc = 1
sys.exit(rc)
