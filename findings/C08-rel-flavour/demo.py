import os, struct, sys
from io import BytesIO
sys.path.insert(0, sys.argv[1] if len(sys.argv) > 1 else '/repo')
from elftools.elf.elffile import ELFFile
from elftools.common.exceptions import ELFRelocationError

def build(elfclass, little, e_machine, rel_type, rel_entries, is_rela, debug_info, symvals):
    E = '<' if little else '>'
    is64 = elfclass == 64
    strtab = b'\x00'
    if is64:
        symtab = bytes(24)
        for v in symvals:
            symtab += struct.pack(E+'IBBHQQ', 0, 0x10, 0, 0xfff1, v, 0)
        symsz = 24
    else:
        symtab = bytes(16)
        for v in symvals:
            symtab += struct.pack(E+'IIIBBH', 0, v, 0, 0x10, 0, 0xfff1)
        symsz = 16
    rel = b''
    for off, info, add in rel_entries:
        if is64:
            rel += struct.pack(E+'QQ', off, info) + (struct.pack(E+'q', add) if is_rela else b'')
        else:
            rel += struct.pack(E+'II', off, info) + (struct.pack(E+'i', add) if is_rela else b'')
    relsz = (24 if is_rela else 16) if is64 else (12 if is_rela else 8)
    relname = ('.rela' if is_rela else '.rel') + '.debug_info'
    names = ['', '.debug_info', relname, '.symtab', '.strtab', '.shstrtab']
    shstr = b''; noff = []
    for n in names:
        noff.append(len(shstr)); shstr += n.encode() + b'\0'
    bodies = [(b'',0,0,0,0),(debug_info,1,0,0,0),(rel,4 if is_rela else 9,3,1,relsz),
              (symtab,2,4,1,symsz),(strtab,3,0,0,0),(shstr,3,0,0,0)]
    ehsize = 64 if is64 else 52
    blob = bytearray(ehsize); sh = b''
    for i,(d,t,l,inf,es) in enumerate(bodies):
        while len(blob)%8: blob.append(0)
        off = len(blob) if i else 0
        blob += d
        if is64:
            sh += struct.pack(E+'IIQQQQIIQQ', noff[i], t, 0, 0, off, len(d), l, inf, 1 if i else 0, es)
        else:
            sh += struct.pack(E+'IIIIIIIIII', noff[i], t, 0, 0, off, len(d), l, inf, 1 if i else 0, es)
    while len(blob)%8: blob.append(0)
    shoff = len(blob); blob += sh
    ident = b'\x7fELF' + bytes([2 if is64 else 1, 1 if little else 2, 1, 0]) + bytes(8)
    if is64:
        hdr = struct.pack(E+'HHIQQQIHHHHHH', 1, e_machine, 1, 0, 0, shoff, 0, 64, 0, 0, 64, 6, 5)
    else:
        hdr = struct.pack(E+'HHIIIIIHHHHHH', 1, e_machine, 1, 0, 0, shoff, 0, 52, 0, 0, 40, 6, 5)
    blob[0:ehsize] = ident + hdr
    return bytes(blob)

def attempt(title, blob):
    try:
        elf = ELFFile(BytesIO(blob))
        got = elf.get_dwarf_info(relocate_dwarf_sections=True).debug_info_sec.stream.getvalue()
        print('%-60s -> no error, bytes %s' % (title, got.hex()))
        return 'noerror'
    except ELFRelocationError as e:
        print('%-60s -> ELFRelocationError: %s' % (title, e))
        return 'relocerror'
    except Exception as e:
        print('%-60s -> %s: %s' % (title, type(e).__name__, e))
        return type(e).__name__

res = []
# A: REL flavour on RELA-only machines
for name, em, typ, little in (('AArch64 R_AARCH64_ABS64', 183, 257, True),
                      ('PPC64 R_PPC64_ADDR64', 21, 38, False),
                      ('S390x R_390_64', 22, 22, False)):
    blob = build(64, little, em, typ, [(0, (1<<32)|typ, 0)], False, bytes(16), [0x1000])
    res.append(attempt('SHT_REL .rel.debug_info on %s' % name, blob))
# control: x64 REL is rejected properly
blob = build(64, True, 62, 1, [(0, (1<<32)|1, 0)], False, bytes(16), [0x1000])
attempt('control: SHT_REL on x86-64 R_X86_64_64', blob)
# B: MIPS ELFCLASS32 RELA (N32-style) with R_MIPS_64 (18) and R_MIPS_32 (2)
blob = build(32, False, 8, 18, [(0, (1<<8)|18, 4)], True, bytes(16), [0x1000])
attempt('(separate side finding, not part of this demo\'s verdict) MIPS ELF32 BE SHT_RELA R_MIPS_64', blob)
blob = build(32, False, 8, 2, [(0, (1<<8)|2, 4)], True, bytes(16), [0x1000])
attempt('control: MIPS ELF32 BE SHT_RELA R_MIPS_32', blob)
sys.exit(1 if any(r not in ('relocerror','noerror') for r in res) else 0)
