"""C19 side finding (UNCHANGED code): a corrupted sh_info of a version section
makes iter_versions() spin for up to 2**32 iterations on an 8.6 KiB file,
because the last Verneed/Verdef record has vn_next == 0 and the walk is bounded
only by the (corrupt) count.  Exit 1 if the walk is still running after 10s."""
import io, os, signal, struct, sys, time
ROOT = sys.argv[1] if len(sys.argv) > 1 else '/repo'
sys.path.insert(0, ROOT)
from elftools.elf.elffile import ELFFile

data = bytearray(open(os.path.join(ROOT, 'test/testfiles_for_unittests/lib_versioned64.so.1.elf'), 'rb').read())
elf = ELFFile(io.BytesIO(bytes(data)))
idx = [i for i, s in enumerate(elf.iter_sections()) if s.name == '.gnu.version_r'][0]
sec = elf.get_section(idx)
print('pristine: .gnu.version_r sh_info=%d -> %d versions' % (sec['sh_info'], len(list(sec.iter_versions()))))
off = elf['e_shoff'] + idx * elf['e_shentsize'] + 44      # Elf64_Shdr.sh_info
struct.pack_into('<I', data, off, 0xffffffff)
elf = ELFFile(io.BytesIO(bytes(data)))
sec = elf.get_section(idx)
print('corrupt : sh_info=%#x' % sec['sh_info'])

class Timeout(Exception): pass
def onalarm(*a): raise Timeout()
signal.signal(signal.SIGALRM, onalarm)
signal.alarm(10)
n = 0
t = time.time()
try:
    for ver, auxs in sec.iter_versions():
        n += 1
    print('terminated after %d records' % n)
    sys.exit(0)
except Timeout:
    dt = time.time() - t
    print('still running after %.0fs: %d records yielded from a %d-byte file; at this rate the full walk takes ~%.1f hours'
          % (dt, n, len(data), 0xffffffff / (n / dt) / 3600))
    sys.exit(1)
except Exception as e:
    print('terminated by raising %s: %s after %d records' % (type(e).__name__, e, n))
    sys.exit(0)
