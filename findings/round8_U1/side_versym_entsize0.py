# Side finding reproducer (unchanged tree): .gnu.version with sh_entsize == 0
# (left 0 by some post-link tools) makes GNUVerSymSection.num_symbols()/iter_symbols()
# die with ZeroDivisionError instead of yielding one index per dynamic symbol
# (or at least raising an ELFError).
import sys, io, struct
sys.path.insert(0, sys.argv[1])
from elftools.elf.elffile import ELFFile
raw = bytearray(open(sys.argv[1] + '/test/testfiles_for_unittests/lib_versioned64.so.1.elf', 'rb').read())
e = ELFFile(io.BytesIO(bytes(raw)))
idx = e.get_section_index('.gnu.version')
shoff, shentsize = e['e_shoff'], e['e_shentsize']
struct.pack_into('<Q', raw, shoff + idx * shentsize + 56, 0)   # sh_entsize := 0
e = ELFFile(io.BytesIO(bytes(raw)))
sec = e.get_section(idx)
try:
    print('num_symbols ->', sec.num_symbols()); sys.exit(0)
except Exception as ex:
    print('num_symbols raised %s: %s' % (type(ex).__name__, ex)); sys.exit(1)
