"""C19 side observation (UNCHANGED code; lookup path, not in the enumeration battery):
a SysV .hash chain that links to itself makes ELFHashTable.get_symbol() loop forever."""
import io, os, sys, signal, struct
ROOT = os.path.abspath(os.path.join(os.path.dirname(__file__), '..', '..'))
sys.path.insert(0, ROOT)
from elftools.elf.elffile import ELFFile
data = bytearray(open(os.path.join(ROOT, 'test/testfiles_for_unittests/aarch64_super_stripped.elf'), 'rb').read())
elf = ELFFile(io.BytesIO(bytes(data)))
from elftools.elf.hash import ELFHashTable
for seg in elf.iter_segments():
    if seg['p_type'] == 'PT_DYNAMIC':
        _, off = seg.get_table_offset('DT_HASH'); break
h = ELFHashTable(elf, off, seg)
nb, nc = h.params['nbuckets'], h.params['nchains']
print('DT_HASH at %#x nbuckets=%d nchains=%d' % (off, nb, nc))
# make every chain word point to itself (index i -> i), i.e. corrupt the links
for i in range(1, nc):
    struct.pack_into('<I', data, off + 8 + 4*nb + 4*i, i)
elf = ELFFile(io.BytesIO(bytes(data)))
seg = [s for s in elf.iter_segments() if s['p_type'] == 'PT_DYNAMIC'][0]
h = ELFHashTable(elf, off, seg)
def onalarm(*a): raise TimeoutError()
signal.signal(signal.SIGALRM, onalarm); signal.alarm(5)
try:
    for name in ('no_such_symbol_%d' % i for i in range(nb * 4)):
        h.get_symbol(name)
    print('terminated'); sys.exit(0)
except TimeoutError:
    print('get_symbol() still walking a self-linked chain after 5s'); sys.exit(1)
