import io, os, sys, random, collections, glob
ROOT = os.path.abspath(os.path.join(os.path.dirname(__file__), '..', '..'))
sys.path.insert(0, ROOT)
from elftools.elf.elffile import ELFFile
from elftools.common.exceptions import ELFError
random.seed(1)
seeds = [f for f in glob.glob(ROOT+'/test/testfiles_for_unittests/*') if os.path.isfile(f) and os.path.getsize(f) < 60000]
found = collections.OrderedDict()
def trial(blob, desc):
    try:
        ELFFile(io.BytesIO(blob))
    except ELFError:
        pass
    except Exception as e:
        k = (type(e).__name__, str(e)[:60])
        if k not in found:
            found[k] = desc
            print(k, desc); sys.stdout.flush()
for f in seeds:
    d = open(f,'rb').read()
    if d[:4] != b'\x7fELF': continue
    name = os.path.basename(f)
    for L in list(range(0, min(len(d), 4096))):
        trial(d[:L], '%s trunc %d' % (name, L))
    for pos in range(64):
        for v in (0, 0xff, (d[pos]+1)&0xff, d[pos]^0x80):
            b = bytearray(d); b[pos] = v
            trial(bytes(b), '%s sub @%d=%#x' % (name, pos, v))
    for _ in range(300):
        b = bytearray(d)
        for _ in range(random.randint(1,4)):
            pos = random.randrange(64); b[pos] = random.choice([0,0xff,random.randrange(256)])
        trial(bytes(b), '%s multi' % name)
for _ in range(3000):
    n = random.randrange(0, 200)
    blob = bytes(random.randrange(256) for _ in range(n))
    if random.random() < .7: blob = b'\x7fELF' + bytes([random.choice([1,2]), random.choice([1,2])]) + blob
    trial(blob, 'random %r' % blob[:20])
print('done', len(found))
