"""C20 side observation (UNCHANGED code, low confidence / spec corner):
Tag_also_compatible_with whose nested attribute is Tag_compatibility (uleb flag + NTBS vendor):
the nested NTBS already terminates the outer NTBS, but ARMAttribute looks only at the type of
nested .value (the uleb flag, an int) and consumes one more byte as 'NUL'."""
import io, os, sys
ROOT = os.path.abspath(os.path.join(os.path.dirname(__file__), '..', '..'))
sys.path.insert(0, ROOT)
from elftools.elf.structs import ELFStructs
from elftools.elf.sections import ARMAttribute
st = ELFStructs(True, 32); st.create_basic_structs(); st.create_advanced_structs(2, 'EM_ARM', 0)
# also_compatible_with(65) { compatibility(32) flag=1 "gnu\0" }   then   CPU_arch(6)=10
blob = bytes([65, 32, 1]) + b'gnu\0' + bytes([6, 10])
s = io.BytesIO(blob)
try:
    a = ARMAttribute(st, s); print(a, 'nested:', a.value, '| consumed', s.tell(), 'of 7 bytes that encode it')
    b = ARMAttribute(st, s); print('next   :', b, '(encoded: TAG_CPU_ARCH 10)')
except Exception as e:
    print('raised %s: %s' % (type(e).__name__, e))
