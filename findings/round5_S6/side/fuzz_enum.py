import io, os, sys, random, collections, glob, signal, resource, time
ROOT = os.path.abspath(os.path.join(os.path.dirname(__file__), '..', '..'))
sys.path.insert(0, ROOT)
from elftools.elf.elffile import ELFFile
from elftools.common.exceptions import ELFError
from elftools.elf.sections import SymbolTableSection, NoteSection
from elftools.elf.dynamic import DynamicSection, DynamicSegment
from elftools.elf.segments import NoteSegment
from elftools.elf.hash import ELFHashSection, GNUHashSection
from elftools.elf.gnuversions import GNUVerNeedSection, GNUVerDefSection, GNUVerSymSection
resource.setrlimit(resource.RLIMIT_AS, (2<<30, 2<<30))
random.seed(2)
class Timeout(BaseException): pass
def onalarm(*a): raise Timeout()
signal.signal(signal.SIGALRM, onalarm)

def guard(fn):
    try: fn()
    except Timeout: raise
    except MemoryError: raise
    except Exception: pass

def battery(blob):
    elf = ELFFile(io.BytesIO(blob))
    secs = []
    def s1():
        elf.num_sections()
        for s in elf.iter_sections(): secs.append(s)
    guard(s1)
    for s in secs:
        if isinstance(s, SymbolTableSection): guard(lambda: s.num_symbols())
        if isinstance(s, DynamicSection): guard(lambda: [0 for _ in s.iter_tags()]); guard(s.num_tags)
        if isinstance(s, NoteSection): guard(lambda: [0 for _ in s.iter_notes()])
        if isinstance(s, (ELFHashSection, GNUHashSection)): guard(s.get_number_of_symbols)
        if isinstance(s, (GNUVerNeedSection, GNUVerDefSection)):
            def v():
                for ver, auxs in s.iter_versions():
                    for a in auxs: pass
            guard(v)
        if isinstance(s, GNUVerSymSection): guard(s.num_symbols)
    segs = []
    def s2():
        elf.num_segments()
        for s in elf.iter_segments(): segs.append(s)
    guard(s2)
    for s in segs:
        if isinstance(s, DynamicSegment): guard(lambda: [0 for _ in s.iter_tags()]); guard(s.num_tags); guard(s.num_symbols)
        if isinstance(s, NoteSegment): guard(lambda: [0 for _ in s.iter_notes()])

found = collections.OrderedDict()
def trial(blob, desc, key):
    signal.setitimer(signal.ITIMER_REAL, 4)
    try:
        battery(blob)
    except Timeout:
        if ('timeout', key) not in found:
            found[('timeout', key)] = desc; print('TIMEOUT', desc); sys.stdout.flush()
    except MemoryError:
        if ('mem', key) not in found:
            found[('mem', key)] = desc; print('MEMORY', desc); sys.stdout.flush()
    except ELFError: pass
    finally:
        signal.setitimer(signal.ITIMER_REAL, 0)

names = ['lib_versioned64.so.1.elf', 'aarch64_be_gnu_hash.so.elf', 'unicode_symbols.elf', 'note_after_gnu_property', 'note_with_segment_padding','exe_solaris32_cc.elf','simple_gcc.elf.arm', 'dwarf_lineprog_data16.elf','aarch64_super_stripped.elf']
t0 = time.time()
for name in names:
    f = ROOT+'/test/testfiles_for_unittests/'+name
    if not os.path.isfile(f): print('missing', name); continue
    d = open(f,'rb').read()
    elf = ELFFile(io.BytesIO(d))
    regions = []
    regions.append(('shdr', elf['e_shoff'], elf['e_shentsize']*elf.num_sections()))
    regions.append(('phdr', elf['e_phoff'], elf['e_phentsize']*elf.num_segments()))
    for s in elf.iter_sections():
        if s['sh_type'] in ('SHT_DYNAMIC','SHT_NOTE','SHT_HASH','SHT_GNU_HASH','SHT_GNU_verneed','SHT_GNU_verdef'):
            regions.append((s.name, s['sh_offset'], min(s['sh_size'], 512)))
    for rname, off, size in regions:
        for pos in range(off, min(off+size, len(d))):
            for v in (0, 0xff, (d[pos]+1)&0xff, d[pos]^0x80):
                if v == d[pos]: continue
                b = bytearray(d); b[pos] = v
                trial(bytes(b), '%s %s @%#x (+%d) %#x->%#x' % (name, rname, pos, pos-off, d[pos], v), (name, rname, (pos-off)))
    print('done', name, '%.0fs' % (time.time()-t0)); sys.stdout.flush()
print('findings', len(found))
