"""C06: (sf) DW_CFA_def_cfa_sf scales its offset by the code alignment factor (DWARF 6.4.2: data alignment factor);
(unbound) an FDE using DW_CFA_restore whose CIE has no initial instructions raises UnboundLocalError.
A hand-made .debug_frame with one CIE (code align 4, data align -8) and one FDE.  Arg 2: sf|unbound|all.  Exit 0 = correct."""
import io, struct, sys
sys.path.insert(0, sys.argv[1] if len(sys.argv) > 1 else '/repo')
which = sys.argv[2] if len(sys.argv) > 2 else 'all'
from elftools.dwarf.callframe import CallFrameInfo
from elftools.dwarf.structs import DWARFStructs

def frame(cie_insns, fde_insns):
    cie_body = struct.pack('<I', 0xffffffff) + bytes([1]) + b'\0' + bytes([4, 0x78, 16]) + bytes(cie_insns)   # caf 4, daf -8 (sleb 0x78), ra 16
    cie_body += b'\0' * (-len(cie_body) % 4)
    cie = struct.pack('<I', len(cie_body)) + cie_body
    fde_body = struct.pack('<IQQ', 0, 0x1000, 0x100) + bytes(fde_insns)
    fde_body += b'\0' * (-len(fde_body) % 4)
    data = cie + struct.pack('<I', len(fde_body)) + fde_body
    cfi = CallFrameInfo(io.BytesIO(data), len(data), 0, DWARFStructs(True, 32, 8, 4))
    return cfi.get_entries()

ok = True
def case(name, fn):
    global ok
    if which not in ('all', name): return
    try: r = fn()
    except Exception as e: r = 'EXC %s: %s' % (type(e).__name__, e)
    print('%-8s %s' % (name, 'ok' if r is True else 'FAIL %s' % (r,)))
    ok = ok and r is True
def sf():
    # DW_CFA_def_cfa_sf (0x12) reg 7, offset 2 (sleb)  -> CFA = r7 + 2 * (-8) = r7 - 16
    ents = frame([], [0x12, 7, 2])
    t = ents[1].get_decoded().table
    return (t[-1]['cfa'].reg, t[-1]['cfa'].offset) == (7, -16) or (t[-1]['cfa'].reg, t[-1]['cfa'].offset)
def unbound():
    # CIE without initial instructions; FDE: def_cfa r7+8 ; DW_CFA_restore r3 (0xc3)
    ents = frame([], [0x0c, 7, 8, 0xc3])
    t = ents[1].get_decoded().table
    return (t[-1]['cfa'].reg, 3 in t[-1]) == (7, False) or t
case('sf', sf); case('unbound', unbound)
sys.exit(0 if ok else 1)
