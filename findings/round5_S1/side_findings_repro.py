#!/usr/bin/env python
# Reproducers for behaviour of the UNCHANGED tree that deviates from C02 / C01.
import io, os, struct, sys
sys.path.insert(0, os.path.join(os.path.dirname(os.path.abspath(__file__)), '..'))
from elftools.elf.segments import Segment
from elftools.elf.elffile import ELFFile

SHF_WRITE, SHF_ALLOC, SHF_TLS = 1, 2, 0x400

def binutils_strict(sec, seg):
    """ Transcription of ELF_SECTION_IN_SEGMENT_STRICT (include/elf/internal.h,
        binutils >= 2.31: ELF_SECTION_IN_SEGMENT_1(sec, seg, check_vma=1, strict=1)),
        with unsigned 64-bit wrap-around for the `- 1` terms. """
    M = (1 << 64) - 1
    tls = sec['sh_flags'] & SHF_TLS
    alloc = sec['sh_flags'] & SHF_ALLOC
    nobits = sec['sh_type'] == 'SHT_NOBITS'
    pt = seg['p_type']
    tbss_special = bool(tls) and nobits and pt != 'PT_TLS'
    size = 0 if tbss_special else sec['sh_size']
    c1 = ((tls and pt in ('PT_TLS', 'PT_GNU_RELRO', 'PT_LOAD')) or
          (not tls and pt not in ('PT_TLS', 'PT_PHDR')))
    c2 = not (not alloc and pt in ('PT_LOAD', 'PT_DYNAMIC', 'PT_GNU_EH_FRAME',
                                   'PT_GNU_STACK', 'PT_GNU_RELRO'))
    c3 = nobits or (sec['sh_offset'] >= seg['p_offset'] and
                    sec['sh_offset'] - seg['p_offset'] <= ((seg['p_filesz'] - 1) & M) and
                    sec['sh_offset'] - seg['p_offset'] + size <= seg['p_filesz'])
    c4 = (not alloc) or (sec['sh_addr'] >= seg['p_vaddr'] and
                         sec['sh_addr'] - seg['p_vaddr'] <= ((seg['p_memsz'] - 1) & M) and
                         sec['sh_addr'] - seg['p_vaddr'] + size <= seg['p_memsz'])
    c5 = (pt not in ('PT_DYNAMIC', 'PT_NOTE') or size != 0 or seg['p_memsz'] == 0 or
          ((not alloc or (sec['sh_addr'] > seg['p_vaddr'] and
                          sec['sh_addr'] - seg['p_vaddr'] < seg['p_memsz'])) and
           (nobits or (sec['sh_offset'] > seg['p_offset'] and
                       sec['sh_offset'] - seg['p_offset'] < seg['p_filesz']))))
    return bool(c1 and c2 and c3 and c4 and c5)

def show(title, sec, seg):
    got = bool(Segment(seg, None).section_in_segment(sec))
    want = binutils_strict(sec, seg)
    print('%s\n   pyelftools: %-5s  binutils ELF_SECTION_IN_SEGMENT_STRICT: %-5s %s' % (
        title, got, want, '' if got == want else '<-- differs'))
    return got == want

ok = True
# 1. .tbss is "special": outside PT_TLS it counts with size 0 (ELF_SECTION_SIZE / ELF_TBSS_SPECIAL).
#    A large .tbss starting inside the RW PT_LOAD but nominally running past its end.
ok &= show('1. large .tbss (TLS|ALLOC, NOBITS, size 0x10000) starting inside a PT_LOAD of memsz 0x1000',
     dict(sh_type='SHT_NOBITS', sh_flags=SHF_WRITE | SHF_ALLOC | SHF_TLS, sh_addr=0x3010,
          sh_offset=0x2010, sh_size=0x10000),
     dict(p_type='PT_LOAD', p_offset=0x2000, p_vaddr=0x3000, p_filesz=0x800, p_memsz=0x1000))
# 2. "No zero size sections at start or end of PT_DYNAMIC nor PT_NOTE."
ok &= show('2. empty alloc section at the very START of a non-empty PT_DYNAMIC',
     dict(sh_type='SHT_PROGBITS', sh_flags=SHF_ALLOC, sh_addr=0x3000, sh_offset=0x2000, sh_size=0),
     dict(p_type='PT_DYNAMIC', p_offset=0x2000, p_vaddr=0x3000, p_filesz=0x100, p_memsz=0x100))
ok &= show('   same for PT_NOTE',
     dict(sh_type='SHT_PROGBITS', sh_flags=SHF_ALLOC, sh_addr=0x3000, sh_offset=0x2000, sh_size=0),
     dict(p_type='PT_NOTE', p_offset=0x2000, p_vaddr=0x3000, p_filesz=0x100, p_memsz=0x100))

# 3. (C01) e_shstrndx == SHN_UNDEF: the file has NO section name table, yet names are
#    read relative to file offset 0 (header of section 0 is used as "string table").
shdrs = [(0, 0, 0, 0, 0, 0, 0, 0, 0, 0), (0, 1, 6, 0x1000, 0x40, 8, 0, 0, 1, 0)]
img = bytearray(struct.pack('<16sHHIQQQIHHHHHH', b'\x7fELF\x02\x01\x01' + b'\0' * 9,
                            1, 62, 1, 0, 0, 0x48, 0, 64, 0, 0, 64, 2, 0))
img += b'\x90' * 8
for sh in shdrs:
    img += struct.pack('<IIQQQQIIQQ', *sh)
names = [s.name for s in ELFFile(io.BytesIO(bytes(img))).iter_sections()]
print('3. e_shstrndx=SHN_UNDEF, all sh_name=0 -> section names reported: %r (no name table exists; '
      "'' / no name expected)" % names)
ok &= all(n == '' for n in names)
sys.exit(0 if ok else 1)
