"""C07: .debug_loclists unit block that ends with padding (a gap) after its last referenced list: iter_location_lists read
all_offsets[offset_index] after the referenced offsets had run out -> IndexError after the last list instead of ending.  Exit 0 = one list, no exception."""
import sys, io, struct
sys.path.insert(0, sys.argv[1])
from elftools.dwarf.dwarfinfo import DWARFInfo, DebugSectionDescriptor, DwarfConfig

def uleb(v):
    out = bytearray()
    while True:
        b = v & 0x7f
        v >>= 7
        if v:
            out.append(b | 0x80)
        else:
            out.append(b)
            return bytes(out)

def sec(name, data):
    return DebugSectionDescriptor(stream=io.BytesIO(data), name=name, global_offset=0, size=len(data), address=0)

def mk(info, abbrev, default_address_size=8, loclists=None, rnglists=None, types=None):
    return DWARFInfo(
        config=DwarfConfig(little_endian=True, machine_arch='x64', default_address_size=default_address_size),
        debug_info_sec=sec('.debug_info', info), debug_aranges_sec=None,
        debug_abbrev_sec=sec('.debug_abbrev', abbrev), debug_frame_sec=None, eh_frame_sec=None,
        debug_str_sec=sec('.debug_str', b'\0'), debug_loc_sec=None, debug_ranges_sec=None, debug_line_sec=None,
        debug_pubtypes_sec=None, debug_pubnames_sec=None, debug_addr_sec=None, debug_str_offsets_sec=None,
        debug_line_str_sec=None,
        debug_loclists_sec=sec('.debug_loclists', loclists) if loclists else None,
        debug_rnglists_sec=sec('.debug_rnglists', rnglists) if rnglists else None,
        debug_sup_sec=None, gnu_debugaltlink_sec=None,
        debug_types_sec=sec('.debug_types', types) if types else None)

abbrev = (uleb(1) + uleb(0x11) + b'\x01' + uleb(0x03) + uleb(0x08) + b'\0\0' +
          uleb(2) + uleb(0x2e) + b'\x00' + uleb(0x03) + uleb(0x08) + uleb(0x55) + uleb(0x17) + uleb(0x40) + uleb(0x17) + b'\0\0' +
          b'\0')

def v5unit(address_size, r_off, l_off):
    body = uleb(1) + b'a.c\0' + uleb(2) + b'f\0' + struct.pack('<II', r_off, l_off) + b'\0'
    rest = struct.pack('<HBBI', 5, 1, address_size, 0) + body
    return struct.pack('<I', len(rest)) + rest

def hdr(body_len, address_size):
    return struct.pack('<IHBBI', 8 + body_len, 5, address_size, 0, 0)

findings = 0
L = b'\x08' + struct.pack('<Q', 0x1000) + uleb(0x10) + uleb(1) + b'\x9c' + b'\x00'
R = b'\x07' + struct.pack('<Q', 0x1000) + uleb(0x10) + b'\x00'
pad = b'\0\0\0'
di = mk(v5unit(8, 12, 12), abbrev, loclists=hdr(len(L + pad), 8) + L + pad, rnglists=hdr(len(R), 8) + R)
try:
    got = list(di.location_lists().iter_location_lists())
except Exception as e:
    print('iter_location_lists() raised %r (demanded: exactly the one referenced list)' % e); sys.exit(1)
print('iter_location_lists() yielded %d list(s)' % len(got))
sys.exit(0 if len(got) == 1 else 1)
