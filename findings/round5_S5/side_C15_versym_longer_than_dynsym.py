#!/usr/bin/env python
# Side finding (UNCHANGED tree), property C15, versym clause:
# "the version-symbol table yields exactly one index per dynamic symbol paired
#  with that symbol's name ... versym tables of any length".
# A .gnu.version with MORE entries than its linked .dynsym has symbols makes
# GNUVerSymSection.iter_symbols()/get_symbol(n) pair the surplus indexes with
# "symbols" decoded from whatever bytes follow .dynsym in the file
# (SymbolTableSection.get_symbol has no n < num_symbols() check), silently.
import io, os, struct, sys
sys.path.insert(0, os.path.join(os.path.dirname(os.path.abspath(__file__)), '..'))
from elftools.elf.elffile import ELFFile

dynstr = b'\0foo\0NOT_A_DYNAMIC_SYMBOL\0'
shstr = b'\0.dynstr\0.dynsym\0.gnu.version\0.shstrtab\0'
so = {n: shstr.index(n.encode() + b'\0') for n in ('.dynstr', '.dynsym', '.gnu.version', '.shstrtab')}
sym = lambda name, info=0x12: struct.pack('<IBBHQQ', name, info, 0, 0, 0, 0)
dynsym = sym(0, 0) + sym(1)                      # 2 dynamic symbols: '', 'foo'
after = sym(5) + sym(5)                          # bytes that merely FOLLOW .dynsym in the file
versym = struct.pack('<4H', 0, 2, 3, 4)          # 4 versym entries
blobs = [dynstr, dynsym + after, versym, shstr]
pos, offs = 64, []
for b in blobs:
    pos = (pos + 7) & ~7; offs.append(pos); pos += len(b)
shoff = (pos + 7) & ~7
sh = lambda n, t, o, s, l=0, i=0, e=0: struct.pack('<IIQQQQIIQQ', n, t, 0, 0, o, s, l, i, 1, e)
shdrs = (sh(0, 0, 0, 0) + sh(so['.dynstr'], 3, offs[0], len(dynstr))
         + sh(so['.dynsym'], 11, offs[1], len(dynsym), 1, 1, 24)       # sh_size covers 2 symbols only
         + sh(so['.gnu.version'], 0x6fffffff, offs[2], len(versym), 2, 0, 2)
         + sh(so['.shstrtab'], 3, offs[3], len(shstr)))
hdr = b'\x7fELF\x02\x01\x01\0' + b'\0' * 8 + struct.pack('<HHIQQQIHHHHHH', 3, 62, 1, 0, 0, shoff, 0, 64, 0, 0, 64, 5, 4)
out = bytearray(hdr)
for o, b in zip(offs, blobs):
    out += b'\0' * (o - len(out)) + b
out += b'\0' * (shoff - len(out)) + shdrs

elf = ELFFile(io.BytesIO(bytes(out)))
dsym = elf.get_section_by_name('.dynsym'); vs = elf.get_section_by_name('.gnu.version')
print('dynamic symbols  :', dsym.num_symbols(), [s.name for s in dsym.iter_symbols()])
pairs = [(s.name, s['ndx']) for s in vs.iter_symbols()]
print('versym yields    :', vs.num_symbols(), pairs)
if len(pairs) != dsym.num_symbols():
    print('OBSERVATION: versym yields %d (name, index) pairs for %d dynamic symbols; the surplus names '
          'come from bytes outside .dynsym' % (len(pairs), dsym.num_symbols()))
    sys.exit(1)
