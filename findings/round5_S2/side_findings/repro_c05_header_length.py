import struct, sys
from io import BytesIO
sys.path.insert(0, '/tmp/wt_S2')
from elftools.dwarf.dwarfinfo import DWARFInfo, DwarfConfig, DebugSectionDescriptor

def mk(debug_line):
    def sec(name, data):
        return DebugSectionDescriptor(stream=BytesIO(data), name=name, global_offset=0, size=len(data), address=0)
    kw = dict.fromkeys(('debug_aranges_sec','debug_frame_sec','eh_frame_sec','debug_str_sec','debug_loc_sec',
        'debug_ranges_sec','debug_pubtypes_sec','debug_pubnames_sec','debug_addr_sec','debug_str_offsets_sec',
        'debug_line_str_sec','debug_loclists_sec','debug_rnglists_sec','debug_sup_sec','gnu_debugaltlink_sec','debug_types_sec'))
    abbrev = bytes([1,0x11,0,0x10,0x17,0,0,0])
    body = struct.pack('<HIB', 4, 0, 8) + b'\x01' + struct.pack('<I', 0)
    info = struct.pack('<I', len(body)) + body
    di = DWARFInfo(config=DwarfConfig(little_endian=True, default_address_size=8, machine_arch='x64'),
        debug_info_sec=sec('.debug_info', info), debug_abbrev_sec=sec('.debug_abbrev', abbrev),
        debug_line_sec=sec('.debug_line', debug_line), **kw)
    return di, next(di.iter_CUs())

# v3 header followed by 3 bytes of producer padding that header_length accounts for
PAD = b'\x01\x01\x01'   # if (wrongly) executed: three DW_LNS_copy rows
hdr_rest = bytes([1, 1]) + struct.pack('<b', -5) + bytes([14, 13]) + bytes([0,1,1,1,1,0,0,0,1,0,0,1]) + b'\0' + b'a.c\0\0\0\0' + b'\0'
program = b'\x00\x09\x02' + struct.pack('<Q', 0x2000) + b'\x14' + b'\x02\x04' + b'\x00\x01\x01'
after_hl = hdr_rest + PAD
after_ul = struct.pack('<H', 3) + struct.pack('<I', len(after_hl)) + after_hl + program
dl = struct.pack('<I', len(after_ul)) + after_ul
di, cu = mk(dl)
lp = di.line_program_for_CU(cu)
declared_start = 4 + 2 + 4 + lp['header_length']
rows = [(e.state.address, e.state.line, e.state.end_sequence) for e in lp.get_entries() if e.state]
print('header_length says program starts at', declared_start, '; LineProgram.program_start_offset =', lp.program_start_offset)
print('rows:', rows)
print('expected: exactly 2 rows, (0x2000, line 3) from the special opcode and (0x2004, line 3, end_sequence)')
bad = lp.program_start_offset != declared_start or len(rows) != 2
print('FINDING' if bad else 'ok')
sys.exit(1 if bad else 0)
