"""C13: .debug_aranges with a set of 4-byte addresses (40 bytes long) followed by a set of 8-byte addresses.  DWARF 6.1.2 / binutils /
LLVM: the first tuple of a set sits at a multiple of the tuple size *counted from the set start* (56 here); ARanges padded relative
to the section start (64) and read the second set from the wrong place.  Exit 0 = both sets decoded."""
import sys, io, struct
sys.path.insert(0, sys.argv[1] if len(sys.argv) > 1 else '/repo')
from elftools.dwarf.aranges import ARanges
from elftools.dwarf.structs import DWARFStructs

def aset(info_off, asz, tuples):
    fmt = '<II' if asz == 4 else '<QQ'
    hdr = struct.pack('<HIBB', 2, info_off, asz, 0)
    pad = (-(4 + len(hdr))) % (2 * asz)
    body = hdr + b'\0' * pad + b''.join(struct.pack(fmt, a, l) for a, l in tuples) + struct.pack(fmt, 0, 0)
    return struct.pack('<I', len(body)) + body
data = aset(0, 4, [(0x1000, 0x100), (0x3000, 0x10)]) + aset(0x40, 8, [(0x500000, 0x80)])
assert len(aset(0, 4, [(0x1000, 0x100), (0x3000, 0x10)])) == 40
try:
    ar = ARanges(io.BytesIO(data), len(data), DWARFStructs(little_endian=True, dwarf_format=32, address_size=8))
    got = [(e.begin_addr, e.length, e.info_offset) for e in ar.entries]
except Exception as e:
    print('ARanges raised %s: %s' % (type(e).__name__, e)); sys.exit(1)
want = [(0x1000, 0x100, 0), (0x3000, 0x10, 0), (0x500000, 0x80, 0x40)]
print('entries:', [(hex(a), hex(l), hex(o)) for a, l, o in got]); print('cu_offset_at_addr(0x500010) =', ar.cu_offset_at_addr(0x500010))
sys.exit(0 if got == want and ar.cu_offset_at_addr(0x500010) == 0x40 else 1)
