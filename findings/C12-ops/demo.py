"""C12: DW_OP_constx / DW_OP_xderef_type / DW_OP_reinterpret have names but no operand parser (KeyError);
DW_OP_deref_size / DW_OP_xderef_size operands are read signed (0x80 -> -128); DW_OP_GNU_parameter_ref is read
offset-sized (8 bytes in 64-bit DWARF) instead of 4 bytes.  Argument 2 selects the case. Exit 0 = correct."""
import sys
sys.path.insert(0, sys.argv[1] if len(sys.argv) > 1 else '/repo')
which = sys.argv[2] if len(sys.argv) > 2 else 'all'
from elftools.dwarf.dwarf_expr import DWARFExprParser, DW_OP_name2opcode as N
from elftools.dwarf.structs import DWARFStructs
ok = True
def case(name, fn):
    global ok
    if which not in ('all', name):
        return
    try:
        r = fn()
    except Exception as e:
        r = 'EXC %s: %s' % (type(e).__name__, e)
    good = r is True
    print('%-10s %s' % (name, 'ok' if good else 'FAIL %s' % (r,)))
    ok = ok and good
p32 = DWARFExprParser(DWARFStructs(True, 32, 8, 5))
p64 = DWARFExprParser(DWARFStructs(True, 64, 8, 5))
def missing():
    e = [N['DW_OP_constx'], 0x85, 0x01, N['DW_OP_xderef_type'], 4, 0x22, N['DW_OP_reinterpret'], 0x33, N['DW_OP_nop']]
    r = p32.parse_expr(e)
    return [(o.op_name, o.args) for o in r] == [('DW_OP_constx', [0x85]), ('DW_OP_xderef_type', [4, 0x22]), ('DW_OP_reinterpret', [0x33]), ('DW_OP_nop', [])] or r
def signed():
    r = p32.parse_expr([N['DW_OP_deref_size'], 0x80, N['DW_OP_xderef_size'], 0xff])
    return [o.args for o in r] == [[0x80], [0xff]] or [o.args for o in r]
def paramref():
    r = p64.parse_expr([N['DW_OP_GNU_parameter_ref'], 1, 0, 0, 0, N['DW_OP_nop']])
    return [(o.op_name, o.args) for o in r] == [('DW_OP_GNU_parameter_ref', [1]), ('DW_OP_nop', [])] or r
case('missing', missing); case('signed', signed); case('paramref', paramref)
sys.exit(0 if ok else 1)
