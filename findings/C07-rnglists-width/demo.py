"""C07: RangeLists.iter_CU_range_lists_ex skips (64 if is64 else 32) * offset_count bytes for the offset table; the entries
are 8/4 *bytes*.  A .debug_rnglists block with offset_count = 1 (32-bit DWARF): lists start 4 bytes after the table start.
Exit 0 = the list right after the offset table is returned."""
import io, struct, sys
sys.path.insert(0, sys.argv[1] if len(sys.argv) > 1 else '/repo')
from elftools.dwarf.ranges import RangeLists
from elftools.dwarf.structs import DWARFStructs
st = DWARFStructs(True, 32, 8, 5)
# list: DW_RLE_offset_pair(4) 0x10 0x20 ; DW_RLE_end_of_list(0)
lst = bytes([4, 0x10, 0x20, 0])
pad = bytes([0]) * 40       # further (empty) lists so that a wrong start does not run off the block
body = struct.pack('<HBBI', 5, 8, 0, 1) + struct.pack('<I', 4) + lst + pad
data = struct.pack('<I', len(body)) + body
class CU: structs = st
class DI:
    def iter_CUs(self): return iter([CU()])
rl = RangeLists(io.BytesIO(data), st, 5, DI())
cu = next(rl.iter_CUs())
first = next(rl.iter_CU_range_lists_ex(cu))
got = [(e.entry_type, e.get('start_offset'), e.get('end_offset')) for e in first]
print('first list after the offset table:', got)
sys.exit(0 if got == [('DW_RLE_offset_pair', 0x10, 0x20)] else 1)
