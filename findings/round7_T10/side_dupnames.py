#!/usr/bin/env python
# Side finding (unchanged code, C17 "a code found in a file is reported under its standard name"):
# construct's Enum builds value->name with "last keyword wins"; where a table lists a legacy alias
# after the current standard name, the legacy alias is what a file's code is reported as.
import sys, struct
sys.path.insert(0, sys.argv[1])
from elftools.construct import Enum, ULInt16
from elftools.dwarf.enums import ENUM_DW_AT, ENUM_DW_TAG
bad = 0
for table, code, std in ((ENUM_DW_AT, 0x2e, 'DW_AT_bit_stride'), (ENUM_DW_AT, 0x51, 'DW_AT_byte_stride'),
                         (ENUM_DW_TAG, 0x2c, 'DW_TAG_namelist_item')):
    got = Enum(ULInt16('x'), **table).parse(struct.pack('<H', code))
    print('0x%x reported as %s, DWARF v3-v5 name %s' % (code, got, std))
    bad |= got != std
sys.exit(1 if bad else 0)
