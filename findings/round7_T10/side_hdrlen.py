#!/usr/bin/env python
# Side finding (unchanged code, C05): the line-number program is taken to start where
# header parsing stopped (stream.tell()), not at  <end of header_length field> + header_length.
# A well-formed header whose header_length covers extra bytes after the file table (DWARF 6.2.4:
# consumers must use header_length to skip fields they do not know) is decoded from the wrong byte.
import sys, io, struct
sys.path.insert(0, sys.argv[1])
from elftools.dwarf.dwarfinfo import DWARFInfo, DebugSectionDescriptor, DwarfConfig

def unit(extra):
    after_hlen = (bytes([1, 1, 0xfb, 14, 13]) + bytes([0, 1, 1, 1, 1, 0, 0, 0, 1, 0, 0, 1]) +
                  b'dir\0\0' + b'a.c\0\x01\x00\x00' + b'\0' + extra)
    program = b'\0\x05\x02' + struct.pack('<I', 0x1000) + bytes([13 + 5]) + b'\x02\x04' + b'\0\x01\x01'
    body = struct.pack('<H', 3) + struct.pack('<I', len(after_hlen)) + after_hlen + program
    return struct.pack('<I', len(body)) + body

def rows(extra):
    blob = unit(extra)
    sec = DebugSectionDescriptor(stream=io.BytesIO(blob), name='.debug_line', global_offset=0, size=len(blob), address=0)
    kw = dict.fromkeys(['debug_info_sec','debug_aranges_sec','debug_abbrev_sec','debug_frame_sec','eh_frame_sec',
        'debug_str_sec','debug_loc_sec','debug_ranges_sec','debug_pubtypes_sec','debug_pubnames_sec','debug_addr_sec',
        'debug_str_offsets_sec','debug_line_str_sec','debug_loclists_sec','debug_rnglists_sec','debug_sup_sec',
        'gnu_debugaltlink_sec','debug_types_sec'])
    di = DWARFInfo(config=DwarfConfig(little_endian=True, machine_arch='x86', default_address_size=4), debug_line_sec=sec, **kw)
    lp = di._parse_line_program_at_offset(0, di.structs)
    try:
        return lp.program_start_offset, [(e.state.address, e.state.line, bool(e.state.end_sequence)) for e in lp.get_entries() if e.state]
    except Exception as ex:
        return lp.program_start_offset, 'EXCEPTION %s' % ex

a = rows(b'')
b = rows(b'\x01\x01')     # two vendor/padding bytes covered by header_length (they look like DW_LNS_copy)
print('no extra header bytes : program start, rows =', a)
print('2 extra header bytes  : program start, rows =', b, '(expected start %d and the same rows)' % (a[0] + 2))
sys.exit(1 if (b[1] != a[1] or b[0] != a[0] + 2) else 0)
