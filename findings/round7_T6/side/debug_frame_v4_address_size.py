#!/usr/bin/env python
# Side finding (unchanged tree): a version-4 CIE carries its own address_size, and the CallFrameInfo
# docstring promises "for DWARFv4 we'll take the address size from the CIE header", but
# _parse_entry_at always builds entry_structs with base_structs.address_size (the ELF class).
# A v4 CIE with address_size=4 inside an ELF64 container (e.g. x32 / ILP32 objects) gets its FDEs'
# initial_location / address_range read as 8-byte fields.
import sys, struct
from io import BytesIO
sys.path.insert(0, sys.argv[1])
from elftools.dwarf.callframe import CallFrameInfo, FDE
from elftools.dwarf.structs import DWARFStructs

def entry(body, align=4):
    while (len(body) + 4) % align:
        body += b'\x00'
    return struct.pack('<I', len(body)) + body

cie = entry(struct.pack('<I', 0xFFFFFFFF) + b'\x04' + b'\x00' + b'\x04\x00' + b'\x01\x7c\x10' + b'\x0c\x07\x04')
fde = entry(struct.pack('<I', 0) + struct.pack('<II', 0x1000, 0x20) + b'\x44\x0e\x08')
data = cie + fde
cfi = CallFrameInfo(BytesIO(data), len(data), 0,
                    DWARFStructs(little_endian=True, dwarf_format=32, address_size=8))
try:
    es = cfi.get_entries()
    f = es[1]
    got = (f['initial_location'], f['address_range'], [repr(i) for i in f.instructions])
    print('got :', got)
    print('want:', (0x1000, 0x20, ['DW_CFA_advance_loc (0x44): [4]', 'DW_CFA_def_cfa_offset (0xe): [8]']))
    ok = got[:2] == (0x1000, 0x20) and len(f.instructions) == 2
except Exception as ex:
    ok = False
    print('parsing failed: %s: %s' % (type(ex).__name__, ex))
sys.exit(0 if ok else 1)
