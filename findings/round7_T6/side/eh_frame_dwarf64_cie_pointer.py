#!/usr/bin/env python
# Side finding (unchanged tree): 64-bit-format .eh_frame FDE -> CIE link.
# callframe.py _parse_cie_for_fde computes  fde_offset + dwarf_format // 8 - CIE_pointer,
# i.e. fde_offset + 8 for the 64-bit format, but the CIE_pointer field itself sits at
# fde_offset + 12 (4 bytes 0xffffffff escape + 8 bytes length).  The code's own comment (and LSB /
# LLVM's DWARFDebugFrame) say the displacement is taken from the offset of the CIE_pointer field.
import sys, struct
from io import BytesIO
sys.path.insert(0, sys.argv[1])
from elftools.dwarf.callframe import CallFrameInfo, CIE, FDE
from elftools.dwarf.structs import DWARFStructs

def entry64(body):
    while (len(body) + 12) % 8:
        body += b'\x00'
    return struct.pack('<IQ', 0xFFFFFFFF, len(body)) + body

cie = entry64(struct.pack('<Q', 0) + b'\x01' + b'zR\x00' + b'\x01\x78\x10' + b'\x01\x04' + b'\x0c\x07\x08')
fde_off = len(cie)
fde = entry64(struct.pack('<Q', fde_off + 12 - 0) +          # displacement from the CIE_pointer field to CIE at 0
              struct.pack('<QQ', 0x1000, 0x20) + b'\x00' + b'\x44')
data = cie + fde
cfi = CallFrameInfo(BytesIO(data), len(data), 0x400000,
                    DWARFStructs(little_endian=True, dwarf_format=32, address_size=8), for_eh_frame=True)
try:
    es = cfi.get_entries()
    ok = isinstance(es[1], FDE) and es[1].cie is es[0]
    print('entries:', [type(e).__name__ for e in es], 'FDE linked to CIE at 0:', ok)
except Exception as ex:
    ok = False
    print('parsing failed: %s: %s' % (type(ex).__name__, ex))
sys.exit(0 if ok else 1)
