#!/usr/bin/env python
# Side finding (UNCHANGED code): EHABIInfo.get_entry expands the prel31 words
# relative to the FILE OFFSET of .ARM.exidx (sh_offset), not its address
# (sh_addr).  With sh_addr != sh_offset the reported function_offset is not the
# encoded function address.
import os, struct, sys
root = os.path.abspath(sys.argv[1]); sys.path.insert(0, root)
from elftools.elf.elffile import ELFFile
fname = os.path.join(root, 'test', 'testfiles_for_readelf', 'simple_armhf_gcc.o.elf')
with open(fname, 'rb') as f:
    elf = ELFFile(f)
    sec = next(elf.iter_sections(type='SHT_ARM_EXIDX'))
    raw = sec.data()
    text = elf.get_section_by_name('.text')
    info = elf.get_ehabi_infos()[0]
    bad = False
    for n in range(info.num_entry()):
        w0, w1 = struct.unpack_from('<II', raw, 8 * n)
        disp = w0 & 0x7fffffff
        if disp & 0x40000000:
            disp -= 0x80000000
        addr = sec['sh_addr'] + 8 * n + disp
        got = info.get_entry(n).function_offset
        print('entry %d: encoded function address 0x%x (.text is 0x%x..0x%x); get_entry().function_offset = 0x%x'
              % (n, addr, text['sh_addr'], text['sh_addr'] + text['sh_size'], got))
        if got != addr:
            bad = True
sys.exit(1 if bad else 0)
