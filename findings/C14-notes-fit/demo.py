"""C14: iter_notes' guard `offset + nhdr_size < end` drops a final note that consists of a header only
(n_namesz = n_descsz = 0) and ends exactly at the end of the extent.  Exit 0 = both notes yielded."""
import io, struct, sys
sys.path.insert(0, '/verif/tools')
sys.path.insert(0, sys.argv[1] if len(sys.argv) > 1 else '/repo')
import mkelf
from elftools.elf.elffile import ELFFile
note1 = struct.pack('<III', 4, 4, 1) + b'GNU\0' + b'\1\2\3\4'      # 20 bytes
note2 = struct.pack('<III', 0, 0, 7)                               # header-only, ends exactly at the end
img, _ = mkelf.build([dict(name='.note.x', type=7, data=note1 + note2, align=4)])
ef = ELFFile(io.BytesIO(img))
notes = list(ef.get_section_by_name('.note.x').iter_notes())
print([(n['n_offset'], n['n_type'], n['n_size']) for n in notes])
sys.exit(0 if len(notes) == 2 and notes[1]['n_size'] == 12 else 1)
