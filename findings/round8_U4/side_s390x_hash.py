#!/usr/bin/env python
# Side finding (UNCHANGED code), property C09: on ELF64 s390x (EM_S390) and
# Alpha the SysV hash table (.hash / DT_HASH) uses 8-byte entries
# (sh_entsize == 8), but ELFStructs.Elf_Hash always reads 4-byte words, so
# DynamicSegment.num_symbols() recovers a wrong count from a valid image that
# has only DT_HASH.   usage: side_s390x_hash.py <tree root>
import sys, io, struct
sys.path.insert(0, sys.argv[1])
from elftools.elf.elffile import ELFFile
from elftools.elf.dynamic import DynamicSegment

BASE = 0x10000
def build():
    ehsize, phentsize, phnum = 64, 56, 2
    off = ehsize + phentsize * phnum
    dynstr = b'\0puts\0exit\0abort\0'; dynstr_off = off; off = (off + len(dynstr) + 7) & ~7
    sym = lambda name, info: struct.pack('>IBBHQQ', name, info, 0, 0, 0, 0)
    dynsym = sym(0, 0) + sym(1, 0x12) + sym(6, 0x12) + sym(11, 0x12)   # 4 symbols
    dynsym_off = off; off += len(dynsym)
    # SysV hash, 64-bit entries as emitted for s390x: nbucket=1, nchain=4
    hsh = struct.pack('>QQ', 1, 4) + struct.pack('>Q', 3) + struct.pack('>QQQQ', 0, 0, 1, 2)
    hash_off = off; off += len(hsh)
    tags = [(4, BASE + hash_off), (5, BASE + dynstr_off), (6, BASE + dynsym_off),
            (10, len(dynstr)), (11, 24), (0, 0)]
    dyn = b''.join(struct.pack('>qQ', t, v) for t, v in tags); dyn_off = off; off += len(dyn)
    ehdr = (b'\x7fELF' + bytes([2, 2, 1, 0]) + b'\0' * 8 +
            struct.pack('>HHIQQQIHHHHHH', 3, 22, 1, 0, ehsize, 0, 0, ehsize, phentsize, phnum, 0, 0, 0))
    ph = lambda t, fl, o, sz, al: struct.pack('>IIQQQQQQ', t, fl, o, BASE + o, BASE + o, sz, sz, al)
    phdrs = ph(1, 5, 0, off, 0x1000) + ph(2, 6, dyn_off, len(dyn), 8)
    img = bytearray(off)
    for o, b in ((0, ehdr), (ehsize, phdrs), (dynstr_off, dynstr), (dynsym_off, dynsym), (hash_off, hsh), (dyn_off, dyn)):
        img[o:o + len(b)] = b
    return bytes(img)

elf = ELFFile(io.BytesIO(build()))
seg = [s for s in elf.iter_segments() if isinstance(s, DynamicSegment)][0]
n = seg.num_symbols()
print('machine', elf['e_machine'], '- true dynamic symbol count 4, num_symbols() ->', n)
print('names:', [s.name for s in seg.iter_symbols()])
sys.exit(1 if n != 4 else 0)
