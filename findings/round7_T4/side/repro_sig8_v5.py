#!/usr/bin/env python
# Side finding (UNCHANGED tree): DW_FORM_ref_sig8 does not resolve to a DWARF v5 type unit
# (DW_UT_type lives in .debug_info in v5); get_DIE_by_sig8 only indexes v4 .debug_types.
# Also: DIE.iter_siblings() on a top-level DIE raises RuntimeError (raise StopIteration in a generator).
import sys, struct
from io import BytesIO
sys.path.insert(0, sys.argv[1])
from elftools.dwarf.dwarfinfo import DWARFInfo, DebugSectionDescriptor, DwarfConfig

SIG = 0x1122334455667788
# abbrevs: 1 = type_unit(children) ; 2 = base_type(name string, byte_size data1) ; 3 = compile_unit(children) ; 4 = variable(type ref_sig8)
debug_abbrev = (b'\x01\x41\x01\0\0' + b'\x02\x24\x00\x03\x08\x0b\x0b\0\0' +
                b'\x03\x11\x01\0\0' + b'\x04\x34\x00\x49\x20\0\0' + b'\0')
# type unit: header = len(4) ver(2) ut(1) asz(1) abbrev(4) sig(8) type_offset(4) = 24 bytes
tu_dies = b'\x01' + b'\x02int\0\x04' + b'\x00'
TYPE_OFF = 24 + 1
tu = struct.pack('<IHBBIQI', 2 + 1 + 1 + 4 + 8 + 4 + len(tu_dies), 5, 2, 8, 0, SIG, TYPE_OFF) + tu_dies
cu_dies = b'\x03' + b'\x04' + struct.pack('<Q', SIG) + b'\x00'
cu = struct.pack('<IHBBI', 2 + 1 + 1 + 4 + len(cu_dies), 5, 1, 8, 0) + cu_dies
debug_info = tu + cu

def sec(n, d): return DebugSectionDescriptor(BytesIO(d), n, 0, len(d), 0)
names = ('debug_aranges_sec debug_frame_sec eh_frame_sec debug_str_sec debug_loc_sec debug_ranges_sec debug_line_sec '
    'debug_pubtypes_sec debug_pubnames_sec debug_addr_sec debug_str_offsets_sec debug_line_str_sec debug_loclists_sec '
    'debug_rnglists_sec debug_sup_sec gnu_debugaltlink_sec debug_types_sec').split()
dw = DWARFInfo(config=DwarfConfig(True, 'x64', 8), debug_info_sec=sec('.debug_info', debug_info),
               debug_abbrev_sec=sec('.debug_abbrev', debug_abbrev), **dict.fromkeys(names))
units = list(dw.iter_CUs())
print('units:', [(u.cu_offset, u['unit_type'], u.size) for u in units])
var = [d for d in units[1].iter_DIEs() if d.tag == 'DW_TAG_variable'][0]
print('variable DW_AT_type:', var.attributes['DW_AT_type'].form, hex(var.attributes['DW_AT_type'].value),
      '-> should resolve to the DIE at .debug_info+0x%x (DW_TAG_base_type "int")' % TYPE_OFF)
rc = 0
try:
    t = var.get_DIE_from_attribute('DW_AT_type')
    print('resolved to', t.offset, t.tag)
    rc = 0 if (t.offset, t.tag) == (TYPE_OFF, 'DW_TAG_base_type') else 1
except Exception as e:
    print('get_DIE_from_attribute raised %r' % (e,)); rc = 1
try:
    print('top DIE siblings:', list(units[1].get_top_DIE().iter_siblings()))
except RuntimeError as e:
    print('top_DIE.iter_siblings() raised RuntimeError(%s)  (expected: empty iteration)' % e); rc = 1
sys.exit(rc)
