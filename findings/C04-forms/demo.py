"""C04: the form->parser table lacks DW_FORM_strx, DW_FORM_GNU_addr_index, DW_FORM_GNU_str_index (named by ENUM_DW_FORM,
so an abbreviation using them parses, but DIE._parse_DIE then raises KeyError), and DW_FORM_strx4 is read as 8 bytes.
A one-DIE v5 unit using strx / strx4 parsed through the real DWARFInfo.  Arg 2: missing|strx4|all.  Exit 0 = correct."""
import io, struct, sys
sys.path.insert(0, sys.argv[1] if len(sys.argv) > 1 else '/repo')
which = sys.argv[2] if len(sys.argv) > 2 else 'all'
from elftools.dwarf.dwarfinfo import DWARFInfo, DebugSectionDescriptor, DwarfConfig
from elftools.dwarf.enums import ENUM_DW_FORM, ENUM_DW_AT

def uleb(n):
    out = bytearray()
    while True:
        b = n & 0x7f; n >>= 7
        out.append(b | (0x80 if n else 0))
        if not n: return bytes(out)

def run(form, payload, expect_raw, nxt_form='DW_FORM_data1'):
    # abbrev 1: DW_TAG_compile_unit, no children, attrs: DW_AT_producer <form>, DW_AT_language data1,
    # DW_AT_str_offsets_base sec_offset (=8: right after the 8-byte .debug_str_offsets header)
    abbrev = uleb(1) + uleb(0x11) + b'\0' + uleb(ENUM_DW_AT['DW_AT_producer']) + uleb(ENUM_DW_FORM[form]) + \
        uleb(ENUM_DW_AT['DW_AT_language']) + uleb(ENUM_DW_FORM[nxt_form]) + \
        uleb(ENUM_DW_AT['DW_AT_str_offsets_base']) + uleb(ENUM_DW_FORM['DW_FORM_sec_offset']) + b'\0\0' + b'\0'
    die = uleb(1) + payload + b'\x2a' + struct.pack('<I', 8)
    stroffs = struct.pack('<IHH', 4 + 4 * 0x1240, 5, 0) + b''.join(struct.pack('<I', 3) for _ in range(0x1240))
    strs = b'ab\0producer\0'
    body = struct.pack('<HBBI', 5, 1, 8, 0) + die
    info = struct.pack('<I', len(body)) + body
    def sec(name, data):
        return DebugSectionDescriptor(io.BytesIO(data), name, 0, len(data), 0)
    names = ['debug_aranges_sec', 'debug_frame_sec', 'eh_frame_sec', 'debug_str_sec', 'debug_loc_sec', 'debug_ranges_sec', 'debug_line_sec',
             'debug_pubtypes_sec', 'debug_pubnames_sec', 'debug_addr_sec', 'debug_str_offsets_sec', 'debug_line_str_sec', 'debug_loclists_sec',
             'debug_rnglists_sec', 'debug_sup_sec', 'gnu_debugaltlink_sec', 'debug_types_sec']
    kw = dict((n, None) for n in names)
    kw['debug_str_offsets_sec'] = sec('.debug_str_offsets', stroffs)
    kw['debug_str_sec'] = sec('.debug_str', strs)
    di = DWARFInfo(config=DwarfConfig(True, 'x64', 8), debug_info_sec=sec('.debug_info', info), debug_abbrev_sec=sec('.debug_abbrev', abbrev), **kw)
    top = next(di.iter_CUs()).get_top_DIE()
    a = top.attributes
    return a['DW_AT_producer'].raw_value == expect_raw and a['DW_AT_language'].value == 0x2a and top.size == len(die)

ok = True
def case(name, fn):
    global ok
    if which not in ('all', name): return
    try: r = fn()
    except Exception as e: r = 'EXC %s: %s' % (type(e).__name__, e)
    print('%-8s %s' % (name, 'ok' if r is True else 'FAIL %s' % (r,)))
    ok = ok and r is True
# top DIE: index forms are not translated while the top DIE itself is parsed, so no other section is needed
case('missing', lambda: all(run(f, uleb(0x1234), 0x1234) for f in ('DW_FORM_strx', 'DW_FORM_GNU_str_index', 'DW_FORM_GNU_addr_index')))
case('strx4', lambda: run('DW_FORM_strx4', struct.pack('<I', 7), 7))
sys.exit(0 if ok else 1)
