#!/usr/bin/env python
# Side finding (UNCHANGED tree), property C20 "disassembly matches the EHABI
# specification": EHABI32 2021Q1 and later (IHI 0038, table 4 of 10.3) define
#   10110100  pop Return Address Authentication Code pseudo-register
#   10110101  use current vsp as modifier in PAC validation
#   1011011n  spare
# (LLVM ARMEHABIPrinter: "pop ra_auth_code" / "vsp as modifier for PAC
# validation").  elftools/ehabi/decoder.py still maps all of 101101nn to
# 'spare' (pre-2021 text); test_ehabi_decoder pins 0xB4 -> 'spare'.
# usage: side_finding_ehabi_pac_opcodes.py <tree-root>   exit 1 = deviation
import sys
sys.path.insert(0, sys.argv[1])
from elftools.ehabi.decoder import EHABIBytecodeDecoder

m = EHABIBytecodeDecoder([0xb4, 0xb5, 0xb6, 0xb0]).mnemonic_array
for item in m:
    print(item)
bad = m[0].mnemonic == 'spare' or m[1].mnemonic == 'spare'
print('0xb4/0xb5 reported as spare (current EHABI assigns them): %s'
      % ('YES' if bad else 'no'))
sys.exit(1 if bad else 0)
