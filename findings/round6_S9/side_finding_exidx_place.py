#!/usr/bin/env python
# Side finding (UNCHANGED tree), property C20: EHABIInfo.get_entry expands the
# prel31 words with the *file offset* of the index entry as "place"
# (ehabiinfo.py: section_offset() == sh_offset), while the EHABI defines the
# place as the entry's *address*.  The result therefore equals
#     function address - (sh_addr - sh_offset of .ARM.exidx)
# which is the encoded function address only when .ARM.exidx is mapped at
# address == file offset (true for the three test binaries), and is the
# function's file offset only when .text happens to share that same delta.
# With the usual lld layout (R and RX segments with different address/offset
# deltas) the reported function_offset is neither the function's address nor
# its file offset.  (eh_table_offset has the same construction; it only reads
# the right bytes because .ARM.extab normally shares .ARM.exidx's segment.)
#
# usage: side_finding_exidx_place.py <tree-root>   exit 1 = deviation observed
import io
import struct
import sys

sys.path.insert(0, sys.argv[1])
from elftools.elf.elffile import ELFFile

EXIDX_OFF, EXIDX_ADDR = 0x1000, 0x11000      # R  segment: delta 0x10000
TEXT_OFF, TEXT_ADDR = 0x2000, 0x23000        # RX segment: delta 0x21000


def prel31(target, place):
    return (target - place) & 0x7fffffff


exidx = struct.pack('<II', prel31(TEXT_ADDR, EXIDX_ADDR), 0x80b0b0b0)
exidx += struct.pack('<II', prel31(TEXT_ADDR + 0x40, EXIDX_ADDR + 8), 1)
text = b'\x1e\xff\x2f\xe1' * 0x20            # bx lr

shstr = b'\0.text\0.ARM.exidx\0.shstrtab\0'
SHSTR_OFF = 0x3000
SHOFF = 0x3100

blob = bytearray(SHOFF + 4 * 40)
blob[EXIDX_OFF:EXIDX_OFF + len(exidx)] = exidx
blob[TEXT_OFF:TEXT_OFF + len(text)] = text
blob[SHSTR_OFF:SHSTR_OFF + len(shstr)] = shstr

ehdr = b'\x7fELF' + bytes([1, 1, 1, 0, 0]) + bytes(7)
ehdr += struct.pack('<HHIIIIIHHHHHH', 2, 40, 1, TEXT_ADDR, 52, SHOFF,
                    0x05000400, 52, 32, 2, 40, 4, 3)
blob[0:len(ehdr)] = ehdr
phdrs = struct.pack('<IIIIIIII', 1, EXIDX_OFF, EXIDX_ADDR, EXIDX_ADDR,
                    len(exidx), len(exidx), 4, 0x1000)
phdrs += struct.pack('<IIIIIIII', 1, TEXT_OFF, TEXT_ADDR, TEXT_ADDR,
                     len(text), len(text), 5, 0x1000)
blob[52:52 + len(phdrs)] = phdrs


def shdr(name, typ, flags, addr, off, size, link=0, info=0, align=4, ent=0):
    return struct.pack('<IIIIIIIIII', name, typ, flags, addr, off, size,
                       link, info, align, ent)


sh = shdr(0, 0, 0, 0, 0, 0, align=0)
sh += shdr(1, 1, 6, TEXT_ADDR, TEXT_OFF, len(text))
sh += shdr(7, 0x70000001, 0x82, EXIDX_ADDR, EXIDX_OFF, len(exidx), link=1)
sh += shdr(18, 3, 0, 0, SHSTR_OFF, len(shstr), align=1)
blob[SHOFF:SHOFF + len(sh)] = sh

elf = ELFFile(io.BytesIO(bytes(blob)))
info = elf.get_ehabi_infos()[0]
bad = 0
for n, (addr, off) in enumerate([(TEXT_ADDR, TEXT_OFF),
                                 (TEXT_ADDR + 0x40, TEXT_OFF + 0x40)]):
    got = info.get_entry(n).function_offset
    print('entry %d: library function_offset = 0x%x; encoded function '
          'address = 0x%x (its file offset = 0x%x)' % (n, got, addr, off))
    if got != addr:
        bad += 1
print('deviation from "decodes to the encoded function address": %s' %
      ('YES' if bad else 'no'))
sys.exit(1 if bad else 0)
