#!/usr/bin/env python
# Side findings for C11 on the UNCHANGED tree.  argv[1] = tree root.
# Re-encodes debug sections of ELF64-LE test files into the legacy GNU .zdebug
# container (ZLIB + 8-byte BE size + zlib stream) and compares DIE dumps.
import sys, os, io, struct, zlib
root = sys.argv[1]
sys.path.insert(0, root)
from elftools.elf.elffile import ELFFile
TF = os.path.join(root, 'test', 'testfiles_for_unittests')


def reencode(path, zsections):
    """ zsections: names of .debug_* sections to store as .zdebug_*;
        their relocation sections are renamed accordingly (as BFD does). """
    raw = bytearray(open(path, 'rb').read())
    elf = ELFFile(io.BytesIO(bytes(raw)))
    assert elf.elfclass == 64 and elf.little_endian
    shoff, shentsize = elf['e_shoff'], elf['e_shentsize']
    shstr = bytearray(b'\0')
    for i, sec in enumerate(elf.iter_sections()):
        hdr = shoff + i * shentsize
        name = sec.name
        newdata = None
        if name in zsections:
            plain = sec.data()
            newdata = b'ZLIB' + struct.pack('>Q', len(plain)) + zlib.compress(plain)
            name = '.z' + name[1:]
        elif sec.compressed:
            newdata = sec.data()
        for pfx in ('.rela', '.rel'):
            if name.startswith(pfx + '.debug_') and name[len(pfx):] in zsections:
                name = pfx + '.z' + name[len(pfx) + 1:]
        struct.pack_into('<I', raw, hdr, len(shstr))
        shstr += name.encode() + b'\0'
        if newdata is not None:
            flags = struct.unpack_from('<Q', raw, hdr + 8)[0] & ~0x800
            struct.pack_into('<Q', raw, hdr + 8, flags)
            struct.pack_into('<QQ', raw, hdr + 24, len(raw), len(newdata))
            raw += newdata
    hdr = shoff + elf['e_shstrndx'] * shentsize
    struct.pack_into('<QQ', raw, hdr + 24, len(raw), len(shstr))
    raw += shstr
    return bytes(raw)


def dump(data):
    elf = ELFFile(io.BytesIO(data))
    di = elf.get_dwarf_info()
    out = []
    for cu in di.iter_CUs():
        for die in cu.iter_DIEs():
            out.append(None if die.is_null() else
                       (die.tag, tuple((a.name, a.form, repr(a.value)) for a in die.attributes.values())))
    return out


def attempt(label, path, zsections):
    ref = dump(reencode(path, ()))
    try:
        got = dump(reencode(path, zsections))
    except Exception as e:
        print('%s: plain gives %d DIEs; re-encoded raises %s: %s' % (label, len(ref), type(e).__name__, str(e)[:100]))
        return 1
    print('%s: plain %d DIEs, re-encoded %d DIEs, identical: %s' % (label, len(ref), len(got), ref == got))
    return 0 if ref == got else 1


ALL = ('.debug_info', '.debug_abbrev', '.debug_aranges', '.debug_line', '.debug_str', '.debug_line_str')
bad = 0
# control: every debug section of a linked file in .zdebug form -> fine
bad_control = attempt('control  (all sections .zdebug, ET_DYN)', os.path.join(TF, 'debuglink.debug'), ALL)
# finding 1: mixed container, as GNU ld/as produce with --compress-debug-sections=zlib-gnu
# when a section does not shrink: it stays plain and keeps its .debug_ name.
bad += attempt('finding1 (.zdebug_info + plain .debug_abbrev/.debug_str ..., ET_DYN)',
               os.path.join(TF, 'debuglink.debug'), ('.debug_info', '.debug_line'))
# finding 2: relocatable object: relocations of .rela.zdebug_info are applied to the
# still-compressed bytes (relocate happens before the legacy decompression).
bad += attempt('finding2 (all sections .zdebug, ET_REL with .rela.zdebug_*)',
               os.path.join(TF, 'compressed_64.o'), ALL)
sys.exit(1 if bad else 0)
