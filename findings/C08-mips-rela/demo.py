"""C08: MIPS RELA recipes add the value found in place (S + v + A); the psABI formula for RELA is S + A.
A MIPS64 big-endian relocatable object whose relocated word holds a non-zero value in place.
Exit 0 = field holds S + A."""
import io, struct, sys
sys.path.insert(0, '/verif/tools')
sys.path.insert(0, sys.argv[1] if len(sys.argv) > 1 else '/repo')
import mkelf
from elftools.elf.elffile import ELFFile
from elftools.elf.relocation import RelocationHandler

strtab = b'\0sym\0'
symtab = mkelf.sym64(0, 0, 0, 0, le=False) + mkelf.sym64(1, 0x12, 0, 1, value=0x1000, le=False)
data = struct.pack('>I', 0xdead0000) + b'\0' * 12         # in-place garbage in the relocated word
# MIPS64 rela: r_offset, r_sym(4), ssym, type3, type2, type, addend ; R_MIPS_32 = 2
rela = struct.pack('>QIBBBBq', 0, 1, 0, 0, 0, 2, 0x10)
img, _ = mkelf.build([
    dict(name='.debug_info', type=1, data=data),
    dict(name='.rela.debug_info', type=4, data=rela, link=3, info=1, entsize=24),
    dict(name='.symtab', type=2, data=symtab, link=4, info=1, entsize=24),
    dict(name='.strtab', type=3, data=strtab),
], le=False, e_type=1, e_machine=8)
ef = ELFFile(io.BytesIO(img))
sec = ef.get_section_by_name('.debug_info')
stream = io.BytesIO(sec.data())
rh = RelocationHandler(ef)
rh.apply_section_relocations(stream, rh.find_relocations_for_section(sec))
got = struct.unpack('>I', stream.getvalue()[:4])[0]
print('relocated word = %#x (S + A = 0x1010)' % got)
sys.exit(0 if got == 0x1010 else 1)
