"""C10/C07: the generators LocationLists.iter_location_lists (v5) and RangeLists.iter_CU_range_lists_ex continue from
wherever the shared section stream happens to be when they are resumed.  Interleaving another query on the same object
between two next() calls changes what the iteration yields (the unfixed range generator re-yields one list for ever).
Arg 2: loc|ranges|all.  Exit 0 = interleaving has no effect."""
import sys
repo = sys.argv[1] if len(sys.argv) > 1 else '/repo'
which = sys.argv[2] if len(sys.argv) > 2 else 'all'
sys.path.insert(0, repo)
from elftools.elf.elffile import ELFFile
ok = True
with open(repo + '/test/testfiles_for_unittests/simple_clang.elf.riscv', 'rb') as fp:
    di = ELFFile(fp).get_dwarf_info()
    if which in ('all', 'ranges'):
        rl = di.range_lists()
        cu = [c for c in rl.iter_CUs()][3]
        ref = [[(e.entry_type, e.entry_offset) for e in l] for l in rl.iter_CU_range_lists_ex(cu)]
        got = []
        for l in rl.iter_CU_range_lists_ex(cu):
            got.append([(e.entry_type, e.entry_offset) for e in l])
            rl.get_range_list_at_offset_ex(ref[0][0][1])      # an unrelated query on the same object
            if len(got) > len(ref) + 3:                       # the unfixed generator never ends here
                break
        print('ranges: %d lists sequentially, %d with an interleaved query, equal=%s' % (len(ref), len(got), ref == got))
        ok = ok and ref == got
    if which in ('all', 'loc'):
        ll = di.location_lists()
        N = 40
        ref = []
        for i, l in enumerate(ll.iter_location_lists()):
            ref.append([getattr(e, 'entry_offset', None) for e in l])
            if i >= N: break
        some_die = None            # the DIE whose location list is the last one of the section
        for cu in di.iter_CUs():
            for die in cu.iter_DIEs():
                if 'DW_AT_location' in die.attributes and die.attributes['DW_AT_location'].form in ('DW_FORM_sec_offset', 'DW_FORM_loclistx'):
                    if some_die is None or die.attributes['DW_AT_location'].value > some_die.attributes['DW_AT_location'].value:
                        some_die = die
        got = []
        try:
            for i, l in enumerate(ll.iter_location_lists()):
                got.append([getattr(e, 'entry_offset', None) for e in l])
                ll.get_location_list_at_offset(some_die.attributes['DW_AT_location'].value, some_die)
                if i >= N: break
        except Exception as e:
            got.append('EXC %s' % type(e).__name__)
        print('loc: first %d lists equal with an interleaved query: %s' % (N + 1, ref == got))
        ok = ok and ref == got
sys.exit(0 if ok else 1)
