#!/usr/bin/env python
# Reproducers for behaviour of the UNCHANGED tree that looks at odds with
# properties C12 / C13.  usage: repro_side.py <tree root>
import struct
import sys
from io import BytesIO
sys.path.insert(0, sys.argv[1])

from elftools.dwarf.aranges import ARanges
from elftools.dwarf.namelut import NameLUT
from elftools.dwarf.structs import DWARFStructs
from elftools.dwarf import dwarf_expr

structs = DWARFStructs(little_endian=True, dwarf_format=32, address_size=8)


def arange_set(cu_ofs, addr_size, tuples, set_start):
    """ One .debug_aranges set, first tuple aligned to the tuple size
        relative to the beginning of the SET (binutils / LLVM / DWARF 6.1.2).
    """
    fmt = '<II' if addr_size == 4 else '<QQ'
    hdr = struct.pack('<HIBB', 2, cu_ofs, addr_size, 0)
    pad = (-(4 + len(hdr))) % (2 * addr_size)
    body = hdr + b'\0' * pad
    for t in tuples + [(0, 0)]:
        body += struct.pack(fmt, *t)
    return struct.pack('<I', len(body)) + body


print('--- S1: zero-length tuple sharing its start address with a real range')
# CU 0x0 covers [0x1000, 0x1100); CU 0x40 has an empty function/section at
# 0x1000 (length 0) -- valid, producers emit this for discarded code.
data = arange_set(0x0, 8, [(0x1000, 0x100)], 0)
data += arange_set(0x40, 8, [(0x1000, 0)], len(data))
ar = ARanges(BytesIO(data), len(data), structs)
print('entries:', [(hex(e.begin_addr), e.length, hex(e.info_offset)) for e in ar.entries])
for a in (0x1000, 0x1001, 0x10ff):
    print('cu_offset_at_addr(%#x) = %r   (range [0x1000,0x1100) of unit 0x0 contains it)'
          % (a, ar.cu_offset_at_addr(a)))

print('--- S2: enclosing range followed by a nested/other range (bisect picks the nearest start only)')
data = arange_set(0x0, 8, [(0x1000, 0x1000)], 0)
data += arange_set(0x40, 8, [(0x1100, 0x10)], len(data))
ar = ARanges(BytesIO(data), len(data), structs)
print('cu_offset_at_addr(0x1200) = %r   (unit 0x0 range [0x1000,0x2000) contains it)'
      % ar.cu_offset_at_addr(0x1200))

print('--- S3: first-tuple alignment is computed from the SECTION start, not the set start')
# set 1: 4-byte addresses, 2 tuples -> 40 bytes long (not a multiple of 16)
# set 2: 8-byte addresses starts at 40; header ends at 52; set-relative
#        alignment puts the first tuple at 40+16=56, pyelftools seeks to 64.
data = arange_set(0x0, 4, [(0x1000, 0x10), (0x2000, 0x10)], 0)
print('set 1 length', len(data))
data += arange_set(0x40, 8, [(0x400000, 0x20), (0x500000, 0x30)], len(data))
try:
    ar = ARanges(BytesIO(data), len(data), structs)
    print('entries:', [(hex(e.begin_addr), hex(e.length), hex(e.info_offset)) for e in ar.entries])
    print('cu_offset_at_addr(0x400010) = %r (expected 0x40)' % ar.cu_offset_at_addr(0x400010))
except Exception as e:
    print('raised %s: %s' % (type(e).__name__, e))

print('--- S4: the same public type name in two sets (e.g. "int" in every CU)')
def pub_set(cu_ofs, cu_len, pairs):
    body = struct.pack('<HII', 2, cu_ofs, cu_len)
    for d, n in pairs:
        body += struct.pack('<I', d) + n.encode() + b'\0'
    body += struct.pack('<I', 0)
    return struct.pack('<I', len(body)) + body
data = pub_set(0x0, 0x80, [(0x20, 'int'), (0x30, 'a_t')]) + pub_set(0x80, 0x80, [(0x28, 'b_t'), (0x38, 'int')])
lut = NameLUT(BytesIO(data), len(data), structs)
print('encoded 4 (name, cu, die) entries; items():', [(k, v.cu_ofs, v.die_ofs) for k, v in lut.items()])
print("   -> ('int', 0, 0x20) is lost and 'int' (unit 0x80) is listed in front of unit 0's 'a_t': "
      "order/grouping by unit as documented in the NameLUT docstring is broken")

print('--- S5: opcode <-> name correspondence')
n2o = dwarf_expr.DW_OP_name2opcode
dups = {}
for k, v in n2o.items():
    dups.setdefault(v, []).append(k)
print('opcodes with more than one name:', {hex(k): v for k, v in dups.items() if len(v) > 1})
p = dwarf_expr.DWARFExprParser(structs)
for opc in (0xff,):
    try:
        print(p.parse_expr([opc]))
    except Exception as e:
        print('parse_expr([%#x]) (named %s in the table) raised %s: %s'
              % (opc, dwarf_expr.DW_OP_opcode2name.get(opc), type(e).__name__, e))
