"""C04/C10: the top entry of a unit has no parent, hence no siblings: list(top.iter_siblings()) must be [].  DIE.iter_siblings
executed `raise StopIteration()` inside the generator, which Python (PEP 479) turns into RuntimeError.  Exit 0 = empty list."""
import sys
sys.path.insert(0, sys.argv[1] if len(sys.argv) > 1 else '/repo')
from elftools.elf.elffile import ELFFile
root = sys.argv[1] if len(sys.argv) > 1 else '/repo'
with open(root + '/test/testfiles_for_unittests/lambda.elf', 'rb') as f:
    top = next(ELFFile(f).get_dwarf_info().iter_CUs()).get_top_DIE()
    try:
        sibs = list(top.iter_siblings())
    except Exception as e:
        print('list(top.iter_siblings()) raised %s: %s' % (type(e).__name__, e)); sys.exit(1)
    print('siblings of the top entry:', sibs)
    sys.exit(0 if sibs == [] else 1)
