"""C20: (uleb) the 0xb2 byte-code handler continues its ULEB128 operand while the NEXT byte has bit 7 clear (spec: while the
consumed byte has bit 7 set): b2 04 01 b0 must be 'vsp + 0x204+(4<<2)', 'vsp + 8', 'finish' and b2 81 01 b0 one 129 operand;
(prel31) arm_expand_prel31 tests bit 26 instead of bit 30 as the sign of the 31-bit field.  Arg 2: uleb|prel31|all. Exit 0 = ok."""
import sys
sys.path.insert(0, sys.argv[1] if len(sys.argv) > 1 else '/repo')
which = sys.argv[2] if len(sys.argv) > 2 else 'all'
from elftools.ehabi.decoder import EHABIBytecodeDecoder
from elftools.ehabi.ehabiinfo import arm_expand_prel31
ok = True
def case(name, fn):
    global ok
    if which not in ('all', name): return
    try: r = fn()
    except Exception as e: r = 'EXC %s: %s' % (type(e).__name__, e)
    print('%-7s %s' % (name, 'ok' if r is True else 'FAIL %s' % (r,)))
    ok = ok and r is True
def uleb():
    a = [(list(m.bytecode), m.mnemonic) for m in EHABIBytecodeDecoder([0xb2, 0x04, 0x01, 0xb0]).mnemonic_array]
    b = [(list(m.bytecode), m.mnemonic) for m in EHABIBytecodeDecoder([0xb2, 0x81, 0x01, 0xb0]).mnemonic_array]
    c = [(list(m.bytecode), m.mnemonic) for m in EHABIBytecodeDecoder([0xb2, 0x04]).mnemonic_array]
    want_a = [([0xb2, 0x04], 'vsp = vsp + %u' % (0x204 + (4 << 2))), ([0x01], 'vsp = vsp + 8'), ([0xb0], 'finish')]
    want_b = [([0xb2, 0x81, 0x01], 'vsp = vsp + %u' % (0x204 + (129 << 2))), ([0xb0], 'finish')]
    want_c = [([0xb2, 0x04], 'vsp = vsp + %u' % (0x204 + (4 << 2)))]
    return (a, b, c) == (want_a, want_b, want_c) or (a, b, c)
def prel31():
    got = [arm_expand_prel31(0x04000000, 0x1000), arm_expand_prel31(0x7fffff00, 0x1000), arm_expand_prel31(0x78000000, 0x10000000)]
    want = [0x04001000, 0xf00, (0x78000000 - 0x80000000 + 0x10000000) & 0xffffffffffffffff]
    return got == want or [hex(x) for x in got]
case('uleb', uleb); case('prel31', prel31)
sys.exit(0 if ok else 1)
