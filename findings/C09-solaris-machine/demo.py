"""C09/C17: _create_dyn chose the machine's processor-specific tag table *instead of* the Solaris OS-specific table
(if/elif), so a Solaris-ABI file of a machine that has processor tags (MIPS, AArch64) reported DT_SUNW_* codes as bare
integers.  DT_LOOS..DT_HIOS and DT_LOPROC..DT_HIPROC are disjoint ranges; binutils decides each separately.  Exit 0 = named."""
import sys, io, struct
sys.path.insert(0, sys.argv[1] if len(sys.argv) > 1 else '/repo')
from elftools.elf.structs import ELFStructs
s = ELFStructs(True, 64); s.create_basic_structs(); s.create_advanced_structs('ET_DYN', 'EM_AARCH64', 'ELFOSABI_SOLARIS')
bad = 0
for code, want in ((0x60000019, 'DT_SUNW_STRPAD'), (0x6000000e, 'DT_SUNW_RTLDINF'), (0x70000001, 'DT_AARCH64_BTI_PLT'), (1, 'DT_NEEDED')):
    got = s.Elf_Dyn.parse_stream(io.BytesIO(struct.pack('<qQ', code, 0)))['d_tag']
    print(hex(code), '->', got, '(registry: %s)' % want)
    bad += got != want
sys.exit(1 if bad else 0)
