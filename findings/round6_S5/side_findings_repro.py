#!/usr/bin/env python
# Reproducers for behaviour of the UNCHANGED tree that looks inconsistent with
# properties C05 / C06.   usage: side_findings_repro.py <tree root>
import sys
sys.path.insert(0, sys.argv[1])
import traceback
from io import BytesIO
from elftools.dwarf.structs import DWARFStructs
from elftools.dwarf.lineprogram import LineProgram
from elftools.dwarf.callframe import CallFrameInfo, CIE, FDE, ZERO
from elftools.dwarf.dwarfinfo import DWARFInfo, DebugSectionDescriptor, DwarfConfig


def section(name, data):
    return DebugSectionDescriptor(stream=BytesIO(data), name=name,
                                  global_offset=0, size=len(data), address=0)


def line_blob(version, header_tail, program, pad=b''):
    # header_tail: everything from minimum_instruction_length on
    hl = len(header_tail) + len(pad)
    body = (version.to_bytes(2, 'little') + hl.to_bytes(4, 'little') +
            header_tail + pad + program)
    return len(body).to_bytes(4, 'little') + body


HDR = (bytes([1, 1, 0xfb, 14, 13]) + bytes([0, 1, 1, 1, 1, 0, 0, 0, 1, 0, 0, 1]) +
       b'\x00' + b'a.c\x00\x00\x00\x00' + b'\x00')


def c05_a():
    print('--- C05-a: is_stmt of the DW_LNE_end_sequence row')
    prog = b'\x00\x05\x02\x00\x10\x00\x00' + b'\x01' + b'\x02\x04' + b'\x00\x01\x01'
    blob = line_blob(3, HDR, prog)
    st = DWARFStructs(little_endian=True, dwarf_format=32, address_size=4)
    s = BytesIO(blob)
    h = st.Dwarf_lineprog_header.parse_stream(s)
    rows = [e.state for e in LineProgram(h, s, st, s.tell(), len(blob)).get_entries() if e.state]
    print('  default_is_stmt=1, no DW_LNS_negate_stmt in the program')
    print('  rows (address, is_stmt, end_sequence):',
          [(hex(r.address), r.is_stmt, r.end_sequence) for r in rows])
    print('  state machine of 6.2.5.3: end_sequence row is emitted with the '
          'current registers, i.e. is_stmt stays 1; library gives',
          rows[-1].is_stmt)


def c05_b():
    print('--- C05-b: header_length is ignored when locating the first opcode')
    prog = b'\x00\x05\x02\x00\x10\x00\x00' + b'\x01' + b'\x00\x01\x01'
    # 3 bytes of producer-specific data between the file table and the
    # program, covered by header_length (consumers are told to use
    # header_length to find the program: DWARF5 6.2.4 item 6/7)
    blob = line_blob(3, HDR, prog, pad=b'\x21\x22\x23')
    # minimal CU: DW_TAG_compile_unit with DW_AT_stmt_list (data4) = 0
    abbrev = b'\x01\x11\x00\x10\x06\x00\x00\x00'
    cu_body = b'\x03\x00' + b'\x00\x00\x00\x00' + b'\x04' + b'\x01' + b'\x00\x00\x00\x00'
    info = len(cu_body).to_bytes(4, 'little') + cu_body
    di = DWARFInfo(
        config=DwarfConfig(little_endian=True, machine_arch='x86', default_address_size=4),
        debug_info_sec=section('.debug_info', info),
        debug_aranges_sec=None, debug_abbrev_sec=section('.debug_abbrev', abbrev),
        debug_frame_sec=None, eh_frame_sec=None, debug_str_sec=None,
        debug_loc_sec=None, debug_ranges_sec=None,
        debug_line_sec=section('.debug_line', blob),
        debug_pubtypes_sec=None, debug_pubnames_sec=None, debug_addr_sec=None,
        debug_str_offsets_sec=None, debug_line_str_sec=None,
        debug_loclists_sec=None, debug_rnglists_sec=None, debug_sup_sec=None,
        gnu_debugaltlink_sec=None, debug_types_sec=None)
    cu = next(di.iter_CUs())
    lp = di.line_program_for_CU(cu)
    want_start = 4 + 2 + 4 + lp.header['header_length']
    print('  header_length says the program starts at offset %d; library starts at %d'
          % (want_start, lp.program_start_offset))
    try:
        ents = lp.get_entries()
        print('  decoded entries:', [(e.command, e.is_extended, e.args) for e in ents])
        print('  rows:', [(hex(e.state.address), e.state.line) for e in ents if e.state])
        print('  demanded rows: [(0x1000, 1), (0x1000, 1, end_sequence)]')
    except Exception as e:
        print('  decoding raised', type(e).__name__, e)


def cfi(data, eh=False, addr_size=8, address=0):
    st = DWARFStructs(little_endian=True, dwarf_format=32, address_size=addr_size)
    return CallFrameInfo(BytesIO(data), len(data), address, st, for_eh_frame=eh).get_entries()


def entry(body):
    while (len(body) + 4) % 4:
        body += b'\x00'
    return len(body).to_bytes(4, 'little') + body


def c06_a():
    print('--- C06-a: a CFA defined only by DW_CFA_def_cfa_expression is dropped')
    cie = entry(b'\xff\xff\xff\xff' + b'\x03\x00\x01\x7c\x08' +
                b'\x0f\x02\x77\x08')            # def_cfa_expression {DW_OP_breg7 8}
    fde = entry(b'\x00\x00\x00\x00' + (0x1000).to_bytes(4, 'little') +
                (0x10).to_bytes(4, 'little') + b'\x41' + b'\x88\x01')
    ents = cfi(cie + fde, addr_size=4)
    print('  CIE table:', ents[0].get_decoded().table)
    for row in ents[1].get_decoded().table:
        print('  FDE row pc=%#x cfa=%r' % (row['pc'], row['cfa']))
    print('  demanded: CIE has one row with cfa=expr[0x77,0x08]; both FDE rows '
          'have cfa=expr[0x77,0x08]')


def c06_b():
    print('--- C06-b: .eh_frame DW_CFA_set_loc operand does not use the FDE pointer encoding')
    cie = entry(b'\x00\x00\x00\x00' + b'\x01zR\x00\x01\x78\x10' + b'\x01\x1b' +
                b'\x0c\x07\x08')
    off_fde = len(cie)
    fde_body = ((off_fde + 4).to_bytes(4, 'little') +
                (0x1000).to_bytes(4, 'little', signed=True) +
                (0x40).to_bytes(4, 'little') + b'\x00' +
                b'\x01' + (0x2000).to_bytes(4, 'little') +   # set_loc, sdata4 pcrel operand
                b'\x0e\x10')                                 # def_cfa_offset 16
    fde = entry(fde_body)
    try:
        ents = cfi(cie + fde, eh=True, addr_size=8)
        print('  FDE instructions:', ents[1].instructions)
        print('  demanded: [DW_CFA_set_loc (4-byte pcrel operand), '
              'DW_CFA_def_cfa_offset [16], DW_CFA_nop...]')
    except Exception as e:
        print('  raised', type(e).__name__, e)


def c06_c():
    print('--- C06-c: .eh_frame CIE without an R augmentation ("" or "zL"...)')
    for aug, augdata in ((b'', b''), (b'zL', b'\x01\x00')):
        cie = entry(b'\x00\x00\x00\x00' + b'\x01' + aug + b'\x00\x01\x78\x10' +
                    augdata + b'\x0c\x07\x08')
        off_fde = len(cie)
        fde = entry((off_fde + 4).to_bytes(4, 'little') +
                    (0x1000).to_bytes(8, 'little') + (0x40).to_bytes(8, 'little') +
                    (b'\x08' + (0x5000).to_bytes(8, 'little') if aug else b'') +
                    b'\x0e\x10')
        try:
            ents = cfi(cie + fde, eh=True, addr_size=8)
            print('  aug %r: FDE initial_location=%#x' % (aug, ents[1]['initial_location']))
        except Exception as e:
            print('  aug %r: raised %s %s  (demanded: default encoding DW_EH_PE_absptr)'
                  % (aug, type(e).__name__, e))


def c06_d():
    print('--- C06-d: address_size of a version 4 CIE is ignored')
    cie = entry(b'\xff\xff\xff\xff' + b'\x04\x00' + b'\x04\x00' + b'\x01\x7c\x08' +
                b'\x0c\x07\x00')
    fde = entry(b'\x00\x00\x00\x00' + (0x1000).to_bytes(4, 'little') +
                (0x20).to_bytes(4, 'little') + b'\x41\x0e\x08')
    try:
        ents = cfi(cie + fde, addr_size=8)     # container is ELFCLASS64
        print('  CIE says address_size=%d; FDE initial_location=%#x address_range=%#x, %d instructions'
              % (ents[0]['address_size'], ents[1]['initial_location'],
                 ents[1]['address_range'], len(ents[1].instructions)))
        print('  demanded: initial_location=0x1000 address_range=0x20, 2+ instructions')
    except Exception as e:
        print('  raised', type(e).__name__, e)


for f in (c05_a, c05_b, c06_a, c06_b, c06_c, c06_d):
    try:
        f()
    except Exception:
        traceback.print_exc()
