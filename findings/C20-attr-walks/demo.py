"""C20: (rel) AttributesSection._make_subsections / AttributesSubsection._make_subsubsections compute the next start from the
*first* (sub)subsection start, so the third and later ones are read from the wrong place;
(yield) the three attribute walks continue from wherever the shared file stream is when the generator is resumed.
A synthetic .ARM.attributes with three vendor subsections, each with two file sub-subsections.  Arg 2: rel|yield|all. Exit 0 = ok."""
import io, struct, sys
sys.path.insert(0, '/verif/tools')
sys.path.insert(0, sys.argv[1] if len(sys.argv) > 1 else '/repo')
which = sys.argv[2] if len(sys.argv) > 2 else 'all'
import mkelf
from elftools.elf.elffile import ELFFile

def subsub(attrs):
    body = bytes(attrs)
    return bytes([1]) + struct.pack('<I', 5 + len(body)) + body          # Tag_File, size incl. tag+size
def subsec(vendor, subs):
    body = vendor + b'\0' + b''.join(subs)
    return struct.pack('<I', 4 + len(body)) + body
# Tag_CPU_arch (6) = n ; Tag_ARM_ISA_use (8) = 1
secs = [subsec(v, [subsub([6, i + 1]), subsub([8, 1, 6, i + 5])]) for i, v in enumerate([b'aeabi', b'vendorb', b'vc'])]
data = b'A' + b''.join(secs)
img, _ = mkelf.build([dict(name='.ARM.attributes', type=0x70000003, data=data, align=1)], elfclass=32, e_machine=40)

def dump(ef, disturb=False, eager=False):
    sec = ef.get_section_by_name('.ARM.attributes')
    out = []
    n = 0
    for ss in (sec.subsections if eager else sec.iter_subsections()):
        if disturb: ef.get_section(1).data()
        for sss in (ss.subsubsections if eager else ss.iter_subsubsections()):
            if disturb: ef.get_section(1).data()
            row = [ss['vendor_name'], sss.header.tag]
            for a in sss.iter_attributes():
                if disturb: ef.get_section(2).data()
                row.append((a.tag, a.value))
                n += 1
                if n > 50: return out + [row, 'RUNAWAY']
            out.append(row)
    return out
want = [['aeabi', 'TAG_FILE', ('TAG_CPU_ARCH', 1)], ['aeabi', 'TAG_FILE', ('TAG_ARM_ISA_USE', 1), ('TAG_CPU_ARCH', 5)],
        ['vendorb', 'TAG_FILE', ('TAG_CPU_ARCH', 2)], ['vendorb', 'TAG_FILE', ('TAG_ARM_ISA_USE', 1), ('TAG_CPU_ARCH', 6)],
        ['vc', 'TAG_FILE', ('TAG_CPU_ARCH', 3)], ['vc', 'TAG_FILE', ('TAG_ARM_ISA_USE', 1), ('TAG_CPU_ARCH', 7)]]
ok = True
def case(name, fn):
    global ok
    if which not in ('all', name): return
    try: r = fn()
    except Exception as e: r = 'EXC %s: %s' % (type(e).__name__, e)
    print('%-6s %s' % (name, 'ok' if r is True else 'FAIL %s' % (r,)))
    ok = ok and r is True
case('rel', lambda: dump(ELFFile(io.BytesIO(img)), eager=True) == want or dump(ELFFile(io.BytesIO(img)), eager=True))
case('yield', lambda: dump(ELFFile(io.BytesIO(img)), True) == want or dump(ELFFile(io.BytesIO(img)), True))
sys.exit(0 if ok else 1)
