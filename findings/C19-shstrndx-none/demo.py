"""C19: ELFFile(bytes) must fail only with ELFError.
e_shstrndx = SHN_XINDEX (0xffff) makes get_shstrndx read section header 0; with e_shoff beyond the end of the file
_get_section_header returns None and the constructor subscripts it: TypeError.
usage: demo.py <repo>   exit 0 = correct (ELFError or success), 1 = another exception escapes"""
import sys, io, struct
sys.path.insert(0, sys.argv[1] if len(sys.argv) > 1 else '/repo')
from elftools.elf.elffile import ELFFile
from elftools.common.exceptions import ELFError
bad = 0
for cls, fmt in ((2, '<16sHHIQQQIHHHHHH'), (1, '<16sHHIIIIIHHHHHH')):
    ident = b'\x7fELF' + bytes([cls, 1, 1]) + b'\0' * 9
    ehsize = struct.calcsize(fmt)
    #                          type mach ver entry phoff shoff    flags ehsize phentsz phnum shentsz shnum shstrndx
    hdr = struct.pack(fmt, ident, 2, 62, 1, 0, 0, 0x100000, 0, ehsize, 0, 0, 64 if cls == 2 else 40, 0, 0xffff)
    try:
        ELFFile(io.BytesIO(hdr))
        print('class %d: constructed' % (32 * cls))
    except ELFError as e:
        print('class %d: ELFError: %s' % (32 * cls, e))
    except Exception as e:
        print('class %d: C19 violated: %s: %s' % (32 * cls, type(e).__name__, e))
        bad = 1
sys.exit(bad)
