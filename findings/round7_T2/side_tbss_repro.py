# Side finding reproducer (UNCHANGED tree): Segment.section_in_segment deviates from binutils'
# ELF_SECTION_IN_SEGMENT_STRICT in two clauses that the code does not implement at all.
import sys
sys.path.insert(0, sys.argv[1])
from elftools.elf.segments import Segment
SHF_WRITE, SHF_ALLOC, SHF_TLS = 1, 2, 0x400

# (1) ELF_TBSS_SPECIAL: a SHF_TLS SHT_NOBITS section counts with size 0 in any segment that is
#     not PT_TLS.  .tbss starts inside the PT_LOAD but its (virtual-only) size runs past p_memsz:
#     readelf -l lists .tbss under that LOAD segment, pyelftools says it is not contained.
load = Segment(dict(p_type='PT_LOAD', p_offset=0x1000, p_vaddr=0x11000, p_filesz=0x100, p_memsz=0x100), None)
tbss = dict(sh_type='SHT_NOBITS', sh_flags=SHF_WRITE | SHF_ALLOC | SHF_TLS,
            sh_addr=0x110f0, sh_offset=0x10f0, sh_size=0x400)
r1 = load.section_in_segment(tbss)
print('(1) .tbss [0x110f0,+0x400) vs PT_LOAD [0x11000,+0x100): binutils=True  pyelftools=%s' % r1)

# (2) "No zero size sections at start or end of PT_DYNAMIC nor PT_NOTE": an empty alloc section
#     sitting exactly at the start of a non-empty PT_NOTE is NOT in the segment for binutils.
note = Segment(dict(p_type='PT_NOTE', p_offset=0x200, p_vaddr=0x10200, p_filesz=0x20, p_memsz=0x20), None)
empty = dict(sh_type='SHT_PROGBITS', sh_flags=SHF_ALLOC, sh_addr=0x10200, sh_offset=0x200, sh_size=0)
r2 = note.section_in_segment(empty)
print('(2) empty section at start of PT_NOTE: binutils=False pyelftools=%s' % r2)
sys.exit(1 if (r1 is not True or r2 is not False) else 0)
