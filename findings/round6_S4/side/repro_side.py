#!/usr/bin/env python
# Reproducers for behaviour of the UNCHANGED tree that looks like a violation of C07 / C04.
import sys, io, struct
sys.path.insert(0, sys.argv[1])
from elftools.dwarf.dwarfinfo import DWARFInfo, DebugSectionDescriptor, DwarfConfig

def uleb(v):
    out = bytearray()
    while True:
        b = v & 0x7f
        v >>= 7
        if v:
            out.append(b | 0x80)
        else:
            out.append(b)
            return bytes(out)

def sec(name, data):
    return DebugSectionDescriptor(stream=io.BytesIO(data), name=name, global_offset=0, size=len(data), address=0)

def mk(info, abbrev, default_address_size=8, loclists=None, rnglists=None, types=None):
    return DWARFInfo(
        config=DwarfConfig(little_endian=True, machine_arch='x64', default_address_size=default_address_size),
        debug_info_sec=sec('.debug_info', info), debug_aranges_sec=None,
        debug_abbrev_sec=sec('.debug_abbrev', abbrev), debug_frame_sec=None, eh_frame_sec=None,
        debug_str_sec=sec('.debug_str', b'\0'), debug_loc_sec=None, debug_ranges_sec=None, debug_line_sec=None,
        debug_pubtypes_sec=None, debug_pubnames_sec=None, debug_addr_sec=None, debug_str_offsets_sec=None,
        debug_line_str_sec=None,
        debug_loclists_sec=sec('.debug_loclists', loclists) if loclists else None,
        debug_rnglists_sec=sec('.debug_rnglists', rnglists) if rnglists else None,
        debug_sup_sec=None, gnu_debugaltlink_sec=None,
        debug_types_sec=sec('.debug_types', types) if types else None)

abbrev = (uleb(1) + uleb(0x11) + b'\x01' + uleb(0x03) + uleb(0x08) + b'\0\0' +
          uleb(2) + uleb(0x2e) + b'\x00' + uleb(0x03) + uleb(0x08) + uleb(0x55) + uleb(0x17) + uleb(0x40) + uleb(0x17) + b'\0\0' +
          b'\0')

def v5unit(address_size, r_off, l_off):
    body = uleb(1) + b'a.c\0' + uleb(2) + b'f\0' + struct.pack('<II', r_off, l_off) + b'\0'
    rest = struct.pack('<HBBI', 5, 1, address_size, 0) + body
    return struct.pack('<I', len(rest)) + rest

def hdr(body_len, address_size):
    return struct.pack('<IHBBI', 8 + body_len, 5, address_size, 0, 0)

findings = 0

# ---- 1. .debug_loclists unit block with padding (a gap) after its last list ----
L = b'\x08' + struct.pack('<Q', 0x1000) + uleb(0x10) + uleb(1) + b'\x9c' + b'\x00'
R = b'\x07' + struct.pack('<Q', 0x1000) + uleb(0x10) + b'\x00'
pad = b'\0\0\0'
di = mk(v5unit(8, 12, 12), abbrev, loclists=hdr(len(L + pad), 8) + L + pad, rnglists=hdr(len(R), 8) + R)
print('1. iter_location_lists() on a v5 unit block that ends with 3 bytes of padding after its only list')
try:
    got = list(di.location_lists().iter_location_lists())
    print('   yielded %d list(s)' % len(got))
    if len(got) != 1:
        findings += 1
except Exception as e:
    print('   EXCEPTION %r (expected: exactly the one referenced list)' % e)
    findings += 1

# ---- 2. v5 list block whose address_size (4) differs from the container default (8) ----
R4 = b'\x06' + struct.pack('<II', 0x2000, 0x2040) + b'\x00'          # DW_RLE_start_end with 4-byte addresses
L4 = b'\x07' + struct.pack('<II', 0x2000, 0x2040) + uleb(1) + b'\x9c' + b'\x00'
di = mk(v5unit(4, 12, 12), abbrev, loclists=hdr(len(L4), 4) + L4, rnglists=hdr(len(R4), 4) + R4)
cu = next(di.iter_CUs())
die = [d for d in cu.iter_DIEs() if 'DW_AT_ranges' in d.attributes][0]
print('2. unit with address_size 4 (header of the unit and of its rnglists/loclists blocks) in a container whose default is 8')
try:
    r = di.range_lists().get_range_list_at_offset(die.attributes['DW_AT_ranges'].value, cu)
    print('   range list   : %s   (encoded: one DW_RLE_start_end 0x2000..0x2040)' % (
        [(hex(e.begin_offset), hex(e.end_offset)) for e in r],))
    if [(e.begin_offset, e.end_offset) for e in r] != [(0x2000, 0x2040)]:
        findings += 1
except Exception as e:
    print('   range list   : EXCEPTION %r' % e)
    findings += 1
try:
    l = di.location_lists().get_location_list_at_offset(die.attributes['DW_AT_frame_base'].value, die)
    print('   location list: %s   (encoded: one DW_LLE_start_end 0x2000..0x2040, expr [0x9c])' % (
        [(hex(e.begin_offset), hex(e.end_offset), e.loc_expr) for e in l],))
    if [(e.begin_offset, e.end_offset, e.loc_expr) for e in l] != [(0x2000, 0x2040, [0x9c])]:
        findings += 1
except Exception as e:
    print('   location list: EXCEPTION %r' % e)
    findings += 1

# ---- 3. v5 type unit in .debug_info referenced by DW_FORM_ref_sig8 ----
abbrev3 = (uleb(1) + uleb(0x11) + b'\x01' + uleb(0x03) + uleb(0x08) + b'\0\0' +
           uleb(2) + uleb(0x34) + b'\x00' + uleb(0x49) + uleb(0x20) + b'\0\0' +        # variable, DW_AT_type ref_sig8
           uleb(3) + uleb(0x41) + b'\x01' + b'\0\0' +                                      # type_unit
           uleb(4) + uleb(0x24) + b'\x00' + uleb(0x03) + uleb(0x08) + b'\0\0' +            # base_type name
           b'\0')
sig = 0x1122334455667788
cu_body = uleb(1) + b'a.c\0' + uleb(2) + struct.pack('<Q', sig) + b'\0'
cu_rest = struct.pack('<HBBI', 5, 1, 8, 0) + cu_body
cu_bytes = struct.pack('<I', len(cu_rest)) + cu_rest
# type unit header after length: version, unit_type=2, address_size, abbrev_offset, signature, type_offset
tu_hdr_len = 4 + 2 + 1 + 1 + 4 + 8 + 4
tu_body = uleb(3) + uleb(4) + b'int\0' + b'\0'
tu_rest = struct.pack('<HBBIQI', 5, 2, 8, 0, sig, tu_hdr_len + 1) + tu_body
tu_bytes = struct.pack('<I', len(tu_rest)) + tu_rest
di = mk(cu_bytes + tu_bytes, abbrev3)
cu = next(di.iter_CUs())
var = [d for d in cu.iter_DIEs() if d.tag == 'DW_TAG_variable'][0]
print('3. DW_FORM_ref_sig8 to a DWARF v5 type unit (DW_UT_type) that lives in .debug_info')
try:
    t = var.get_DIE_from_attribute('DW_AT_type')
    print('   resolved to DIE at 0x%x tag %s' % (t.offset, t.tag))
except Exception as e:
    print('   EXCEPTION %r (expected: the DW_TAG_base_type entry at 0x%x)' % (e, len(cu_bytes) + tu_hdr_len + 1))
    findings += 1

print('%d suspicious behaviour(s) observed' % findings)
sys.exit(1 if findings else 0)
