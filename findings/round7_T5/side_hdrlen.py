#!/usr/bin/env python
# Side finding (UNCHANGED tree): DWARFInfo._parse_line_program_at_offset starts the
# opcode stream where the parsed header happened to end (stream.tell()) and ignores
# header_length.  DWARF (v2-v5 6.2.4 "header_length: the number of bytes following the
# header_length field to the beginning of the first byte of the line number program")
# lets a producer put extra/vendor bytes between the tables and the program.
import sys, struct, inspect
sys.path.insert(0, sys.argv[1])
from io import BytesIO
from elftools.dwarf.dwarfinfo import DWARFInfo, DebugSectionDescriptor, DwarfConfig
from elftools.dwarf.structs import DWARFStructs

after_len = (struct.pack('<BBbBB', 1, 1, -5, 14, 13) + bytes([0,1,1,1,1,0,0,0,1,0,0,1]) +
             b'\x00' + b'a.c\x00\x00\x00\x00' + b'\x00' +
             b'\x01\x01\x01')        # 3 bytes covered by header_length (look like DW_LNS_copy)
program = b'\x00\x09\x02' + struct.pack('<Q', 0x1000) + b'\x01' + b'\x00\x01\x01'
body = struct.pack('<H', 3) + struct.pack('<I', len(after_len)) + after_len + program
blob = struct.pack('<I', len(body)) + body

sec = DebugSectionDescriptor(BytesIO(blob), '.debug_line', 0, len(blob), 0)
names = list(inspect.signature(DWARFInfo.__init__).parameters)[2:]
kw = dict.fromkeys(names, None); kw['debug_line_sec'] = sec
di = DWARFInfo(DwarfConfig(True, 'x64', 8), **kw)
st = DWARFStructs(True, 32, 8, 3)
lp = di._parse_line_program_at_offset(0, st)
spec_start = 4 + 2 + 4 + lp.header['header_length']
rows = [(hex(e.state.address), e.state.line, bool(e.state.end_sequence))
        for e in lp.get_entries() if e.state]
print('program_start_offset used:', lp.program_start_offset, '  header_length says:', spec_start)
print('expected rows: [(0x1000,1,False),(0x1000,1,True)]')
print('got rows     :', rows)
sys.exit(1 if lp.program_start_offset != spec_start else 0)
