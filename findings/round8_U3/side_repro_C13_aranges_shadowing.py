#!/usr/bin/env python
# usage: side_repro_C13_aranges_shadowing.py <tree root>   (UNCHANGED tree)
# ARanges.cu_offset_at_addr only looks at the single entry with the greatest begin_addr <= addr.
import sys, struct
sys.path.insert(0, sys.argv[1])
from io import BytesIO
from elftools.dwarf.aranges import ARanges
from elftools.dwarf.structs import DWARFStructs

def aset(cu, tuples):
    body = struct.pack('<HIBB', 2, cu, 8, 0) + b'\0' * 4
    for a, l in tuples:
        body += struct.pack('<QQ', a, l)
    body += struct.pack('<QQ', 0, 0)
    return struct.pack('<I', len(body)) + body

st = DWARFStructs(little_endian=True, dwarf_format=32, address_size=8)
bad = 0
# (a) a zero-length tuple (addr != 0, length 0: not a terminator) with the same begin address as a real
#     range, encoded after it: it sorts last among the ties and shadows the whole real range.
blob = aset(0x0, [(0x1000, 0x100)]) + aset(0x5b, [(0x1000, 0)])
ar = ARanges(BytesIO(blob), len(blob), st)
for addr in (0x1000, 0x1080, 0x10ff):
    got = ar.cu_offset_at_addr(addr)
    print('(a) addr 0x%x -> %r, encoded range [0x1000,+0x100) belongs to CU 0x0' % (addr, got))
    bad += got != 0
# (b) a zero-length tuple strictly inside another range shadows the rest of that range
blob = aset(0x0, [(0x1000, 0x100)]) + aset(0x5b, [(0x1040, 0)])
ar = ARanges(BytesIO(blob), len(blob), st)
got = ar.cu_offset_at_addr(0x1080)
print('(b) addr 0x1080 -> %r, encoded range [0x1000,+0x100) belongs to CU 0x0' % (got,))
bad += got != 0
# (c) nested ranges of two units: addresses of the outer range behind the inner one resolve to nothing
blob = aset(0x0, [(0x1000, 0x1000)]) + aset(0x5b, [(0x1800, 0x10)])
ar = ARanges(BytesIO(blob), len(blob), st)
got = ar.cu_offset_at_addr(0x1900)
print('(c) addr 0x1900 -> %r, inside [0x1000,+0x1000) of CU 0x0' % (got,))
bad += got != 0
sys.exit(1 if bad else 0)
