"""C19: ELFFile(bytes) must fail only with ELFError.
The section-name string table header has SHF_COMPRESSED set and sh_offset = 2^64-1: Section.__init__ parses the
compression header at that position; stream.seek raises OverflowError (BytesIO and real files alike), which struct_parse does
not convert.
usage: demo.py <repo>   exit 0 = correct, 1 = another exception escapes"""
import sys, io, struct, tempfile, os
sys.path.insert(0, sys.argv[1] if len(sys.argv) > 1 else '/repo')
from elftools.elf.elffile import ELFFile
from elftools.common.exceptions import ELFError
ident = b'\x7fELF' + bytes([2, 1, 1]) + b'\0' * 9
hdr = struct.pack('<16sHHIQQQIHHHHHH', ident, 2, 62, 1, 0, 0, 64, 0, 64, 0, 0, 64, 1, 0)
bad = 0
for off in (2**64 - 1, 2**63):
    # name type flags(SHF_COMPRESSED=0x800) addr offset size link info align entsize
    shdr = struct.pack('<IIQQQQIIQQ', 0, 3, 0x800, 0, off, 16, 0, 0, 1, 0)
    data = hdr + shdr
    for kind in ('BytesIO', 'file'):
        if kind == 'file':
            fd, path = tempfile.mkstemp()
            os.write(fd, data); os.close(fd)
            stream = open(path, 'rb')
        else:
            stream = io.BytesIO(data)
        try:
            ELFFile(stream)
            print('%s sh_offset=%#x: constructed' % (kind, off))
        except ELFError as e:
            print('%s sh_offset=%#x: ELFError: %s' % (kind, off, str(e)[:60]))
        except Exception as e:
            print('%s sh_offset=%#x: C19 violated: %s: %s' % (kind, off, type(e).__name__, e))
            bad = 1
        finally:
            stream.close()
            if kind == 'file':
                os.unlink(path)
sys.exit(bad)
