#!/usr/bin/env python
# Side finding (UNCHANGED code), property C11: a file in the legacy GNU scheme where only SOME
# debug sections are renamed to .zdebug_* (binutils leaves a section as plain .debug_* when
# compressing it would not make it smaller -- typical for a tiny .debug_abbrev/.debug_str)
# loses the plain sections: get_dwarf_info() looks ONLY for .zdebug_* names once .zdebug_info exists.
# usage: side_C11_mixed_zdebug.py <tree-root>      exit 1 = views differ
import sys, struct, zlib
from io import BytesIO
sys.path.insert(0, sys.argv[1])
from elftools.elf.elffile import ELFFile

def cu(name):
    body = struct.pack('<HIB', 4, 0, 8) + b'\x01' + name + b'\x00'
    return struct.pack('<I', len(body)) + body
ABBREV = bytes([1, 0x11, 0, 0x03, 0x08, 0, 0, 0])
INFO = cu(b'first.c') + cu(b'second.c')
def zgnu(d): return b'ZLIB' + struct.pack('>Q', len(d)) + zlib.compress(d)
def build(sections):
    shstr = b'\x00'; names = []
    for n, _ in sections + [('.shstrtab', b'')]:
        names.append(len(shstr)); shstr += n.encode() + b'\x00'
    blobs = [d for _, d in sections] + [shstr]
    off = 64; offs = []; body = b''
    for b in blobs:
        offs.append(off); body += b; off += len(b)
    sh = b'\x00' * 64
    for i, b in enumerate(blobs):
        sh += struct.pack('<IIQQQQIIQQ', names[i], 3 if i == len(blobs)-1 else 1, 0, 0, offs[i], len(b), 0, 0, 1, 0)
    eh = b'\x7fELF' + bytes([2, 1, 1, 0]) + b'\x00' * 8
    eh += struct.pack('<HHIQQQIHHHHHH', 1, 62, 1, 0, 0, off, 0, 64, 0, 0, 64, len(blobs)+1, len(blobs))
    return eh + body + sh
def view(blob):
    try:
        di = ELFFile(BytesIO(blob)).get_dwarf_info(follow_links=False)
        return [c.get_top_DIE().attributes['DW_AT_name'].value for c in di.iter_CUs()]
    except Exception as e:
        return '%s: %s' % (type(e).__name__, e)
a = view(build([('.debug_info', INFO), ('.debug_abbrev', ABBREV)]))
b = view(build([('.zdebug_info', zgnu(INFO)), ('.debug_abbrev', ABBREV)]))
print('plain                       :', a)
print('.zdebug_info + .debug_abbrev:', b)
sys.exit(0 if a == b else 1)
