#!/usr/bin/env python
# Side note (UNCHANGED code), near property C19: ELFHashTable.get_symbol() follows the SysV hash
# chain until it reads 0; a corrupted chain word that points to itself (chains[1] == 1) makes a lookup
# of an absent name loop forever.  (Name LOOKUP is not in the property's enumeration battery --
# headers/sections/segments/symbol counts/dynamic tags/notes -- so this is reported only as adjacent.)
# usage: side_C19_hash_cycle.py <tree-root>      exit 1 = loop did not terminate within 5 s
import sys, os, struct, signal
from io import BytesIO
sys.path.insert(0, sys.argv[1])
from elftools.elf.elffile import ELFFile
from elftools.elf.hash import ELFHashTable
data = open(os.path.join(sys.argv[1], 'test/testfiles_for_unittests/simple_gcc.elf.arm'), 'rb').read()
off = len(data)
data += struct.pack('<6I', 1, 2, 1, 0, 1, 0)[:20]   # nbuckets=1 nchains=2 buckets=[1] chains=[0,1]
ef = ELFFile(BytesIO(data))
class Tab:
    n = 0
    def get_symbol(self, i):
        Tab.n += 1
        class S: name = 'present'
        return S
ht = ELFHashTable(ef, off, Tab())
def boom(*a): raise TimeoutError
signal.signal(signal.SIGALRM, boom); signal.alarm(5)
try:
    r = ht.get_symbol('absent')
    print('returned', r); sys.exit(0)
except TimeoutError:
    print('lookup of an absent name still spinning after 5 s (%d chain steps) on a self-linked chain' % Tab.n)
    sys.exit(1)
