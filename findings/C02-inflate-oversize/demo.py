# SHF_COMPRESSED section whose declared ch_size is SMALLER than the inflated size: Section.data passes ch_size as max_length to
# zlib, so the length comparison that follows can never see the surplus -- the data is silently truncated and accepted.
# usage: demo.py [tree]   exit 1 = accepted (violation), exit 0 = rejected with ELFCompressionError
import sys, io, os, struct
ROOT = sys.argv[1] if len(sys.argv) > 1 else '/repo'
sys.path.insert(0, ROOT)
from elftools.elf.elffile import ELFFile
from elftools.common.exceptions import ELFCompressionError
d = bytearray(open(os.path.join('/repo', 'test/testfiles_for_unittests/compressed_64.o'), 'rb').read())
sec = ELFFile(io.BytesIO(bytes(d))).get_section_by_name('.debug_info')
true_size = sec.data_size
# Elf64_Chdr: ch_type(4) ch_reserved(4) ch_size(8) ch_addralign(8)
struct.pack_into('<Q', d, sec['sh_offset'] + 8, true_size - 100)
sec2 = ELFFile(io.BytesIO(bytes(d))).get_section_by_name('.debug_info')
try:
    out = sec2.data()
    print('declared ch_size=%d, stream inflates to %d bytes: ACCEPTED, data() returned %d bytes (truncated)' % (true_size - 100, true_size, len(out)))
    sys.exit(1)
except ELFCompressionError as e:
    print('rejected:', e)
    sys.exit(0)
