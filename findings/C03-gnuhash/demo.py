"""C03/C10: GNUHashTable.get_symbol reads the next chain word wherever the nested symbol lookup left
the shared file stream.  Two names with equal GNU hash ('aa', 'b@') in one chain: looking up the
second one must return it; the unfixed code returns None (or garbage).  Exit 0 = correct behaviour."""
import io, struct, sys
sys.path.insert(0, '/verif/tools')
sys.path.insert(0, sys.argv[1] if len(sys.argv) > 1 else '/repo')
import mkelf
from elftools.elf.elffile import ELFFile
from elftools.elf.hash import GNUHashTable

names = [b'', b'aa', b'b@']
assert GNUHashTable.gnu_hash('aa') == GNUHashTable.gnu_hash('b@')
strtab = b''
offs = []
for n in names:
    offs.append(len(strtab))
    strtab += n + b'\0'
symtab = b''.join(mkelf.sym64(o, shndx=0 if i == 0 else 1) for i, o in enumerate(offs))
h = GNUHashTable.gnu_hash('aa')
# nbuckets=1, symoffset=1, bloom_size=1, bloom_shift=0; bloom all ones; bucket[0]=1; chain: h&~1, h|1
gnuhash = struct.pack('<IIII', 1, 1, 1, 0) + struct.pack('<Q', 0xffffffffffffffff) + struct.pack('<I', 1) + \
    struct.pack('<II', h & ~1, h | 1)
data, _ = mkelf.build([
    dict(name='.dynsym', type=11, data=symtab, link=2, entsize=24, info=1, flags=2),
    dict(name='.dynstr', type=3, data=strtab, flags=2),
    dict(name='.gnu.hash', type=0x6ffffff6, data=gnuhash, link=1, flags=2),
])
ef = ELFFile(io.BytesIO(data))
hs = ef.get_section_by_name('.gnu.hash')
first = hs.get_symbol('aa')
second = hs.get_symbol('b@')
print('aa ->', first and first.name, '; b@ ->', second and second.name)
ok = first is not None and first.name == 'aa' and second is not None and second.name == 'b@'
print('OK' if ok else 'FAIL: colliding name later in the chain is not found')
sys.exit(0 if ok else 1)
