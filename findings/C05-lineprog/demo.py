"""C05: line-number state machine deviations from DWARF 5 §6.2.5.
 opindex : DW_LNS_advance_pc / DW_LNS_const_add_pc ignore op_index and maximum_operations_per_instruction;
           DW_LNS_fixed_advance_pc / DW_LNE_set_address do not reset op_index (VLIW headers, max_ops > 1)
 unknown : a standard opcode >= 13 (opcode_base > 13) is rejected instead of skipped via standard_opcode_lengths
 isstmt  : the DW_LNE_end_sequence row always carries is_stmt = 0 instead of the current value (KNOWN FINDING, not repaired)
Arg 2 selects the case.  Exit 0 = rows as the standard prescribes."""
import io, struct, sys
sys.path.insert(0, sys.argv[1] if len(sys.argv) > 1 else '/repo')
which = sys.argv[2] if len(sys.argv) > 2 else 'all'
from elftools.dwarf.structs import DWARFStructs
from elftools.dwarf.lineprogram import LineProgram
from elftools.common.utils import struct_parse

def run(program, max_ops=1, opcode_base=13, extra_lengths=(), default_is_stmt=1):
    st = DWARFStructs(True, 32, 8, 4)
    lens = bytes([0, 1, 1, 1, 1, 0, 0, 0, 1, 0, 0, 1]) + bytes(extra_lengths)
    assert len(lens) == opcode_base - 1
    rest = bytes([1, max_ops, default_is_stmt, 0xfb, 14, opcode_base]) + lens + b'\0' + b'a.c\0\0\0\0' + b'\0'   # line_base -5, line_range 14
    body = struct.pack('<HI', 4, len(rest)) + rest + bytes(program)
    data = struct.pack('<I', len(body)) + body
    s = io.BytesIO(data)
    hdr = struct_parse(st.Dwarf_lineprog_header, s, 0)
    lp = LineProgram(hdr, s, st, s.tell(), len(data))
    return [(e.state.address, e.state.op_index, e.state.line, e.state.is_stmt, e.state.end_sequence) for e in lp.get_entries() if e.state]

ok = True
def case(name, fn):
    global ok
    if which != name and not (which == 'all' and name != 'isstmt'):
        return
    try: r = fn()
    except Exception as e: r = 'EXC %s: %s' % (type(e).__name__, e)
    print('%-8s %s' % (name, 'ok' if r is True else 'FAIL %s' % (r,)))
    ok = ok and r is True
SET_ADDR = [0, 9, 2] + list(struct.pack('<Q', 0x1000))
END = [0, 1, 1]
def opindex():
    # max_ops = 4, min_inst_len = 1.  advance_pc 6: address += (0+6)//4 = 1, op_index = 2; const_add_pc: advance (255-13)//14 = 17:
    # address += (2+17)//4 = 4, op_index = 3; fixed_advance_pc 16: address += 16, op_index = 0; advance_pc 3: op_index = 3;
    # set_address: op_index = 0.  A DW_LNS_copy row after each.
    rows = run(SET_ADDR + [2, 6, 1] + [8, 1] + [9, 0x10, 0, 1] + [2, 3, 1] + SET_ADDR + [1] + END, max_ops=4)
    want = [(0x1001, 2), (0x1005, 3), (0x1015, 0), (0x1015, 3), (0x1000, 0), (0x1000, 0)]
    got = [(a, o) for a, o, l, s, e in rows]
    return got == want or got
def unknown():
    # opcode_base 14: opcode 13 is a standard opcode with 2 ULEB operands that this library does not know
    rows = run(SET_ADDR + [13, 0x85, 0x01, 0x07, 1] + END, opcode_base=14, extra_lengths=[2])
    return [(a, l) for a, o, l, s, e in rows] == [(0x1000, 1), (0x1000, 1)] or rows
def isstmt():
    rows = run(SET_ADDR + [1] + END, default_is_stmt=1)
    return [s for a, o, l, s, e in rows] == [1, 1] or [s for a, o, l, s, e in rows]
case('opindex', opindex); case('unknown', unknown); case('isstmt', isstmt)
sys.exit(0 if ok else 1)
