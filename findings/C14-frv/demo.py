"""C14: the 16-bit uid/gid machine set of Elf_Prpsinfo lists 'EM_CYGNUS_FRV', a name ENUM_E_MACHINE does not
define (the table says EM_FRV), so 32-bit FR-V core files get 32-bit uid/gid fields.  Exit 0 = 16-bit."""
import sys
sys.path.insert(0, sys.argv[1] if len(sys.argv) > 1 else '/repo')
from elftools.elf.structs import ELFStructs
s = ELFStructs(True, 32); s.create_basic_structs(); s.create_advanced_structs('ET_CORE', 'EM_FRV', 'ELFOSABI_SYSV')
size = s.Elf_Prpsinfo.sizeof()
print('Elf_Prpsinfo size for 32-bit EM_FRV:', size, '(linux elf_prpsinfo with 16-bit ids: 124)')
sys.exit(0 if size == 124 else 1)
