"""C10: Dynamic.get_tag(n) for an index past the DT_NULL terminator returned a tag on a fresh object and raised IndexError once
num_tags() had been called (the bound check in _get_tag existed only when the lazily computed count did).  The dynamic table ends
with its terminator (C09), so the answer is IndexError in both histories.  Exit 0 = same answer before and after."""
import sys
sys.path.insert(0, sys.argv[1] if len(sys.argv) > 1 else '/repo')
from elftools.elf.elffile import ELFFile
root = sys.argv[1] if len(sys.argv) > 1 else '/repo'

def ask(prime):
    with open(root + '/test/testfiles_for_unittests/lib_versioned64.so.1.elf', 'rb') as f:
        dyn = ELFFile(f).get_section_by_name('.dynamic')
        if prime:
            dyn.num_tags()
        try:
            return 'tag %s' % dyn.get_tag(28).entry.d_tag
        except IndexError as e:
            return 'IndexError'
a, b = ask(False), ask(True)
print('get_tag(28) on a fresh object:', a); print('get_tag(28) after num_tags()  :', b)
sys.exit(0 if a == b else 1)
