#!/usr/bin/env python
# Side finding (UNCHANGED code, property C01): an ELF whose header says
# e_shstrndx == SHN_UNDEF (0) has NO section name string table (gABI: "If the
# file has no section name string table, this member holds the value
# SHN_UNDEF"). pyelftools nevertheless takes section #0 (the NULL section,
# sh_offset 0) as the string table and reads every section "name" from file
# offset 0 + sh_name, i.e. out of the ELF header itself: all sections get the
# name '\x7fELF\x02\x01\x01' and get_section_by_name() finds a section under it.
# (Linux writes exactly such headers for core dumps with >= 0xffff segments:
# one section header, e_shstrndx = SHN_UNDEF.)
# usage: side_finding_shstrndx_undef.py <tree root>; exit 1 if observed
import sys, struct, io
sys.path.insert(0, sys.argv[1])
from elftools.elf.elffile import ELFFile

ehsize, shentsize = 64, 64
ident = b'\x7fELF' + bytes([2, 1, 1, 0, 0]) + b'\0' * 7
ehdr = ident + struct.pack('<HHIQQQIHHHHHH', 1, 62, 1, 0, 0, ehsize, 0,
                           ehsize, 0, 0, shentsize, 2, 0)   # e_shstrndx = 0


def shdr(name, typ, off, size):
    return struct.pack('<IIQQQQIIQQ', name, typ, 0, 0, off, size, 0, 0, 1, 0)


blob = ehdr + shdr(0, 0, 0, 0) + shdr(0, 1, 0, 0)
elf = ELFFile(io.BytesIO(blob))
names = [s.name for s in elf.iter_sections()]
print('e_shstrndx =', elf['e_shstrndx'], '(SHN_UNDEF: the file encodes no section names)')
print('reported section names:', names)
hit = elf.get_section_by_name('\x7fELF\x02\x01\x01')
print('get_section_by_name(%r) ->' % '\x7fELF\x02\x01\x01', hit)
bad = any(n for n in names) or hit is not None
print('RESULT:', 'names fabricated from the ELF header bytes' if bad else 'no fabricated names')
sys.exit(1 if bad else 0)
