"""C06: a 64-bit DWARF .debug_frame (initial length 0xffffffff + 8-byte length) must decode like its 32-bit twin.
CallFrameInfo._parse_entry_at reads the CIE/FDE discriminator (CIE_id / CIE_pointer) right after the first 4 bytes, i.e. at
offset+4, where a 64-bit entry still has its 8-byte length; the field is at offset+12.  The CIE is then taken for an FDE.
usage: demo.py <repo>   exit 0 = both formats give [CIE, FDE] with the same fields, 1 = not"""
import io, struct, sys
sys.path.insert(0, sys.argv[1] if len(sys.argv) > 1 else '/repo')
from elftools.dwarf.callframe import CallFrameInfo, CIE, FDE
from elftools.dwarf.structs import DWARFStructs


def section(fmt):
    """one CIE (version 1, caf 1, daf -8, ra 16, def_cfa r7+8) and one FDE for [0x1000, 0x1100) with advance_loc 4"""
    off = '<I' if fmt == 32 else '<Q'
    cie_id = 0xffffffff if fmt == 32 else 0xffffffffffffffff
    def entry(body):
        body += b'\0' * (-len(body) % 8)
        return (struct.pack('<I', len(body)) if fmt == 32 else struct.pack('<IQ', 0xffffffff, len(body))) + body
    cie = entry(struct.pack(off, cie_id) + bytes([1]) + b'\0' + bytes([1, 0x78, 16]) + bytes([0x0c, 7, 8]))
    fde = entry(struct.pack(off, 0) + struct.pack('<QQ', 0x1000, 0x100) + bytes([0x44]))
    return cie + fde


res = {}
for fmt in (32, 64):
    data = section(fmt)
    try:
        cfi = CallFrameInfo(io.BytesIO(data), len(data), 0, DWARFStructs(True, fmt, 8, 4))
        ents = cfi.get_entries()
        res[fmt] = [(type(e).__name__, e.header.get('initial_location'), e.header.get('address_range'),
                     [i.opcode for i in e.instructions if i.opcode != 0]) for e in ents]   # padding nops dropped
    except Exception as e:
        res[fmt] = 'EXC %s: %s' % (type(e).__name__, e)
    print('DWARF%d: %s' % (fmt, res[fmt]))
ok = isinstance(res[32], list) and [r[:3] for r in res[32]] == [('CIE', None, None), ('FDE', 0x1000, 0x100)] and res[64] == res[32]
if not ok:
    print('C06 violated: the 64-bit section does not decode to the same [CIE, FDE] as its 32-bit twin')
sys.exit(0 if ok else 1)
