"""C06: a CIE whose only rule is DW_CFA_def_cfa_expression.  DWARF 6.4.1: the CFA rule of a row is register+offset or an expression;
_decode_CFI_table appended the last row only when cfa.reg was set or a register rule existed, so the row was dropped and the FDEs
of that CIE started from CFARule(reg=None, offset=0).  Exit 0 = the rows carry the expression."""
import sys, io, struct
sys.path.insert(0, sys.argv[1] if len(sys.argv) > 1 else '/repo')
from elftools.dwarf.callframe import CallFrameInfo, CIE, FDE
from elftools.dwarf.structs import DWARFStructs

def entry(body):
    body += b'\x00' * ((-(len(body) + 4)) % 4)
    return struct.pack('<I', len(body)) + body
cie = entry(struct.pack('<I', 0xffffffff) + bytes([3]) + b'\x00' + bytes([1, 0x7c, 14]) + bytes([0x0f, 2, 0x77, 0x08]))   # def_cfa_expression {breg7 8}
fde = entry(struct.pack('<I', 0) + struct.pack('<II', 0x1000, 0x20) + bytes([0x44]))                                         # advance_loc 4
data = cie + fde
structs = DWARFStructs(little_endian=True, dwarf_format=32, address_size=4)
cfi = CallFrameInfo(io.BytesIO(data), len(data), 0, structs)
es = cfi.get_entries()
c = [e for e in es if isinstance(e, CIE)][0]; f = [e for e in es if isinstance(e, FDE)][0]
ct = c.get_decoded().table; ft = f.get_decoded().table
print('CIE rows:', ct); print('FDE rows:', ft)
ok = len(ct) == 1 and ct[0]['cfa'].expr == [0x77, 0x08] and len(ft) == 2 and all(r['cfa'].expr == [0x77, 0x08] for r in ft)
sys.exit(0 if ok else 1)
