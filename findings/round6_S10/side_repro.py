#!/usr/bin/env python
# Side findings on the UNCHANGED tree (C19-adjacent: corrupted sizes/links in
# attribute and hash records cause unbounded loops).
# usage: side_repro.py <tree root>
import io, os, signal, struct, sys
sys.path.insert(0, sys.argv[1])
from elftools.elf.elffile import ELFFile

TF = os.path.join(sys.argv[1], 'test', 'testfiles_for_unittests')

class Timeout(Exception):
    pass
def on_alarm(s, f):
    raise Timeout()
signal.signal(signal.SIGALRM, on_alarm)

def bounded(fn, secs=5):
    signal.alarm(secs)
    try:
        fn()
        return 'returned'
    except Timeout:
        return 'TIMEOUT (still looping after %ds)' % secs
    except Exception as e:
        return 'raised %s' % type(e).__name__
    finally:
        signal.alarm(0)

rc = 0

# 1. build-attributes subsection with length field 0: _make_subsections never
#    advances (subsec_offset += 0), iter_subsections() yields the same
#    subsection forever; .subsections / .num_subsections never return.
data = bytearray(open(os.path.join(TF, 'simple_gcc.elf.arm'), 'rb').read())
elf = ELFFile(io.BytesIO(bytes(data)))
sec = elf.get_section_by_name('.ARM.attributes')
off = sec['sh_offset']
data[off + 1: off + 5] = b'\0\0\0\0'      # subsection length := 0
elf = ELFFile(io.BytesIO(bytes(data)))
sec = elf.get_section_by_name('.ARM.attributes')
n = [0]
def walk():
    for _ in sec.iter_subsections():
        n[0] += 1
r = bounded(walk)
print('1. ARM attributes, subsection length 0: iter_subsections() %s, %d subsections yielded from a %d-byte section'
      % (r, n[0], sec['sh_size']))
if r.startswith('TIMEOUT'):
    rc = 1

# 1b. same for a sub-subsection whose size field is 0 (_make_subsubsections)
data = bytearray(open(os.path.join(TF, 'simple_gcc.elf.arm'), 'rb').read())
elf = ELFFile(io.BytesIO(bytes(data)))
sec = elf.get_section_by_name('.ARM.attributes')
subsec = next(sec.iter_subsections())
so = subsec.subsubsec_start            # tag byte, then 4-byte size
data[so + 1: so + 5] = b'\0\0\0\0'
elf = ELFFile(io.BytesIO(bytes(data)))
sec = elf.get_section_by_name('.ARM.attributes')
subsec = next(sec.iter_subsections())
n = [0]
def walk2():
    for _ in subsec.iter_subsubsections():
        n[0] += 1
r = bounded(walk2)
print('1b. ARM attributes, sub-subsection size 0: iter_subsubsections() %s, %d yielded' % (r, n[0]))
if r.startswith('TIMEOUT'):
    rc = 1

# 2. SysV hash table whose chain links form a cycle: ELFHashTable.get_symbol()
#    follows chains[] until 0 and never ends for a name that is not found.
data = bytearray(open(os.path.join(TF, 'simple_mipsel.elf'), 'rb').read())
elf = ELFFile(io.BytesIO(bytes(data)))
h = elf.get_section_by_name('.hash')
nb, nc = h.params['nbuckets'], h.params['nchains']
base = h['sh_offset'] + 8
for i in range(nb):                     # every bucket -> symbol 1
    data[base + 4 * i: base + 4 * i + 4] = struct.pack('<I', 1)
c1 = base + 4 * nb + 4 * 1
data[c1: c1 + 4] = struct.pack('<I', 1)  # chains[1] = 1  (self link)
elf = ELFFile(io.BytesIO(bytes(data)))
h = elf.get_section_by_name('.hash')
r = bounded(lambda: h.get_symbol('no_such_symbol'))
print('2. SysV .hash with chains[1] == 1: get_symbol("no_such_symbol") %s' % r)
if r.startswith('TIMEOUT'):
    rc = 1

sys.exit(rc)
