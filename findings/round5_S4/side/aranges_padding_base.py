"""Side finding reproducer (UNCHANGED tree, lower confidence): ARanges pads the
set header to a multiple of the tuple size measured from the SECTION start,
whereas binutils (display_debug_aranges: excess = (hdrptr - start) % (2*address_size))
and LLVM (DWARFDebugArangeSet: alignTo(header_size, tuple_size)) measure from
the start of the SET.  They differ as soon as a set starts at a section offset
that is not a multiple of its own tuple size, e.g. an address_size-8 set after
an address_size-4 set with an even number of tuples (40 bytes)."""
import os, struct, sys
from io import BytesIO
sys.path.insert(0, os.path.join(os.path.dirname(os.path.abspath(__file__)), '..', '..'))
from elftools.dwarf.structs import DWARFStructs
from elftools.dwarf.aranges import ARanges

def aset(info_off, tuples, addr_size):
    """set encoded the binutils/LLVM way: padding relative to the set start"""
    fmt = '<QQ' if addr_size == 8 else '<II'
    body = struct.pack('<HIBB', 2, info_off, addr_size, 0)
    body += b'\0' * ((-(4 + len(body))) % (2 * addr_size))
    for t in tuples + [(0, 0)]:
        body += struct.pack(fmt, *t)
    return struct.pack('<I', len(body)) + body

s1 = aset(0x0, [(0x1000, 0x10), (0x2000, 0x10)], 4)      # 40 bytes
s2 = aset(0x40, [(0x400000, 0x100)], 8)                  # starts at section offset 40
blob = s1 + s2
print('set 1: %d bytes (address_size 4); set 2 starts at section offset %d (address_size 8, tuple size 16)' % (len(s1), len(s1)))
try:
    ar = ARanges(BytesIO(blob), len(blob), DWARFStructs(little_endian=True, dwarf_format=32, address_size=8))
except Exception as e:
    print('ARanges(...) raised %s: %s  (first tuple of set 2 searched at section offset 64 = set offset 24 instead of set offset 16)' % (type(e).__name__, e))
    sys.exit(1)
got = [(hex(e.begin_addr), hex(e.length), hex(e.info_offset)) for e in ar.entries]
want = [('0x1000', '0x10', '0x0'), ('0x2000', '0x10', '0x0'), ('0x400000', '0x100', '0x40')]
print('entries :', got)
print('expected:', want)
print('cu_offset_at_addr(0x400010) =', ar.cu_offset_at_addr(0x400010), '(expected 0x40 = 64)')
sys.exit(0 if got == want else 1)
