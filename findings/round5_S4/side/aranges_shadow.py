"""Side finding reproducer (UNCHANGED tree): ARanges.cu_offset_at_addr misses
addresses that are inside an encoded range when another tuple with a begin
address <= addr but not containing it sorts behind the containing tuple."""
import os, struct, sys
from io import BytesIO
sys.path.insert(0, os.path.join(os.path.dirname(os.path.abspath(__file__)), '..', '..'))
from elftools.dwarf.structs import DWARFStructs
from elftools.dwarf.aranges import ARanges

def aset(info_off, tuples, addr_size=8):
    fmt = '<QQ' if addr_size == 8 else '<II'
    body = struct.pack('<HIBB', 2, info_off, addr_size, 0)
    body += b'\0' * ((-(4 + len(body))) % (2 * addr_size))
    for t in tuples + [(0, 0)]:
        body += struct.pack(fmt, *t)
    return struct.pack('<I', len(body)) + body

structs = DWARFStructs(little_endian=True, dwarf_format=32, address_size=8)
rc = 0
cases = [
  ('zero-length tuple at the same begin address (unit 0x40) after a real range (unit 0x0)',
     aset(0x0, [(0x1000, 0x100)]) + aset(0x40, [(0x1000, 0)]), [(0x1000, 0x0), (0x1080, 0x0)]),
  ('small range of unit 0x40 nested inside the range of unit 0x0',
     aset(0x0, [(0x1000, 0x100)]) + aset(0x40, [(0x1010, 0x10)]), [(0x1008, 0x0), (0x1010, 0x40), (0x1050, 0x0)]),
  ('zero-length tuple in the middle of another unit\'s range',
     aset(0x0, [(0x1000, 0x100)]) + aset(0x40, [(0x1010, 0)]), [(0x1008, 0x0), (0x1010, 0x0), (0x1050, 0x0)]),
]
for title, blob, queries in cases:
    ar = ARanges(BytesIO(blob), len(blob), structs)
    print(title)
    print('   entries:', [(hex(e.begin_addr), hex(e.length), hex(e.info_offset)) for e in ar.entries])
    for addr, want in queries:
        got = ar.cu_offset_at_addr(addr)
        flag = 'ok' if got == want else 'MISS (an encoded range of unit %#x contains it)' % want
        if got != want: rc = 1
        print('   cu_offset_at_addr(%#x) = %s   %s' % (addr, None if got is None else hex(got), flag))
sys.exit(rc)
