# C09 side finding (UNCHANGED code): executables whose DT_GNU_HASH is the "empty" table written by older
# GNU ld (nbuckets=1, symoffset=1, buckets=[0]; all dynamic symbols are undefined imports and therefore
# not hashed): GNUHashTable.get_number_of_symbols() returns symoffset (1) although .dynsym holds more
# symbols.  DynamicSegment.num_symbols() prefers DT_GNU_HASH even when DT_HASH (nchain = true count) exists.
import sys, io, os, struct
HERE = os.path.dirname(os.path.abspath(__file__))
ROOT = os.path.normpath(os.path.join(HERE, '..', '..'))
sys.path.insert(0, ROOT)
from elftools.elf.elffile import ELFFile
from elftools.elf.dynamic import DynamicSegment
bad = 0
for name in ('sample_exe64.elf', 'aranges_complete.elf', 'dwarfv5_basic.elf', 'unicode_symbols.elf'):
    data = bytearray(open(os.path.join(ROOT, 'test/testfiles_for_unittests', name), 'rb').read())
    full = ELFFile(io.BytesIO(bytes(data)))
    dynsym = full.get_section_by_name('.dynsym')
    true = [s.name for s in dynsym.iter_symbols()]
    struct.pack_into('<Q', data, 0x28, 0); struct.pack_into('<HH', data, 0x3C, 0, 0)   # drop section headers
    seg = next(s for s in ELFFile(io.BytesIO(bytes(data))).iter_segments() if isinstance(s, DynamicSegment))
    tags = [t.entry.d_tag for t in seg.iter_tags()]
    got = [s.name for s in seg.iter_symbols()]
    print('%-22s DT_GNU_HASH=%s DT_HASH=%s true count=%d recovered=%d  true=%s recovered=%s'
          % (name, 'DT_GNU_HASH' in tags, 'DT_HASH' in tags, len(true), seg.num_symbols(), true, got))
    bad += got != true
sys.exit(1 if bad else 0)
