# C11 side finding (UNCHANGED code): legacy GNU compression leaves a section that does not shrink under its
# plain '.debug_*' name while the others become '.zdebug_*' (bfd_compress_section_contents keeps
# COMPRESS_SECTION_NONE when compressed_size >= uncompressed_size).  get_dwarf_info() renames ALL names to
# '.zdebug_*' as soon as '.zdebug_info' exists, so the uncompressed ones are not found.
import sys, io, os
sys.path.insert(0, os.path.dirname(os.path.abspath(__file__)))
from elfedit import *
d = open(os.path.join(ROOT, 'test/testfiles_for_unittests/dwarf_lineprog_data16.elf'), 'rb').read()
e0 = ELFFile(io.BytesIO(d))
print('plain sections:', [s.name for s in e0.iter_sections() if s.name.startswith('.debug')])
ref = dump(e0.get_dwarf_info())
allz = dump(ELFFile(io.BytesIO(to_zdebug(d))).get_dwarf_info())
print('all sections .zdebug_*            : same as plain =', allz == ref)
bad = 0
for keep in (('.debug_aranges',), ('.debug_str',), ('.debug_line_str',)):
    if e0.get_section_by_name(keep[0]) is None:
        continue
    ez = ELFFile(io.BytesIO(to_zdebug(d, keep=keep)))
    try:
        dw = ez.get_dwarf_info()
        got = dump(dw)
        extra = ''
        if keep[0] == '.debug_aranges':
            extra = ' ; get_aranges() plain=%s mixed=%s' % (
                e0.get_dwarf_info().get_aranges() is not None, dw.get_aranges() is not None)
            same = got == ref and dw.get_aranges() is not None
        else:
            same = got == ref
        msg = 'same as plain = %s%s' % (same, extra)
    except Exception as ex:
        same = False
        msg = 'raised %s: %s' % (type(ex).__name__, str(ex)[:80])
    bad += not same
    print('%-16s left uncompressed      : %s' % (keep[0], msg))
sys.exit(1 if bad else 0)
