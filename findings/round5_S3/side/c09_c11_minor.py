# Minor / borderline observations on the UNCHANGED code (see side_findings.txt items 5 and 9).
import sys, os
HERE = os.path.dirname(os.path.abspath(__file__))
ROOT = os.path.normpath(os.path.join(HERE, '..', '..'))
sys.path.insert(0, ROOT)
from elftools.elf.elffile import ELFFile
T = os.path.join(ROOT, 'test', 'testfiles_for_unittests')
d = ELFFile(open(os.path.join(T, 'lib_versioned64.so.1.elf'), 'rb')).get_section_by_name('.dynamic')
n = len(list(d.iter_tags()))
print('entries up to and including DT_NULL: %d (section holds %d slots)' % (n, d['sh_size'] // d['sh_entsize']))
print('get_tag(%d) before num_tags(): %s' % (n, d.get_tag(n).entry.d_tag))
d.num_tags()
try:
    d.get_tag(n); print('get_tag(%d) after num_tags(): returned' % n)
except IndexError as e:
    print('get_tag(%d) after  num_tags(): IndexError' % n)
loader = lambda fn: open(os.path.join(T.encode(), fn), 'rb')
m = ELFFile(open(os.path.join(T, 'debuglink'), 'rb'), stream_loader=loader)
own = list(m.get_dwarf_info(follow_links=False).EH_CFI_entries())
via = list(m.get_dwarf_info(follow_links=True).EH_CFI_entries())
print('.eh_frame of the stripped binary itself: %d entries %s' % (len(own), sorted({type(e).__name__ for e in own})))
print('.eh_frame seen after following debuglink: %d entries %s (NOBITS zeros of the .debug file)'
      % (len(via), sorted({type(e).__name__ for e in via})))
