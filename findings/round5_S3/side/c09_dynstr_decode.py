# C09 side finding (UNCHANGED code): the section view decodes dynamic strings with errors='replace'
# (StringTableSection.get_string) while the section-less view decodes strictly
# (_DynamicStringTable.get_string) -> for a name that is not valid UTF-8 the same image gives a string with
# U+FFFD through .dynamic/.dynsym but raises UnicodeDecodeError through PT_DYNAMIC without section headers.
import sys, io, os, struct
HERE = os.path.dirname(os.path.abspath(__file__))
ROOT = os.path.normpath(os.path.join(HERE, '..', '..'))
sys.path.insert(0, ROOT)
from elftools.elf.elffile import ELFFile
from elftools.elf.dynamic import DynamicSegment
data = bytearray(open(os.path.join(ROOT, 'test/testfiles_for_unittests/lib_versioned64.so.1.elf'), 'rb').read())
full = ELFFile(io.BytesIO(bytes(data)))
dyn = full.get_section_by_name('.dynamic')
dynstr = full.get_section(dyn['sh_link'])
needed = next(t for t in dyn.iter_tags('DT_NEEDED'))
pos = dynstr['sh_offset'] + needed.entry.d_val
print('original DT_NEEDED:', needed.needed)
data[pos + 3] = 0xE9        # e.g. a Latin-1 encoded e-acute inside the library name
full = ELFFile(io.BytesIO(bytes(data)))
sec_view = [t.needed for t in full.get_section_by_name('.dynamic').iter_tags('DT_NEEDED')]
print('section view   :', sec_view)
struct.pack_into('<Q', data, 0x28, 0); struct.pack_into('<HH', data, 0x3C, 0, 0)
seg = next(s for s in ELFFile(io.BytesIO(bytes(data))).iter_segments() if isinstance(s, DynamicSegment))
try:
    seg_view = [t.needed for t in seg.iter_tags('DT_NEEDED')]
    print('section-less   :', seg_view)
    sys.exit(0 if seg_view == sec_view else 1)
except UnicodeDecodeError as e:
    print('section-less   : raised UnicodeDecodeError:', e)
    sys.exit(1)
