# C11 side finding (UNCHANGED code): relocatable object + legacy .zdebug container.
# compressed_64.o (gABI) -> plain -> .zdebug re-encoding of the same payload; reloc sections named either
# '.rela.debug_info' (what GNU as/objcopy zlib-gnu emit) or '.rela.zdebug_info'.
import sys, io, os
sys.path.insert(0, os.path.dirname(os.path.abspath(__file__)))
from elfedit import *
d = open(os.path.join(ROOT, 'test/testfiles_for_unittests/compressed_64.o'), 'rb').read()
ref = dump(ELFFile(io.BytesIO(d)).get_dwarf_info())
plain = to_plain(d)
assert dump(ELFFile(io.BytesIO(plain)).get_dwarf_info()) == ref
bad = 0
for variant in (False, True):
    ez = ELFFile(io.BytesIO(to_zdebug(plain, rename_relocs=variant)))
    try:
        dz = dump(ez.get_dwarf_info())
        same = dz == ref
        msg = 'same=%s' % same
        if not same:
            a, b = next((a, b) for a, b in zip(ref, dz) if a != b)
            msg += '\n    gABI/plain: %s\n    .zdebug   : %s' % (a[2][:3], b[2][:3])
    except Exception as ex:
        same = False
        msg = 'raised %s: %s' % (type(ex).__name__, ex)
    bad += not same
    print('reloc sections renamed to .rela.zdebug_*=%s -> %s' % (variant, msg))
sys.exit(1 if bad else 0)
