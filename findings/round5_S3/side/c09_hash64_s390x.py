# C09 side finding (UNCHANGED code): on s390x (EM_S390, ELFCLASS64) and Alpha the SysV hash table (DT_HASH)
# uses 8-byte words (glibc: `typedef uint64_t Elf_Symndx` for alpha and s390-64; binutils readelf.c:
# "hash_ent_size = 8" for EM_ALPHA / EM_S390 when EI_CLASS == ELFCLASS64).  structs.Elf_Hash always uses
# 4-byte Elf_word, so nbuckets/nchains are read from the two halves of the 64-bit nbucket word and the
# symbol count recovered from a section-less s390x image is wrong.
# Synthesised image: ELF64 MSB EM_S390, one PT_LOAD (vaddr == offset), PT_DYNAMIC, 3 dynamic symbols.
import sys, io, os, struct
HERE = os.path.dirname(os.path.abspath(__file__))
ROOT = os.path.normpath(os.path.join(HERE, '..', '..'))
sys.path.insert(0, ROOT)
from elftools.elf.elffile import ELFFile
from elftools.elf.dynamic import DynamicSegment

HASH, SYMTAB, STRTAB, DYN = 176, 224, 296, 312
hash_ = struct.pack('>6Q', 1, 3, 1, 0, 2, 0)                 # nbucket=1 nchain=3 bucket[1] chain[3]
sym = lambda name, info: struct.pack('>IBBHQQ', name, info, 0, 0, 0, 0)
symtab = sym(0, 0) + sym(1, 0x12) + sym(5, 0x12)
strtab = b'\0foo\0bar\0'
dyn = b''.join(struct.pack('>qQ', t, v) for t, v in
               ((4, HASH), (5, STRTAB), (6, SYMTAB), (10, len(strtab)), (11, 24), (0, 0)))
END = DYN + len(dyn)
ehdr = (b'\x7fELF' + bytes([2, 2, 1, 0]) + b'\0' * 8 +
        struct.pack('>HHIQQQIHHHHHH', 3, 22, 1, 0, 64, 0, 0, 64, 56, 2, 64, 0, 0))
ph = lambda t, off, size: struct.pack('>IIQQQQQQ', t, 4, off, off, off, size, size, 8)
img = bytearray(ehdr + ph(1, 0, END) + ph(2, DYN, len(dyn)))
assert len(img) == HASH
img += hash_; assert len(img) == SYMTAB
img += symtab; assert len(img) == STRTAB
img += strtab; img += b'\0' * (DYN - len(img))
img += dyn

elf = ELFFile(io.BytesIO(bytes(img)))
print('machine=%s class=%d little_endian=%s sections=%d' % (elf['e_machine'], elf.elfclass,
      elf.little_endian, elf.num_sections()))
seg = next(s for s in elf.iter_segments() if isinstance(s, DynamicSegment))
n = seg.num_symbols()
names = [s.name for s in seg.iter_symbols()]
print('true symbol count = 3 (["", "foo", "bar"]); recovered = %d %s' % (n, names))
sys.exit(0 if names == ['', 'foo', 'bar'] else 1)
