# Minimal in-memory ELF section re-encoder used by the side-finding reproducers.
import io, struct, zlib, os, sys
HERE = os.path.dirname(os.path.abspath(__file__))
ROOT = os.path.normpath(os.path.join(HERE, '..', '..'))
sys.path.insert(0, ROOT)
from elftools.elf.elffile import ELFFile

SHF_COMPRESSED = 0x800
_F64 = dict(sh_name=(0, 'I'), sh_type=(4, 'I'), sh_flags=(8, 'Q'), sh_addr=(16, 'Q'),
            sh_offset=(24, 'Q'), sh_size=(32, 'Q'), sh_link=(40, 'I'), sh_info=(44, 'I'),
            sh_addralign=(48, 'Q'), sh_entsize=(56, 'Q'))
_F32 = dict(sh_name=(0, 'I'), sh_type=(4, 'I'), sh_flags=(8, 'I'), sh_addr=(12, 'I'),
            sh_offset=(16, 'I'), sh_size=(20, 'I'), sh_link=(24, 'I'), sh_info=(28, 'I'),
            sh_addralign=(32, 'I'), sh_entsize=(36, 'I'))


class Image:
    def __init__(self, data):
        self.b = bytearray(data)
        self.elf = ELFFile(io.BytesIO(bytes(data)))
        self.e = '<' if self.elf.little_endian else '>'
        self.F = _F64 if self.elf.elfclass == 64 else _F32

    def sections(self):
        return list(enumerate(self.elf.iter_sections()))

    def patch(self, idx, **kw):
        base = self.elf['e_shoff'] + idx * self.elf['e_shentsize']
        for k, v in kw.items():
            off, fmt = self.F[k]
            struct.pack_into(self.e + fmt, self.b, base + off, v)

    def append(self, payload, align=8):
        while len(self.b) % align:
            self.b.append(0)
        off = len(self.b)
        self.b += payload
        return off

    def rename(self, mapping):
        """ mapping: section index -> new name """
        shstrndx = self.elf['e_shstrndx']
        strsec = self.elf.get_section(shstrndx)
        tab = bytearray(strsec.data())
        for idx, name in mapping.items():
            self.patch(idx, sh_name=len(tab))
            tab += name.encode() + b'\0'
        off = self.append(bytes(tab), 1)
        self.patch(shstrndx, sh_offset=off, sh_size=len(tab))

    def bytes(self):
        return bytes(self.b)


def to_plain(data):
    """ gABI-compressed sections -> plain sections (same names). """
    im = Image(data)
    for idx, sec in im.sections():
        if sec['sh_flags'] & SHF_COMPRESSED:
            raw = sec.data()
            off = im.append(raw)
            im.patch(idx, sh_offset=off, sh_size=len(raw),
                     sh_flags=sec['sh_flags'] & ~SHF_COMPRESSED,
                     sh_addralign=sec.data_alignment)
    return im.bytes()


def to_zdebug(data, keep=(), rename_relocs=False, level=6):
    """ plain .debug_* sections -> legacy GNU .zdebug_* ('ZLIB' + BE64 size + zlib).
        Sections named in `keep` stay uncompressed under their .debug_ name
        (that is what ld/gold/as do when compression does not shrink a section).
    """
    im = Image(data)
    names = {}
    for idx, sec in im.sections():
        if sec.name.startswith('.debug_') and sec.name not in keep:
            assert not sec['sh_flags'] & SHF_COMPRESSED
            raw = sec.data()
            payload = b'ZLIB' + struct.pack('>Q', len(raw)) + zlib.compress(raw, level)
            off = im.append(payload)
            im.patch(idx, sh_offset=off, sh_size=len(payload))
            names[idx] = '.z' + sec.name[1:]
        elif rename_relocs and sec.name.startswith(('.rela.debug_', '.rel.debug_')) \
                and sec.name[sec.name.index('.debug_'):] not in keep:
            i = sec.name.index('.debug_')
            names[idx] = sec.name[:i] + '.z' + sec.name[i + 1:]
    im.rename(names)
    return im.bytes()


def dump(dwarf):
    out = []
    for cu in dwarf.iter_CUs():
        out.append(('CU', cu.cu_offset, cu['version'], cu['unit_length']))
        for die in cu.iter_DIEs():
            out.append((die.offset, die.tag,
                        tuple((k, a.form, repr(a.value)) for k, a in die.attributes.items())))
        lp = dwarf.line_program_for_CU(cu)
        if lp is not None:
            for e in lp.get_entries():
                st = e.state
                out.append(('LINE', e.command, None if st is None else
                            (st.address, st.file, st.line, st.column, st.is_stmt, st.end_sequence)))
    return out
