"""C19: enumeration must terminate in time bounded by a small multiple of the file size.
A 128-byte file: e_phoff = 0, e_phentsize = 0, e_phnum = PN_XNUM (0xffff), section 0 has sh_info = 0xffffffff.
_segment_offset skips the entry-size guard when e_phoff == 0, so iter_segments parses the bytes at offset 0 as a program
header 2^32 times (no end-of-stream error can stop it: the position never moves).
usage: demo.py <repo>   exit 0 = enumeration of the 128-byte file ends within the iteration budget, 1 = still running"""
import sys, io, struct, itertools
sys.path.insert(0, sys.argv[1] if len(sys.argv) > 1 else '/repo')
from elftools.elf.elffile import ELFFile
from elftools.common.exceptions import ELFError
ident = b'\x7fELF' + bytes([2, 1, 1]) + b'\0' * 9
#                                        type mach ver entry phoff shoff flags ehsize phentsz phnum  shentsz shnum shstrndx
hdr = struct.pack('<16sHHIQQQIHHHHHH', ident, 2, 62, 1, 0, 0, 64, 0, 64, 0, 0xffff, 64, 1, 0)
shdr = struct.pack('<IIQQQQIIQQ', 0, 0, 0, 0, 0, 0, 0, 0xffffffff, 0, 0)
data = hdr + shdr
BUDGET = 100 * len(data)
ef = ELFFile(io.BytesIO(data))
n = 0
try:
    print('num_segments() =', ef.num_segments(), 'for a %d-byte file' % len(data))
    for seg in ef.iter_segments():
        n += 1
        if n > BUDGET:
            print('C19 violated: iter_segments yielded more than %d segments (100 x file size) and is still going' % BUDGET)
            sys.exit(1)
    print('iter_segments ended after %d segments' % n)
except ELFError as e:
    print('iter_segments raised ELFError after %d segments: %s' % (n, e))
sys.exit(0)
