#!/usr/bin/env python
# Reproducer for out/side_findings.txt; run on the UNCHANGED tree:
#   python side_findings_repro.py <tree root>
import io
import struct
import sys

sys.path.insert(0, sys.argv[1])
from elftools.common.exceptions import ELFParseError     # noqa: E402
from elftools.common.utils import struct_parse           # noqa: E402
from elftools.dwarf.structs import DWARFStructs          # noqa: E402
from elftools.elf.constants import SH_FLAGS              # noqa: E402
from elftools.elf.segments import Segment                # noqa: E402

print('--- 1. initial length 0xffffff00 .. 0xffffffef (C16)')
structs = DWARFStructs(little_endian=True, dwarf_format=32, address_size=8,
                       dwarf_version=4)
for word in (0xfffffeff, 0xffffff00, 0xffffffef, 0xfffffff0):
    stream = io.BytesIO(struct.pack('<I', word) + b'\0' * 8)
    try:
        res = '%#x' % struct_parse(structs.Dwarf_initial_length(''), stream)
    except ELFParseError as exc:
        res = 'rejected (%s)' % exc
    print('  first word %#x -> %s' % (word, res))
print('  DWARF 3/4/5 sec. 7.4 reserve only 0xfffffff0..0xfffffffe; '
      '0xffffff00..0xffffffef are ordinary 32-bit lengths')

print('--- 2./3. section_in_segment vs ELF_SECTION_IN_SEGMENT_STRICT (C02)')
A, W, T = SH_FLAGS.SHF_ALLOC, SH_FLAGS.SHF_WRITE, SH_FLAGS.SHF_TLS
load = Segment(dict(p_type='PT_LOAD', p_offset=0x1000, p_vaddr=0x401000,
                    p_filesz=0x100, p_memsz=0x100), None)
tbss = dict(sh_type='SHT_NOBITS', sh_flags=A | W | T, sh_addr=0x4010f0,
            sh_offset=0x10f0, sh_size=0x40)
print('  .tbss (TLS NOBITS, addr 0x4010f0 size 0x40) in PT_LOAD '
      '[0x401000,+0x100): pyelftools %s; the binutils macro uses '
      'ELF_SECTION_SIZE()==0 for it -> True'
      % load.section_in_segment(tbss))
dyn = Segment(dict(p_type='PT_DYNAMIC', p_offset=0x2000, p_vaddr=0x402000,
                   p_filesz=0x100, p_memsz=0x100), None)
empty = dict(sh_type='SHT_PROGBITS', sh_flags=A | W, sh_addr=0x402000,
             sh_offset=0x2000, sh_size=0)
print('  empty alloc section at the very start of PT_DYNAMIC: pyelftools %s; '
      'the binutils macro ("No zero size sections at start or end of '
      'PT_DYNAMIC nor PT_NOTE") -> False' % dyn.section_in_segment(empty))
