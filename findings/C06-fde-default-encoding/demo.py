"""C06: an .eh_frame CIE whose augmentation has no 'R' ("zS" here; also "", "zL", "zP") has FDEs with absolute pointers
(DW_EH_PE_absptr is the default).  _parse_fde_header subscripted augmentation_dict['FDE_encoding'] -> KeyError.  Exit 0 = decoded."""
import sys, io, struct
sys.path.insert(0, sys.argv[1] if len(sys.argv) > 1 else '/repo')
from elftools.dwarf.callframe import CallFrameInfo, CIE, FDE, ZERO
from elftools.dwarf.structs import DWARFStructs

def entry(body):
    return struct.pack('<I', len(body)) + body
cie_body = struct.pack('<I', 0) + bytes([1]) + b'zS\x00' + bytes([1, 0x78, 16]) + bytes([0])          # id, version, aug, caf, daf(-8), ra, aug len 0
cie_body += bytes([0x0c, 7, 8]) + b'\x00' * ((-(len(cie_body) + 3 + 4)) % 8)
cie = entry(cie_body)
fde_body = struct.pack('<I', len(cie) + 4) + struct.pack('<QQ', 0x401000, 0x40) + bytes([0]) + bytes([0x41, 0x0e, 16])
fde_body += b'\x00' * ((-(len(fde_body) + 4)) % 8)
data = cie + entry(fde_body) + struct.pack('<I', 0)
structs = DWARFStructs(little_endian=True, dwarf_format=32, address_size=8)
cfi = CallFrameInfo(io.BytesIO(data), len(data), 0x500000, structs, for_eh_frame=True)
try:
    es = cfi.get_entries()
except Exception as e:
    print('get_entries() raised %s: %s' % (type(e).__name__, e)); sys.exit(1)
f = [e for e in es if isinstance(e, FDE)][0]
print('FDE initial_location=%#x address_range=%#x' % (f['initial_location'], f['address_range']))
sys.exit(0 if (f['initial_location'], f['address_range']) == (0x401000, 0x40) else 1)
