#!/usr/bin/env python
# UNCHANGED code, property C08.  Object built with
#   gcc -g -gdwarf-4 -fdebug-types-section -c t.cpp -o t4.o
# has two COMDAT .debug_types sections (#7, #9), each with its own
# .rela.debug_types (#8 sh_info=7, #10 sh_info=9).
# get_dwarf_info() loads the LAST .debug_types (name map: last wins) but
# find_relocations_for_section() returns the FIRST .rela.debug_types (name
# match, sh_info ignored) -> relocations of section #7 are applied to the
# bytes of section #9.
# usage: repro_multi_debug_types.py <tree root>     exit 1 = violation seen
import sys, os, struct
sys.path.insert(0, sys.argv[1])
from elftools.elf.elffile import ELFFile
here = os.path.dirname(os.path.abspath(__file__))
e = ELFFile(open(os.path.join(here, 't4.o'), 'rb'))
secs = list(e.iter_sections())
got = e.get_dwarf_info(relocate_dwarf_sections=True).debug_types_sec.stream.getvalue()
bad = True
for idx, s in enumerate(secs):
    if s.name != '.debug_types':
        continue
    # what the psABI demands for THIS section: apply the reloc section whose sh_info == idx
    want = bytearray(s.data())
    rel = [r for r in secs if r.name == '.rela.debug_types' and r['sh_info'] == idx][0]
    symtab = e.get_section(rel['sh_link'])
    for r in rel.iter_relocations():
        assert r['r_info_type'] == 10  # R_X86_64_32
        S = symtab.get_symbol(r['r_info_sym'])['st_value']
        struct.pack_into('<I', want, r['r_offset'], (S + r['r_addend']) & 0xffffffff)
    same = bytes(want) == got
    print('section #%d .debug_types correctly relocated == loaded stream: %s' % (idx, same))
    if same:
        bad = False
    elif len(want) == len(got):
        print('   differing offsets:', [i for i in range(len(got)) if want[i] != got[i]])
print('VIOLATION: loaded .debug_types matches no correctly relocated section' if bad else 'OK')
sys.exit(1 if bad else 0)
