#!/usr/bin/env python
# UNCHANGED code, property C08.  Object built with
#   gcc -g -c t.cpp -Wa,--compress-debug-sections=zlib-gnu -o tz.o
# has .zdebug_info + .rela.zdebug_info etc.  ELFFile._read_dwarf_section()
# applies the relocations to the still-compressed bytes ("ZLIB"+size+deflate
# stream) and get_dwarf_info() decompresses only afterwards.  r_offset refers
# to the UNcompressed contents, so either the read runs past the compressed
# data (ELFParseError, seen here) or the deflate stream is silently patched.
# usage: repro_zdebug_reloc.py <tree root>     exit 1 = violation seen
import sys, os
sys.path.insert(0, sys.argv[1])
from elftools.elf.elffile import ELFFile
here = os.path.dirname(os.path.abspath(__file__))
e = ELFFile(open(os.path.join(here, 'tz.o'), 'rb'))
print('relocate_dwarf_sections=False:',
      len(e.get_dwarf_info(relocate_dwarf_sections=False).debug_info_sec.stream.getvalue()),
      'bytes of .debug_info')
try:
    di = e.get_dwarf_info(relocate_dwarf_sections=True)
    print('relocate_dwarf_sections=True : loaded', len(di.debug_info_sec.stream.getvalue()), 'bytes')
    sys.exit(0)
except Exception as ex:
    print('relocate_dwarf_sections=True : %s: %s' % (type(ex).__name__, ex))
    print('VIOLATION: valid relocatable object, supported relocation types only, '
          'yet the debug sections cannot be loaded with relocation enabled')
    sys.exit(1)
