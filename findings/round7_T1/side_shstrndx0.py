#!/usr/bin/env python
# Side finding reproducer (UNCHANGED code): e_shstrndx == SHN_UNDEF (0) means
# "the file has no section name string table" (gABI, ELF header), yet the
# library takes section #0 (the NULL section, sh_offset 0) as the string table
# and reports the bytes at file offset sh_name -- i.e. the ELF magic -- as the
# name of every section.
import sys, struct, io
sys.path.insert(0, sys.argv[1])
from elftools.elf.elffile import ELFFile
ident = b'\x7fELF\x02\x01\x01' + b'\0' * 9
shoff = 64
hdr = struct.pack('<HHIQQQIHHHHHH', 1, 62, 1, 0, 0, shoff, 0, 64, 0, 0, 64, 2, 0)
null = b'\0' * 64
# one SHT_PROGBITS section, sh_name = 0, 4 bytes of data at 0xc0
prog = struct.pack('<IIQQQQIIQQ', 0, 1, 2, 0, 0xc0, 4, 0, 0, 1, 0)
blob = ident + hdr + null + prog + b'\xde\xad\xbe\xef'
ef = ELFFile(io.BytesIO(blob))
names = [s.name for s in ef.iter_sections()]
print('e_shstrndx = 0 (no name table); names reported:', names)
print("expected: ['', ''] (no names are encoded)")
sys.exit(1 if any(names) else 0)
