#!/usr/bin/env python
# Side finding (UNCHANGED code, C10): LineProgram.get_entries() appends the
# operand of every DW_LNE_define_file to lineprogram.header['file_entry'] as a
# side effect of decoding, so the public header query
# lineprog['file_entry'] / lineprog.header.file_entry gives a different answer
# before and after get_entries() has been called on the same object.
# usage: side_define_file.py <tree root>; exit 1 when the dependence is seen.
import sys, struct
from io import BytesIO
sys.path.insert(0, sys.argv[1])
from elftools.dwarf.structs import DWARFStructs
from elftools.dwarf.lineprogram import LineProgram
from elftools.common.utils import struct_parse

st = DWARFStructs(little_endian=True, dwarf_format=32, address_size=4, dwarf_version=3)
std_lens = bytes([0, 1, 1, 1, 1, 0, 0, 0, 1, 0, 0, 1])
after_hl = (bytes([1, 1, 0xfb, 14, 13]) + std_lens +
            b'\x00' +                    # no include dirs
            b'a.c\x00\x00\x00\x00' +     # one file
            b'\x00')
fname = b'b.c\x00\x01\x02\x03'
program = (b'\x00' + bytes([1 + len(fname)]) + b'\x03' + fname +   # DW_LNE_define_file
           b'\x00\x01\x01')                                        # DW_LNE_end_sequence
body = struct.pack('<H', 3) + struct.pack('<I', len(after_hl)) + after_hl + program
blob = struct.pack('<I', len(body)) + body
stream = BytesIO(blob)
hdr = struct_parse(st.Dwarf_lineprog_header, stream, 0)
lp = LineProgram(hdr, stream, st, stream.tell(), len(blob))
before = [bytes(e.name) for e in lp['file_entry']]
lp.get_entries()
after = [bytes(e.name) for e in lp['file_entry']]
print('file_entry before get_entries():', before)
print('file_entry after  get_entries():', after)
sys.exit(1 if before != after else 0)
