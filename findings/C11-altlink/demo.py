"""C11: in a file whose debug sections use the legacy GNU '.zdebug_*' compression, get_dwarf_info renames ALL its section names
with '.z' + name[1:], so '.gnu_debugaltlink' (which GNU tools never rename) is looked up as '.zgnu_debugaltlink' and the
supplementary-file link is lost, while the same data stored plainly keeps it.  Exit 0 = link visible in both containers."""
import io, struct, sys, zlib
sys.path.insert(0, '/verif/tools')
sys.path.insert(0, sys.argv[1] if len(sys.argv) > 1 else '/repo')
import mkelf
from elftools.elf.elffile import ELFFile
abbrev = bytes([1, 0x11, 0, 0x03, 0x08, 0, 0, 0])                       # code 1: compile_unit, DW_AT_name string
die = bytes([1]) + b'x.c\0'
body = struct.pack('<HIB', 4, 0, 8) + die
info = struct.pack('<I', len(body)) + body
altlink = b'sup.debug\0' + bytes(range(20))
def z(b): return b'ZLIB' + struct.pack('>Q', len(b)) + zlib.compress(b)
plain, _ = mkelf.build([dict(name='.debug_info', type=1, data=info), dict(name='.debug_abbrev', type=1, data=abbrev),
                        dict(name='.gnu_debugaltlink', type=1, data=altlink)])
legacy, _ = mkelf.build([dict(name='.zdebug_info', type=1, data=z(info)), dict(name='.zdebug_abbrev', type=1, data=z(abbrev)),
                         dict(name='.gnu_debugaltlink', type=1, data=altlink)])
res = []
for label, img in (('plain', plain), ('.zdebug', legacy)):
    di = ELFFile(io.BytesIO(img)).get_dwarf_info(follow_links=False)
    name = next(di.iter_CUs()).get_top_DIE().attributes['DW_AT_name'].value
    res.append((label, name, di.parse_debugsupinfo()))
    print(res[-1])
sys.exit(0 if res[0][1:] == res[1][1:] == (b'x.c', b'sup.debug') else 1)
