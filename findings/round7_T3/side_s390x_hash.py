#!/usr/bin/env python
# Side finding (unchanged code): SysV .hash sections of 64-bit s390x (and
# Alpha) objects use 8-byte entries (sh_entsize == 8; binutils elf64-s390.c
# "s390_elf64_size_info", readelf: hash_ent_size = 8 for EM_S390/EM_ALPHA
# ELFCLASS64).  ELFStructs.Elf_Hash always uses 4-byte Elf_word entries, so
# such a table is mis-parsed: wrong nbuckets/nchains, lookups fail.
import io, os, struct, sys
root = os.path.abspath(sys.argv[1]); sys.path.insert(0, root)
from elftools.elf.elffile import ELFFile
from elftools.elf.hash import ELFHashTable

E = '>'
names = ['alpha', 'bravo', 'charlie']
dynstr = b'\0'; noff = []
for n in names:
    noff.append(len(dynstr)); dynstr += n.encode() + b'\0'
dynsym = b'\0' * 24
for i, n in enumerate(names):
    dynsym += struct.pack(E + 'IBBHQQ', noff[i], 0x12, 0, 1, 0x1000 + 16 * i, 16)
nbucket, nchain = 3, 4
buckets = [0] * nbucket; chains = [0] * nchain
for i, n in enumerate(names, 1):
    b = ELFHashTable.elf_hash(n) % nbucket
    chains[i] = buckets[b]; buckets[b] = i
hsh = struct.pack(E + 'QQ', nbucket, nchain) + \
    b''.join(struct.pack(E + 'Q', v) for v in buckets + chains)
shstr = b'\0.dynsym\0.dynstr\0.hash\0.shstrtab\0'
so = lambda n: shstr.index(b'\0' + n.encode() + b'\0') + 1
blobs = [dynsym, dynstr, hsh, shstr]
off = 64; offs = []
for b in blobs:
    off = (off + 7) & ~7; offs.append(off); off += len(b)
shoff = (off + 7) & ~7
def sh(name, typ, flags, offset, size, link, info, align, entsize):
    return struct.pack(E + 'IIQQQQIIQQ', name, typ, flags, 0, offset, size, link, info, align, entsize)
shdrs = sh(0, 0, 0, 0, 0, 0, 0, 0, 0)
shdrs += sh(so('.dynsym'), 11, 2, offs[0], len(dynsym), 2, 1, 8, 24)
shdrs += sh(so('.dynstr'), 3, 2, offs[1], len(dynstr), 0, 0, 1, 0)
shdrs += sh(so('.hash'), 5, 2, offs[2], len(hsh), 1, 0, 8, 8)
shdrs += sh(so('.shstrtab'), 3, 0, offs[3], len(shstr), 0, 0, 1, 0)
ident = b'\x7fELF' + bytes(bytearray([2, 2, 1, 0])) + b'\0' * 8
ehdr = ident + struct.pack(E + 'HHIQQQIHHHHHH', 3, 22, 1, 0, 0, shoff, 0, 64, 0, 0, 64, 5, 4)
img = bytearray(shoff) + shdrs; img[0:64] = ehdr
for o, b in zip(offs, blobs):
    img[o:o + len(b)] = b
elf = ELFFile(io.BytesIO(bytes(img)))
h = elf.get_section_by_name('.hash')
true_len = elf.get_section_by_name('.dynsym').num_symbols()
print('machine', elf['e_machine'], 'sh_entsize', h['sh_entsize'])
print('parsed nbuckets=%d nchains=%d (encoded: %d, %d)' % (h.params['nbuckets'], h.params['nchains'], nbucket, nchain))
print('get_number_of_symbols() =', h.get_number_of_symbols(), ' true length =', true_len)
found = [h.get_symbol(n) is not None for n in names]
print('lookups of present names found:', found)
sys.exit(1 if (h.get_number_of_symbols() != true_len or not all(found)) else 0)
