//===- llvm/BinaryFormat/ELF.h - ELF constants and structures ---*- C++ -*-===//
//
// Part of the LLVM Project, under the Apache License v2.0 with LLVM Exceptions.
// See https://llvm.org/LICENSE.txt for license information.
// SPDX-License-Identifier: Apache-2.0 WITH LLVM-exception
//
//===----------------------------------------------------------------------===//
//
// This header contains common, non-processor-specific data structures and
// constants for the ELF file format.
//
// The details of the ELF32 bits in this file are largely based on the Tool
// Interface Standard (TIS) Executable and Linking Format (ELF) Specification
// Version 1.2, May 1995. The ELF64 stuff is based on ELF-64 Object File Format
// Version 1.5, Draft 2, May 1998 as well as OpenBSD header files.
//
//===----------------------------------------------------------------------===//

#ifndef LLVM_BINARYFORMAT_ELF_H
#define LLVM_BINARYFORMAT_ELF_H

#include "llvm/ADT/StringRef.h"
#include <cstdint>
#include <cstring>

namespace llvm {
namespace ELF {

using Elf32_Addr = uint32_t; // Program address
using Elf32_Off = uint32_t;  // File offset
using Elf32_Half = uint16_t;
using Elf32_Word = uint32_t;
using Elf32_Sword = int32_t;

using Elf64_Addr = uint64_t;
using Elf64_Off = uint64_t;
using Elf64_Half = uint16_t;
using Elf64_Word = uint32_t;
using Elf64_Sword = int32_t;
using Elf64_Xword = uint64_t;
using Elf64_Sxword = int64_t;

// Object file magic string.
static const char ElfMagic[] = {0x7f, 'E', 'L', 'F', '\0'};

// e_ident size and indices.
enum {
  EI_MAG0 = 0,       // File identification index.
  EI_MAG1 = 1,       // File identification index.
  EI_MAG2 = 2,       // File identification index.
  EI_MAG3 = 3,       // File identification index.
  EI_CLASS = 4,      // File class.
  EI_DATA = 5,       // Data encoding.
  EI_VERSION = 6,    // File version.
  EI_OSABI = 7,      // OS/ABI identification.
  EI_ABIVERSION = 8, // ABI version.
  EI_PAD = 9,        // Start of padding bytes.
  EI_NIDENT = 16     // Number of bytes in e_ident.
};

struct Elf32_Ehdr {
  unsigned char e_ident[EI_NIDENT]; // ELF Identification bytes
  Elf32_Half e_type;                // Type of file (see ET_* below)
  Elf32_Half e_machine;   // Required architecture for this file (see EM_*)
  Elf32_Word e_version;   // Must be equal to 1
  Elf32_Addr e_entry;     // Address to jump to in order to start program
  Elf32_Off e_phoff;      // Program header table's file offset, in bytes
  Elf32_Off e_shoff;      // Section header table's file offset, in bytes
  Elf32_Word e_flags;     // Processor-specific flags
  Elf32_Half e_ehsize;    // Size of ELF header, in bytes
  Elf32_Half e_phentsize; // Size of an entry in the program header table
  Elf32_Half e_phnum;     // Number of entries in the program header table
  Elf32_Half e_shentsize; // Size of an entry in the section header table
  Elf32_Half e_shnum;     // Number of entries in the section header table
  Elf32_Half e_shstrndx;  // Sect hdr table index of sect name string table

  bool checkMagic() const {
    return (memcmp(e_ident, ElfMagic, strlen(ElfMagic))) == 0;
  }

  unsigned char getFileClass() const { return e_ident[EI_CLASS]; }
  unsigned char getDataEncoding() const { return e_ident[EI_DATA]; }
};

// 64-bit ELF header. Fields are the same as for ELF32, but with different
// types (see above).
struct Elf64_Ehdr {
  unsigned char e_ident[EI_NIDENT];
  Elf64_Half e_type;
  Elf64_Half e_machine;
  Elf64_Word e_version;
  Elf64_Addr e_entry;
  Elf64_Off e_phoff;
  Elf64_Off e_shoff;
  Elf64_Word e_flags;
  Elf64_Half e_ehsize;
  Elf64_Half e_phentsize;
  Elf64_Half e_phnum;
  Elf64_Half e_shentsize;
  Elf64_Half e_shnum;
  Elf64_Half e_shstrndx;

  bool checkMagic() const {
    return (memcmp(e_ident, ElfMagic, strlen(ElfMagic))) == 0;
  }

  unsigned char getFileClass() const { return e_ident[EI_CLASS]; }
  unsigned char getDataEncoding() const { return e_ident[EI_DATA]; }
};

// File types.
// See current registered ELF types at:
//    http://www.sco.com/developers/gabi/latest/ch4.eheader.html
enum {
  ET_NONE = 0,        // No file type
  ET_REL = 1,         // Relocatable file
  ET_EXEC = 2,        // Executable file
  ET_DYN = 3,         // Shared object file
  ET_CORE = 4,        // Core file
  ET_LOOS = 0xfe00,   // Beginning of operating system-specific codes
  ET_HIOS = 0xfeff,   // Operating system-specific
  ET_LOPROC = 0xff00, // Beginning of processor-specific codes
  ET_HIPROC = 0xffff  // Processor-specific
};

// Versioning
enum { EV_NONE = 0, EV_CURRENT = 1 };

// Machine architectures
// See current registered ELF machine architectures at:
//    http://www.uxsglobal.com/developers/gabi/latest/ch4.eheader.html
enum {
  EM_NONE = 0,           // No machine
  EM_M32 = 1,            // AT&T WE 32100
  EM_SPARC = 2,          // SPARC
  EM_386 = 3,            // Intel 386
  EM_68K = 4,            // Motorola 68000
  EM_88K = 5,            // Motorola 88000
  EM_IAMCU = 6,          // Intel MCU
  EM_860 = 7,            // Intel 80860
  EM_MIPS = 8,           // MIPS R3000
  EM_S370 = 9,           // IBM System/370
  EM_MIPS_RS3_LE = 10,   // MIPS RS3000 Little-endian
  EM_PARISC = 15,        // Hewlett-Packard PA-RISC
  EM_VPP500 = 17,        // Fujitsu VPP500
  EM_SPARC32PLUS = 18,   // Enhanced instruction set SPARC
  EM_960 = 19,           // Intel 80960
  EM_PPC = 20,           // PowerPC
  EM_PPC64 = 21,         // PowerPC64
  EM_S390 = 22,          // IBM System/390
  EM_SPU = 23,           // IBM SPU/SPC
  EM_V800 = 36,          // NEC V800
  EM_FR20 = 37,          // Fujitsu FR20
  EM_RH32 = 38,          // TRW RH-32
  EM_RCE = 39,           // Motorola RCE
  EM_ARM = 40,           // ARM
  EM_ALPHA = 41,         // DEC Alpha
  EM_SH = 42,            // Hitachi SH
  EM_SPARCV9 = 43,       // SPARC V9
  EM_TRICORE = 44,       // Siemens TriCore
  EM_ARC = 45,           // Argonaut RISC Core
  EM_H8_300 = 46,        // Hitachi H8/300
  EM_H8_300H = 47,       // Hitachi H8/300H
  EM_H8S = 48,           // Hitachi H8S
  EM_H8_500 = 49,        // Hitachi H8/500
  EM_IA_64 = 50,         // Intel IA-64 processor architecture
  EM_MIPS_X = 51,        // Stanford MIPS-X
  EM_COLDFIRE = 52,      // Motorola ColdFire
  EM_68HC12 = 53,        // Motorola M68HC12
  EM_MMA = 54,           // Fujitsu MMA Multimedia Accelerator
  EM_PCP = 55,           // Siemens PCP
  EM_NCPU = 56,          // Sony nCPU embedded RISC processor
  EM_NDR1 = 57,          // Denso NDR1 microprocessor
  EM_STARCORE = 58,      // Motorola Star*Core processor
  EM_ME16 = 59,          // Toyota ME16 processor
  EM_ST100 = 60,         // STMicroelectronics ST100 processor
  EM_TINYJ = 61,         // Advanced Logic Corp. TinyJ embedded processor family
  EM_X86_64 = 62,        // AMD x86-64 architecture
  EM_PDSP = 63,          // Sony DSP Processor
  EM_PDP10 = 64,         // Digital Equipment Corp. PDP-10
  EM_PDP11 = 65,         // Digital Equipment Corp. PDP-11
  EM_FX66 = 66,          // Siemens FX66 microcontroller
  EM_ST9PLUS = 67,       // STMicroelectronics ST9+ 8/16 bit microcontroller
  EM_ST7 = 68,           // STMicroelectronics ST7 8-bit microcontroller
  EM_68HC16 = 69,        // Motorola MC68HC16 Microcontroller
  EM_68HC11 = 70,        // Motorola MC68HC11 Microcontroller
  EM_68HC08 = 71,        // Motorola MC68HC08 Microcontroller
  EM_68HC05 = 72,        // Motorola MC68HC05 Microcontroller
  EM_SVX = 73,           // Silicon Graphics SVx
  EM_ST19 = 74,          // STMicroelectronics ST19 8-bit microcontroller
  EM_VAX = 75,           // Digital VAX
  EM_CRIS = 76,          // Axis Communications 32-bit embedded processor
  EM_JAVELIN = 77,       // Infineon Technologies 32-bit embedded processor
  EM_FIREPATH = 78,      // Element 14 64-bit DSP Processor
  EM_ZSP = 79,           // LSI Logic 16-bit DSP Processor
  EM_MMIX = 80,          // Donald Knuth's educational 64-bit processor
  EM_HUANY = 81,         // Harvard University machine-independent object files
  EM_PRISM = 82,         // SiTera Prism
  EM_AVR = 83,           // Atmel AVR 8-bit microcontroller
  EM_FR30 = 84,          // Fujitsu FR30
  EM_D10V = 85,          // Mitsubishi D10V
  EM_D30V = 86,          // Mitsubishi D30V
  EM_V850 = 87,          // NEC v850
  EM_M32R = 88,          // Mitsubishi M32R
  EM_MN10300 = 89,       // Matsushita MN10300
  EM_MN10200 = 90,       // Matsushita MN10200
  EM_PJ = 91,            // picoJava
  EM_OPENRISC = 92,      // OpenRISC 32-bit embedded processor
  EM_ARC_COMPACT = 93,   // ARC International ARCompact processor (old
                         // spelling/synonym: EM_ARC_A5)
  EM_XTENSA = 94,        // Tensilica Xtensa Architecture
  EM_VIDEOCORE = 95,     // Alphamosaic VideoCore processor
  EM_TMM_GPP = 96,       // Thompson Multimedia General Purpose Processor
  EM_NS32K = 97,         // National Semiconductor 32000 series
  EM_TPC = 98,           // Tenor Network TPC processor
  EM_SNP1K = 99,         // Trebia SNP 1000 processor
  EM_ST200 = 100,        // STMicroelectronics (www.st.com) ST200
  EM_IP2K = 101,         // Ubicom IP2xxx microcontroller family
  EM_MAX = 102,          // MAX Processor
  EM_CR = 103,           // National Semiconductor CompactRISC microprocessor
  EM_F2MC16 = 104,       // Fujitsu F2MC16
  EM_MSP430 = 105,       // Texas Instruments embedded microcontroller msp430
  EM_BLACKFIN = 106,     // Analog Devices Blackfin (DSP) processor
  EM_SE_C33 = 107,       // S1C33 Family of Seiko Epson processors
  EM_SEP = 108,          // Sharp embedded microprocessor
  EM_ARCA = 109,         // Arca RISC Microprocessor
  EM_UNICORE = 110,      // Microprocessor series from PKU-Unity Ltd. and MPRC
                         // of Peking University
  EM_EXCESS = 111,       // eXcess: 16/32/64-bit configurable embedded CPU
  EM_DXP = 112,          // Icera Semiconductor Inc. Deep Execution Processor
  EM_ALTERA_NIOS2 = 113, // Altera Nios II soft-core processor
  EM_CRX = 114,          // National Semiconductor CompactRISC CRX
  EM_XGATE = 115,        // Motorola XGATE embedded processor
  EM_C166 = 116,         // Infineon C16x/XC16x processor
  EM_M16C = 117,         // Renesas M16C series microprocessors
  EM_DSPIC30F = 118,     // Microchip Technology dsPIC30F Digital Signal
                         // Controller
  EM_CE = 119,           // Freescale Communication Engine RISC core
  EM_M32C = 120,         // Renesas M32C series microprocessors
  EM_TSK3000 = 131,      // Altium TSK3000 core
  EM_RS08 = 132,         // Freescale RS08 embedded processor
  EM_SHARC = 133,        // Analog Devices SHARC family of 32-bit DSP
                         // processors
  EM_ECOG2 = 134,        // Cyan Technology eCOG2 microprocessor
  EM_SCORE7 = 135,       // Sunplus S+core7 RISC processor
  EM_DSP24 = 136,        // New Japan Radio (NJR) 24-bit DSP Processor
  EM_VIDEOCORE3 = 137,   // Broadcom VideoCore III processor
  EM_LATTICEMICO32 = 138, // RISC processor for Lattice FPGA architecture
  EM_SE_C17 = 139,        // Seiko Epson C17 family
  EM_TI_C6000 = 140,      // The Texas Instruments TMS320C6000 DSP family
  EM_TI_C2000 = 141,      // The Texas Instruments TMS320C2000 DSP family
  EM_TI_C5500 = 142,      // The Texas Instruments TMS320C55x DSP family
  EM_MMDSP_PLUS = 160,    // STMicroelectronics 64bit VLIW Data Signal Processor
  EM_CYPRESS_M8C = 161,   // Cypress M8C microprocessor
  EM_R32C = 162,          // Renesas R32C series microprocessors
  EM_TRIMEDIA = 163,      // NXP Semiconductors TriMedia architecture family
  EM_HEXAGON = 164,       // Qualcomm Hexagon processor
  EM_8051 = 165,          // Intel 8051 and variants
  EM_STXP7X = 166,        // STMicroelectronics STxP7x family of configurable
                          // and extensible RISC processors
  EM_NDS32 = 167,         // Andes Technology compact code size embedded RISC
                          // processor family
  EM_ECOG1 = 168,         // Cyan Technology eCOG1X family
  EM_ECOG1X = 168,        // Cyan Technology eCOG1X family
  EM_MAXQ30 = 169,        // Dallas Semiconductor MAXQ30 Core Micro-controllers
  EM_XIMO16 = 170,        // New Japan Radio (NJR) 16-bit DSP Processor
  EM_MANIK = 171,         // M2000 Reconfigurable RISC Microprocessor
  EM_CRAYNV2 = 172,       // Cray Inc. NV2 vector architecture
  EM_RX = 173,            // Renesas RX family
  EM_METAG = 174,         // Imagination Technologies META processor
                          // architecture
  EM_MCST_ELBRUS = 175,   // MCST Elbrus general purpose hardware architecture
  EM_ECOG16 = 176,        // Cyan Technology eCOG16 family
  EM_CR16 = 177,          // National Semiconductor CompactRISC CR16 16-bit
                          // microprocessor
  EM_ETPU = 178,          // Freescale Extended Time Processing Unit
  EM_SLE9X = 179,         // Infineon Technologies SLE9X core
  EM_L10M = 180,          // Intel L10M
  EM_K10M = 181,          // Intel K10M
  EM_AARCH64 = 183,       // ARM AArch64
  EM_AVR32 = 185,         // Atmel Corporation 32-bit microprocessor family
  EM_STM8 = 186,          // STMicroeletronics STM8 8-bit microcontroller
  EM_TILE64 = 187,        // Tilera TILE64 multicore architecture family
  EM_TILEPRO = 188,       // Tilera TILEPro multicore architecture family
  EM_MICROBLAZE = 189,    // Xilinx MicroBlaze 32-bit RISC soft processor core
  EM_CUDA = 190,          // NVIDIA CUDA architecture
  EM_TILEGX = 191,        // Tilera TILE-Gx multicore architecture family
  EM_CLOUDSHIELD = 192,   // CloudShield architecture family
  EM_COREA_1ST = 193,     // KIPO-KAIST Core-A 1st generation processor family
  EM_COREA_2ND = 194,     // KIPO-KAIST Core-A 2nd generation processor family
  EM_ARC_COMPACT2 = 195,  // Synopsys ARCompact V2
  EM_OPEN8 = 196,         // Open8 8-bit RISC soft processor core
  EM_RL78 = 197,          // Renesas RL78 family
  EM_VIDEOCORE5 = 198,    // Broadcom VideoCore V processor
  EM_78KOR = 199,         // Renesas 78KOR family
  EM_56800EX = 200,       // Freescale 56800EX Digital Signal Controller (DSC)
  EM_BA1 = 201,           // Beyond BA1 CPU architecture
  EM_BA2 = 202,           // Beyond BA2 CPU architecture
  EM_XCORE = 203,         // XMOS xCORE processor family
  EM_MCHP_PIC = 204,      // Microchip 8-bit PIC(r) family
  EM_INTEL205 = 205,      // Reserved by Intel
  EM_INTEL206 = 206,      // Reserved by Intel
  EM_INTEL207 = 207,      // Reserved by Intel
  EM_INTEL208 = 208,      // Reserved by Intel
  EM_INTEL209 = 209,      // Reserved by Intel
  EM_KM32 = 210,          // KM211 KM32 32-bit processor
  EM_KMX32 = 211,         // KM211 KMX32 32-bit processor
  EM_KMX16 = 212,         // KM211 KMX16 16-bit processor
  EM_KMX8 = 213,          // KM211 KMX8 8-bit processor
  EM_KVARC = 214,         // KM211 KVARC processor
  EM_CDP = 215,           // Paneve CDP architecture family
  EM_COGE = 216,          // Cognitive Smart Memory Processor
  EM_COOL = 217,          // iCelero CoolEngine
  EM_NORC = 218,          // Nanoradio Optimized RISC
  EM_CSR_KALIMBA = 219,   // CSR Kalimba architecture family
  EM_AMDGPU = 224,        // AMD GPU architecture
  EM_RISCV = 243,         // RISC-V
  EM_LANAI = 244,         // Lanai 32-bit processor
  EM_BPF = 247,           // Linux kernel bpf virtual machine
  EM_VE = 251,            // NEC SX-Aurora VE
  EM_CSKY = 252,          // C-SKY 32-bit processor
};

// Object file classes.
enum {
  ELFCLASSNONE = 0,
  ELFCLASS32 = 1, // 32-bit object file
  ELFCLASS64 = 2  // 64-bit object file
};

// Object file byte orderings.
enum {
  ELFDATANONE = 0, // Invalid data encoding.
  ELFDATA2LSB = 1, // Little-endian object file
  ELFDATA2MSB = 2  // Big-endian object file
};

// OS ABI identification.
enum {
  ELFOSABI_NONE = 0,           // UNIX System V ABI
  ELFOSABI_HPUX = 1,           // HP-UX operating system
  ELFOSABI_NETBSD = 2,         // NetBSD
  ELFOSABI_GNU = 3,            // GNU/Linux
  ELFOSABI_LINUX = 3,          // Historical alias for ELFOSABI_GNU.
  ELFOSABI_HURD = 4,           // GNU/Hurd
  ELFOSABI_SOLARIS = 6,        // Solaris
  ELFOSABI_AIX = 7,            // AIX
  ELFOSABI_IRIX = 8,           // IRIX
  ELFOSABI_FREEBSD = 9,        // FreeBSD
  ELFOSABI_TRU64 = 10,         // TRU64 UNIX
  ELFOSABI_MODESTO = 11,       // Novell Modesto
  ELFOSABI_OPENBSD = 12,       // OpenBSD
  ELFOSABI_OPENVMS = 13,       // OpenVMS
  ELFOSABI_NSK = 14,           // Hewlett-Packard Non-Stop Kernel
  ELFOSABI_AROS = 15,          // AROS
  ELFOSABI_FENIXOS = 16,       // FenixOS
  ELFOSABI_CLOUDABI = 17,      // Nuxi CloudABI
  ELFOSABI_FIRST_ARCH = 64,    // First architecture-specific OS ABI
  ELFOSABI_AMDGPU_HSA = 64,    // AMD HSA runtime
  ELFOSABI_AMDGPU_PAL = 65,    // AMD PAL runtime
  ELFOSABI_AMDGPU_MESA3D = 66, // AMD GCN GPUs (GFX6+) for MESA runtime
  ELFOSABI_ARM = 97,           // ARM
  ELFOSABI_C6000_ELFABI = 64,  // Bare-metal TMS320C6000
  ELFOSABI_C6000_LINUX = 65,   // Linux TMS320C6000
  ELFOSABI_STANDALONE = 255,   // Standalone (embedded) application
  ELFOSABI_LAST_ARCH = 255     // Last Architecture-specific OS ABI
};

// AMDGPU OS ABI Version identification.
enum {
  // ELFABIVERSION_AMDGPU_HSA_V1 does not exist because OS ABI identification
  // was never defined for V1.
  ELFABIVERSION_AMDGPU_HSA_V2 = 0,
  ELFABIVERSION_AMDGPU_HSA_V3 = 1,
  ELFABIVERSION_AMDGPU_HSA_V4 = 2,
  ELFABIVERSION_AMDGPU_HSA_V5 = 3
};

#define ELF_RELOC(name, value) name = value,

// X86_64 relocations.
enum {
#include "ELFRelocs/x86_64.def"
};

// i386 relocations.
enum {
#include "ELFRelocs/i386.def"
};

// ELF Relocation types for PPC32
enum {
#include "ELFRelocs/PowerPC.def"
};

// Specific e_flags for PPC64
enum {
  // e_flags bits specifying ABI:
  // 1 for original ABI using function descriptors,
  // 2 for revised ABI without function descriptors,
  // 0 for unspecified or not using any features affected by the differences.
  EF_PPC64_ABI = 3
};

// Special values for the st_other field in the symbol table entry for PPC64.
enum {
  STO_PPC64_LOCAL_BIT = 5,
  STO_PPC64_LOCAL_MASK = (7 << STO_PPC64_LOCAL_BIT)
};
static inline int64_t decodePPC64LocalEntryOffset(unsigned Other) {
  unsigned Val = (Other & STO_PPC64_LOCAL_MASK) >> STO_PPC64_LOCAL_BIT;
  return ((1 << Val) >> 2) << 2;
}

// ELF Relocation types for PPC64
enum {
#include "ELFRelocs/PowerPC64.def"
};

// ELF Relocation types for AArch64
enum {
#include "ELFRelocs/AArch64.def"
};

// Special values for the st_other field in the symbol table entry for AArch64.
enum {
  // Symbol may follow different calling convention than base PCS.
  STO_AARCH64_VARIANT_PCS = 0x80
};

// ARM Specific e_flags
enum : unsigned {
  EF_ARM_SOFT_FLOAT = 0x00000200U,     // Legacy pre EABI_VER5
  EF_ARM_ABI_FLOAT_SOFT = 0x00000200U, // EABI_VER5
  EF_ARM_VFP_FLOAT = 0x00000400U,      // Legacy pre EABI_VER5
  EF_ARM_ABI_FLOAT_HARD = 0x00000400U, // EABI_VER5
  EF_ARM_EABI_UNKNOWN = 0x00000000U,
  EF_ARM_EABI_VER1 = 0x01000000U,
  EF_ARM_EABI_VER2 = 0x02000000U,
  EF_ARM_EABI_VER3 = 0x03000000U,
  EF_ARM_EABI_VER4 = 0x04000000U,
  EF_ARM_EABI_VER5 = 0x05000000U,
  EF_ARM_EABIMASK = 0xFF000000U
};

// ELF Relocation types for ARM
enum {
#include "ELFRelocs/ARM.def"
};

// ARC Specific e_flags
enum : unsigned {
  EF_ARC_MACH_MSK = 0x000000ff,
  EF_ARC_OSABI_MSK = 0x00000f00,
  E_ARC_MACH_ARC600 = 0x00000002,
  E_ARC_MACH_ARC601 = 0x00000004,
  E_ARC_MACH_ARC700 = 0x00000003,
  EF_ARC_CPU_ARCV2EM = 0x00000005,
  EF_ARC_CPU_ARCV2HS = 0x00000006,
  E_ARC_OSABI_ORIG = 0x00000000,
  E_ARC_OSABI_V2 = 0x00000200,
  E_ARC_OSABI_V3 = 0x00000300,
  E_ARC_OSABI_V4 = 0x00000400,
  EF_ARC_PIC = 0x00000100
};

// ELF Relocation types for ARC
enum {
#include "ELFRelocs/ARC.def"
};

// AVR specific e_flags
enum : unsigned {
  EF_AVR_ARCH_AVR1 = 1,
  EF_AVR_ARCH_AVR2 = 2,
  EF_AVR_ARCH_AVR25 = 25,
  EF_AVR_ARCH_AVR3 = 3,
  EF_AVR_ARCH_AVR31 = 31,
  EF_AVR_ARCH_AVR35 = 35,
  EF_AVR_ARCH_AVR4 = 4,
  EF_AVR_ARCH_AVR5 = 5,
  EF_AVR_ARCH_AVR51 = 51,
  EF_AVR_ARCH_AVR6 = 6,
  EF_AVR_ARCH_AVRTINY = 100,
  EF_AVR_ARCH_XMEGA1 = 101,
  EF_AVR_ARCH_XMEGA2 = 102,
  EF_AVR_ARCH_XMEGA3 = 103,
  EF_AVR_ARCH_XMEGA4 = 104,
  EF_AVR_ARCH_XMEGA5 = 105,
  EF_AVR_ARCH_XMEGA6 = 106,
  EF_AVR_ARCH_XMEGA7 = 107,

  EF_AVR_ARCH_MASK = 0x7f, // EF_AVR_ARCH_xxx selection mask

  EF_AVR_LINKRELAX_PREPARED = 0x80, // The file is prepared for linker
                                    // relaxation to be applied
};

// ELF Relocation types for AVR
enum {
#include "ELFRelocs/AVR.def"
};

// Mips Specific e_flags
enum : unsigned {
  EF_MIPS_NOREORDER = 0x00000001, // Don't reorder instructions
  EF_MIPS_PIC = 0x00000002,       // Position independent code
  EF_MIPS_CPIC = 0x00000004,      // Call object with Position independent code
  EF_MIPS_ABI2 = 0x00000020,      // File uses N32 ABI
  EF_MIPS_32BITMODE = 0x00000100, // Code compiled for a 64-bit machine
                                  // in 32-bit mode
  EF_MIPS_FP64 = 0x00000200,      // Code compiled for a 32-bit machine
                                  // but uses 64-bit FP registers
  EF_MIPS_NAN2008 = 0x00000400,   // Uses IEE 754-2008 NaN encoding

  // ABI flags
  EF_MIPS_ABI_O32 = 0x00001000, // This file follows the first MIPS 32 bit ABI
  EF_MIPS_ABI_O64 = 0x00002000, // O32 ABI extended for 64-bit architecture.
  EF_MIPS_ABI_EABI32 = 0x00003000, // EABI in 32 bit mode.
  EF_MIPS_ABI_EABI64 = 0x00004000, // EABI in 64 bit mode.
  EF_MIPS_ABI = 0x0000f000,        // Mask for selecting EF_MIPS_ABI_ variant.

  // MIPS machine variant
  EF_MIPS_MACH_NONE = 0x00000000,    // A standard MIPS implementation.
  EF_MIPS_MACH_3900 = 0x00810000,    // Toshiba R3900
  EF_MIPS_MACH_4010 = 0x00820000,    // LSI R4010
  EF_MIPS_MACH_4100 = 0x00830000,    // NEC VR4100
  EF_MIPS_MACH_4650 = 0x00850000,    // MIPS R4650
  EF_MIPS_MACH_4120 = 0x00870000,    // NEC VR4120
  EF_MIPS_MACH_4111 = 0x00880000,    // NEC VR4111/VR4181
  EF_MIPS_MACH_SB1 = 0x008a0000,     // Broadcom SB-1
  EF_MIPS_MACH_OCTEON = 0x008b0000,  // Cavium Networks Octeon
  EF_MIPS_MACH_XLR = 0x008c0000,     // RMI Xlr
  EF_MIPS_MACH_OCTEON2 = 0x008d0000, // Cavium Networks Octeon2
  EF_MIPS_MACH_OCTEON3 = 0x008e0000, // Cavium Networks Octeon3
  EF_MIPS_MACH_5400 = 0x00910000,    // NEC VR5400
  EF_MIPS_MACH_5900 = 0x00920000,    // MIPS R5900
  EF_MIPS_MACH_5500 = 0x00980000,    // NEC VR5500
  EF_MIPS_MACH_9000 = 0x00990000,    // Unknown
  EF_MIPS_MACH_LS2E = 0x00a00000,    // ST Microelectronics Loongson 2E
  EF_MIPS_MACH_LS2F = 0x00a10000,    // ST Microelectronics Loongson 2F
  EF_MIPS_MACH_LS3A = 0x00a20000,    // Loongson 3A
  EF_MIPS_MACH = 0x00ff0000,         // EF_MIPS_MACH_xxx selection mask

  // ARCH_ASE
  EF_MIPS_MICROMIPS = 0x02000000,     // microMIPS
  EF_MIPS_ARCH_ASE_M16 = 0x04000000,  // Has Mips-16 ISA extensions
  EF_MIPS_ARCH_ASE_MDMX = 0x08000000, // Has MDMX multimedia extensions
  EF_MIPS_ARCH_ASE = 0x0f000000,      // Mask for EF_MIPS_ARCH_ASE_xxx flags

  // ARCH
  EF_MIPS_ARCH_1 = 0x00000000,    // MIPS1 instruction set
  EF_MIPS_ARCH_2 = 0x10000000,    // MIPS2 instruction set
  EF_MIPS_ARCH_3 = 0x20000000,    // MIPS3 instruction set
  EF_MIPS_ARCH_4 = 0x30000000,    // MIPS4 instruction set
  EF_MIPS_ARCH_5 = 0x40000000,    // MIPS5 instruction set
  EF_MIPS_ARCH_32 = 0x50000000,   // MIPS32 instruction set per linux not elf.h
  EF_MIPS_ARCH_64 = 0x60000000,   // MIPS64 instruction set per linux not elf.h
  EF_MIPS_ARCH_32R2 = 0x70000000, // mips32r2, mips32r3, mips32r5
  EF_MIPS_ARCH_64R2 = 0x80000000, // mips64r2, mips64r3, mips64r5
  EF_MIPS_ARCH_32R6 = 0x90000000, // mips32r6
  EF_MIPS_ARCH_64R6 = 0xa0000000, // mips64r6
  EF_MIPS_ARCH = 0xf0000000       // Mask for applying EF_MIPS_ARCH_ variant
};

// ELF Relocation types for Mips
enum {
#include "ELFRelocs/Mips.def"
};

// Special values for the st_other field in the symbol table entry for MIPS.
enum {
  STO_MIPS_OPTIONAL = 0x04,  // Symbol whose definition is optional
  STO_MIPS_PLT = 0x08,       // PLT entry related dynamic table record
  STO_MIPS_PIC = 0x20,       // PIC func in an object mixes PIC/non-PIC
  STO_MIPS_MICROMIPS = 0x80, // MIPS Specific ISA for MicroMips
  STO_MIPS_MIPS16 = 0xf0     // MIPS Specific ISA for Mips16
};

// .MIPS.options section descriptor kinds
enum {
  ODK_NULL = 0,       // Undefined
  ODK_REGINFO = 1,    // Register usage information
  ODK_EXCEPTIONS = 2, // Exception processing options
  ODK_PAD = 3,        // Section padding options
  ODK_HWPATCH = 4,    // Hardware patches applied
  ODK_FILL = 5,       // Linker fill value
  ODK_TAGS = 6,       // Space for tool identification
  ODK_HWAND = 7,      // Hardware AND patches applied
  ODK_HWOR = 8,       // Hardware OR patches applied
  ODK_GP_GROUP = 9,   // GP group to use for text/data sections
  ODK_IDENT = 10,     // ID information
  ODK_PAGESIZE = 11   // Page size information
};

// Hexagon-specific e_flags
enum {
  // Object processor version flags, bits[11:0]
  EF_HEXAGON_MACH_V2 = 0x00000001,   // Hexagon V2
  EF_HEXAGON_MACH_V3 = 0x00000002,   // Hexagon V3
  EF_HEXAGON_MACH_V4 = 0x00000003,   // Hexagon V4
  EF_HEXAGON_MACH_V5 = 0x00000004,   // Hexagon V5
  EF_HEXAGON_MACH_V55 = 0x00000005,  // Hexagon V55
  EF_HEXAGON_MACH_V60 = 0x00000060,  // Hexagon V60
  EF_HEXAGON_MACH_V62 = 0x00000062,  // Hexagon V62
  EF_HEXAGON_MACH_V65 = 0x00000065,  // Hexagon V65
  EF_HEXAGON_MACH_V66 = 0x00000066,  // Hexagon V66
  EF_HEXAGON_MACH_V67 = 0x00000067,  // Hexagon V67
  EF_HEXAGON_MACH_V67T = 0x00008067, // Hexagon V67T
  EF_HEXAGON_MACH_V68 = 0x00000068,  // Hexagon V68
  EF_HEXAGON_MACH_V69 = 0x00000069,  // Hexagon V69
  EF_HEXAGON_MACH = 0x000003ff,      // Hexagon V..

  // Highest ISA version flags
  EF_HEXAGON_ISA_MACH = 0x00000000, // Same as specified in bits[11:0]
                                    // of e_flags
  EF_HEXAGON_ISA_V2 = 0x00000010,   // Hexagon V2 ISA
  EF_HEXAGON_ISA_V3 = 0x00000020,   // Hexagon V3 ISA
  EF_HEXAGON_ISA_V4 = 0x00000030,   // Hexagon V4 ISA
  EF_HEXAGON_ISA_V5 = 0x00000040,   // Hexagon V5 ISA
  EF_HEXAGON_ISA_V55 = 0x00000050,  // Hexagon V55 ISA
  EF_HEXAGON_ISA_V60 = 0x00000060,  // Hexagon V60 ISA
  EF_HEXAGON_ISA_V62 = 0x00000062,  // Hexagon V62 ISA
  EF_HEXAGON_ISA_V65 = 0x00000065,  // Hexagon V65 ISA
  EF_HEXAGON_ISA_V66 = 0x00000066,  // Hexagon V66 ISA
  EF_HEXAGON_ISA_V67 = 0x00000067,  // Hexagon V67 ISA
  EF_HEXAGON_ISA_V68 = 0x00000068,  // Hexagon V68 ISA
  EF_HEXAGON_ISA_V69 = 0x00000069,  // Hexagon V69 ISA
  EF_HEXAGON_ISA = 0x000003ff,      // Hexagon V.. ISA
};

// Hexagon-specific section indexes for common small data
enum {
  SHN_HEXAGON_SCOMMON = 0xff00,   // Other access sizes
  SHN_HEXAGON_SCOMMON_1 = 0xff01, // Byte-sized access
  SHN_HEXAGON_SCOMMON_2 = 0xff02, // Half-word-sized access
  SHN_HEXAGON_SCOMMON_4 = 0xff03, // Word-sized access
  SHN_HEXAGON_SCOMMON_8 = 0xff04  // Double-word-size access
};

// ELF Relocation types for Hexagon
enum {
#include "ELFRelocs/Hexagon.def"
};

// ELF Relocation type for Lanai.
enum {
#include "ELFRelocs/Lanai.def"
};

// RISCV Specific e_flags
enum : unsigned {
  EF_RISCV_RVC = 0x0001,
  EF_RISCV_FLOAT_ABI = 0x0006,
  EF_RISCV_FLOAT_ABI_SOFT = 0x0000,
  EF_RISCV_FLOAT_ABI_SINGLE = 0x0002,
  EF_RISCV_FLOAT_ABI_DOUBLE = 0x0004,
  EF_RISCV_FLOAT_ABI_QUAD = 0x0006,
  EF_RISCV_RVE = 0x0008,
  EF_RISCV_TSO = 0x0010,
};

// ELF Relocation types for RISC-V
enum {
#include "ELFRelocs/RISCV.def"
};

enum {
  // Symbol may follow different calling convention than the standard calling
  // convention.
  STO_RISCV_VARIANT_CC = 0x80
};

// ELF Relocation types for S390/zSeries
enum {
#include "ELFRelocs/SystemZ.def"
};

// ELF Relocation type for Sparc.
enum {
#include "ELFRelocs/Sparc.def"
};

// AMDGPU specific e_flags.
enum : unsigned {
  // Processor selection mask for EF_AMDGPU_MACH_* values.
  EF_AMDGPU_MACH = 0x0ff,

  // Not specified processor.
  EF_AMDGPU_MACH_NONE = 0x000,

  // R600-based processors.

  // Radeon HD 2000/3000 Series (R600).
  EF_AMDGPU_MACH_R600_R600 = 0x001,
  EF_AMDGPU_MACH_R600_R630 = 0x002,
  EF_AMDGPU_MACH_R600_RS880 = 0x003,
  EF_AMDGPU_MACH_R600_RV670 = 0x004,
  // Radeon HD 4000 Series (R700).
  EF_AMDGPU_MACH_R600_RV710 = 0x005,
  EF_AMDGPU_MACH_R600_RV730 = 0x006,
  EF_AMDGPU_MACH_R600_RV770 = 0x007,
  // Radeon HD 5000 Series (Evergreen).
  EF_AMDGPU_MACH_R600_CEDAR = 0x008,
  EF_AMDGPU_MACH_R600_CYPRESS = 0x009,
  EF_AMDGPU_MACH_R600_JUNIPER = 0x00a,
  EF_AMDGPU_MACH_R600_REDWOOD = 0x00b,
  EF_AMDGPU_MACH_R600_SUMO = 0x00c,
  // Radeon HD 6000 Series (Northern Islands).
  EF_AMDGPU_MACH_R600_BARTS = 0x00d,
  EF_AMDGPU_MACH_R600_CAICOS = 0x00e,
  EF_AMDGPU_MACH_R600_CAYMAN = 0x00f,
  EF_AMDGPU_MACH_R600_TURKS = 0x010,

  // Reserved for R600-based processors.
  EF_AMDGPU_MACH_R600_RESERVED_FIRST = 0x011,
  EF_AMDGPU_MACH_R600_RESERVED_LAST = 0x01f,

  // First/last R600-based processors.
  EF_AMDGPU_MACH_R600_FIRST = EF_AMDGPU_MACH_R600_R600,
  EF_AMDGPU_MACH_R600_LAST = EF_AMDGPU_MACH_R600_TURKS,

  // AMDGCN-based processors.
  EF_AMDGPU_MACH_AMDGCN_GFX600        = 0x020,
  EF_AMDGPU_MACH_AMDGCN_GFX601        = 0x021,
  EF_AMDGPU_MACH_AMDGCN_GFX700        = 0x022,
  EF_AMDGPU_MACH_AMDGCN_GFX701        = 0x023,
  EF_AMDGPU_MACH_AMDGCN_GFX702        = 0x024,
  EF_AMDGPU_MACH_AMDGCN_GFX703        = 0x025,
  EF_AMDGPU_MACH_AMDGCN_GFX704        = 0x026,
  EF_AMDGPU_MACH_AMDGCN_RESERVED_0X27 = 0x027,
  EF_AMDGPU_MACH_AMDGCN_GFX801        = 0x028,
  EF_AMDGPU_MACH_AMDGCN_GFX802        = 0x029,
  EF_AMDGPU_MACH_AMDGCN_GFX803        = 0x02a,
  EF_AMDGPU_MACH_AMDGCN_GFX810        = 0x02b,
  EF_AMDGPU_MACH_AMDGCN_GFX900        = 0x02c,
  EF_AMDGPU_MACH_AMDGCN_GFX902        = 0x02d,
  EF_AMDGPU_MACH_AMDGCN_GFX904        = 0x02e,
  EF_AMDGPU_MACH_AMDGCN_GFX906        = 0x02f,
  EF_AMDGPU_MACH_AMDGCN_GFX908        = 0x030,
  EF_AMDGPU_MACH_AMDGCN_GFX909        = 0x031,
  EF_AMDGPU_MACH_AMDGCN_GFX90C        = 0x032,
  EF_AMDGPU_MACH_AMDGCN_GFX1010       = 0x033,
  EF_AMDGPU_MACH_AMDGCN_GFX1011       = 0x034,
  EF_AMDGPU_MACH_AMDGCN_GFX1012       = 0x035,
  EF_AMDGPU_MACH_AMDGCN_GFX1030       = 0x036,
  EF_AMDGPU_MACH_AMDGCN_GFX1031       = 0x037,
  EF_AMDGPU_MACH_AMDGCN_GFX1032       = 0x038,
  EF_AMDGPU_MACH_AMDGCN_GFX1033       = 0x039,
  EF_AMDGPU_MACH_AMDGCN_GFX602        = 0x03a,
  EF_AMDGPU_MACH_AMDGCN_GFX705        = 0x03b,
  EF_AMDGPU_MACH_AMDGCN_GFX805        = 0x03c,
  EF_AMDGPU_MACH_AMDGCN_GFX1035       = 0x03d,
  EF_AMDGPU_MACH_AMDGCN_GFX1034       = 0x03e,
  EF_AMDGPU_MACH_AMDGCN_GFX90A        = 0x03f,
  EF_AMDGPU_MACH_AMDGCN_RESERVED_0X40 = 0x040,
  EF_AMDGPU_MACH_AMDGCN_RESERVED_0X41 = 0x041,
  EF_AMDGPU_MACH_AMDGCN_GFX1013       = 0x042,
  EF_AMDGPU_MACH_AMDGCN_RESERVED_0X43 = 0x043,
  EF_AMDGPU_MACH_AMDGCN_RESERVED_0X44 = 0x044,
  EF_AMDGPU_MACH_AMDGCN_RESERVED_0X45 = 0x045,

  // First/last AMDGCN-based processors.
  EF_AMDGPU_MACH_AMDGCN_FIRST = EF_AMDGPU_MACH_AMDGCN_GFX600,
  EF_AMDGPU_MACH_AMDGCN_LAST = EF_AMDGPU_MACH_AMDGCN_RESERVED_0X45,

  // Indicates if the "xnack" target feature is enabled for all code contained
  // in the object.
  //
  // Only valid for ELFOSABI_AMDGPU_HSA and ELFABIVERSION_AMDGPU_HSA_V2.
  EF_AMDGPU_FEATURE_XNACK_V2 = 0x01,
  // Indicates if the trap handler is enabled for all code contained
  // in the object.
  //
  // Only valid for ELFOSABI_AMDGPU_HSA and ELFABIVERSION_AMDGPU_HSA_V2.
  EF_AMDGPU_FEATURE_TRAP_HANDLER_V2 = 0x02,

  // Indicates if the "xnack" target feature is enabled for all code contained
  // in the object.
  //
  // Only valid for ELFOSABI_AMDGPU_HSA and ELFABIVERSION_AMDGPU_HSA_V3.
  EF_AMDGPU_FEATURE_XNACK_V3 = 0x100,
  // Indicates if the "sramecc" target feature is enabled for all code
  // contained in the object.
  //
  // Only valid for ELFOSABI_AMDGPU_HSA and ELFABIVERSION_AMDGPU_HSA_V3.
  EF_AMDGPU_FEATURE_SRAMECC_V3 = 0x200,

  // XNACK selection mask for EF_AMDGPU_FEATURE_XNACK_* values.
  //
  // Only valid for ELFOSABI_AMDGPU_HSA and ELFABIVERSION_AMDGPU_HSA_V4.
  EF_AMDGPU_FEATURE_XNACK_V4 = 0x300,
  // XNACK is not supported.
  EF_AMDGPU_FEATURE_XNACK_UNSUPPORTED_V4 = 0x000,
  // XNACK is any/default/unspecified.
  EF_AMDGPU_FEATURE_XNACK_ANY_V4 = 0x100,
  // XNACK is off.
  EF_AMDGPU_FEATURE_XNACK_OFF_V4 = 0x200,
  // XNACK is on.
  EF_AMDGPU_FEATURE_XNACK_ON_V4 = 0x300,

  // SRAMECC selection mask for EF_AMDGPU_FEATURE_SRAMECC_* values.
  //
  // Only valid for ELFOSABI_AMDGPU_HSA and ELFABIVERSION_AMDGPU_HSA_V4.
  EF_AMDGPU_FEATURE_SRAMECC_V4 = 0xc00,
  // SRAMECC is not supported.
  EF_AMDGPU_FEATURE_SRAMECC_UNSUPPORTED_V4 = 0x000,
  // SRAMECC is any/default/unspecified.
  EF_AMDGPU_FEATURE_SRAMECC_ANY_V4 = 0x400,
  // SRAMECC is off.
  EF_AMDGPU_FEATURE_SRAMECC_OFF_V4 = 0x800,
  // SRAMECC is on.
  EF_AMDGPU_FEATURE_SRAMECC_ON_V4 = 0xc00,
};

// ELF Relocation types for AMDGPU
enum {
#include "ELFRelocs/AMDGPU.def"
};

// ELF Relocation types for BPF
enum {
#include "ELFRelocs/BPF.def"
};

// ELF Relocation types for M68k
enum {
#include "ELFRelocs/M68k.def"
};

// MSP430 specific e_flags
enum : unsigned {
  EF_MSP430_MACH_MSP430x11 = 11,
  EF_MSP430_MACH_MSP430x11x1 = 110,
  EF_MSP430_MACH_MSP430x12 = 12,
  EF_MSP430_MACH_MSP430x13 = 13,
  EF_MSP430_MACH_MSP430x14 = 14,
  EF_MSP430_MACH_MSP430x15 = 15,
  EF_MSP430_MACH_MSP430x16 = 16,
  EF_MSP430_MACH_MSP430x20 = 20,
  EF_MSP430_MACH_MSP430x22 = 22,
  EF_MSP430_MACH_MSP430x23 = 23,
  EF_MSP430_MACH_MSP430x24 = 24,
  EF_MSP430_MACH_MSP430x26 = 26,
  EF_MSP430_MACH_MSP430x31 = 31,
  EF_MSP430_MACH_MSP430x32 = 32,
  EF_MSP430_MACH_MSP430x33 = 33,
  EF_MSP430_MACH_MSP430x41 = 41,
  EF_MSP430_MACH_MSP430x42 = 42,
  EF_MSP430_MACH_MSP430x43 = 43,
  EF_MSP430_MACH_MSP430x44 = 44,
  EF_MSP430_MACH_MSP430X = 45,
  EF_MSP430_MACH_MSP430x46 = 46,
  EF_MSP430_MACH_MSP430x47 = 47,
  EF_MSP430_MACH_MSP430x54 = 54,
};

// ELF Relocation types for MSP430
enum {
#include "ELFRelocs/MSP430.def"
};

// ELF Relocation type for VE.
enum {
#include "ELFRelocs/VE.def"
};


// ELF Relocation types for CSKY
enum {
#include "ELFRelocs/CSKY.def"
};

#undef ELF_RELOC

// Section header.
struct Elf32_Shdr {
  Elf32_Word sh_name;      // Section name (index into string table)
  Elf32_Word sh_type;      // Section type (SHT_*)
  Elf32_Word sh_flags;     // Section flags (SHF_*)
  Elf32_Addr sh_addr;      // Address where section is to be loaded
  Elf32_Off sh_offset;     // File offset of section data, in bytes
  Elf32_Word sh_size;      // Size of section, in bytes
  Elf32_Word sh_link;      // Section type-specific header table index link
  Elf32_Word sh_info;      // Section type-specific extra information
  Elf32_Word sh_addralign; // Section address alignment
  Elf32_Word sh_entsize;   // Size of records contained within the section
};

// Section header for ELF64 - same fields as ELF32, different types.
struct Elf64_Shdr {
  Elf64_Word sh_name;
  Elf64_Word sh_type;
  Elf64_Xword sh_flags;
  Elf64_Addr sh_addr;
  Elf64_Off sh_offset;
  Elf64_Xword sh_size;
  Elf64_Word sh_link;
  Elf64_Word sh_info;
  Elf64_Xword sh_addralign;
  Elf64_Xword sh_entsize;
};

// Special section indices.
enum {
  SHN_UNDEF = 0,          // Undefined, missing, irrelevant, or meaningless
  SHN_LORESERVE = 0xff00, // Lowest reserved index
  SHN_LOPROC = 0xff00,    // Lowest processor-specific index
  SHN_HIPROC = 0xff1f,    // Highest processor-specific index
  SHN_LOOS = 0xff20,      // Lowest operating system-specific index
  SHN_HIOS = 0xff3f,      // Highest operating system-specific index
  SHN_ABS = 0xfff1,       // Symbol has absolute value; does not need relocation
  SHN_COMMON = 0xfff2,    // FORTRAN COMMON or C external global variables
  SHN_XINDEX = 0xffff,    // Mark that the index is >= SHN_LORESERVE
  SHN_HIRESERVE = 0xffff  // Highest reserved index
};

// Section types.
enum : unsigned {
  SHT_NULL = 0,           // No associated section (inactive entry).
  SHT_PROGBITS = 1,       // Program-defined contents.
  SHT_SYMTAB = 2,         // Symbol table.
  SHT_STRTAB = 3,         // String table.
  SHT_RELA = 4,           // Relocation entries; explicit addends.
  SHT_HASH = 5,           // Symbol hash table.
  SHT_DYNAMIC = 6,        // Information for dynamic linking.
  SHT_NOTE = 7,           // Information about the file.
  SHT_NOBITS = 8,         // Data occupies no space in the file.
  SHT_REL = 9,            // Relocation entries; no explicit addends.
  SHT_SHLIB = 10,         // Reserved.
  SHT_DYNSYM = 11,        // Symbol table.
  SHT_INIT_ARRAY = 14,    // Pointers to initialization functions.
  SHT_FINI_ARRAY = 15,    // Pointers to termination functions.
  SHT_PREINIT_ARRAY = 16, // Pointers to pre-init functions.
  SHT_GROUP = 17,         // Section group.
  SHT_SYMTAB_SHNDX = 18,  // Indices for SHN_XINDEX entries.
  // Experimental support for SHT_RELR sections. For details, see proposal
  // at https://groups.google.com/forum/#!topic/generic-abi/bX460iggiKg
  SHT_RELR = 19,         // Relocation entries; only offsets.
  SHT_LOOS = 0x60000000, // Lowest operating system-specific type.
  // Android packed relocation section types.
  // https://android.googlesource.com/platform/bionic/+/6f12bfece5dcc01325e0abba56a46b1bcf991c69/tools/relocation_packer/src/elf_file.cc#37
  SHT_ANDROID_REL = 0x60000001,
  SHT_ANDROID_RELA = 0x60000002,
  SHT_LLVM_ODRTAB = 0x6fff4c00,         // LLVM ODR table.
  SHT_LLVM_LINKER_OPTIONS = 0x6fff4c01, // LLVM Linker Options.
  SHT_LLVM_ADDRSIG = 0x6fff4c03,        // List of address-significant symbols
                                        // for safe ICF.
  SHT_LLVM_DEPENDENT_LIBRARIES =
      0x6fff4c04,                    // LLVM Dependent Library Specifiers.
  SHT_LLVM_SYMPART = 0x6fff4c05,     // Symbol partition specification.
  SHT_LLVM_PART_EHDR = 0x6fff4c06,   // ELF header for loadable partition.
  SHT_LLVM_PART_PHDR = 0x6fff4c07,   // Phdrs for loadable partition.
  SHT_LLVM_BB_ADDR_MAP = 0x6fff4c08, // LLVM Basic Block Address Map.
  SHT_LLVM_CALL_GRAPH_PROFILE = 0x6fff4c09, // LLVM Call Graph Profile.
  // Android's experimental support for SHT_RELR sections.
  // https://android.googlesource.com/platform/bionic/+/b7feec74547f84559a1467aca02708ff61346d2a/libc/include/elf.h#512
  SHT_ANDROID_RELR = 0x6fffff00,   // Relocation entries; only offsets.
  SHT_GNU_ATTRIBUTES = 0x6ffffff5, // Object attributes.
  SHT_GNU_HASH = 0x6ffffff6,       // GNU-style hash table.
  SHT_GNU_verdef = 0x6ffffffd,     // GNU version definitions.
  SHT_GNU_verneed = 0x6ffffffe,    // GNU version references.
  SHT_GNU_versym = 0x6fffffff,     // GNU symbol versions table.
  SHT_HIOS = 0x6fffffff,           // Highest operating system-specific type.
  SHT_LOPROC = 0x70000000,         // Lowest processor arch-specific type.
  // Fixme: All this is duplicated in MCSectionELF. Why??
  // Exception Index table
  SHT_ARM_EXIDX = 0x70000001U,
  // BPABI DLL dynamic linking pre-emption map
  SHT_ARM_PREEMPTMAP = 0x70000002U,
  //  Object file compatibility attributes
  SHT_ARM_ATTRIBUTES = 0x70000003U,
  SHT_ARM_DEBUGOVERLAY = 0x70000004U,
  SHT_ARM_OVERLAYSECTION = 0x70000005U,
  SHT_HEX_ORDERED = 0x70000000,   // Link editor is to sort the entries in
                                  // this section based on their sizes
  SHT_X86_64_UNWIND = 0x70000001, // Unwind information

  SHT_MIPS_REGINFO = 0x70000006,  // Register usage information
  SHT_MIPS_OPTIONS = 0x7000000d,  // General options
  SHT_MIPS_DWARF = 0x7000001e,    // DWARF debugging section.
  SHT_MIPS_ABIFLAGS = 0x7000002a, // ABI information.

  SHT_MSP430_ATTRIBUTES = 0x70000003U,

  SHT_RISCV_ATTRIBUTES = 0x70000003U,

  SHT_HIPROC = 0x7fffffff, // Highest processor arch-specific type.
  SHT_LOUSER = 0x80000000, // Lowest type reserved for applications.
  SHT_HIUSER = 0xffffffff  // Highest type reserved for applications.
};

// Section flags.
enum : unsigned {
  // Section data should be writable during execution.
  SHF_WRITE = 0x1,

  // Section occupies memory during program execution.
  SHF_ALLOC = 0x2,

  // Section contains executable machine instructions.
  SHF_EXECINSTR = 0x4,

  // The data in this section may be merged.
  SHF_MERGE = 0x10,

  // The data in this section is null-terminated strings.
  SHF_STRINGS = 0x20,

  // A field in this section holds a section header table index.
  SHF_INFO_LINK = 0x40U,

  // Adds special ordering requirements for link editors.
  SHF_LINK_ORDER = 0x80U,

  // This section requires special OS-specific processing to avoid incorrect
  // behavior.
  SHF_OS_NONCONFORMING = 0x100U,

  // This section is a member of a section group.
  SHF_GROUP = 0x200U,

  // This section holds Thread-Local Storage.
  SHF_TLS = 0x400U,

  // Identifies a section containing compressed data.
  SHF_COMPRESSED = 0x800U,

  // This section should not be garbage collected by the linker.
  SHF_GNU_RETAIN = 0x200000,

  // This section is excluded from the final executable or shared library.
  SHF_EXCLUDE = 0x80000000U,

  // Start of target-specific flags.

  SHF_MASKOS = 0x0ff00000,

  // Bits indicating processor-specific flags.
  SHF_MASKPROC = 0xf0000000,

  /// All sections with the "d" flag are grouped together by the linker to form
  /// the data section and the dp register is set to the start of the section by
  /// the boot code.
  XCORE_SHF_DP_SECTION = 0x10000000,

  /// All sections with the "c" flag are grouped together by the linker to form
  /// the constant pool and the cp register is set to the start of the constant
  /// pool by the boot code.
  XCORE_SHF_CP_SECTION = 0x20000000,

  // If an object file section does not have this flag set, then it may not hold
  // more than 2GB and can be freely referred to in objects using smaller code
  // models. Otherwise, only objects using larger code models can refer to them.
  // For example, a medium code model object can refer to data in a section that
  // sets this flag besides being able to refer to data in a section that does
  // not set it; likewise, a small code model object can refer only to code in a
  // section that does not set this flag.
  SHF_X86_64_LARGE = 0x10000000,

  // All sections with the GPREL flag are grouped into a global data area
  // for faster accesses
  SHF_HEX_GPREL = 0x10000000,

  // Section contains text/data which may be replicated in other sections.
  // Linker must retain only one copy.
  SHF_MIPS_NODUPES = 0x01000000,

  // Linker must generate implicit hidden weak names.
  SHF_MIPS_NAMES = 0x02000000,

  // Section data local to process.
  SHF_MIPS_LOCAL = 0x04000000,

  // Do not strip this section.
  SHF_MIPS_NOSTRIP = 0x08000000,

  // Section must be part of global data area.
  SHF_MIPS_GPREL = 0x10000000,

  // This section should be merged.
  SHF_MIPS_MERGE = 0x20000000,

  // Address size to be inferred from section entry size.
  SHF_MIPS_ADDR = 0x40000000,

  // Section data is string data by default.
  SHF_MIPS_STRING = 0x80000000,

  // Make code section unreadable when in execute-only mode
  SHF_ARM_PURECODE = 0x20000000
};

// Section Group Flags
enum : unsigned {
  GRP_COMDAT = 0x1,
  GRP_MASKOS = 0x0ff00000,
  GRP_MASKPROC = 0xf0000000
};

// Symbol table entries for ELF32.
struct Elf32_Sym {
  Elf32_Word st_name;     // Symbol name (index into string table)
  Elf32_Addr st_value;    // Value or address associated with the symbol
  Elf32_Word st_size;     // Size of the symbol
  unsigned char st_info;  // Symbol's type and binding attributes
  unsigned char st_other; // Must be zero; reserved
  Elf32_Half st_shndx;    // Which section (header table index) it's defined in

  // These accessors and mutators correspond to the ELF32_ST_BIND,
  // ELF32_ST_TYPE, and ELF32_ST_INFO macros defined in the ELF specification:
  unsigned char getBinding() const { return st_info >> 4; }
  unsigned char getType() const { return st_info & 0x0f; }
  void setBinding(unsigned char b) { setBindingAndType(b, getType()); }
  void setType(unsigned char t) { setBindingAndType(getBinding(), t); }
  void setBindingAndType(unsigned char b, unsigned char t) {
    st_info = (b << 4) + (t & 0x0f);
  }
};

// Symbol table entries for ELF64.
struct Elf64_Sym {
  Elf64_Word st_name;     // Symbol name (index into string table)
  unsigned char st_info;  // Symbol's type and binding attributes
  unsigned char st_other; // Must be zero; reserved
  Elf64_Half st_shndx;    // Which section (header tbl index) it's defined in
  Elf64_Addr st_value;    // Value or address associated with the symbol
  Elf64_Xword st_size;    // Size of the symbol

  // These accessors and mutators are identical to those defined for ELF32
  // symbol table entries.
  unsigned char getBinding() const { return st_info >> 4; }
  unsigned char getType() const { return st_info & 0x0f; }
  void setBinding(unsigned char b) { setBindingAndType(b, getType()); }
  void setType(unsigned char t) { setBindingAndType(getBinding(), t); }
  void setBindingAndType(unsigned char b, unsigned char t) {
    st_info = (b << 4) + (t & 0x0f);
  }
};

// The size (in bytes) of symbol table entries.
enum {
  SYMENTRY_SIZE32 = 16, // 32-bit symbol entry size
  SYMENTRY_SIZE64 = 24  // 64-bit symbol entry size.
};

// Symbol bindings.
enum {
  STB_LOCAL = 0,  // Local symbol, not visible outside obj file containing def
  STB_GLOBAL = 1, // Global symbol, visible to all object files being combined
  STB_WEAK = 2,   // Weak symbol, like global but lower-precedence
  STB_GNU_UNIQUE = 10,
  STB_LOOS = 10,   // Lowest operating system-specific binding type
  STB_HIOS = 12,   // Highest operating system-specific binding type
  STB_LOPROC = 13, // Lowest processor-specific binding type
  STB_HIPROC = 15  // Highest processor-specific binding type
};

// Symbol types.
enum {
  STT_NOTYPE = 0,     // Symbol's type is not specified
  STT_OBJECT = 1,     // Symbol is a data object (variable, array, etc.)
  STT_FUNC = 2,       // Symbol is executable code (function, etc.)
  STT_SECTION = 3,    // Symbol refers to a section
  STT_FILE = 4,       // Local, absolute symbol that refers to a file
  STT_COMMON = 5,     // An uninitialized common block
  STT_TLS = 6,        // Thread local data object
  STT_GNU_IFUNC = 10, // GNU indirect function
  STT_LOOS = 10,      // Lowest operating system-specific symbol type
  STT_HIOS = 12,      // Highest operating system-specific symbol type
  STT_LOPROC = 13,    // Lowest processor-specific symbol type
  STT_HIPROC = 15,    // Highest processor-specific symbol type

  // AMDGPU symbol types
  STT_AMDGPU_HSA_KERNEL = 10
};

enum {
  STV_DEFAULT = 0,  // Visibility is specified by binding type
  STV_INTERNAL = 1, // Defined by processor supplements
  STV_HIDDEN = 2,   // Not visible to other components
  STV_PROTECTED = 3 // Visible in other components but not preemptable
};

// Symbol number.
enum { STN_UNDEF = 0 };

// Special relocation symbols used in the MIPS64 ELF relocation entries
enum {
  RSS_UNDEF = 0, // None
  RSS_GP = 1,    // Value of gp
  RSS_GP0 = 2,   // Value of gp used to create object being relocated
  RSS_LOC = 3    // Address of location being relocated
};

// Relocation entry, without explicit addend.
struct Elf32_Rel {
  Elf32_Addr r_offset; // Location (file byte offset, or program virtual addr)
  Elf32_Word r_info;   // Symbol table index and type of relocation to apply

  // These accessors and mutators correspond to the ELF32_R_SYM, ELF32_R_TYPE,
  // and ELF32_R_INFO macros defined in the ELF specification:
  Elf32_Word getSymbol() const { return (r_info >> 8); }
  unsigned char getType() const { return (unsigned char)(r_info & 0x0ff); }
  void setSymbol(Elf32_Word s) { setSymbolAndType(s, getType()); }
  void setType(unsigned char t) { setSymbolAndType(getSymbol(), t); }
  void setSymbolAndType(Elf32_Word s, unsigned char t) {
    r_info = (s << 8) + t;
  }
};

// Relocation entry with explicit addend.
struct Elf32_Rela {
  Elf32_Addr r_offset;  // Location (file byte offset, or program virtual addr)
  Elf32_Word r_info;    // Symbol table index and type of relocation to apply
  Elf32_Sword r_addend; // Compute value for relocatable field by adding this

  // These accessors and mutators correspond to the ELF32_R_SYM, ELF32_R_TYPE,
  // and ELF32_R_INFO macros defined in the ELF specification:
  Elf32_Word getSymbol() const { return (r_info >> 8); }
  unsigned char getType() const { return (unsigned char)(r_info & 0x0ff); }
  void setSymbol(Elf32_Word s) { setSymbolAndType(s, getType()); }
  void setType(unsigned char t) { setSymbolAndType(getSymbol(), t); }
  void setSymbolAndType(Elf32_Word s, unsigned char t) {
    r_info = (s << 8) + t;
  }
};

// Relocation entry without explicit addend or info (relative relocations only).
typedef Elf32_Word Elf32_Relr; // offset/bitmap for relative relocations

// Relocation entry, without explicit addend.
struct Elf64_Rel {
  Elf64_Addr r_offset; // Location (file byte offset, or program virtual addr).
  Elf64_Xword r_info;  // Symbol table index and type of relocation to apply.

  // These accessors and mutators correspond to the ELF64_R_SYM, ELF64_R_TYPE,
  // and ELF64_R_INFO macros defined in the ELF specification:
  Elf64_Word getSymbol() const { return (r_info >> 32); }
  Elf64_Word getType() const { return (Elf64_Word)(r_info & 0xffffffffL); }
  void setSymbol(Elf64_Word s) { setSymbolAndType(s, getType()); }
  void setType(Elf64_Word t) { setSymbolAndType(getSymbol(), t); }
  void setSymbolAndType(Elf64_Word s, Elf64_Word t) {
    r_info = ((Elf64_Xword)s << 32) + (t & 0xffffffffL);
  }
};

// Relocation entry with explicit addend.
struct Elf64_Rela {
  Elf64_Addr r_offset; // Location (file byte offset, or program virtual addr).
  Elf64_Xword r_info;  // Symbol table index and type of relocation to apply.
  Elf64_Sxword r_addend; // Compute value for relocatable field by adding this.

  // These accessors and mutators correspond to the ELF64_R_SYM, ELF64_R_TYPE,
  // and ELF64_R_INFO macros defined in the ELF specification:
  Elf64_Word getSymbol() const { return (r_info >> 32); }
  Elf64_Word getType() const { return (Elf64_Word)(r_info & 0xffffffffL); }
  void setSymbol(Elf64_Word s) { setSymbolAndType(s, getType()); }
  void setType(Elf64_Word t) { setSymbolAndType(getSymbol(), t); }
  void setSymbolAndType(Elf64_Word s, Elf64_Word t) {
    r_info = ((Elf64_Xword)s << 32) + (t & 0xffffffffL);
  }
};

// Relocation entry without explicit addend or info (relative relocations only).
typedef Elf64_Xword Elf64_Relr; // offset/bitmap for relative relocations

// Program header for ELF32.
struct Elf32_Phdr {
  Elf32_Word p_type;   // Type of segment
  Elf32_Off p_offset;  // File offset where segment is located, in bytes
  Elf32_Addr p_vaddr;  // Virtual address of beginning of segment
  Elf32_Addr p_paddr;  // Physical address of beginning of segment (OS-specific)
  Elf32_Word p_filesz; // Num. of bytes in file image of segment (may be zero)
  Elf32_Word p_memsz;  // Num. of bytes in mem image of segment (may be zero)
  Elf32_Word p_flags;  // Segment flags
  Elf32_Word p_align;  // Segment alignment constraint
};

// Program header for ELF64.
struct Elf64_Phdr {
  Elf64_Word p_type;    // Type of segment
  Elf64_Word p_flags;   // Segment flags
  Elf64_Off p_offset;   // File offset where segment is located, in bytes
  Elf64_Addr p_vaddr;   // Virtual address of beginning of segment
  Elf64_Addr p_paddr;   // Physical addr of beginning of segment (OS-specific)
  Elf64_Xword p_filesz; // Num. of bytes in file image of segment (may be zero)
  Elf64_Xword p_memsz;  // Num. of bytes in mem image of segment (may be zero)
  Elf64_Xword p_align;  // Segment alignment constraint
};

// Segment types.
enum {
  PT_NULL = 0,            // Unused segment.
  PT_LOAD = 1,            // Loadable segment.
  PT_DYNAMIC = 2,         // Dynamic linking information.
  PT_INTERP = 3,          // Interpreter pathname.
  PT_NOTE = 4,            // Auxiliary information.
  PT_SHLIB = 5,           // Reserved.
  PT_PHDR = 6,            // The program header table itself.
  PT_TLS = 7,             // The thread-local storage template.
  PT_LOOS = 0x60000000,   // Lowest operating system-specific pt entry type.
  PT_HIOS = 0x6fffffff,   // Highest operating system-specific pt entry type.
  PT_LOPROC = 0x70000000, // Lowest processor-specific program hdr entry type.
  PT_HIPROC = 0x7fffffff, // Highest processor-specific program hdr entry type.

  // x86-64 program header types.
  // These all contain stack unwind tables.
  PT_GNU_EH_FRAME = 0x6474e550,
  PT_SUNW_EH_FRAME = 0x6474e550,
  PT_SUNW_UNWIND = 0x6464e550,

  PT_GNU_STACK = 0x6474e551,    // Indicates stack executability.
  PT_GNU_RELRO = 0x6474e552,    // Read-only after relocation.
  PT_GNU_PROPERTY = 0x6474e553, // .note.gnu.property notes sections.

  PT_OPENBSD_RANDOMIZE = 0x65a3dbe6, // Fill with random data.
  PT_OPENBSD_WXNEEDED = 0x65a3dbe7,  // Program does W^X violations.
  PT_OPENBSD_BOOTDATA = 0x65a41be6,  // Section for boot arguments.

  // ARM program header types.
  PT_ARM_ARCHEXT = 0x70000000, // Platform architecture compatibility info
  // These all contain stack unwind tables.
  PT_ARM_EXIDX = 0x70000001,
  PT_ARM_UNWIND = 0x70000001,

  // MIPS program header types.
  PT_MIPS_REGINFO = 0x70000000,  // Register usage information.
  PT_MIPS_RTPROC = 0x70000001,   // Runtime procedure table.
  PT_MIPS_OPTIONS = 0x70000002,  // Options segment.
  PT_MIPS_ABIFLAGS = 0x70000003, // Abiflags segment.
};

// Segment flag bits.
enum : unsigned {
  PF_X = 1,                // Execute
  PF_W = 2,                // Write
  PF_R = 4,                // Read
  PF_MASKOS = 0x0ff00000,  // Bits for operating system-specific semantics.
  PF_MASKPROC = 0xf0000000 // Bits for processor-specific semantics.
};

// Dynamic table entry for ELF32.
struct Elf32_Dyn {
  Elf32_Sword d_tag; // Type of dynamic table entry.
  union {
    Elf32_Word d_val; // Integer value of entry.
    Elf32_Addr d_ptr; // Pointer value of entry.
  } d_un;
};

// Dynamic table entry for ELF64.
struct Elf64_Dyn {
  Elf64_Sxword d_tag; // Type of dynamic table entry.
  union {
    Elf64_Xword d_val; // Integer value of entry.
    Elf64_Addr d_ptr;  // Pointer value of entry.
  } d_un;
};

// Dynamic table entry tags.
enum {
#define DYNAMIC_TAG(name, value) DT_##name = value,
#include "DynamicTags.def"
#undef DYNAMIC_TAG
};

// DT_FLAGS values.
enum {
  DF_ORIGIN = 0x01,    // The object may reference $ORIGIN.
  DF_SYMBOLIC = 0x02,  // Search the shared lib before searching the exe.
  DF_TEXTREL = 0x04,   // Relocations may modify a non-writable segment.
  DF_BIND_NOW = 0x08,  // Process all relocations on load.
  DF_STATIC_TLS = 0x10 // Reject attempts to load dynamically.
};

// State flags selectable in the `d_un.d_val' element of the DT_FLAGS_1 entry.
enum {
  DF_1_NOW = 0x00000001,       // Set RTLD_NOW for this object.
  DF_1_GLOBAL = 0x00000002,    // Set RTLD_GLOBAL for this object.
  DF_1_GROUP = 0x00000004,     // Set RTLD_GROUP for this object.
  DF_1_NODELETE = 0x00000008,  // Set RTLD_NODELETE for this object.
  DF_1_LOADFLTR = 0x00000010,  // Trigger filtee loading at runtime.
  DF_1_INITFIRST = 0x00000020, // Set RTLD_INITFIRST for this object.
  DF_1_NOOPEN = 0x00000040,    // Set RTLD_NOOPEN for this object.
  DF_1_ORIGIN = 0x00000080,    // $ORIGIN must be handled.
  DF_1_DIRECT = 0x00000100,    // Direct binding enabled.
  DF_1_TRANS = 0x00000200,
  DF_1_INTERPOSE = 0x00000400,  // Object is used to interpose.
  DF_1_NODEFLIB = 0x00000800,   // Ignore default lib search path.
  DF_1_NODUMP = 0x00001000,     // Object can't be dldump'ed.
  DF_1_CONFALT = 0x00002000,    // Configuration alternative created.
  DF_1_ENDFILTEE = 0x00004000,  // Filtee terminates filters search.
  DF_1_DISPRELDNE = 0x00008000, // Disp reloc applied at build time.
  DF_1_DISPRELPND = 0x00010000, // Disp reloc applied at run-time.
  DF_1_NODIRECT = 0x00020000,   // Object has no-direct binding.
  DF_1_IGNMULDEF = 0x00040000,
  DF_1_NOKSYMS = 0x00080000,
  DF_1_NOHDR = 0x00100000,
  DF_1_EDITED = 0x00200000, // Object is modified after built.
  DF_1_NORELOC = 0x00400000,
  DF_1_SYMINTPOSE = 0x00800000, // Object has individual interposers.
  DF_1_GLOBAUDIT = 0x01000000,  // Global auditing required.
  DF_1_SINGLETON = 0x02000000,  // Singleton symbols are used.
  DF_1_PIE = 0x08000000,        // Object is a position-independent executable.
};

// DT_MIPS_FLAGS values.
enum {
  RHF_NONE = 0x00000000,                   // No flags.
  RHF_QUICKSTART = 0x00000001,             // Uses shortcut pointers.
  RHF_NOTPOT = 0x00000002,                 // Hash size is not a power of two.
  RHS_NO_LIBRARY_REPLACEMENT = 0x00000004, // Ignore LD_LIBRARY_PATH.
  RHF_NO_MOVE = 0x00000008,                // DSO address may not be relocated.
  RHF_SGI_ONLY = 0x00000010,               // SGI specific features.
  RHF_GUARANTEE_INIT = 0x00000020,         // Guarantee that .init will finish
                                           // executing before any non-init
                                           // code in DSO is called.
  RHF_DELTA_C_PLUS_PLUS = 0x00000040,      // Contains Delta C++ code.
  RHF_GUARANTEE_START_INIT = 0x00000080,   // Guarantee that .init will start
                                           // executing before any non-init
                                           // code in DSO is called.
  RHF_PIXIE = 0x00000100,                  // Generated by pixie.
  RHF_DEFAULT_DELAY_LOAD = 0x00000200,     // Delay-load DSO by default.
  RHF_REQUICKSTART = 0x00000400,           // Object may be requickstarted
  RHF_REQUICKSTARTED = 0x00000800,         // Object has been requickstarted
  RHF_CORD = 0x00001000,                   // Generated by cord.
  RHF_NO_UNRES_UNDEF = 0x00002000,         // Object contains no unresolved
                                           // undef symbols.
  RHF_RLD_ORDER_SAFE = 0x00004000          // Symbol table is in a safe order.
};

// ElfXX_VerDef structure version (GNU versioning)
enum { VER_DEF_NONE = 0, VER_DEF_CURRENT = 1 };

// VerDef Flags (ElfXX_VerDef::vd_flags)
enum { VER_FLG_BASE = 0x1, VER_FLG_WEAK = 0x2, VER_FLG_INFO = 0x4 };

// Special constants for the version table. (SHT_GNU_versym/.gnu.version)
enum {
  VER_NDX_LOCAL = 0,       // Unversioned local symbol
  VER_NDX_GLOBAL = 1,      // Unversioned global symbol
  VERSYM_VERSION = 0x7fff, // Version Index mask
  VERSYM_HIDDEN = 0x8000   // Hidden bit (non-default version)
};

// ElfXX_VerNeed structure version (GNU versioning)
enum { VER_NEED_NONE = 0, VER_NEED_CURRENT = 1 };

// SHT_NOTE section types.

// Generic note types.
enum : unsigned {
  NT_VERSION = 1,
  NT_ARCH = 2,
  NT_GNU_BUILD_ATTRIBUTE_OPEN = 0x100,
  NT_GNU_BUILD_ATTRIBUTE_FUNC = 0x101,
};

// Core note types.
enum : unsigned {
  NT_PRSTATUS = 1,
  NT_FPREGSET = 2,
  NT_PRPSINFO = 3,
  NT_TASKSTRUCT = 4,
  NT_AUXV = 6,
  NT_PSTATUS = 10,
  NT_FPREGS = 12,
  NT_PSINFO = 13,
  NT_LWPSTATUS = 16,
  NT_LWPSINFO = 17,
  NT_WIN32PSTATUS = 18,

  NT_PPC_VMX = 0x100,
  NT_PPC_VSX = 0x102,
  NT_PPC_TAR = 0x103,
  NT_PPC_PPR = 0x104,
  NT_PPC_DSCR = 0x105,
  NT_PPC_EBB = 0x106,
  NT_PPC_PMU = 0x107,
  NT_PPC_TM_CGPR = 0x108,
  NT_PPC_TM_CFPR = 0x109,
  NT_PPC_TM_CVMX = 0x10a,
  NT_PPC_TM_CVSX = 0x10b,
  NT_PPC_TM_SPR = 0x10c,
  NT_PPC_TM_CTAR = 0x10d,
  NT_PPC_TM_CPPR = 0x10e,
  NT_PPC_TM_CDSCR = 0x10f,

  NT_386_TLS = 0x200,
  NT_386_IOPERM = 0x201,
  NT_X86_XSTATE = 0x202,

  NT_S390_HIGH_GPRS = 0x300,
  NT_S390_TIMER = 0x301,
  NT_S390_TODCMP = 0x302,
  NT_S390_TODPREG = 0x303,
  NT_S390_CTRS = 0x304,
  NT_S390_PREFIX = 0x305,
  NT_S390_LAST_BREAK = 0x306,
  NT_S390_SYSTEM_CALL = 0x307,
  NT_S390_TDB = 0x308,
  NT_S390_VXRS_LOW = 0x309,
  NT_S390_VXRS_HIGH = 0x30a,
  NT_S390_GS_CB = 0x30b,
  NT_S390_GS_BC = 0x30c,

  NT_ARM_VFP = 0x400,
  NT_ARM_TLS = 0x401,
  NT_ARM_HW_BREAK = 0x402,
  NT_ARM_HW_WATCH = 0x403,
  NT_ARM_SVE = 0x405,
  NT_ARM_PAC_MASK = 0x406,

  NT_FILE = 0x46494c45,
  NT_PRXFPREG = 0x46e62b7f,
  NT_SIGINFO = 0x53494749,
};

// LLVM-specific notes.
enum {
  NT_LLVM_HWASAN_GLOBALS = 3,
};

// GNU note types.
enum {
  NT_GNU_ABI_TAG = 1,
  NT_GNU_HWCAP = 2,
  NT_GNU_BUILD_ID = 3,
  NT_GNU_GOLD_VERSION = 4,
  NT_GNU_PROPERTY_TYPE_0 = 5,
};

// Property types used in GNU_PROPERTY_TYPE_0 notes.
enum : unsigned {
  GNU_PROPERTY_STACK_SIZE = 1,
  GNU_PROPERTY_NO_COPY_ON_PROTECTED = 2,
  GNU_PROPERTY_AARCH64_FEATURE_1_AND = 0xc0000000,
  GNU_PROPERTY_X86_FEATURE_1_AND = 0xc0000002,

  GNU_PROPERTY_X86_UINT32_OR_LO = 0xc0008000,
  GNU_PROPERTY_X86_FEATURE_2_NEEDED = GNU_PROPERTY_X86_UINT32_OR_LO + 1,
  GNU_PROPERTY_X86_ISA_1_NEEDED = GNU_PROPERTY_X86_UINT32_OR_LO + 2,

  GNU_PROPERTY_X86_UINT32_OR_AND_LO = 0xc0010000,
  GNU_PROPERTY_X86_FEATURE_2_USED = GNU_PROPERTY_X86_UINT32_OR_AND_LO + 1,
  GNU_PROPERTY_X86_ISA_1_USED = GNU_PROPERTY_X86_UINT32_OR_AND_LO + 2,
};

// aarch64 processor feature bits.
enum : unsigned {
  GNU_PROPERTY_AARCH64_FEATURE_1_BTI = 1 << 0,
  GNU_PROPERTY_AARCH64_FEATURE_1_PAC = 1 << 1,
};

// x86 processor feature bits.
enum : unsigned {
  GNU_PROPERTY_X86_FEATURE_1_IBT = 1 << 0,
  GNU_PROPERTY_X86_FEATURE_1_SHSTK = 1 << 1,

  GNU_PROPERTY_X86_FEATURE_2_X86 = 1 << 0,
  GNU_PROPERTY_X86_FEATURE_2_X87 = 1 << 1,
  GNU_PROPERTY_X86_FEATURE_2_MMX = 1 << 2,
  GNU_PROPERTY_X86_FEATURE_2_XMM = 1 << 3,
  GNU_PROPERTY_X86_FEATURE_2_YMM = 1 << 4,
  GNU_PROPERTY_X86_FEATURE_2_ZMM = 1 << 5,
  GNU_PROPERTY_X86_FEATURE_2_FXSR = 1 << 6,
  GNU_PROPERTY_X86_FEATURE_2_XSAVE = 1 << 7,
  GNU_PROPERTY_X86_FEATURE_2_XSAVEOPT = 1 << 8,
  GNU_PROPERTY_X86_FEATURE_2_XSAVEC = 1 << 9,

  GNU_PROPERTY_X86_ISA_1_BASELINE = 1 << 0,
  GNU_PROPERTY_X86_ISA_1_V2 = 1 << 1,
  GNU_PROPERTY_X86_ISA_1_V3 = 1 << 2,
  GNU_PROPERTY_X86_ISA_1_V4 = 1 << 3,
};

// FreeBSD note types.
enum {
  NT_FREEBSD_ABI_TAG = 1,
  NT_FREEBSD_NOINIT_TAG = 2,
  NT_FREEBSD_ARCH_TAG = 3,
  NT_FREEBSD_FEATURE_CTL = 4,
};

// NT_FREEBSD_FEATURE_CTL values (see FreeBSD's sys/sys/elf_common.h).
enum {
  NT_FREEBSD_FCTL_ASLR_DISABLE = 0x00000001,
  NT_FREEBSD_FCTL_PROTMAX_DISABLE = 0x00000002,
  NT_FREEBSD_FCTL_STKGAP_DISABLE = 0x00000004,
  NT_FREEBSD_FCTL_WXNEEDED = 0x00000008,
  NT_FREEBSD_FCTL_LA48 = 0x00000010,
  NT_FREEBSD_FCTL_ASG_DISABLE = 0x00000020,
};

// FreeBSD core note types.
enum {
  NT_FREEBSD_THRMISC = 7,
  NT_FREEBSD_PROCSTAT_PROC = 8,
  NT_FREEBSD_PROCSTAT_FILES = 9,
  NT_FREEBSD_PROCSTAT_VMMAP = 10,
  NT_FREEBSD_PROCSTAT_GROUPS = 11,
  NT_FREEBSD_PROCSTAT_UMASK = 12,
  NT_FREEBSD_PROCSTAT_RLIMIT = 13,
  NT_FREEBSD_PROCSTAT_OSREL = 14,
  NT_FREEBSD_PROCSTAT_PSSTRINGS = 15,
  NT_FREEBSD_PROCSTAT_AUXV = 16,
};

// NetBSD core note types.
enum {
  NT_NETBSDCORE_PROCINFO = 1,
  NT_NETBSDCORE_AUXV = 2,
  NT_NETBSDCORE_LWPSTATUS = 24,
};

// OpenBSD core note types.
enum {
  NT_OPENBSD_PROCINFO = 10,
  NT_OPENBSD_AUXV = 11,
  NT_OPENBSD_REGS = 20,
  NT_OPENBSD_FPREGS = 21,
  NT_OPENBSD_XFPREGS = 22,
  NT_OPENBSD_WCOOKIE = 23,
};

// AMDGPU-specific section indices.
enum {
  SHN_AMDGPU_LDS = 0xff00, // Variable in LDS; symbol encoded like SHN_COMMON
};

// AMD vendor specific notes. (Code Object V2)
enum {
  NT_AMD_HSA_CODE_OBJECT_VERSION = 1,
  NT_AMD_HSA_HSAIL = 2,
  NT_AMD_HSA_ISA_VERSION = 3,
  // Note types with values between 4 and 9 (inclusive) are reserved.
  NT_AMD_HSA_METADATA = 10,
  NT_AMD_HSA_ISA_NAME = 11,
  NT_AMD_PAL_METADATA = 12
};

// AMDGPU vendor specific notes. (Code Object V3)
enum {
  // Note types with values between 0 and 31 (inclusive) are reserved.
  NT_AMDGPU_METADATA = 32
};

// LLVMOMPOFFLOAD specific notes.
enum : unsigned {
  NT_LLVM_OPENMP_OFFLOAD_VERSION = 1,
  NT_LLVM_OPENMP_OFFLOAD_PRODUCER = 2,
  NT_LLVM_OPENMP_OFFLOAD_PRODUCER_VERSION = 3
};

enum {
  GNU_ABI_TAG_LINUX = 0,
  GNU_ABI_TAG_HURD = 1,
  GNU_ABI_TAG_SOLARIS = 2,
  GNU_ABI_TAG_FREEBSD = 3,
  GNU_ABI_TAG_NETBSD = 4,
  GNU_ABI_TAG_SYLLABLE = 5,
  GNU_ABI_TAG_NACL = 6,
};

constexpr const char *ELF_NOTE_GNU = "GNU";

// Android packed relocation group flags.
enum {
  RELOCATION_GROUPED_BY_INFO_FLAG = 1,
  RELOCATION_GROUPED_BY_OFFSET_DELTA_FLAG = 2,
  RELOCATION_GROUPED_BY_ADDEND_FLAG = 4,
  RELOCATION_GROUP_HAS_ADDEND_FLAG = 8,
};

// Compressed section header for ELF32.
struct Elf32_Chdr {
  Elf32_Word ch_type;
  Elf32_Word ch_size;
  Elf32_Word ch_addralign;
};

// Compressed section header for ELF64.
struct Elf64_Chdr {
  Elf64_Word ch_type;
  Elf64_Word ch_reserved;
  Elf64_Xword ch_size;
  Elf64_Xword ch_addralign;
};

// Note header for ELF32.
struct Elf32_Nhdr {
  Elf32_Word n_namesz;
  Elf32_Word n_descsz;
  Elf32_Word n_type;
};

// Note header for ELF64.
struct Elf64_Nhdr {
  Elf64_Word n_namesz;
  Elf64_Word n_descsz;
  Elf64_Word n_type;
};

// Legal values for ch_type field of compressed section header.
enum {
  ELFCOMPRESS_ZLIB = 1,            // ZLIB/DEFLATE algorithm.
  ELFCOMPRESS_LOOS = 0x60000000,   // Start of OS-specific.
  ELFCOMPRESS_HIOS = 0x6fffffff,   // End of OS-specific.
  ELFCOMPRESS_LOPROC = 0x70000000, // Start of processor-specific.
  ELFCOMPRESS_HIPROC = 0x7fffffff  // End of processor-specific.
};

/// Convert an architecture name into ELF's e_machine value.
uint16_t convertArchNameToEMachine(StringRef Arch);

/// Convert an ELF's e_machine value into an architecture name.
StringRef convertEMachineToArchName(uint16_t EMachine);

} // end namespace ELF
} // end namespace llvm

#endif // LLVM_BINARYFORMAT_ELF_H
