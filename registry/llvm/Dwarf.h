//===-- llvm/BinaryFormat/Dwarf.h ---Dwarf Constants-------------*- C++ -*-===//
//
// Part of the LLVM Project, under the Apache License v2.0 with LLVM Exceptions.
// See https://llvm.org/LICENSE.txt for license information.
// SPDX-License-Identifier: Apache-2.0 WITH LLVM-exception
//
//===----------------------------------------------------------------------===//
//
/// \file
/// This file contains constants used for implementing Dwarf
/// debug support.
///
/// For details on the Dwarf specfication see the latest DWARF Debugging
/// Information Format standard document on http://www.dwarfstd.org. This
/// file often includes support for non-released standard features.
//
//===----------------------------------------------------------------------===//

#ifndef LLVM_BINARYFORMAT_DWARF_H
#define LLVM_BINARYFORMAT_DWARF_H

#include "llvm/Support/Compiler.h"
#include "llvm/Support/DataTypes.h"
#include "llvm/Support/ErrorHandling.h"
#include "llvm/Support/Format.h"
#include "llvm/Support/FormatVariadicDetails.h"
#include "llvm/ADT/Triple.h"

#include <limits>

namespace llvm {
class StringRef;
template<typename T> class Optional;

namespace dwarf {


//===----------------------------------------------------------------------===//
// DWARF constants as gleaned from the DWARF Debugging Information Format V.5
// reference manual http://www.dwarfstd.org/.
//

// Do not mix the following two enumerations sets.  DW_TAG_invalid changes the
// enumeration base type.

enum LLVMConstants : uint32_t {
  /// LLVM mock tags (see also llvm/BinaryFormat/Dwarf.def).
  /// \{
  DW_TAG_invalid = ~0U,        ///< Tag for invalid results.
  DW_VIRTUALITY_invalid = ~0U, ///< Virtuality for invalid results.
  DW_MACINFO_invalid = ~0U,    ///< Macinfo type for invalid results.
  /// \}

  /// Special values for an initial length field.
  /// \{
  DW_LENGTH_lo_reserved = 0xfffffff0, ///< Lower bound of the reserved range.
  DW_LENGTH_DWARF64 = 0xffffffff,     ///< Indicator of 64-bit DWARF format.
  DW_LENGTH_hi_reserved = 0xffffffff, ///< Upper bound of the reserved range.
  /// \}

  /// Other constants.
  /// \{
  DWARF_VERSION = 4,       ///< Default dwarf version we output.
  DW_PUBTYPES_VERSION = 2, ///< Section version number for .debug_pubtypes.
  DW_PUBNAMES_VERSION = 2, ///< Section version number for .debug_pubnames.
  DW_ARANGES_VERSION = 2,  ///< Section version number for .debug_aranges.
  /// \}

  /// Identifiers we use to distinguish vendor extensions.
  /// \{
  DWARF_VENDOR_DWARF = 0, ///< Defined in v2 or later of the DWARF standard.
  DWARF_VENDOR_APPLE = 1,
  DWARF_VENDOR_BORLAND = 2,
  DWARF_VENDOR_GNU = 3,
  DWARF_VENDOR_GOOGLE = 4,
  DWARF_VENDOR_LLVM = 5,
  DWARF_VENDOR_MIPS = 6,
  DWARF_VENDOR_WASM = 7,
  DWARF_VENDOR_ALTIUM,
  DWARF_VENDOR_COMPAQ,
  DWARF_VENDOR_GHS,
  DWARF_VENDOR_GO,
  DWARF_VENDOR_HP,
  DWARF_VENDOR_IBM,
  DWARF_VENDOR_INTEL,
  DWARF_VENDOR_PGI,
  DWARF_VENDOR_SUN,
  DWARF_VENDOR_UPC,
  ///\}
};

/// Constants that define the DWARF format as 32 or 64 bit.
enum DwarfFormat : uint8_t { DWARF32, DWARF64 };

/// Special ID values that distinguish a CIE from a FDE in DWARF CFI.
/// Not inside an enum because a 64-bit value is needed.
/// @{
const uint32_t DW_CIE_ID = UINT32_MAX;
const uint64_t DW64_CIE_ID = UINT64_MAX;
/// @}

/// Identifier of an invalid DIE offset in the .debug_info section.
const uint32_t DW_INVALID_OFFSET = UINT32_MAX;

enum Tag : uint16_t {
#define HANDLE_DW_TAG(ID, NAME, VERSION, VENDOR, KIND) DW_TAG_##NAME = ID,
#include "llvm/BinaryFormat/Dwarf.def"
  DW_TAG_lo_user = 0x4080,
  DW_TAG_hi_user = 0xffff,
  DW_TAG_user_base = 0x1000 ///< Recommended base for user tags.
};

inline bool isType(Tag T) {
  switch (T) {
  default:
    return false;
#define HANDLE_DW_TAG(ID, NAME, VERSION, VENDOR, KIND)                         \
  case DW_TAG_##NAME:                                                          \
    return (KIND == DW_KIND_TYPE);
#include "llvm/BinaryFormat/Dwarf.def"
  }
}

/// Attributes.
enum Attribute : uint16_t {
#define HANDLE_DW_AT(ID, NAME, VERSION, VENDOR) DW_AT_##NAME = ID,
#include "llvm/BinaryFormat/Dwarf.def"
  DW_AT_lo_user = 0x2000,
  DW_AT_hi_user = 0x3fff,
};

enum Form : uint16_t {
#define HANDLE_DW_FORM(ID, NAME, VERSION, VENDOR) DW_FORM_##NAME = ID,
#include "llvm/BinaryFormat/Dwarf.def"
  DW_FORM_lo_user = 0x1f00, ///< Not specified by DWARF.
};

enum LocationAtom {
#define HANDLE_DW_OP(ID, NAME, VERSION, VENDOR) DW_OP_##NAME = ID,
#include "llvm/BinaryFormat/Dwarf.def"
  DW_OP_lo_user = 0xe0,
  DW_OP_hi_user = 0xff,
  DW_OP_LLVM_fragment = 0x1000,         ///< Only used in LLVM metadata.
  DW_OP_LLVM_convert = 0x1001,          ///< Only used in LLVM metadata.
  DW_OP_LLVM_tag_offset = 0x1002,       ///< Only used in LLVM metadata.
  DW_OP_LLVM_entry_value = 0x1003,      ///< Only used in LLVM metadata.
  DW_OP_LLVM_implicit_pointer = 0x1004, ///< Only used in LLVM metadata.
  DW_OP_LLVM_arg = 0x1005,              ///< Only used in LLVM metadata.
};

enum TypeKind : uint8_t {
#define HANDLE_DW_ATE(ID, NAME, VERSION, VENDOR) DW_ATE_##NAME = ID,
#include "llvm/BinaryFormat/Dwarf.def"
  DW_ATE_lo_user = 0x80,
  DW_ATE_hi_user = 0xff
};

enum DecimalSignEncoding {
  // Decimal sign attribute values
  DW_DS_unsigned = 0x01,
  DW_DS_leading_overpunch = 0x02,
  DW_DS_trailing_overpunch = 0x03,
  DW_DS_leading_separate = 0x04,
  DW_DS_trailing_separate = 0x05
};

enum EndianityEncoding {
  // Endianity attribute values
#define HANDLE_DW_END(ID, NAME) DW_END_##NAME = ID,
#include "llvm/BinaryFormat/Dwarf.def"
  DW_END_lo_user = 0x40,
  DW_END_hi_user = 0xff
};

enum AccessAttribute {
  // Accessibility codes
  DW_ACCESS_public = 0x01,
  DW_ACCESS_protected = 0x02,
  DW_ACCESS_private = 0x03
};

enum VisibilityAttribute {
  // Visibility codes
  DW_VIS_local = 0x01,
  DW_VIS_exported = 0x02,
  DW_VIS_qualified = 0x03
};

enum VirtualityAttribute {
#define HANDLE_DW_VIRTUALITY(ID, NAME) DW_VIRTUALITY_##NAME = ID,
#include "llvm/BinaryFormat/Dwarf.def"
  DW_VIRTUALITY_max = 0x02
};

enum DefaultedMemberAttribute {
#define HANDLE_DW_DEFAULTED(ID, NAME) DW_DEFAULTED_##NAME = ID,
#include "llvm/BinaryFormat/Dwarf.def"
  DW_DEFAULTED_max = 0x02
};

enum SourceLanguage {
#define HANDLE_DW_LANG(ID, NAME, LOWER_BOUND, VERSION, VENDOR)                 \
  DW_LANG_##NAME = ID,
#include "llvm/BinaryFormat/Dwarf.def"
  DW_LANG_lo_user = 0x8000,
  DW_LANG_hi_user = 0xffff
};

inline bool isCPlusPlus(SourceLanguage S) {
  bool result = false;
  // Deliberately enumerate all the language options so we get a warning when
  // new language options are added (-Wswitch) that'll hopefully help keep this
  // switch up-to-date when new C++ versions are added.
  switch (S) {
  case DW_LANG_C_plus_plus:
  case DW_LANG_C_plus_plus_03:
  case DW_LANG_C_plus_plus_11:
  case DW_LANG_C_plus_plus_14:
    result = true;
    break;
  case DW_LANG_C89:
  case DW_LANG_C:
  case DW_LANG_Ada83:
  case DW_LANG_Cobol74:
  case DW_LANG_Cobol85:
  case DW_LANG_Fortran77:
  case DW_LANG_Fortran90:
  case DW_LANG_Pascal83:
  case DW_LANG_Modula2:
  case DW_LANG_Java:
  case DW_LANG_C99:
  case DW_LANG_Ada95:
  case DW_LANG_Fortran95:
  case DW_LANG_PLI:
  case DW_LANG_ObjC:
  case DW_LANG_ObjC_plus_plus:
  case DW_LANG_UPC:
  case DW_LANG_D:
  case DW_LANG_Python:
  case DW_LANG_OpenCL:
  case DW_LANG_Go:
  case DW_LANG_Modula3:
  case DW_LANG_Haskell:
  case DW_LANG_OCaml:
  case DW_LANG_Rust:
  case DW_LANG_C11:
  case DW_LANG_Swift:
  case DW_LANG_Julia:
  case DW_LANG_Dylan:
  case DW_LANG_Fortran03:
  case DW_LANG_Fortran08:
  case DW_LANG_RenderScript:
  case DW_LANG_BLISS:
  case DW_LANG_Mips_Assembler:
  case DW_LANG_GOOGLE_RenderScript:
  case DW_LANG_BORLAND_Delphi:
  case DW_LANG_lo_user:
  case DW_LANG_hi_user:
    result = false;
    break;
  }

  return result;
}

inline bool isFortran(SourceLanguage S) {
  bool result = false;
  // Deliberately enumerate all the language options so we get a warning when
  // new language options are added (-Wswitch) that'll hopefully help keep this
  // switch up-to-date when new Fortran versions are added.
  switch (S) {
  case DW_LANG_Fortran77:
  case DW_LANG_Fortran90:
  case DW_LANG_Fortran95:
  case DW_LANG_Fortran03:
  case DW_LANG_Fortran08:
    result = true;
    break;
  case DW_LANG_C89:
  case DW_LANG_C:
  case DW_LANG_Ada83:
  case DW_LANG_C_plus_plus:
  case DW_LANG_Cobol74:
  case DW_LANG_Cobol85:
  case DW_LANG_Pascal83:
  case DW_LANG_Modula2:
  case DW_LANG_Java:
  case DW_LANG_C99:
  case DW_LANG_Ada95:
  case DW_LANG_PLI:
  case DW_LANG_ObjC:
  case DW_LANG_ObjC_plus_plus:
  case DW_LANG_UPC:
  case DW_LANG_D:
  case DW_LANG_Python:
  case DW_LANG_OpenCL:
  case DW_LANG_Go:
  case DW_LANG_Modula3:
  case DW_LANG_Haskell:
  case DW_LANG_C_plus_plus_03:
  case DW_LANG_C_plus_plus_11:
  case DW_LANG_OCaml:
  case DW_LANG_Rust:
  case DW_LANG_C11:
  case DW_LANG_Swift:
  case DW_LANG_Julia:
  case DW_LANG_Dylan:
  case DW_LANG_C_plus_plus_14:
  case DW_LANG_RenderScript:
  case DW_LANG_BLISS:
  case DW_LANG_Mips_Assembler:
  case DW_LANG_GOOGLE_RenderScript:
  case DW_LANG_BORLAND_Delphi:
  case DW_LANG_lo_user:
  case DW_LANG_hi_user:
    result = false;
    break;
  }

  return result;
}

enum CaseSensitivity {
  // Identifier case codes
  DW_ID_case_sensitive = 0x00,
  DW_ID_up_case = 0x01,
  DW_ID_down_case = 0x02,
  DW_ID_case_insensitive = 0x03
};

enum CallingConvention {
// Calling convention codes
#define HANDLE_DW_CC(ID, NAME) DW_CC_##NAME = ID,
#include "llvm/BinaryFormat/Dwarf.def"
  DW_CC_lo_user = 0x40,
  DW_CC_hi_user = 0xff
};

enum InlineAttribute {
  // Inline codes
  DW_INL_not_inlined = 0x00,
  DW_INL_inlined = 0x01,
  DW_INL_declared_not_inlined = 0x02,
  DW_INL_declared_inlined = 0x03
};

enum ArrayDimensionOrdering {
  // Array ordering
  DW_ORD_row_major = 0x00,
  DW_ORD_col_major = 0x01
};

enum DiscriminantList {
  // Discriminant descriptor values
  DW_DSC_label = 0x00,
  DW_DSC_range = 0x01
};

/// Line Number Standard Opcode Encodings.
enum LineNumberOps : uint8_t {
#define HANDLE_DW_LNS(ID, NAME) DW_LNS_##NAME = ID,
#include "llvm/BinaryFormat/Dwarf.def"
};

/// Line Number Extended Opcode Encodings.
enum LineNumberExtendedOps {
#define HANDLE_DW_LNE(ID, NAME) DW_LNE_##NAME = ID,
#include "llvm/BinaryFormat/Dwarf.def"
  DW_LNE_lo_user = 0x80,
  DW_LNE_hi_user = 0xff
};

enum LineNumberEntryFormat {
#define HANDLE_DW_LNCT(ID, NAME) DW_LNCT_##NAME = ID,
#include "llvm/BinaryFormat/Dwarf.def"
  DW_LNCT_lo_user = 0x2000,
  DW_LNCT_hi_user = 0x3fff,
};

enum MacinfoRecordType {
  // Macinfo Type Encodings
  DW_MACINFO_define = 0x01,
  DW_MACINFO_undef = 0x02,
  DW_MACINFO_start_file = 0x03,
  DW_MACINFO_end_file = 0x04,
  DW_MACINFO_vendor_ext = 0xff
};

/// DWARF v5 macro information entry type encodings.
enum MacroEntryType {
#define HANDLE_DW_MACRO(ID, NAME) DW_MACRO_##NAME = ID,
#include "llvm/BinaryFormat/Dwarf.def"
  DW_MACRO_lo_user = 0xe0,
  DW_MACRO_hi_user = 0xff
};

/// GNU .debug_macro macro information entry type encodings.
enum GnuMacroEntryType {
#define HANDLE_DW_MACRO_GNU(ID, NAME) DW_MACRO_GNU_##NAME = ID,
#include "llvm/BinaryFormat/Dwarf.def"
  DW_MACRO_GNU_lo_user = 0xe0,
  DW_MACRO_GNU_hi_user = 0xff
};

/// DWARF v5 range list entry encoding values.
enum RnglistEntries {
#define HANDLE_DW_RLE(ID, NAME) DW_RLE_##NAME = ID,
#include "llvm/BinaryFormat/Dwarf.def"
};

/// DWARF v5 loc list entry encoding values.
enum LoclistEntries {
#define HANDLE_DW_LLE(ID, NAME) DW_LLE_##NAME = ID,
#include "llvm/BinaryFormat/Dwarf.def"
};

/// Call frame instruction encodings.
enum CallFrameInfo {
#define HANDLE_DW_CFA(ID, NAME) DW_CFA_##NAME = ID,
#define HANDLE_DW_CFA_PRED(ID, NAME, ARCH) DW_CFA_##NAME = ID,
#include "llvm/BinaryFormat/Dwarf.def"
  DW_CFA_extended = 0x00,

  DW_CFA_lo_user = 0x1c,
  DW_CFA_hi_user = 0x3f
};

enum Constants {
  // Children flag
  DW_CHILDREN_no = 0x00,
  DW_CHILDREN_yes = 0x01,

  DW_EH_PE_absptr = 0x00,
  DW_EH_PE_omit = 0xff,
  DW_EH_PE_uleb128 = 0x01,
  DW_EH_PE_udata2 = 0x02,
  DW_EH_PE_udata4 = 0x03,
  DW_EH_PE_udata8 = 0x04,
  DW_EH_PE_sleb128 = 0x09,
  DW_EH_PE_sdata2 = 0x0A,
  DW_EH_PE_sdata4 = 0x0B,
  DW_EH_PE_sdata8 = 0x0C,
  DW_EH_PE_signed = 0x08,
  DW_EH_PE_pcrel = 0x10,
  DW_EH_PE_textrel = 0x20,
  DW_EH_PE_datarel = 0x30,
  DW_EH_PE_funcrel = 0x40,
  DW_EH_PE_aligned = 0x50,
  DW_EH_PE_indirect = 0x80
};

/// Constants for the DW_APPLE_PROPERTY_attributes attribute.
/// Keep this list in sync with clang's DeclObjCCommon.h
/// ObjCPropertyAttribute::Kind!
enum ApplePropertyAttributes {
#define HANDLE_DW_APPLE_PROPERTY(ID, NAME) DW_APPLE_PROPERTY_##NAME = ID,
#include "llvm/BinaryFormat/Dwarf.def"
};

/// Constants for unit types in DWARF v5.
enum UnitType : unsigned char {
#define HANDLE_DW_UT(ID, NAME) DW_UT_##NAME = ID,
#include "llvm/BinaryFormat/Dwarf.def"
  DW_UT_lo_user = 0x80,
  DW_UT_hi_user = 0xff
};

enum Index {
#define HANDLE_DW_IDX(ID, NAME) DW_IDX_##NAME = ID,
#include "llvm/BinaryFormat/Dwarf.def"
  DW_IDX_lo_user = 0x2000,
  DW_IDX_hi_user = 0x3fff
};

inline bool isUnitType(uint8_t UnitType) {
  switch (UnitType) {
  case DW_UT_compile:
  case DW_UT_type:
  case DW_UT_partial:
  case DW_UT_skeleton:
  case DW_UT_split_compile:
  case DW_UT_split_type:
    return true;
  default:
    return false;
  }
}

inline bool isUnitType(dwarf::Tag T) {
  switch (T) {
  case DW_TAG_compile_unit:
  case DW_TAG_type_unit:
  case DW_TAG_partial_unit:
  case DW_TAG_skeleton_unit:
    return true;
  default:
    return false;
  }
}

// Constants for the DWARF v5 Accelerator Table Proposal
enum AcceleratorTable {
  // Data layout descriptors.
  DW_ATOM_null = 0u,       ///  Marker as the end of a list of atoms.
  DW_ATOM_die_offset = 1u, // DIE offset in the debug_info section.
  DW_ATOM_cu_offset = 2u, // Offset of the compile unit header that contains the
                          // item in question.
  DW_ATOM_die_tag = 3u,   // A tag entry.
  DW_ATOM_type_flags = 4u, // Set of flags for a type.

  DW_ATOM_type_type_flags = 5u, // Dsymutil type extension.
  DW_ATOM_qual_name_hash = 6u,  // Dsymutil qualified hash extension.

  // DW_ATOM_type_flags values.

  // Always set for C++, only set for ObjC if this is the @implementation for a
  // class.
  DW_FLAG_type_implementation = 2u,

  // Hash functions.

  // Daniel J. Bernstein hash.
  DW_hash_function_djb = 0u
};

// Constants for the GNU pubnames/pubtypes extensions supporting gdb index.
enum GDBIndexEntryKind {
  GIEK_NONE,
  GIEK_TYPE,
  GIEK_VARIABLE,
  GIEK_FUNCTION,
  GIEK_OTHER,
  GIEK_UNUSED5,
  GIEK_UNUSED6,
  GIEK_UNUSED7
};

enum GDBIndexEntryLinkage { GIEL_EXTERNAL, GIEL_STATIC };

/// \defgroup DwarfConstantsDumping Dwarf constants dumping functions
///
/// All these functions map their argument's value back to the
/// corresponding enumerator name or return an empty StringRef if the value
/// isn't known.
///
/// @{
StringRef TagString(unsigned Tag);
StringRef ChildrenString(unsigned Children);
StringRef AttributeString(unsigned Attribute);
StringRef FormEncodingString(unsigned Encoding);
StringRef OperationEncodingString(unsigned Encoding);
StringRef AttributeEncodingString(unsigned Encoding);
StringRef DecimalSignString(unsigned Sign);
StringRef EndianityString(unsigned Endian);
StringRef AccessibilityString(unsigned Access);
StringRef DefaultedMemberString(unsigned DefaultedEncodings);
StringRef VisibilityString(unsigned Visibility);
StringRef VirtualityString(unsigned Virtuality);
StringRef LanguageString(unsigned Language);
StringRef CaseString(unsigned Case);
StringRef ConventionString(unsigned Convention);
StringRef InlineCodeString(unsigned Code);
StringRef ArrayOrderString(unsigned Order);
StringRef LNStandardString(unsigned Standard);
StringRef LNExtendedString(unsigned Encoding);
StringRef MacinfoString(unsigned Encoding);
StringRef MacroString(unsigned Encoding);
StringRef GnuMacroString(unsigned Encoding);
StringRef RangeListEncodingString(unsigned Encoding);
StringRef LocListEncodingString(unsigned Encoding);
StringRef CallFrameString(unsigned Encoding, Triple::ArchType Arch);
StringRef ApplePropertyString(unsigned);
StringRef UnitTypeString(unsigned);
StringRef AtomTypeString(unsigned Atom);
StringRef GDBIndexEntryKindString(GDBIndexEntryKind Kind);
StringRef GDBIndexEntryLinkageString(GDBIndexEntryLinkage Linkage);
StringRef IndexString(unsigned Idx);
StringRef FormatString(DwarfFormat Format);
StringRef FormatString(bool IsDWARF64);
StringRef RLEString(unsigned RLE);
/// @}

/// \defgroup DwarfConstantsParsing Dwarf constants parsing functions
///
/// These functions map their strings back to the corresponding enumeration
/// value or return 0 if there is none, except for these exceptions:
///
/// \li \a getTag() returns \a DW_TAG_invalid on invalid input.
/// \li \a getVirtuality() returns \a DW_VIRTUALITY_invalid on invalid input.
/// \li \a getMacinfo() returns \a DW_MACINFO_invalid on invalid input.
///
/// @{
unsigned getTag(StringRef TagString);
unsigned getOperationEncoding(StringRef OperationEncodingString);
unsigned getVirtuality(StringRef VirtualityString);
unsigned getLanguage(StringRef LanguageString);
unsigned getCallingConvention(StringRef LanguageString);
unsigned getAttributeEncoding(StringRef EncodingString);
unsigned getMacinfo(StringRef MacinfoString);
unsigned getMacro(StringRef MacroString);
/// @}

/// \defgroup DwarfConstantsVersioning Dwarf version for constants
///
/// For constants defined by DWARF, returns the DWARF version when the constant
/// was first defined. For vendor extensions, if there is a version-related
/// policy for when to emit it, returns a version number for that policy.
/// Otherwise returns 0.
///
/// @{
unsigned TagVersion(Tag T);
unsigned AttributeVersion(Attribute A);
unsigned FormVersion(Form F);
unsigned OperationVersion(LocationAtom O);
unsigned AttributeEncodingVersion(TypeKind E);
unsigned LanguageVersion(SourceLanguage L);
/// @}

/// \defgroup DwarfConstantsVendor Dwarf "vendor" for constants
///
/// These functions return an identifier describing "who" defined the constant,
/// either the DWARF standard itself or the vendor who defined the extension.
///
/// @{
unsigned TagVendor(Tag T);
unsigned AttributeVendor(Attribute A);
unsigned FormVendor(Form F);
unsigned OperationVendor(LocationAtom O);
unsigned AttributeEncodingVendor(TypeKind E);
unsigned LanguageVendor(SourceLanguage L);
/// @}

Optional<unsigned> LanguageLowerBound(SourceLanguage L);

/// The size of a reference determined by the DWARF 32/64-bit format.
inline uint8_t getDwarfOffsetByteSize(DwarfFormat Format) {
  switch (Format) {
  case DwarfFormat::DWARF32:
    return 4;
  case DwarfFormat::DWARF64:
    return 8;
  }
  llvm_unreachable("Invalid Format value");
}

/// A helper struct providing information about the byte size of DW_FORM
/// values that vary in size depending on the DWARF version, address byte
/// size, or DWARF32/DWARF64.
struct FormParams {
  uint16_t Version;
  uint8_t AddrSize;
  DwarfFormat Format;
  /// True if DWARF v2 output generally uses relocations for references
  /// to other .debug_* sections.
  bool DwarfUsesRelocationsAcrossSections = false;

  /// The definition of the size of form DW_FORM_ref_addr depends on the
  /// version. In DWARF v2 it's the size of an address; after that, it's the
  /// size of a reference.
  uint8_t getRefAddrByteSize() const {
    if (Version == 2)
      return AddrSize;
    return getDwarfOffsetByteSize();
  }

  /// The size of a reference is determined by the DWARF 32/64-bit format.
  uint8_t getDwarfOffsetByteSize() const {
    return dwarf::getDwarfOffsetByteSize(Format);
  }

  explicit operator bool() const { return Version && AddrSize; }
};

/// Get the byte size of the unit length field depending on the DWARF format.
inline uint8_t getUnitLengthFieldByteSize(DwarfFormat Format) {
  switch (Format) {
  case DwarfFormat::DWARF32:
    return 4;
  case DwarfFormat::DWARF64:
    return 12;
  }
  llvm_unreachable("Invalid Format value");
}

/// Get the fixed byte size for a given form.
///
/// If the form has a fixed byte size, then an Optional with a value will be
/// returned. If the form is always encoded using a variable length storage
/// format (ULEB or SLEB numbers or blocks) then None will be returned.
///
/// \param Form DWARF form to get the fixed byte size for.
/// \param Params DWARF parameters to help interpret forms.
/// \returns Optional<uint8_t> value with the fixed byte size or None if
/// \p Form doesn't have a fixed byte size.
Optional<uint8_t> getFixedFormByteSize(dwarf::Form Form, FormParams Params);

/// Tells whether the specified form is defined in the specified version,
/// or is an extension if extensions are allowed.
bool isValidFormForVersion(Form F, unsigned Version, bool ExtensionsOk = true);

/// Returns the symbolic string representing Val when used as a value
/// for attribute Attr.
StringRef AttributeValueString(uint16_t Attr, unsigned Val);

/// Returns the symbolic string representing Val when used as a value
/// for atom Atom.
StringRef AtomValueString(uint16_t Atom, unsigned Val);

/// Describes an entry of the various gnu_pub* debug sections.
///
/// The gnu_pub* kind looks like:
///
/// 0-3  reserved
/// 4-6  symbol kind
/// 7    0 == global, 1 == static
///
/// A gdb_index descriptor includes the above kind, shifted 24 bits up with the
/// offset of the cu within the debug_info section stored in those 24 bits.
struct PubIndexEntryDescriptor {
  GDBIndexEntryKind Kind;
  GDBIndexEntryLinkage Linkage;
  PubIndexEntryDescriptor(GDBIndexEntryKind Kind, GDBIndexEntryLinkage Linkage)
      : Kind(Kind), Linkage(Linkage) {}
  /* implicit */ PubIndexEntryDescriptor(GDBIndexEntryKind Kind)
      : Kind(Kind), Linkage(GIEL_EXTERNAL) {}
  explicit PubIndexEntryDescriptor(uint8_t Value)
      : Kind(
            static_cast<GDBIndexEntryKind>((Value & KIND_MASK) >> KIND_OFFSET)),
        Linkage(static_cast<GDBIndexEntryLinkage>((Value & LINKAGE_MASK) >>
                                                  LINKAGE_OFFSET)) {}
  uint8_t toBits() const {
    return Kind << KIND_OFFSET | Linkage << LINKAGE_OFFSET;
  }

private:
  enum {
    KIND_OFFSET = 4,
    KIND_MASK = 7 << KIND_OFFSET,
    LINKAGE_OFFSET = 7,
    LINKAGE_MASK = 1 << LINKAGE_OFFSET
  };
};

template <typename Enum> struct EnumTraits : public std::false_type {};

template <> struct EnumTraits<Attribute> : public std::true_type {
  static constexpr char Type[3] = "AT";
  static constexpr StringRef (*StringFn)(unsigned) = &AttributeString;
};

template <> struct EnumTraits<Form> : public std::true_type {
  static constexpr char Type[5] = "FORM";
  static constexpr StringRef (*StringFn)(unsigned) = &FormEncodingString;
};

template <> struct EnumTraits<Index> : public std::true_type {
  static constexpr char Type[4] = "IDX";
  static constexpr StringRef (*StringFn)(unsigned) = &IndexString;
};

template <> struct EnumTraits<Tag> : public std::true_type {
  static constexpr char Type[4] = "TAG";
  static constexpr StringRef (*StringFn)(unsigned) = &TagString;
};

template <> struct EnumTraits<LineNumberOps> : public std::true_type {
  static constexpr char Type[4] = "LNS";
  static constexpr StringRef (*StringFn)(unsigned) = &LNStandardString;
};

template <> struct EnumTraits<LocationAtom> : public std::true_type {
  static constexpr char Type[3] = "OP";
  static constexpr StringRef (*StringFn)(unsigned) = &OperationEncodingString;
};

inline uint64_t computeTombstoneAddress(uint8_t AddressByteSize) {
  return std::numeric_limits<uint64_t>::max() >> (8 - AddressByteSize) * 8;
}

} // End of namespace dwarf

/// Dwarf constants format_provider
///
/// Specialization of the format_provider template for dwarf enums. Unlike the
/// dumping functions above, these format unknown enumerator values as
/// DW_TYPE_unknown_1234 (e.g. DW_TAG_unknown_ffff).
template <typename Enum>
struct format_provider<Enum, std::enable_if_t<dwarf::EnumTraits<Enum>::value>> {
  static void format(const Enum &E, raw_ostream &OS, StringRef Style) {
    StringRef Str = dwarf::EnumTraits<Enum>::StringFn(E);
    if (Str.empty()) {
      OS << "DW_" << dwarf::EnumTraits<Enum>::Type << "_unknown_"
         << llvm::format("%x", E);
    } else
      OS << Str;
  }
};
} // End of namespace llvm

#endif
