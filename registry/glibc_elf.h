/* This file defines standard ELF types, structures, and macros.
   Copyright (C) 1995-2022 Free Software Foundation, Inc.
   This file is part of the GNU C Library.

   The GNU C Library is free software; you can redistribute it and/or
   modify it under the terms of the GNU Lesser General Public
   License as published by the Free Software Foundation; either
   version 2.1 of the License, or (at your option) any later version.

   The GNU C Library is distributed in the hope that it will be useful,
   but WITHOUT ANY WARRANTY; without even the implied warranty of
   MERCHANTABILITY or FITNESS FOR A PARTICULAR PURPOSE.  See the GNU
   Lesser General Public License for more details.

   You should have received a copy of the GNU Lesser General Public
   License along with the GNU C Library; if not, see
   <https://www.gnu.org/licenses/>.  */

#ifndef _ELF_H
#define	_ELF_H 1

/* Standard ELF types.  */

#include <stdint.h>

/* Type for a 16-bit quantity.  */
typedef uint16_t Elf32_Half;
typedef uint16_t Elf64_Half;

/* Types for signed and unsigned 32-bit quantities.  */
typedef uint32_t Elf32_Word;
typedef	int32_t  Elf32_Sword;
typedef uint32_t Elf64_Word;
typedef	int32_t  Elf64_Sword;

/* Types for signed and unsigned 64-bit quantities.  */
typedef uint64_t Elf32_Xword;
typedef	int64_t  Elf32_Sxword;
typedef uint64_t Elf64_Xword;
typedef	int64_t  Elf64_Sxword;

/* Type of addresses.  */
typedef uint32_t Elf32_Addr;
typedef uint64_t Elf64_Addr;

/* Type of file offsets.  */
typedef uint32_t Elf32_Off;
typedef uint64_t Elf64_Off;

/* Type for section indices, which are 16-bit quantities.  */
typedef uint16_t Elf32_Section;
typedef uint16_t Elf64_Section;

/* Type for version symbol information.  */
typedef Elf32_Half Elf32_Versym;
typedef Elf64_Half Elf64_Versym;


/* The ELF file header.  This appears at the start of every ELF file.  */

#define EI_NIDENT (16)

typedef struct
{
  unsigned char	e_ident[EI_NIDENT];	/* Magic number and other info */
  Elf32_Half	e_type;			/* Object file type */
  Elf32_Half	e_machine;		/* Architecture */
  Elf32_Word	e_version;		/* Object file version */
  Elf32_Addr	e_entry;		/* Entry point virtual address */
  Elf32_Off	e_phoff;		/* Program header table file offset */
  Elf32_Off	e_shoff;		/* Section header table file offset */
  Elf32_Word	e_flags;		/* Processor-specific flags */
  Elf32_Half	e_ehsize;		/* ELF header size in bytes */
  Elf32_Half	e_phentsize;		/* Program header table entry size */
  Elf32_Half	e_phnum;		/* Program header table entry count */
  Elf32_Half	e_shentsize;		/* Section header table entry size */
  Elf32_Half	e_shnum;		/* Section header table entry count */
  Elf32_Half	e_shstrndx;		/* Section header string table index */
} Elf32_Ehdr;

typedef struct
{
  unsigned char	e_ident[EI_NIDENT];	/* Magic number and other info */
  Elf64_Half	e_type;			/* Object file type */
  Elf64_Half	e_machine;		/* Architecture */
  Elf64_Word	e_version;		/* Object file version */
  Elf64_Addr	e_entry;		/* Entry point virtual address */
  Elf64_Off	e_phoff;		/* Program header table file offset */
  Elf64_Off	e_shoff;		/* Section header table file offset */
  Elf64_Word	e_flags;		/* Processor-specific flags */
  Elf64_Half	e_ehsize;		/* ELF header size in bytes */
  Elf64_Half	e_phentsize;		/* Program header table entry size */
  Elf64_Half	e_phnum;		/* Program header table entry count */
  Elf64_Half	e_shentsize;		/* Section header table entry size */
  Elf64_Half	e_shnum;		/* Section header table entry count */
  Elf64_Half	e_shstrndx;		/* Section header string table index */
} Elf64_Ehdr;

/* Fields in the e_ident array.  The EI_* macros are indices into the
   array.  The macros under each EI_* macro are the values the byte
   may have.  */

#define EI_MAG0		0		/* File identification byte 0 index */
#define ELFMAG0		0x7f		/* Magic number byte 0 */

#define EI_MAG1		1		/* File identification byte 1 index */
#define ELFMAG1		'E'		/* Magic number byte 1 */

#define EI_MAG2		2		/* File identification byte 2 index */
#define ELFMAG2		'L'		/* Magic number byte 2 */

#define EI_MAG3		3		/* File identification byte 3 index */
#define ELFMAG3		'F'		/* Magic number byte 3 */

/* Conglomeration of the identification bytes, for easy testing as a word.  */
#define	ELFMAG		"\177ELF"
#define	SELFMAG		4

#define EI_CLASS	4		/* File class byte index */
#define ELFCLASSNONE	0		/* Invalid class */
#define ELFCLASS32	1		/* 32-bit objects */
#define ELFCLASS64	2		/* 64-bit objects */
#define ELFCLASSNUM	3

#define EI_DATA		5		/* Data encoding byte index */
#define ELFDATANONE	0		/* Invalid data encoding */
#define ELFDATA2LSB	1		/* 2's complement, little endian */
#define ELFDATA2MSB	2		/* 2's complement, big endian */
#define ELFDATANUM	3

#define EI_VERSION	6		/* File version byte index */
					/* Value must be EV_CURRENT */

#define EI_OSABI	7		/* OS ABI identification */
#define ELFOSABI_NONE		0	/* UNIX System V ABI */
#define ELFOSABI_SYSV		0	/* Alias.  */
#define ELFOSABI_HPUX		1	/* HP-UX */
#define ELFOSABI_NETBSD		2	/* NetBSD.  */
#define ELFOSABI_GNU		3	/* Object uses GNU ELF extensions.  */
#define ELFOSABI_LINUX		ELFOSABI_GNU /* Compatibility alias.  */
#define ELFOSABI_SOLARIS	6	/* Sun Solaris.  */
#define ELFOSABI_AIX		7	/* IBM AIX.  */
#define ELFOSABI_IRIX		8	/* SGI Irix.  */
#define ELFOSABI_FREEBSD	9	/* FreeBSD.  */
#define ELFOSABI_TRU64		10	/* Compaq TRU64 UNIX.  */
#define ELFOSABI_MODESTO	11	/* Novell Modesto.  */
#define ELFOSABI_OPENBSD	12	/* OpenBSD.  */
#define ELFOSABI_ARM_AEABI	64	/* ARM EABI */
#define ELFOSABI_ARM		97	/* ARM */
#define ELFOSABI_STANDALONE	255	/* Standalone (embedded) application */

#define EI_ABIVERSION	8		/* ABI version */

#define EI_PAD		9		/* Byte index of padding bytes */

/* Legal values for e_type (object file type).  */

#define ET_NONE		0		/* No file type */
#define ET_REL		1		/* Relocatable file */
#define ET_EXEC		2		/* Executable file */
#define ET_DYN		3		/* Shared object file */
#define ET_CORE		4		/* Core file */
#define	ET_NUM		5		/* Number of defined types */
#define ET_LOOS		0xfe00		/* OS-specific range start */
#define ET_HIOS		0xfeff		/* OS-specific range end */
#define ET_LOPROC	0xff00		/* Processor-specific range start */
#define ET_HIPROC	0xffff		/* Processor-specific range end */

/* Legal values for e_machine (architecture).  */

#define EM_NONE		 0	/* No machine */
#define EM_M32		 1	/* AT&T WE 32100 */
#define EM_SPARC	 2	/* SUN SPARC */
#define EM_386		 3	/* Intel 80386 */
#define EM_68K		 4	/* Motorola m68k family */
#define EM_88K		 5	/* Motorola m88k family */
#define EM_IAMCU	 6	/* Intel MCU */
#define EM_860		 7	/* Intel 80860 */
#define EM_MIPS		 8	/* MIPS R3000 big-endian */
#define EM_S370		 9	/* IBM System/370 */
#define EM_MIPS_RS3_LE	10	/* MIPS R3000 little-endian */
				/* reserved 11-14 */
#define EM_PARISC	15	/* HPPA */
				/* reserved 16 */
#define EM_VPP500	17	/* Fujitsu VPP500 */
#define EM_SPARC32PLUS	18	/* Sun's "v8plus" */
#define EM_960		19	/* Intel 80960 */
#define EM_PPC		20	/* PowerPC */
#define EM_PPC64	21	/* PowerPC 64-bit */
#define EM_S390		22	/* IBM S390 */
#define EM_SPU		23	/* IBM SPU/SPC */
				/* reserved 24-35 */
#define EM_V800		36	/* NEC V800 series */
#define EM_FR20		37	/* Fujitsu FR20 */
#define EM_RH32		38	/* TRW RH-32 */
#define EM_RCE		39	/* Motorola RCE */
#define EM_ARM		40	/* ARM */
#define EM_FAKE_ALPHA	41	/* Digital Alpha */
#define EM_SH		42	/* Hitachi SH */
#define EM_SPARCV9	43	/* SPARC v9 64-bit */
#define EM_TRICORE	44	/* Siemens Tricore */
#define EM_ARC		45	/* Argonaut RISC Core */
#define EM_H8_300	46	/* Hitachi H8/300 */
#define EM_H8_300H	47	/* Hitachi H8/300H */
#define EM_H8S		48	/* Hitachi H8S */
#define EM_H8_500	49	/* Hitachi H8/500 */
#define EM_IA_64	50	/* Intel Merced */
#define EM_MIPS_X	51	/* Stanford MIPS-X */
#define EM_COLDFIRE	52	/* Motorola Coldfire */
#define EM_68HC12	53	/* Motorola M68HC12 */
#define EM_MMA		54	/* Fujitsu MMA Multimedia Accelerator */
#define EM_PCP		55	/* Siemens PCP */
#define EM_NCPU		56	/* Sony nCPU embeeded RISC */
#define EM_NDR1		57	/* Denso NDR1 microprocessor */
#define EM_STARCORE	58	/* Motorola Start*Core processor */
#define EM_ME16		59	/* Toyota ME16 processor */
#define EM_ST100	60	/* STMicroelectronic ST100 processor */
#define EM_TINYJ	61	/* Advanced Logic Corp. Tinyj emb.fam */
#define EM_X86_64	62	/* AMD x86-64 architecture */
#define EM_PDSP		63	/* Sony DSP Processor */
#define EM_PDP10	64	/* Digital PDP-10 */
#define EM_PDP11	65	/* Digital PDP-11 */
#define EM_FX66		66	/* Siemens FX66 microcontroller */
#define EM_ST9PLUS	67	/* STMicroelectronics ST9+ 8/16 mc */
#define EM_ST7		68	/* STmicroelectronics ST7 8 bit mc */
#define EM_68HC16	69	/* Motorola MC68HC16 microcontroller */
#define EM_68HC11	70	/* Motorola MC68HC11 microcontroller */
#define EM_68HC08	71	/* Motorola MC68HC08 microcontroller */
#define EM_68HC05	72	/* Motorola MC68HC05 microcontroller */
#define EM_SVX		73	/* Silicon Graphics SVx */
#define EM_ST19		74	/* STMicroelectronics ST19 8 bit mc */
#define EM_VAX		75	/* Digital VAX */
#define EM_CRIS		76	/* Axis Communications 32-bit emb.proc */
#define EM_JAVELIN	77	/* Infineon Technologies 32-bit emb.proc */
#define EM_FIREPATH	78	/* Element 14 64-bit DSP Processor */
#define EM_ZSP		79	/* LSI Logic 16-bit DSP Processor */
#define EM_MMIX		80	/* Donald Knuth's educational 64-bit proc */
#define EM_HUANY	81	/* Harvard University machine-independent object files */
#define EM_PRISM	82	/* SiTera Prism */
#define EM_AVR		83	/* Atmel AVR 8-bit microcontroller */
#define EM_FR30		84	/* Fujitsu FR30 */
#define EM_D10V		85	/* Mitsubishi D10V */
#define EM_D30V		86	/* Mitsubishi D30V */
#define EM_V850		87	/* NEC v850 */
#define EM_M32R		88	/* Mitsubishi M32R */
#define EM_MN10300	89	/* Matsushita MN10300 */
#define EM_MN10200	90	/* Matsushita MN10200 */
#define EM_PJ		91	/* picoJava */
#define EM_OPENRISC	92	/* OpenRISC 32-bit embedded processor */
#define EM_ARC_COMPACT	93	/* ARC International ARCompact */
#define EM_XTENSA	94	/* Tensilica Xtensa Architecture */
#define EM_VIDEOCORE	95	/* Alphamosaic VideoCore */
#define EM_TMM_GPP	96	/* Thompson Multimedia General Purpose Proc */
#define EM_NS32K	97	/* National Semi. 32000 */
#define EM_TPC		98	/* Tenor Network TPC */
#define EM_SNP1K	99	/* Trebia SNP 1000 */
#define EM_ST200	100	/* STMicroelectronics ST200 */
#define EM_IP2K		101	/* Ubicom IP2xxx */
#define EM_MAX		102	/* MAX processor */
#define EM_CR		103	/* National Semi. CompactRISC */
#define EM_F2MC16	104	/* Fujitsu F2MC16 */
#define EM_MSP430	105	/* Texas Instruments msp430 */
#define EM_BLACKFIN	106	/* Analog Devices Blackfin DSP */
#define EM_SE_C33	107	/* Seiko Epson S1C33 family */
#define EM_SEP		108	/* Sharp embedded microprocessor */
#define EM_ARCA		109	/* Arca RISC */
#define EM_UNICORE	110	/* PKU-Unity & MPRC Peking Uni. mc series */
#define EM_EXCESS	111	/* eXcess configurable cpu */
#define EM_DXP		112	/* Icera Semi. Deep Execution Processor */
#define EM_ALTERA_NIOS2 113	/* Altera Nios II */
#define EM_CRX		114	/* National Semi. CompactRISC CRX */
#define EM_XGATE	115	/* Motorola XGATE */
#define EM_C166		116	/* Infineon C16x/XC16x */
#define EM_M16C		117	/* Renesas M16C */
#define EM_DSPIC30F	118	/* Microchip Technology dsPIC30F */
#define EM_CE		119	/* Freescale Communication Engine RISC */
#define EM_M32C		120	/* Renesas M32C */
				/* reserved 121-130 */
#define EM_TSK3000	131	/* Altium TSK3000 */
#define EM_RS08		132	/* Freescale RS08 */
#define EM_SHARC	133	/* Analog Devices SHARC family */
#define EM_ECOG2	134	/* Cyan Technology eCOG2 */
#define EM_SCORE7	135	/* Sunplus S+core7 RISC */
#define EM_DSP24	136	/* New Japan Radio (NJR) 24-bit DSP */
#define EM_VIDEOCORE3	137	/* Broadcom VideoCore III */
#define EM_LATTICEMICO32 138	/* RISC for Lattice FPGA */
#define EM_SE_C17	139	/* Seiko Epson C17 */
#define EM_TI_C6000	140	/* Texas Instruments TMS320C6000 DSP */
#define EM_TI_C2000	141	/* Texas Instruments TMS320C2000 DSP */
#define EM_TI_C5500	142	/* Texas Instruments TMS320C55x DSP */
#define EM_TI_ARP32	143	/* Texas Instruments App. Specific RISC */
#define EM_TI_PRU	144	/* Texas Instruments Prog. Realtime Unit */
				/* reserved 145-159 */
#define EM_MMDSP_PLUS	160	/* STMicroelectronics 64bit VLIW DSP */
#define EM_CYPRESS_M8C	161	/* Cypress M8C */
#define EM_R32C		162	/* Renesas R32C */
#define EM_TRIMEDIA	163	/* NXP Semi. TriMedia */
#define EM_QDSP6	164	/* QUALCOMM DSP6 */
#define EM_8051		165	/* Intel 8051 and variants */
#define EM_STXP7X	166	/* STMicroelectronics STxP7x */
#define EM_NDS32	167	/* Andes Tech. compact code emb. RISC */
#define EM_ECOG1X	168	/* Cyan Technology eCOG1X */
#define EM_MAXQ30	169	/* Dallas Semi. MAXQ30 mc */
#define EM_XIMO16	170	/* New Japan Radio (NJR) 16-bit DSP */
#define EM_MANIK	171	/* M2000 Reconfigurable RISC */
#define EM_CRAYNV2	172	/* Cray NV2 vector architecture */
#define EM_RX		173	/* Renesas RX */
#define EM_METAG	174	/* Imagination Tech. META */
#define EM_MCST_ELBRUS	175	/* MCST Elbrus */
#define EM_ECOG16	176	/* Cyan Technology eCOG16 */
#define EM_CR16		177	/* National Semi. CompactRISC CR16 */
#define EM_ETPU		178	/* Freescale Extended Time Processing Unit */
#define EM_SLE9X	179	/* Infineon Tech. SLE9X */
#define EM_L10M		180	/* Intel L10M */
#define EM_K10M		181	/* Intel K10M */
				/* reserved 182 */
#define EM_AARCH64	183	/* ARM AARCH64 */
				/* reserved 184 */
#define EM_AVR32	185	/* Amtel 32-bit microprocessor */
#define EM_STM8		186	/* STMicroelectronics STM8 */
#define EM_TILE64	187	/* Tilera TILE64 */
#define EM_TILEPRO	188	/* Tilera TILEPro */
#define EM_MICROBLAZE	189	/* Xilinx MicroBlaze */
#define EM_CUDA		190	/* NVIDIA CUDA */
#define EM_TILEGX	191	/* Tilera TILE-Gx */
#define EM_CLOUDSHIELD	192	/* CloudShield */
#define EM_COREA_1ST	193	/* KIPO-KAIST Core-A 1st gen. */
#define EM_COREA_2ND	194	/* KIPO-KAIST Core-A 2nd gen. */
#define EM_ARCV2	195	/* Synopsys ARCv2 ISA.  */
#define EM_OPEN8	196	/* Open8 RISC */
#define EM_RL78		197	/* Renesas RL78 */
#define EM_VIDEOCORE5	198	/* Broadcom VideoCore V */
#define EM_78KOR	199	/* Renesas 78KOR */
#define EM_56800EX	200	/* Freescale 56800EX DSC */
#define EM_BA1		201	/* Beyond BA1 */
#define EM_BA2		202	/* Beyond BA2 */
#define EM_XCORE	203	/* XMOS xCORE */
#define EM_MCHP_PIC	204	/* Microchip 8-bit PIC(r) */
#define EM_INTELGT	205	/* Intel Graphics Technology */
				/* reserved 206-209 */
#define EM_KM32		210	/* KM211 KM32 */
#define EM_KMX32	211	/* KM211 KMX32 */
#define EM_EMX16	212	/* KM211 KMX16 */
#define EM_EMX8		213	/* KM211 KMX8 */
#define EM_KVARC	214	/* KM211 KVARC */
#define EM_CDP		215	/* Paneve CDP */
#define EM_COGE		216	/* Cognitive Smart Memory Processor */
#define EM_COOL		217	/* Bluechip CoolEngine */
#define EM_NORC		218	/* Nanoradio Optimized RISC */
#define EM_CSR_KALIMBA	219	/* CSR Kalimba */
#define EM_Z80		220	/* Zilog Z80 */
#define EM_VISIUM	221	/* Controls and Data Services VISIUMcore */
#define EM_FT32		222	/* FTDI Chip FT32 */
#define EM_MOXIE	223	/* Moxie processor */
#define EM_AMDGPU	224	/* AMD GPU */
				/* reserved 225-242 */
#define EM_RISCV	243	/* RISC-V */

#define EM_BPF		247	/* Linux BPF -- in-kernel virtual machine */
#define EM_CSKY		252     /* C-SKY */
#define EM_LOONGARCH	258	/* LoongArch */

#define EM_NUM		259

/* Old spellings/synonyms.  */

#define EM_ARC_A5	EM_ARC_COMPACT

/* If it is necessary to assign new unofficial EM_* values, please
   pick large random numbers (0x8523, 0xa7f2, etc.) to minimize the
   chances of collision with official or non-GNU unofficial values.  */

#define EM_ALPHA	0x9026

/* Legal values for e_version (version).  */

#define EV_NONE		0		/* Invalid ELF version */
#define EV_CURRENT	1		/* Current version */
#define EV_NUM		2

/* Section header.  */

typedef struct
{
  Elf32_Word	sh_name;		/* Section name (string tbl index) */
  Elf32_Word	sh_type;		/* Section type */
  Elf32_Word	sh_flags;		/* Section flags */
  Elf32_Addr	sh_addr;		/* Section virtual addr at execution */
  Elf32_Off	sh_offset;		/* Section file offset */
  Elf32_Word	sh_size;		/* Section size in bytes */
  Elf32_Word	sh_link;		/* Link to another section */
  Elf32_Word	sh_info;		/* Additional section information */
  Elf32_Word	sh_addralign;		/* Section alignment */
  Elf32_Word	sh_entsize;		/* Entry size if section holds table */
} Elf32_Shdr;

typedef struct
{
  Elf64_Word	sh_name;		/* Section name (string tbl index) */
  Elf64_Word	sh_type;		/* Section type */
  Elf64_Xword	sh_flags;		/* Section flags */
  Elf64_Addr	sh_addr;		/* Section virtual addr at execution */
  Elf64_Off	sh_offset;		/* Section file offset */
  Elf64_Xword	sh_size;		/* Section size in bytes */
  Elf64_Word	sh_link;		/* Link to another section */
  Elf64_Word	sh_info;		/* Additional section information */
  Elf64_Xword	sh_addralign;		/* Section alignment */
  Elf64_Xword	sh_entsize;		/* Entry size if section holds table */
} Elf64_Shdr;

/* Special section indices.  */

#define SHN_UNDEF	0		/* Undefined section */
#define SHN_LORESERVE	0xff00		/* Start of reserved indices */
#define SHN_LOPROC	0xff00		/* Start of processor-specific */
#define SHN_BEFORE	0xff00		/* Order section before all others
					   (Solaris).  */
#define SHN_AFTER	0xff01		/* Order section after all others
					   (Solaris).  */
#define SHN_HIPROC	0xff1f		/* End of processor-specific */
#define SHN_LOOS	0xff20		/* Start of OS-specific */
#define SHN_HIOS	0xff3f		/* End of OS-specific */
#define SHN_ABS		0xfff1		/* Associated symbol is absolute */
#define SHN_COMMON	0xfff2		/* Associated symbol is common */
#define SHN_XINDEX	0xffff		/* Index is in extra table.  */
#define SHN_HIRESERVE	0xffff		/* End of reserved indices */

/* Legal values for sh_type (section type).  */

#define SHT_NULL	  0		/* Section header table entry unused */
#define SHT_PROGBITS	  1		/* Program data */
#define SHT_SYMTAB	  2		/* Symbol table */
#define SHT_STRTAB	  3		/* String table */
#define SHT_RELA	  4		/* Relocation entries with addends */
#define SHT_HASH	  5		/* Symbol hash table */
#define SHT_DYNAMIC	  6		/* Dynamic linking information */
#define SHT_NOTE	  7		/* Notes */
#define SHT_NOBITS	  8		/* Program space with no data (bss) */
#define SHT_REL		  9		/* Relocation entries, no addends */
#define SHT_SHLIB	  10		/* Reserved */
#define SHT_DYNSYM	  11		/* Dynamic linker symbol table */
#define SHT_INIT_ARRAY	  14		/* Array of constructors */
#define SHT_FINI_ARRAY	  15		/* Array of destructors */
#define SHT_PREINIT_ARRAY 16		/* Array of pre-constructors */
#define SHT_GROUP	  17		/* Section group */
#define SHT_SYMTAB_SHNDX  18		/* Extended section indices */
#define SHT_RELR	  19            /* RELR relative relocations */
#define	SHT_NUM		  20		/* Number of defined types.  */
#define SHT_LOOS	  0x60000000	/* Start OS-specific.  */
#define SHT_GNU_ATTRIBUTES 0x6ffffff5	/* Object attributes.  */
#define SHT_GNU_HASH	  0x6ffffff6	/* GNU-style hash table.  */
#define SHT_GNU_LIBLIST	  0x6ffffff7	/* Prelink library list */
#define SHT_CHECKSUM	  0x6ffffff8	/* Checksum for DSO content.  */
#define SHT_LOSUNW	  0x6ffffffa	/* Sun-specific low bound.  */
#define SHT_SUNW_move	  0x6ffffffa
#define SHT_SUNW_COMDAT   0x6ffffffb
#define SHT_SUNW_syminfo  0x6ffffffc
#define SHT_GNU_verdef	  0x6ffffffd	/* Version definition section.  */
#define SHT_GNU_verneed	  0x6ffffffe	/* Version needs section.  */
#define SHT_GNU_versym	  0x6fffffff	/* Version symbol table.  */
#define SHT_HISUNW	  0x6fffffff	/* Sun-specific high bound.  */
#define SHT_HIOS	  0x6fffffff	/* End OS-specific type */
#define SHT_LOPROC	  0x70000000	/* Start of processor-specific */
#define SHT_HIPROC	  0x7fffffff	/* End of processor-specific */
#define SHT_LOUSER	  0x80000000	/* Start of application-specific */
#define SHT_HIUSER	  0x8fffffff	/* End of application-specific */

/* Legal values for sh_flags (section flags).  */

#define SHF_WRITE	     (1 << 0)	/* Writable */
#define SHF_ALLOC	     (1 << 1)	/* Occupies memory during execution */
#define SHF_EXECINSTR	     (1 << 2)	/* Executable */
#define SHF_MERGE	     (1 << 4)	/* Might be merged */
#define SHF_STRINGS	     (1 << 5)	/* Contains nul-terminated strings */
#define SHF_INFO_LINK	     (1 << 6)	/* `sh_info' contains SHT index */
#define SHF_LINK_ORDER	     (1 << 7)	/* Preserve order after combining */
#define SHF_OS_NONCONFORMING (1 << 8)	/* Non-standard OS specific handling
					   required */
#define SHF_GROUP	     (1 << 9)	/* Section is member of a group.  */
#define SHF_TLS		     (1 << 10)	/* Section hold thread-local data.  */
#define SHF_COMPRESSED	     (1 << 11)	/* Section with compressed data. */
#define SHF_MASKOS	     0x0ff00000	/* OS-specific.  */
#define SHF_MASKPROC	     0xf0000000	/* Processor-specific */
#define SHF_GNU_RETAIN	     (1 << 21)  /* Not to be GCed by linker.  */
#define SHF_ORDERED	     (1 << 30)	/* Special ordering requirement
					   (Solaris).  */
#define SHF_EXCLUDE	     (1U << 31)	/* Section is excluded unless
					   referenced or allocated (Solaris).*/

/* Section compression header.  Used when SHF_COMPRESSED is set.  */

typedef struct
{
  Elf32_Word	ch_type;	/* Compression format.  */
  Elf32_Word	ch_size;	/* Uncompressed data size.  */
  Elf32_Word	ch_addralign;	/* Uncompressed data alignment.  */
} Elf32_Chdr;

typedef struct
{
  Elf64_Word	ch_type;	/* Compression format.  */
  Elf64_Word	ch_reserved;
  Elf64_Xword	ch_size;	/* Uncompressed data size.  */
  Elf64_Xword	ch_addralign;	/* Uncompressed data alignment.  */
} Elf64_Chdr;

/* Legal values for ch_type (compression algorithm).  */
#define ELFCOMPRESS_ZLIB	1	   /* ZLIB/DEFLATE algorithm.  */
#define ELFCOMPRESS_LOOS	0x60000000 /* Start of OS-specific.  */
#define ELFCOMPRESS_HIOS	0x6fffffff /* End of OS-specific.  */
#define ELFCOMPRESS_LOPROC	0x70000000 /* Start of processor-specific.  */
#define ELFCOMPRESS_HIPROC	0x7fffffff /* End of processor-specific.  */

/* Section group handling.  */
#define GRP_COMDAT	0x1		/* Mark group as COMDAT.  */

/* Symbol table entry.  */

typedef struct
{
  Elf32_Word	st_name;		/* Symbol name (string tbl index) */
  Elf32_Addr	st_value;		/* Symbol value */
  Elf32_Word	st_size;		/* Symbol size */
  unsigned char	st_info;		/* Symbol type and binding */
  unsigned char	st_other;		/* Symbol visibility */
  Elf32_Section	st_shndx;		/* Section index */
} Elf32_Sym;

typedef struct
{
  Elf64_Word	st_name;		/* Symbol name (string tbl index) */
  unsigned char	st_info;		/* Symbol type and binding */
  unsigned char st_other;		/* Symbol visibility */
  Elf64_Section	st_shndx;		/* Section index */
  Elf64_Addr	st_value;		/* Symbol value */
  Elf64_Xword	st_size;		/* Symbol size */
} Elf64_Sym;

/* The syminfo section if available contains additional information about
   every dynamic symbol.  */

typedef struct
{
  Elf32_Half si_boundto;		/* Direct bindings, symbol bound to */
  Elf32_Half si_flags;			/* Per symbol flags */
} Elf32_Syminfo;

typedef struct
{
  Elf64_Half si_boundto;		/* Direct bindings, symbol bound to */
  Elf64_Half si_flags;			/* Per symbol flags */
} Elf64_Syminfo;

/* Possible values for si_boundto.  */
#define SYMINFO_BT_SELF		0xffff	/* Symbol bound to self */
#define SYMINFO_BT_PARENT	0xfffe	/* Symbol bound to parent */
#define SYMINFO_BT_LOWRESERVE	0xff00	/* Beginning of reserved entries */

/* Possible bitmasks for si_flags.  */
#define SYMINFO_FLG_DIRECT	0x0001	/* Direct bound symbol */
#define SYMINFO_FLG_PASSTHRU	0x0002	/* Pass-thru symbol for translator */
#define SYMINFO_FLG_COPY	0x0004	/* Symbol is a copy-reloc */
#define SYMINFO_FLG_LAZYLOAD	0x0008	/* Symbol bound to object to be lazy
					   loaded */
/* Syminfo version values.  */
#define SYMINFO_NONE		0
#define SYMINFO_CURRENT		1
#define SYMINFO_NUM		2


/* How to extract and insert information held in the st_info field.  */

#define ELF32_ST_BIND(val)		(((unsigned char) (val)) >> 4)
#define ELF32_ST_TYPE(val)		((val) & 0xf)
#define ELF32_ST_INFO(bind, type)	(((bind) << 4) + ((type) & 0xf))

/* Both Elf32_Sym and Elf64_Sym use the same one-byte st_info field.  */
#define ELF64_ST_BIND(val)		ELF32_ST_BIND (val)
#define ELF64_ST_TYPE(val)		ELF32_ST_TYPE (val)
#define ELF64_ST_INFO(bind, type)	ELF32_ST_INFO ((bind), (type))

/* Legal values for ST_BIND subfield of st_info (symbol binding).  */

#define STB_LOCAL	0		/* Local symbol */
#define STB_GLOBAL	1		/* Global symbol */
#define STB_WEAK	2		/* Weak symbol */
#define	STB_NUM		3		/* Number of defined types.  */
#define STB_LOOS	10		/* Start of OS-specific */
#define STB_GNU_UNIQUE	10		/* Unique symbol.  */
#define STB_HIOS	12		/* End of OS-specific */
#define STB_LOPROC	13		/* Start of processor-specific */
#define STB_HIPROC	15		/* End of processor-specific */

/* Legal values for ST_TYPE subfield of st_info (symbol type).  */

#define STT_NOTYPE	0		/* Symbol type is unspecified */
#define STT_OBJECT	1		/* Symbol is a data object */
#define STT_FUNC	2		/* Symbol is a code object */
#define STT_SECTION	3		/* Symbol associated with a section */
#define STT_FILE	4		/* Symbol's name is file name */
#define STT_COMMON	5		/* Symbol is a common data object */
#define STT_TLS		6		/* Symbol is thread-local data object*/
#define	STT_NUM		7		/* Number of defined types.  */
#define STT_LOOS	10		/* Start of OS-specific */
#define STT_GNU_IFUNC	10		/* Symbol is indirect code object */
#define STT_HIOS	12		/* End of OS-specific */
#define STT_LOPROC	13		/* Start of processor-specific */
#define STT_HIPROC	15		/* End of processor-specific */


/* Symbol table indices are found in the hash buckets and chain table
   of a symbol hash table section.  This special index value indicates
   the end of a chain, meaning no further symbols are found in that bucket.  */

#define STN_UNDEF	0		/* End of a chain.  */


/* How to extract and insert information held in the st_other field.  */

#define ELF32_ST_VISIBILITY(o)	((o) & 0x03)

/* For ELF64 the definitions are the same.  */
#define ELF64_ST_VISIBILITY(o)	ELF32_ST_VISIBILITY (o)

/* Symbol visibility specification encoded in the st_other field.  */
#define STV_DEFAULT	0		/* Default symbol visibility rules */
#define STV_INTERNAL	1		/* Processor specific hidden class */
#define STV_HIDDEN	2		/* Sym unavailable in other modules */
#define STV_PROTECTED	3		/* Not preemptible, not exported */


/* Relocation table entry without addend (in section of type SHT_REL).  */

typedef struct
{
  Elf32_Addr	r_offset;		/* Address */
  Elf32_Word	r_info;			/* Relocation type and symbol index */
} Elf32_Rel;

/* I have seen two different definitions of the Elf64_Rel and
   Elf64_Rela structures, so we'll leave them out until Novell (or
   whoever) gets their act together.  */
/* The following, at least, is used on Sparc v9, MIPS, and Alpha.  */

typedef struct
{
  Elf64_Addr	r_offset;		/* Address */
  Elf64_Xword	r_info;			/* Relocation type and symbol index */
} Elf64_Rel;

/* Relocation table entry with addend (in section of type SHT_RELA).  */

typedef struct
{
  Elf32_Addr	r_offset;		/* Address */
  Elf32_Word	r_info;			/* Relocation type and symbol index */
  Elf32_Sword	r_addend;		/* Addend */
} Elf32_Rela;

typedef struct
{
  Elf64_Addr	r_offset;		/* Address */
  Elf64_Xword	r_info;			/* Relocation type and symbol index */
  Elf64_Sxword	r_addend;		/* Addend */
} Elf64_Rela;

/* RELR relocation table entry */

typedef Elf32_Word	Elf32_Relr;
typedef Elf64_Xword	Elf64_Relr;

/* How to extract and insert information held in the r_info field.  */

#define ELF32_R_SYM(val)		((val) >> 8)
#define ELF32_R_TYPE(val)		((val) & 0xff)
#define ELF32_R_INFO(sym, type)		(((sym) << 8) + ((type) & 0xff))

#define ELF64_R_SYM(i)			((i) >> 32)
#define ELF64_R_TYPE(i)			((i) & 0xffffffff)
#define ELF64_R_INFO(sym,type)		((((Elf64_Xword) (sym)) << 32) + (type))

/* Program segment header.  */

typedef struct
{
  Elf32_Word	p_type;			/* Segment type */
  Elf32_Off	p_offset;		/* Segment file offset */
  Elf32_Addr	p_vaddr;		/* Segment virtual address */
  Elf32_Addr	p_paddr;		/* Segment physical address */
  Elf32_Word	p_filesz;		/* Segment size in file */
  Elf32_Word	p_memsz;		/* Segment size in memory */
  Elf32_Word	p_flags;		/* Segment flags */
  Elf32_Word	p_align;		/* Segment alignment */
} Elf32_Phdr;

typedef struct
{
  Elf64_Word	p_type;			/* Segment type */
  Elf64_Word	p_flags;		/* Segment flags */
  Elf64_Off	p_offset;		/* Segment file offset */
  Elf64_Addr	p_vaddr;		/* Segment virtual address */
  Elf64_Addr	p_paddr;		/* Segment physical address */
  Elf64_Xword	p_filesz;		/* Segment size in file */
  Elf64_Xword	p_memsz;		/* Segment size in memory */
  Elf64_Xword	p_align;		/* Segment alignment */
} Elf64_Phdr;

/* Special value for e_phnum.  This indicates that the real number of
   program headers is too large to fit into e_phnum.  Instead the real
   value is in the field sh_info of section 0.  */

#define PN_XNUM		0xffff

/* Legal values for p_type (segment type).  */

#define	PT_NULL		0		/* Program header table entry unused */
#define PT_LOAD		1		/* Loadable program segment */
#define PT_DYNAMIC	2		/* Dynamic linking information */
#define PT_INTERP	3		/* Program interpreter */
#define PT_NOTE		4		/* Auxiliary information */
#define PT_SHLIB	5		/* Reserved */
#define PT_PHDR		6		/* Entry for header table itself */
#define PT_TLS		7		/* Thread-local storage segment */
#define	PT_NUM		8		/* Number of defined types */
#define PT_LOOS		0x60000000	/* Start of OS-specific */
#define PT_GNU_EH_FRAME	0x6474e550	/* GCC .eh_frame_hdr segment */
#define PT_GNU_STACK	0x6474e551	/* Indicates stack executability */
#define PT_GNU_RELRO	0x6474e552	/* Read-only after relocation */
#define PT_GNU_PROPERTY	0x6474e553	/* GNU property */
#define PT_LOSUNW	0x6ffffffa
#define PT_SUNWBSS	0x6ffffffa	/* Sun Specific segment */
#define PT_SUNWSTACK	0x6ffffffb	/* Stack segment */
#define PT_HISUNW	0x6fffffff
#define PT_HIOS		0x6fffffff	/* End of OS-specific */
#define PT_LOPROC	0x70000000	/* Start of processor-specific */
#define PT_HIPROC	0x7fffffff	/* End of processor-specific */

/* Legal values for p_flags (segment flags).  */

#define PF_X		(1 << 0)	/* Segment is executable */
#define PF_W		(1 << 1)	/* Segment is writable */
#define PF_R		(1 << 2)	/* Segment is readable */
#define PF_MASKOS	0x0ff00000	/* OS-specific */
#define PF_MASKPROC	0xf0000000	/* Processor-specific */

/* Legal values for note segment descriptor types for core files. */

#define NT_PRSTATUS	1		/* Contains copy of prstatus struct */
#define NT_PRFPREG	2		/* Contains copy of fpregset
					   struct.  */
#define NT_FPREGSET	2		/* Contains copy of fpregset struct */
#define NT_PRPSINFO	3		/* Contains copy of prpsinfo struct */
#define NT_PRXREG	4		/* Contains copy of prxregset struct */
#define NT_TASKSTRUCT	4		/* Contains copy of task structure */
#define NT_PLATFORM	5		/* String from sysinfo(SI_PLATFORM) */
#define NT_AUXV		6		/* Contains copy of auxv array */
#define NT_GWINDOWS	7		/* Contains copy of gwindows struct */
#define NT_ASRS		8		/* Contains copy of asrset struct */
#define NT_PSTATUS	10		/* Contains copy of pstatus struct */
#define NT_PSINFO	13		/* Contains copy of psinfo struct */
#define NT_PRCRED	14		/* Contains copy of prcred struct */
#define NT_UTSNAME	15		/* Contains copy of utsname struct */
#define NT_LWPSTATUS	16		/* Contains copy of lwpstatus struct */
#define NT_LWPSINFO	17		/* Contains copy of lwpinfo struct */
#define NT_PRFPXREG	20		/* Contains copy of fprxregset struct */
#define NT_SIGINFO	0x53494749	/* Contains copy of siginfo_t,
					   size might increase */
#define NT_FILE		0x46494c45	/* Contains information about mapped
					   files */
#define NT_PRXFPREG	0x46e62b7f	/* Contains copy of user_fxsr_struct */
#define NT_PPC_VMX	0x100		/* PowerPC Altivec/VMX registers */
#define NT_PPC_SPE	0x101		/* PowerPC SPE/EVR registers */
#define NT_PPC_VSX	0x102		/* PowerPC VSX registers */
#define NT_PPC_TAR	0x103		/* Target Address Register */
#define NT_PPC_PPR	0x104		/* Program Priority Register */
#define NT_PPC_DSCR	0x105		/* Data Stream Control Register */
#define NT_PPC_EBB	0x106		/* Event Based Branch Registers */
#define NT_PPC_PMU	0x107		/* Performance Monitor Registers */
#define NT_PPC_TM_CGPR	0x108		/* TM checkpointed GPR Registers */
#define NT_PPC_TM_CFPR	0x109		/* TM checkpointed FPR Registers */
#define NT_PPC_TM_CVMX	0x10a		/* TM checkpointed VMX Registers */
#define NT_PPC_TM_CVSX	0x10b		/* TM checkpointed VSX Registers */
#define NT_PPC_TM_SPR	0x10c		/* TM Special Purpose Registers */
#define NT_PPC_TM_CTAR	0x10d		/* TM checkpointed Target Address
					   Register */
#define NT_PPC_TM_CPPR	0x10e		/* TM checkpointed Program Priority
					   Register */
#define NT_PPC_TM_CDSCR	0x10f		/* TM checkpointed Data Stream Control
					   Register */
#define NT_PPC_PKEY	0x110		/* Memory Protection Keys
					   registers.  */
#define NT_386_TLS	0x200		/* i386 TLS slots (struct user_desc) */
#define NT_386_IOPERM	0x201		/* x86 io permission bitmap (1=deny) */
#define NT_X86_XSTATE	0x202		/* x86 extended state using xsave */
#define NT_S390_HIGH_GPRS	0x300	/* s390 upper register halves */
#define NT_S390_TIMER	0x301		/* s390 timer register */
#define NT_S390_TODCMP	0x302		/* s390 TOD clock comparator register */
#define NT_S390_TODPREG	0x303		/* s390 TOD programmable register */
#define NT_S390_CTRS	0x304		/* s390 control registers */
#define NT_S390_PREFIX	0x305		/* s390 prefix register */
#define NT_S390_LAST_BREAK	0x306	/* s390 breaking event address */
#define NT_S390_SYSTEM_CALL	0x307	/* s390 system call restart data */
#define NT_S390_TDB	0x308		/* s390 transaction diagnostic block */
#define NT_S390_VXRS_LOW	0x309	/* s390 vector registers 0-15
					   upper half.  */
#define NT_S390_VXRS_HIGH	0x30a	/* s390 vector registers 16-31.  */
#define NT_S390_GS_CB	0x30b		/* s390 guarded storage registers.  */
#define NT_S390_GS_BC	0x30c		/* s390 guarded storage
					   broadcast control block.  */
#define NT_S390_RI_CB	0x30d		/* s390 runtime instrumentation.  */
#define NT_ARM_VFP	0x400		/* ARM VFP/NEON registers */
#define NT_ARM_TLS	0x401		/* ARM TLS register */
#define NT_ARM_HW_BREAK	0x402		/* ARM hardware breakpoint registers */
#define NT_ARM_HW_WATCH	0x403		/* ARM hardware watchpoint registers */
#define NT_ARM_SYSTEM_CALL	0x404	/* ARM system call number */
#define NT_ARM_SVE	0x405		/* ARM Scalable Vector Extension
					   registers */
#define NT_ARM_PAC_MASK	0x406		/* ARM pointer authentication
					   code masks.  */
#define NT_ARM_PACA_KEYS	0x407	/* ARM pointer authentication
					   address keys.  */
#define NT_ARM_PACG_KEYS	0x408	/* ARM pointer authentication
					   generic key.  */
#define NT_ARM_TAGGED_ADDR_CTRL	0x409	/* AArch64 tagged address
					   control.  */
#define NT_ARM_PAC_ENABLED_KEYS	0x40a	/* AArch64 pointer authentication
					   enabled keys.  */
#define NT_VMCOREDD	0x700		/* Vmcore Device Dump Note.  */
#define NT_MIPS_DSP	0x800		/* MIPS DSP ASE registers.  */
#define NT_MIPS_FP_MODE	0x801		/* MIPS floating-point mode.  */
#define NT_MIPS_MSA	0x802		/* MIPS SIMD registers.  */

/* Legal values for the note segment descriptor types for object files.  */

#define NT_VERSION	1		/* Contains a version string.  */


/* Dynamic section entry.  */

typedef struct
{
  Elf32_Sword	d_tag;			/* Dynamic entry type */
  union
    {
      Elf32_Word d_val;			/* Integer value */
      Elf32_Addr d_ptr;			/* Address value */
    } d_un;
} Elf32_Dyn;

typedef struct
{
  Elf64_Sxword	d_tag;			/* Dynamic entry type */
  union
    {
      Elf64_Xword d_val;		/* Integer value */
      Elf64_Addr d_ptr;			/* Address value */
    } d_un;
} Elf64_Dyn;

/* Legal values for d_tag (dynamic entry type).  */

#define DT_NULL		0		/* Marks end of dynamic section */
#define DT_NEEDED	1		/* Name of needed library */
#define DT_PLTRELSZ	2		/* Size in bytes of PLT relocs */
#define DT_PLTGOT	3		/* Processor defined value */
#define DT_HASH		4		/* Address of symbol hash table */
#define DT_STRTAB	5		/* Address of string table */
#define DT_SYMTAB	6		/* Address of symbol table */
#define DT_RELA		7		/* Address of Rela relocs */
#define DT_RELASZ	8		/* Total size of Rela relocs */
#define DT_RELAENT	9		/* Size of one Rela reloc */
#define DT_STRSZ	10		/* Size of string table */
#define DT_SYMENT	11		/* Size of one symbol table entry */
#define DT_INIT		12		/* Address of init function */
#define DT_FINI		13		/* Address of termination function */
#define DT_SONAME	14		/* Name of shared object */
#define DT_RPATH	15		/* Library search path (deprecated) */
#define DT_SYMBOLIC	16		/* Start symbol search here */
#define DT_REL		17		/* Address of Rel relocs */
#define DT_RELSZ	18		/* Total size of Rel relocs */
#define DT_RELENT	19		/* Size of one Rel reloc */
#define DT_PLTREL	20		/* Type of reloc in PLT */
#define DT_DEBUG	21		/* For debugging; unspecified */
#define DT_TEXTREL	22		/* Reloc might modify .text */
#define DT_JMPREL	23		/* Address of PLT relocs */
#define	DT_BIND_NOW	24		/* Process relocations of object */
#define	DT_INIT_ARRAY	25		/* Array with addresses of init fct */
#define	DT_FINI_ARRAY	26		/* Array with addresses of fini fct */
#define	DT_INIT_ARRAYSZ	27		/* Size in bytes of DT_INIT_ARRAY */
#define	DT_FINI_ARRAYSZ	28		/* Size in bytes of DT_FINI_ARRAY */
#define DT_RUNPATH	29		/* Library search path */
#define DT_FLAGS	30		/* Flags for the object being loaded */
#define DT_ENCODING	32		/* Start of encoded range */
#define DT_PREINIT_ARRAY 32		/* Array with addresses of preinit fct*/
#define DT_PREINIT_ARRAYSZ 33		/* size in bytes of DT_PREINIT_ARRAY */
#define DT_SYMTAB_SHNDX	34		/* Address of SYMTAB_SHNDX section */
#define DT_RELRSZ	35		/* Total size of RELR relative relocations */
#define DT_RELR		36		/* Address of RELR relative relocations */
#define DT_RELRENT	37		/* Size of one RELR relative relocaction */
#define	DT_NUM		38		/* Number used */
#define DT_LOOS		0x6000000d	/* Start of OS-specific */
#define DT_HIOS		0x6ffff000	/* End of OS-specific */
#define DT_LOPROC	0x70000000	/* Start of processor-specific */
#define DT_HIPROC	0x7fffffff	/* End of processor-specific */
#define	DT_PROCNUM	DT_MIPS_NUM	/* Most used by any processor */

/* DT_* entries which fall between DT_VALRNGHI & DT_VALRNGLO use the
   Dyn.d_un.d_val field of the Elf*_Dyn structure.  This follows Sun's
   approach.  */
#define DT_VALRNGLO	0x6ffffd00
#define DT_GNU_PRELINKED 0x6ffffdf5	/* Prelinking timestamp */
#define DT_GNU_CONFLICTSZ 0x6ffffdf6	/* Size of conflict section */
#define DT_GNU_LIBLISTSZ 0x6ffffdf7	/* Size of library list */
#define DT_CHECKSUM	0x6ffffdf8
#define DT_PLTPADSZ	0x6ffffdf9
#define DT_MOVEENT	0x6ffffdfa
#define DT_MOVESZ	0x6ffffdfb
#define DT_FEATURE_1	0x6ffffdfc	/* Feature selection (DTF_*).  */
#define DT_POSFLAG_1	0x6ffffdfd	/* Flags for DT_* entries, effecting
					   the following DT_* entry.  */
#define DT_SYMINSZ	0x6ffffdfe	/* Size of syminfo table (in bytes) */
#define DT_SYMINENT	0x6ffffdff	/* Entry size of syminfo */
#define DT_VALRNGHI	0x6ffffdff
#define DT_VALTAGIDX(tag)	(DT_VALRNGHI - (tag))	/* Reverse order! */
#define DT_VALNUM 12

/* DT_* entries which fall between DT_ADDRRNGHI & DT_ADDRRNGLO use the
   Dyn.d_un.d_ptr field of the Elf*_Dyn structure.

   If any adjustment is made to the ELF object after it has been
   built these entries will need to be adjusted.  */
#define DT_ADDRRNGLO	0x6ffffe00
#define DT_GNU_HASH	0x6ffffef5	/* GNU-style hash table.  */
#define DT_TLSDESC_PLT	0x6ffffef6
#define DT_TLSDESC_GOT	0x6ffffef7
#define DT_GNU_CONFLICT	0x6ffffef8	/* Start of conflict section */
#define DT_GNU_LIBLIST	0x6ffffef9	/* Library list */
#define DT_CONFIG	0x6ffffefa	/* Configuration information.  */
#define DT_DEPAUDIT	0x6ffffefb	/* Dependency auditing.  */
#define DT_AUDIT	0x6ffffefc	/* Object auditing.  */
#define	DT_PLTPAD	0x6ffffefd	/* PLT padding.  */
#define	DT_MOVETAB	0x6ffffefe	/* Move table.  */
#define DT_SYMINFO	0x6ffffeff	/* Syminfo table.  */
#define DT_ADDRRNGHI	0x6ffffeff
#define DT_ADDRTAGIDX(tag)	(DT_ADDRRNGHI - (tag))	/* Reverse order! */
#define DT_ADDRNUM 11

/* The versioning entry types.  The next are defined as part of the
   GNU extension.  */
#define DT_VERSYM	0x6ffffff0

#define DT_RELACOUNT	0x6ffffff9
#define DT_RELCOUNT	0x6ffffffa

/* These were chosen by Sun.  */
#define DT_FLAGS_1	0x6ffffffb	/* State flags, see DF_1_* below.  */
#define	DT_VERDEF	0x6ffffffc	/* Address of version definition
					   table */
#define	DT_VERDEFNUM	0x6ffffffd	/* Number of version definitions */
#define	DT_VERNEED	0x6ffffffe	/* Address of table with needed
					   versions */
#define	DT_VERNEEDNUM	0x6fffffff	/* Number of needed versions */
#define DT_VERSIONTAGIDX(tag)	(DT_VERNEEDNUM - (tag))	/* Reverse order! */
#define DT_VERSIONTAGNUM 16

/* Sun added these machine-independent extensions in the "processor-specific"
   range.  Be compatible.  */
#define DT_AUXILIARY    0x7ffffffd      /* Shared object to load before self */
#define DT_FILTER       0x7fffffff      /* Shared object to get values from */
#define DT_EXTRATAGIDX(tag)	((Elf32_Word)-((Elf32_Sword) (tag) <<1>>1)-1)
#define DT_EXTRANUM	3

/* Values of `d_un.d_val' in the DT_FLAGS entry.  */
#define DF_ORIGIN	0x00000001	/* Object may use DF_ORIGIN */
#define DF_SYMBOLIC	0x00000002	/* Symbol resolutions starts here */
#define DF_TEXTREL	0x00000004	/* Object contains text relocations */
#define DF_BIND_NOW	0x00000008	/* No lazy binding for this object */
#define DF_STATIC_TLS	0x00000010	/* Module uses the static TLS model */

/* State flags selectable in the `d_un.d_val' element of the DT_FLAGS_1
   entry in the dynamic section.  */
#define DF_1_NOW	0x00000001	/* Set RTLD_NOW for this object.  */
#define DF_1_GLOBAL	0x00000002	/* Set RTLD_GLOBAL for this object.  */
#define DF_1_GROUP	0x00000004	/* Set RTLD_GROUP for this object.  */
#define DF_1_NODELETE	0x00000008	/* Set RTLD_NODELETE for this object.*/
#define DF_1_LOADFLTR	0x00000010	/* Trigger filtee loading at runtime.*/
#define DF_1_INITFIRST	0x00000020	/* Set RTLD_INITFIRST for this object*/
#define DF_1_NOOPEN	0x00000040	/* Set RTLD_NOOPEN for this object.  */
#define DF_1_ORIGIN	0x00000080	/* $ORIGIN must be handled.  */
#define DF_1_DIRECT	0x00000100	/* Direct binding enabled.  */
#define DF_1_TRANS	0x00000200
#define DF_1_INTERPOSE	0x00000400	/* Object is used to interpose.  */
#define DF_1_NODEFLIB	0x00000800	/* Ignore default lib search path.  */
#define DF_1_NODUMP	0x00001000	/* Object can't be dldump'ed.  */
#define DF_1_CONFALT	0x00002000	/* Configuration alternative created.*/
#define DF_1_ENDFILTEE	0x00004000	/* Filtee terminates filters search. */
#define	DF_1_DISPRELDNE	0x00008000	/* Disp reloc applied at build time. */
#define	DF_1_DISPRELPND	0x00010000	/* Disp reloc applied at run-time.  */
#define	DF_1_NODIRECT	0x00020000	/* Object has no-direct binding. */
#define	DF_1_IGNMULDEF	0x00040000
#define	DF_1_NOKSYMS	0x00080000
#define	DF_1_NOHDR	0x00100000
#define	DF_1_EDITED	0x00200000	/* Object is modified after built.  */
#define	DF_1_NORELOC	0x00400000
#define	DF_1_SYMINTPOSE	0x00800000	/* Object has individual interposers.  */
#define	DF_1_GLOBAUDIT	0x01000000	/* Global auditing required.  */
#define	DF_1_SINGLETON	0x02000000	/* Singleton symbols are used.  */
#define	DF_1_STUB	0x04000000
#define	DF_1_PIE	0x08000000
#define	DF_1_KMOD       0x10000000
#define	DF_1_WEAKFILTER 0x20000000
#define	DF_1_NOCOMMON   0x40000000

/* Flags for the feature selection in DT_FEATURE_1.  */
#define DTF_1_PARINIT	0x00000001
#define DTF_1_CONFEXP	0x00000002

/* Flags in the DT_POSFLAG_1 entry effecting only the next DT_* entry.  */
#define DF_P1_LAZYLOAD	0x00000001	/* Lazyload following object.  */
#define DF_P1_GROUPPERM	0x00000002	/* Symbols from next object are not
					   generally available.  */

/* Version definition sections.  */

typedef struct
{
  Elf32_Half	vd_version;		/* Version revision */
  Elf32_Half	vd_flags;		/* Version information */
  Elf32_Half	vd_ndx;			/* Version Index */
  Elf32_Half	vd_cnt;			/* Number of associated aux entries */
  Elf32_Word	vd_hash;		/* Version name hash value */
  Elf32_Word	vd_aux;			/* Offset in bytes to verdaux array */
  Elf32_Word	vd_next;		/* Offset in bytes to next verdef
					   entry */
} Elf32_Verdef;

typedef struct
{
  Elf64_Half	vd_version;		/* Version revision */
  Elf64_Half	vd_flags;		/* Version information */
  Elf64_Half	vd_ndx;			/* Version Index */
  Elf64_Half	vd_cnt;			/* Number of associated aux entries */
  Elf64_Word	vd_hash;		/* Version name hash value */
  Elf64_Word	vd_aux;			/* Offset in bytes to verdaux array */
  Elf64_Word	vd_next;		/* Offset in bytes to next verdef
					   entry */
} Elf64_Verdef;


/* Legal values for vd_version (version revision).  */
#define VER_DEF_NONE	0		/* No version */
#define VER_DEF_CURRENT	1		/* Current version */
#define VER_DEF_NUM	2		/* Given version number */

/* Legal values for vd_flags (version information flags).  */
#define VER_FLG_BASE	0x1		/* Version definition of file itself */
#define VER_FLG_WEAK	0x2		/* Weak version identifier */

/* Versym symbol index values.  */
#define	VER_NDX_LOCAL		0	/* Symbol is local.  */
#define	VER_NDX_GLOBAL		1	/* Symbol is global.  */
#define	VER_NDX_LORESERVE	0xff00	/* Beginning of reserved entries.  */
#define	VER_NDX_ELIMINATE	0xff01	/* Symbol is to be eliminated.  */

/* Auxiliary version information.  */

typedef struct
{
  Elf32_Word	vda_name;		/* Version or dependency names */
  Elf32_Word	vda_next;		/* Offset in bytes to next verdaux
					   entry */
} Elf32_Verdaux;

typedef struct
{
  Elf64_Word	vda_name;		/* Version or dependency names */
  Elf64_Word	vda_next;		/* Offset in bytes to next verdaux
					   entry */
} Elf64_Verdaux;


/* Version dependency section.  */

typedef struct
{
  Elf32_Half	vn_version;		/* Version of structure */
  Elf32_Half	vn_cnt;			/* Number of associated aux entries */
  Elf32_Word	vn_file;		/* Offset of filename for this
					   dependency */
  Elf32_Word	vn_aux;			/* Offset in bytes to vernaux array */
  Elf32_Word	vn_next;		/* Offset in bytes to next verneed
					   entry */
} Elf32_Verneed;

typedef struct
{
  Elf64_Half	vn_version;		/* Version of structure */
  Elf64_Half	vn_cnt;			/* Number of associated aux entries */
  Elf64_Word	vn_file;		/* Offset of filename for this
					   dependency */
  Elf64_Word	vn_aux;			/* Offset in bytes to vernaux array */
  Elf64_Word	vn_next;		/* Offset in bytes to next verneed
					   entry */
} Elf64_Verneed;


/* Legal values for vn_version (version revision).  */
#define VER_NEED_NONE	 0		/* No version */
#define VER_NEED_CURRENT 1		/* Current version */
#define VER_NEED_NUM	 2		/* Given version number */

/* Auxiliary needed version information.  */

typedef struct
{
  Elf32_Word	vna_hash;		/* Hash value of dependency name */
  Elf32_Half	vna_flags;		/* Dependency specific information */
  Elf32_Half	vna_other;		/* Unused */
  Elf32_Word	vna_name;		/* Dependency name string offset */
  Elf32_Word	vna_next;		/* Offset in bytes to next vernaux
					   entry */
} Elf32_Vernaux;

typedef struct
{
  Elf64_Word	vna_hash;		/* Hash value of dependency name */
  Elf64_Half	vna_flags;		/* Dependency specific information */
  Elf64_Half	vna_other;		/* Unused */
  Elf64_Word	vna_name;		/* Dependency name string offset */
  Elf64_Word	vna_next;		/* Offset in bytes to next vernaux
					   entry */
} Elf64_Vernaux;


/* Legal values for vna_flags.  */
#define VER_FLG_WEAK	0x2		/* Weak version identifier */


/* Auxiliary vector.  */

/* This vector is normally only used by the program interpreter.  The
   usual definition in an ABI supplement uses the name auxv_t.  The
   vector is not usually defined in a standard <elf.h> file, but it
   can't hurt.  We rename it to avoid conflicts.  The sizes of these
   types are an arrangement between the exec server and the program
   interpreter, so we don't fully specify them here.  */

typedef struct
{
  uint32_t a_type;		/* Entry type */
  union
    {
      uint32_t a_val;		/* Integer value */
      /* We use to have pointer elements added here.  We cannot do that,
	 though, since it does not work when using 32-bit definitions
	 on 64-bit platforms and vice versa.  */
    } a_un;
} Elf32_auxv_t;

typedef struct
{
  uint64_t a_type;		/* Entry type */
  union
    {
      uint64_t a_val;		/* Integer value */
      /* We use to have pointer elements added here.  We cannot do that,
	 though, since it does not work when using 32-bit definitions
	 on 64-bit platforms and vice versa.  */
    } a_un;
} Elf64_auxv_t;

#include <bits/auxv.h>
/* Note section contents.  Each entry in the note section begins with
   a header of a fixed form.  */

typedef struct
{
  Elf32_Word n_namesz;			/* Length of the note's name.  */
  Elf32_Word n_descsz;			/* Length of the note's descriptor.  */
  Elf32_Word n_type;			/* Type of the note.  */
} Elf32_Nhdr;

typedef struct
{
  Elf64_Word n_namesz;			/* Length of the note's name.  */
  Elf64_Word n_descsz;			/* Length of the note's descriptor.  */
  Elf64_Word n_type;			/* Type of the note.  */
} Elf64_Nhdr;

/* Known names of notes.  */

/* Solaris entries in the note section have this name.  */
#define ELF_NOTE_SOLARIS	"SUNW Solaris"

/* Note entries for GNU systems have this name.  */
#define ELF_NOTE_GNU		"GNU"

/* Note entries for freedesktop.org have this name.  */
#define ELF_NOTE_FDO		"FDO"

/* Defined types of notes for Solaris.  */

/* Value of descriptor (one word) is desired pagesize for the binary.  */
#define ELF_NOTE_PAGESIZE_HINT	1


/* Defined note types for GNU systems.  */

/* ABI information.  The descriptor consists of words:
   word 0: OS descriptor
   word 1: major version of the ABI
   word 2: minor version of the ABI
   word 3: subminor version of the ABI
*/
#define NT_GNU_ABI_TAG	1
#define ELF_NOTE_ABI	NT_GNU_ABI_TAG /* Old name.  */

/* Known OSes.  These values can appear in word 0 of an
   NT_GNU_ABI_TAG note section entry.  */
#define ELF_NOTE_OS_LINUX	0
#define ELF_NOTE_OS_GNU		1
#define ELF_NOTE_OS_SOLARIS2	2
#define ELF_NOTE_OS_FREEBSD	3

/* Synthetic hwcap information.  The descriptor begins with two words:
   word 0: number of entries
   word 1: bitmask of enabled entries
   Then follow variable-length entries, one byte followed by a
   '\0'-terminated hwcap name string.  The byte gives the bit
   number to test if enabled, (1U << bit) & bitmask.  */
#define NT_GNU_HWCAP	2

/* Build ID bits as generated by ld --build-id.
   The descriptor consists of any nonzero number of bytes.  */
#define NT_GNU_BUILD_ID	3

/* Version note generated by GNU gold containing a version string.  */
#define NT_GNU_GOLD_VERSION	4

/* Program property.  */
#define NT_GNU_PROPERTY_TYPE_0 5

/* Packaging metadata as defined on
   https://systemd.io/COREDUMP_PACKAGE_METADATA/ */
#define NT_FDO_PACKAGING_METADATA 0xcafe1a7e

/* Note section name of program property.   */
#define NOTE_GNU_PROPERTY_SECTION_NAME ".note.gnu.property"

/* Values used in GNU .note.gnu.property notes (NT_GNU_PROPERTY_TYPE_0).  */

/* Stack size.  */
#define GNU_PROPERTY_STACK_SIZE			1
/* No copy relocation on protected data symbol.  */
#define GNU_PROPERTY_NO_COPY_ON_PROTECTED	2

/* A 4-byte unsigned integer property: A bit is set if it is set in all
   relocatable inputs.  */
#define GNU_PROPERTY_UINT32_AND_LO	0xb0000000
#define GNU_PROPERTY_UINT32_AND_HI	0xb0007fff

/* A 4-byte unsigned integer property: A bit is set if it is set in any
   relocatable inputs.  */
#define GNU_PROPERTY_UINT32_OR_LO	0xb0008000
#define GNU_PROPERTY_UINT32_OR_HI	0xb000ffff

/* The needed properties by the object file.  */
#define GNU_PROPERTY_1_NEEDED		GNU_PROPERTY_UINT32_OR_LO

/* Set if the object file requires canonical function pointers and
   cannot be used with copy relocation.  */
#define GNU_PROPERTY_1_NEEDED_INDIRECT_EXTERN_ACCESS (1U << 0)

/* Processor-specific semantics, lo */
#define GNU_PROPERTY_LOPROC			0xc0000000
/* Processor-specific semantics, hi */
#define GNU_PROPERTY_HIPROC			0xdfffffff
/* Application-specific semantics, lo */
#define GNU_PROPERTY_LOUSER			0xe0000000
/* Application-specific semantics, hi */
#define GNU_PROPERTY_HIUSER			0xffffffff

/* AArch64 specific GNU properties.  */
#define GNU_PROPERTY_AARCH64_FEATURE_1_AND	0xc0000000

#define GNU_PROPERTY_AARCH64_FEATURE_1_BTI	(1U << 0)
#define GNU_PROPERTY_AARCH64_FEATURE_1_PAC	(1U << 1)

/* The x86 instruction sets indicated by the corresponding bits are
   used in program.  Their support in the hardware is optional.  */
#define GNU_PROPERTY_X86_ISA_1_USED		0xc0010002
/* The x86 instruction sets indicated by the corresponding bits are
   used in program and they must be supported by the hardware.   */
#define GNU_PROPERTY_X86_ISA_1_NEEDED		0xc0008002
/* X86 processor-specific features used in program.  */
#define GNU_PROPERTY_X86_FEATURE_1_AND		0xc0000002

/* GNU_PROPERTY_X86_ISA_1_BASELINE: CMOV, CX8 (cmpxchg8b), FPU (fld),
   MMX, OSFXSR (fxsave), SCE (syscall), SSE and SSE2.  */
#define GNU_PROPERTY_X86_ISA_1_BASELINE		(1U << 0)
/* GNU_PROPERTY_X86_ISA_1_V2: GNU_PROPERTY_X86_ISA_1_BASELINE,
   CMPXCHG16B (cmpxchg16b), LAHF-SAHF (lahf), POPCNT (popcnt), SSE3,
   SSSE3, SSE4.1 and SSE4.2.  */
#define GNU_PROPERTY_X86_ISA_1_V2		(1U << 1)
/* GNU_PROPERTY_X86_ISA_1_V3: GNU_PROPERTY_X86_ISA_1_V2, AVX, AVX2, BMI1,
   BMI2, F16C, FMA, LZCNT, MOVBE, XSAVE.  */
#define GNU_PROPERTY_X86_ISA_1_V3		(1U << 2)
/* GNU_PROPERTY_X86_ISA_1_V4: GNU_PROPERTY_X86_ISA_1_V3, AVX512F,
   AVX512BW, AVX512CD, AVX512DQ and AVX512VL.  */
#define GNU_PROPERTY_X86_ISA_1_V4		(1U << 3)

/* This indicates that all executable sections are compatible with
   IBT.  */
#define GNU_PROPERTY_X86_FEATURE_1_IBT		(1U << 0)
/* This indicates that all executable sections are compatible with
   SHSTK.  */
#define GNU_PROPERTY_X86_FEATURE_1_SHSTK	(1U << 1)

/* Move records.  */
typedef struct
{
  Elf32_Xword m_value;		/* Symbol value.  */
  Elf32_Word m_info;		/* Size and index.  */
  Elf32_Word m_poffset;		/* Symbol offset.  */
  Elf32_Half m_repeat;		/* Repeat count.  */
  Elf32_Half m_stride;		/* Stride info.  */
} Elf32_Move;

typedef struct
{
  Elf64_Xword m_value;		/* Symbol value.  */
  Elf64_Xword m_info;		/* Size and index.  */
  Elf64_Xword m_poffset;	/* Symbol offset.  */
  Elf64_Half m_repeat;		/* Repeat count.  */
  Elf64_Half m_stride;		/* Stride info.  */
} Elf64_Move;

/* Macro to construct move records.  */
#define ELF32_M_SYM(info)	((info) >> 8)
#define ELF32_M_SIZE(info)	((unsigned char) (info))
#define ELF32_M_INFO(sym, size)	(((sym) << 8) + (unsigned char) (size))

#define ELF64_M_SYM(info)	ELF32_M_SYM (info)
#define ELF64_M_SIZE(info)	ELF32_M_SIZE (info)
#define ELF64_M_INFO(sym, size)	ELF32_M_INFO (sym, size)


/* Motorola 68k specific definitions.  */

/* Values for Elf32_Ehdr.e_flags.  */
#define EF_CPU32	0x00810000

/* m68k relocs.  */

#define R_68K_NONE	0		/* No reloc */
#define R_68K_32	1		/* Direct 32 bit  */
#define R_68K_16	2		/* Direct 16 bit  */
#define R_68K_8		3		/* Direct 8 bit  */
#define R_68K_PC32	4		/* PC relative 32 bit */
#define R_68K_PC16	5		/* PC relative 16 bit */
#define R_68K_PC8	6		/* PC relative 8 bit */
#define R_68K_GOT32	7		/* 32 bit PC relative GOT entry */
#define R_68K_GOT16	8		/* 16 bit PC relative GOT entry */
#define R_68K_GOT8	9		/* 8 bit PC relative GOT entry */
#define R_68K_GOT32O	10		/* 32 bit GOT offset */
#define R_68K_GOT16O	11		/* 16 bit GOT offset */
#define R_68K_GOT8O	12		/* 8 bit GOT offset */
#define R_68K_PLT32	13		/* 32 bit PC relative PLT address */
#define R_68K_PLT16	14		/* 16 bit PC relative PLT address */
#define R_68K_PLT8	15		/* 8 bit PC relative PLT address */
#define R_68K_PLT32O	16		/* 32 bit PLT offset */
#define R_68K_PLT16O	17		/* 16 bit PLT offset */
#define R_68K_PLT8O	18		/* 8 bit PLT offset */
#define R_68K_COPY	19		/* Copy symbol at runtime */
#define R_68K_GLOB_DAT	20		/* Create GOT entry */
#define R_68K_JMP_SLOT	21		/* Create PLT entry */
#define R_68K_RELATIVE	22		/* Adjust by program base */
#define R_68K_TLS_GD32      25          /* 32 bit GOT offset for GD */
#define R_68K_TLS_GD16      26          /* 16 bit GOT offset for GD */
#define R_68K_TLS_GD8       27          /* 8 bit GOT offset for GD */
#define R_68K_TLS_LDM32     28          /* 32 bit GOT offset for LDM */
#define R_68K_TLS_LDM16     29          /* 16 bit GOT offset for LDM */
#define R_68K_TLS_LDM8      30          /* 8 bit GOT offset for LDM */
#define R_68K_TLS_LDO32     31          /* 32 bit module-relative offset */
#define R_68K_TLS_LDO16     32          /* 16 bit module-relative offset */
#define R_68K_TLS_LDO8      33          /* 8 bit module-relative offset */
#define R_68K_TLS_IE32      34          /* 32 bit GOT offset for IE */
#define R_68K_TLS_IE16      35          /* 16 bit GOT offset for IE */
#define R_68K_TLS_IE8       36          /* 8 bit GOT offset for IE */
#define R_68K_TLS_LE32      37          /* 32 bit offset relative to
					   static TLS block */
#define R_68K_TLS_LE16      38          /* 16 bit offset relative to
					   static TLS block */
#define R_68K_TLS_LE8       39          /* 8 bit offset relative to
					   static TLS block */
#define R_68K_TLS_DTPMOD32  40          /* 32 bit module number */
#define R_68K_TLS_DTPREL32  41          /* 32 bit module-relative offset */
#define R_68K_TLS_TPREL32   42          /* 32 bit TP-relative offset */
/* Keep this the last entry.  */
#define R_68K_NUM	43

/* Intel 80386 specific definitions.  */

/* i386 relocs.  */

#define R_386_NONE	   0		/* No reloc */
#define R_386_32	   1		/* Direct 32 bit  */
#define R_386_PC32	   2		/* PC relative 32 bit */
#define R_386_GOT32	   3		/* 32 bit GOT entry */
#define R_386_PLT32	   4		/* 32 bit PLT address */
#define R_386_COPY	   5		/* Copy symbol at runtime */
#define R_386_GLOB_DAT	   6		/* Create GOT entry */
#define R_386_JMP_SLOT	   7		/* Create PLT entry */
#define R_386_RELATIVE	   8		/* Adjust by program base */
#define R_386_GOTOFF	   9		/* 32 bit offset to GOT */
#define R_386_GOTPC	   10		/* 32 bit PC relative offset to GOT */
#define R_386_32PLT	   11
#define R_386_TLS_TPOFF	   14		/* Offset in static TLS block */
#define R_386_TLS_IE	   15		/* Address of GOT entry for static TLS
					   block offset */
#define R_386_TLS_GOTIE	   16		/* GOT entry for static TLS block
					   offset */
#define R_386_TLS_LE	   17		/* Offset relative to static TLS
					   block */
#define R_386_TLS_GD	   18		/* Direct 32 bit for GNU version of
					   general dynamic thread local data */
#define R_386_TLS_LDM	   19		/* Direct 32 bit for GNU version of
					   local dynamic thread local data
					   in LE code */
#define R_386_16	   20
#define R_386_PC16	   21
#define R_386_8		   22
#define R_386_PC8	   23
#define R_386_TLS_GD_32	   24		/* Direct 32 bit for general dynamic
					   thread local data */
#define R_386_TLS_GD_PUSH  25		/* Tag for pushl in GD TLS code */
#define R_386_TLS_GD_CALL  26		/* Relocation for call to
					   __tls_get_addr() */
#define R_386_TLS_GD_POP   27		/* Tag for popl in GD TLS code */
#define R_386_TLS_LDM_32   28		/* Direct 32 bit for local dynamic
					   thread local data in LE code */
#define R_386_TLS_LDM_PUSH 29		/* Tag for pushl in LDM TLS code */
#define R_386_TLS_LDM_CALL 30		/* Relocation for call to
					   __tls_get_addr() in LDM code */
#define R_386_TLS_LDM_POP  31		/* Tag for popl in LDM TLS code */
#define R_386_TLS_LDO_32   32		/* Offset relative to TLS block */
#define R_386_TLS_IE_32	   33		/* GOT entry for negated static TLS
					   block offset */
#define R_386_TLS_LE_32	   34		/* Negated offset relative to static
					   TLS block */
#define R_386_TLS_DTPMOD32 35		/* ID of module containing symbol */
#define R_386_TLS_DTPOFF32 36		/* Offset in TLS block */
#define R_386_TLS_TPOFF32  37		/* Negated offset in static TLS block */
#define R_386_SIZE32	   38 		/* 32-bit symbol size */
#define R_386_TLS_GOTDESC  39		/* GOT offset for TLS descriptor.  */
#define R_386_TLS_DESC_CALL 40		/* Marker of call through TLS
					   descriptor for
					   relaxation.  */
#define R_386_TLS_DESC     41		/* TLS descriptor containing
					   pointer to code and to
					   argument, returning the TLS
					   offset for the symbol.  */
#define R_386_IRELATIVE	   42		/* Adjust indirectly by program base */
#define R_386_GOT32X	   43		/* Load from 32 bit GOT entry,
					   relaxable. */
/* Keep this the last entry.  */
#define R_386_NUM	   44

/* SUN SPARC specific definitions.  */

/* Legal values for ST_TYPE subfield of st_info (symbol type).  */

#define STT_SPARC_REGISTER	13	/* Global register reserved to app. */

/* Values for Elf64_Ehdr.e_flags.  */

#define EF_SPARCV9_MM		3
#define EF_SPARCV9_TSO		0
#define EF_SPARCV9_PSO		1
#define EF_SPARCV9_RMO		2
#define EF_SPARC_LEDATA		0x800000 /* little endian data */
#define EF_SPARC_EXT_MASK	0xFFFF00
#define EF_SPARC_32PLUS		0x000100 /* generic V8+ features */
#define EF_SPARC_SUN_US1	0x000200 /* Sun UltraSPARC1 extensions */
#define EF_SPARC_HAL_R1		0x000400 /* HAL R1 extensions */
#define EF_SPARC_SUN_US3	0x000800 /* Sun UltraSPARCIII extensions */

/* SPARC relocs.  */

#define R_SPARC_NONE		0	/* No reloc */
#define R_SPARC_8		1	/* Direct 8 bit */
#define R_SPARC_16		2	/* Direct 16 bit */
#define R_SPARC_32		3	/* Direct 32 bit */
#define R_SPARC_DISP8		4	/* PC relative 8 bit */
#define R_SPARC_DISP16		5	/* PC relative 16 bit */
#define R_SPARC_DISP32		6	/* PC relative 32 bit */
#define R_SPARC_WDISP30		7	/* PC relative 30 bit shifted */
#define R_SPARC_WDISP22		8	/* PC relative 22 bit shifted */
#define R_SPARC_HI22		9	/* High 22 bit */
#define R_SPARC_22		10	/* Direct 22 bit */
#define R_SPARC_13		11	/* Direct 13 bit */
#define R_SPARC_LO10		12	/* Truncated 10 bit */
#define R_SPARC_GOT10		13	/* Truncated 10 bit GOT entry */
#define R_SPARC_GOT13		14	/* 13 bit GOT entry */
#define R_SPARC_GOT22		15	/* 22 bit GOT entry shifted */
#define R_SPARC_PC10		16	/* PC relative 10 bit truncated */
#define R_SPARC_PC22		17	/* PC relative 22 bit shifted */
#define R_SPARC_WPLT30		18	/* 30 bit PC relative PLT address */
#define R_SPARC_COPY		19	/* Copy symbol at runtime */
#define R_SPARC_GLOB_DAT	20	/* Create GOT entry */
#define R_SPARC_JMP_SLOT	21	/* Create PLT entry */
#define R_SPARC_RELATIVE	22	/* Adjust by program base */
#define R_SPARC_UA32		23	/* Direct 32 bit unaligned */

/* Additional Sparc64 relocs.  */

#define R_SPARC_PLT32		24	/* Direct 32 bit ref to PLT entry */
#define R_SPARC_HIPLT22		25	/* High 22 bit PLT entry */
#define R_SPARC_LOPLT10		26	/* Truncated 10 bit PLT entry */
#define R_SPARC_PCPLT32		27	/* PC rel 32 bit ref to PLT entry */
#define R_SPARC_PCPLT22		28	/* PC rel high 22 bit PLT entry */
#define R_SPARC_PCPLT10		29	/* PC rel trunc 10 bit PLT entry */
#define R_SPARC_10		30	/* Direct 10 bit */
#define R_SPARC_11		31	/* Direct 11 bit */
#define R_SPARC_64		32	/* Direct 64 bit */
#define R_SPARC_OLO10		33	/* 10bit with secondary 13bit addend */
#define R_SPARC_HH22		34	/* Top 22 bits of direct 64 bit */
#define R_SPARC_HM10		35	/* High middle 10 bits of ... */
#define R_SPARC_LM22		36	/* Low middle 22 bits of ... */
#define R_SPARC_PC_HH22		37	/* Top 22 bits of pc rel 64 bit */
#define R_SPARC_PC_HM10		38	/* High middle 10 bit of ... */
#define R_SPARC_PC_LM22		39	/* Low miggle 22 bits of ... */
#define R_SPARC_WDISP16		40	/* PC relative 16 bit shifted */
#define R_SPARC_WDISP19		41	/* PC relative 19 bit shifted */
#define R_SPARC_GLOB_JMP	42	/* was part of v9 ABI but was removed */
#define R_SPARC_7		43	/* Direct 7 bit */
#define R_SPARC_5		44	/* Direct 5 bit */
#define R_SPARC_6		45	/* Direct 6 bit */
#define R_SPARC_DISP64		46	/* PC relative 64 bit */
#define R_SPARC_PLT64		47	/* Direct 64 bit ref to PLT entry */
#define R_SPARC_HIX22		48	/* High 22 bit complemented */
#define R_SPARC_LOX10		49	/* Truncated 11 bit complemented */
#define R_SPARC_H44		50	/* Direct high 12 of 44 bit */
#define R_SPARC_M44		51	/* Direct mid 22 of 44 bit */
#define R_SPARC_L44		52	/* Direct low 10 of 44 bit */
#define R_SPARC_REGISTER	53	/* Global register usage */
#define R_SPARC_UA64		54	/* Direct 64 bit unaligned */
#define R_SPARC_UA16		55	/* Direct 16 bit unaligned */
#define R_SPARC_TLS_GD_HI22	56
#define R_SPARC_TLS_GD_LO10	57
#define R_SPARC_TLS_GD_ADD	58
#define R_SPARC_TLS_GD_CALL	59
#define R_SPARC_TLS_LDM_HI22	60
#define R_SPARC_TLS_LDM_LO10	61
#define R_SPARC_TLS_LDM_ADD	62
#define R_SPARC_TLS_LDM_CALL	63
#define R_SPARC_TLS_LDO_HIX22	64
#define R_SPARC_TLS_LDO_LOX10	65
#define R_SPARC_TLS_LDO_ADD	66
#define R_SPARC_TLS_IE_HI22	67
#define R_SPARC_TLS_IE_LO10	68
#define R_SPARC_TLS_IE_LD	69
#define R_SPARC_TLS_IE_LDX	70
#define R_SPARC_TLS_IE_ADD	71
#define R_SPARC_TLS_LE_HIX22	72
#define R_SPARC_TLS_LE_LOX10	73
#define R_SPARC_TLS_DTPMOD32	74
#define R_SPARC_TLS_DTPMOD64	75
#define R_SPARC_TLS_DTPOFF32	76
#define R_SPARC_TLS_DTPOFF64	77
#define R_SPARC_TLS_TPOFF32	78
#define R_SPARC_TLS_TPOFF64	79
#define R_SPARC_GOTDATA_HIX22	80
#define R_SPARC_GOTDATA_LOX10	81
#define R_SPARC_GOTDATA_OP_HIX22	82
#define R_SPARC_GOTDATA_OP_LOX10	83
#define R_SPARC_GOTDATA_OP	84
#define R_SPARC_H34		85
#define R_SPARC_SIZE32		86
#define R_SPARC_SIZE64		87
#define R_SPARC_WDISP10		88
#define R_SPARC_JMP_IREL	248
#define R_SPARC_IRELATIVE	249
#define R_SPARC_GNU_VTINHERIT	250
#define R_SPARC_GNU_VTENTRY	251
#define R_SPARC_REV32		252
/* Keep this the last entry.  */
#define R_SPARC_NUM		253

/* For Sparc64, legal values for d_tag of Elf64_Dyn.  */

#define DT_SPARC_REGISTER	0x70000001
#define DT_SPARC_NUM		2

/* MIPS R3000 specific definitions.  */

/* Legal values for e_flags field of Elf32_Ehdr.  */

#define EF_MIPS_NOREORDER	1     /* A .noreorder directive was used.  */
#define EF_MIPS_PIC		2     /* Contains PIC code.  */
#define EF_MIPS_CPIC		4     /* Uses PIC calling sequence.  */
#define EF_MIPS_XGOT		8
#define EF_MIPS_64BIT_WHIRL	16
#define EF_MIPS_ABI2		32
#define EF_MIPS_ABI_ON32	64
#define EF_MIPS_FP64		512  /* Uses FP64 (12 callee-saved).  */
#define EF_MIPS_NAN2008	1024  /* Uses IEEE 754-2008 NaN encoding.  */
#define EF_MIPS_ARCH		0xf0000000 /* MIPS architecture level.  */

/* Legal values for MIPS architecture level.  */

#define EF_MIPS_ARCH_1		0x00000000 /* -mips1 code.  */
#define EF_MIPS_ARCH_2		0x10000000 /* -mips2 code.  */
#define EF_MIPS_ARCH_3		0x20000000 /* -mips3 code.  */
#define EF_MIPS_ARCH_4		0x30000000 /* -mips4 code.  */
#define EF_MIPS_ARCH_5		0x40000000 /* -mips5 code.  */
#define EF_MIPS_ARCH_32		0x50000000 /* MIPS32 code.  */
#define EF_MIPS_ARCH_64		0x60000000 /* MIPS64 code.  */
#define EF_MIPS_ARCH_32R2	0x70000000 /* MIPS32r2 code.  */
#define EF_MIPS_ARCH_64R2	0x80000000 /* MIPS64r2 code.  */

/* The following are unofficial names and should not be used.  */

#define E_MIPS_ARCH_1		EF_MIPS_ARCH_1
#define E_MIPS_ARCH_2		EF_MIPS_ARCH_2
#define E_MIPS_ARCH_3		EF_MIPS_ARCH_3
#define E_MIPS_ARCH_4		EF_MIPS_ARCH_4
#define E_MIPS_ARCH_5		EF_MIPS_ARCH_5
#define E_MIPS_ARCH_32		EF_MIPS_ARCH_32
#define E_MIPS_ARCH_64		EF_MIPS_ARCH_64

/* Special section indices.  */

#define SHN_MIPS_ACOMMON	0xff00	/* Allocated common symbols.  */
#define SHN_MIPS_TEXT		0xff01	/* Allocated test symbols.  */
#define SHN_MIPS_DATA		0xff02	/* Allocated data symbols.  */
#define SHN_MIPS_SCOMMON 	0xff03	/* Small common symbols.  */
#define SHN_MIPS_SUNDEFINED	0xff04	/* Small undefined symbols.  */

/* Legal values for sh_type field of Elf32_Shdr.  */

#define SHT_MIPS_LIBLIST	0x70000000 /* Shared objects used in link.  */
#define SHT_MIPS_MSYM		0x70000001
#define SHT_MIPS_CONFLICT	0x70000002 /* Conflicting symbols.  */
#define SHT_MIPS_GPTAB		0x70000003 /* Global data area sizes.  */
#define SHT_MIPS_UCODE		0x70000004 /* Reserved for SGI/MIPS compilers */
#define SHT_MIPS_DEBUG		0x70000005 /* MIPS ECOFF debugging info.  */
#define SHT_MIPS_REGINFO	0x70000006 /* Register usage information.  */
#define SHT_MIPS_PACKAGE	0x70000007
#define SHT_MIPS_PACKSYM	0x70000008
#define SHT_MIPS_RELD		0x70000009
#define SHT_MIPS_IFACE		0x7000000b
#define SHT_MIPS_CONTENT	0x7000000c
#define SHT_MIPS_OPTIONS	0x7000000d /* Miscellaneous options.  */
#define SHT_MIPS_SHDR		0x70000010
#define SHT_MIPS_FDESC		0x70000011
#define SHT_MIPS_EXTSYM		0x70000012
#define SHT_MIPS_DENSE		0x70000013
#define SHT_MIPS_PDESC		0x70000014
#define SHT_MIPS_LOCSYM		0x70000015
#define SHT_MIPS_AUXSYM		0x70000016
#define SHT_MIPS_OPTSYM		0x70000017
#define SHT_MIPS_LOCSTR		0x70000018
#define SHT_MIPS_LINE		0x70000019
#define SHT_MIPS_RFDESC		0x7000001a
#define SHT_MIPS_DELTASYM	0x7000001b
#define SHT_MIPS_DELTAINST	0x7000001c
#define SHT_MIPS_DELTACLASS	0x7000001d
#define SHT_MIPS_DWARF		0x7000001e /* DWARF debugging information.  */
#define SHT_MIPS_DELTADECL	0x7000001f
#define SHT_MIPS_SYMBOL_LIB	0x70000020
#define SHT_MIPS_EVENTS		0x70000021 /* Event section.  */
#define SHT_MIPS_TRANSLATE	0x70000022
#define SHT_MIPS_PIXIE		0x70000023
#define SHT_MIPS_XLATE		0x70000024
#define SHT_MIPS_XLATE_DEBUG	0x70000025
#define SHT_MIPS_WHIRL		0x70000026
#define SHT_MIPS_EH_REGION	0x70000027
#define SHT_MIPS_XLATE_OLD	0x70000028
#define SHT_MIPS_PDR_EXCEPTION	0x70000029
#define SHT_MIPS_XHASH		0x7000002b

/* Legal values for sh_flags field of Elf32_Shdr.  */

#define SHF_MIPS_GPREL		0x10000000 /* Must be in global data area.  */
#define SHF_MIPS_MERGE		0x20000000
#define SHF_MIPS_ADDR		0x40000000
#define SHF_MIPS_STRINGS	0x80000000
#define SHF_MIPS_NOSTRIP	0x08000000
#define SHF_MIPS_LOCAL		0x04000000
#define SHF_MIPS_NAMES		0x02000000
#define SHF_MIPS_NODUPE		0x01000000


/* Symbol tables.  */

/* MIPS specific values for `st_other'.  */
#define STO_MIPS_DEFAULT		0x0
#define STO_MIPS_INTERNAL		0x1
#define STO_MIPS_HIDDEN			0x2
#define STO_MIPS_PROTECTED		0x3
#define STO_MIPS_PLT			0x8
#define STO_MIPS_SC_ALIGN_UNUSED	0xff

/* MIPS specific values for `st_info'.  */
#define STB_MIPS_SPLIT_COMMON		13

/* Entries found in sections of type SHT_MIPS_GPTAB.  */

typedef union
{
  struct
    {
      Elf32_Word gt_current_g_value;	/* -G value used for compilation.  */
      Elf32_Word gt_unused;		/* Not used.  */
    } gt_header;			/* First entry in section.  */
  struct
    {
      Elf32_Word gt_g_value;		/* If this value were used for -G.  */
      Elf32_Word gt_bytes;		/* This many bytes would be used.  */
    } gt_entry;				/* Subsequent entries in section.  */
} Elf32_gptab;

/* Entry found in sections of type SHT_MIPS_REGINFO.  */

typedef struct
{
  Elf32_Word ri_gprmask;		/* General registers used.  */
  Elf32_Word ri_cprmask[4];		/* Coprocessor registers used.  */
  Elf32_Sword ri_gp_value;		/* $gp register value.  */
} Elf32_RegInfo;

/* Entries found in sections of type SHT_MIPS_OPTIONS.  */

typedef struct
{
  unsigned char kind;		/* Determines interpretation of the
				   variable part of descriptor.  */
  unsigned char size;		/* Size of descriptor, including header.  */
  Elf32_Section section;	/* Section header index of section affected,
				   0 for global options.  */
  Elf32_Word info;		/* Kind-specific information.  */
} Elf_Options;

/* Values for `kind' field in Elf_Options.  */

#define ODK_NULL	0	/* Undefined.  */
#define ODK_REGINFO	1	/* Register usage information.  */
#define ODK_EXCEPTIONS	2	/* Exception processing options.  */
#define ODK_PAD		3	/* Section padding options.  */
#define ODK_HWPATCH	4	/* Hardware workarounds performed */
#define ODK_FILL	5	/* record the fill value used by the linker. */
#define ODK_TAGS	6	/* reserve space for desktop tools to write. */
#define ODK_HWAND	7	/* HW workarounds.  'AND' bits when merging. */
#define ODK_HWOR	8	/* HW workarounds.  'OR' bits when merging.  */

/* Values for `info' in Elf_Options for ODK_EXCEPTIONS entries.  */

#define OEX_FPU_MIN	0x1f	/* FPE's which MUST be enabled.  */
#define OEX_FPU_MAX	0x1f00	/* FPE's which MAY be enabled.  */
#define OEX_PAGE0	0x10000	/* page zero must be mapped.  */
#define OEX_SMM		0x20000	/* Force sequential memory mode?  */
#define OEX_FPDBUG	0x40000	/* Force floating point debug mode?  */
#define OEX_PRECISEFP	OEX_FPDBUG
#define OEX_DISMISS	0x80000	/* Dismiss invalid address faults?  */

#define OEX_FPU_INVAL	0x10
#define OEX_FPU_DIV0	0x08
#define OEX_FPU_OFLO	0x04
#define OEX_FPU_UFLO	0x02
#define OEX_FPU_INEX	0x01

/* Masks for `info' in Elf_Options for an ODK_HWPATCH entry.  */

#define OHW_R4KEOP	0x1	/* R4000 end-of-page patch.  */
#define OHW_R8KPFETCH	0x2	/* may need R8000 prefetch patch.  */
#define OHW_R5KEOP	0x4	/* R5000 end-of-page patch.  */
#define OHW_R5KCVTL	0x8	/* R5000 cvt.[ds].l bug.  clean=1.  */

#define OPAD_PREFIX	0x1
#define OPAD_POSTFIX	0x2
#define OPAD_SYMBOL	0x4

/* Entry found in `.options' section.  */

typedef struct
{
  Elf32_Word hwp_flags1;	/* Extra flags.  */
  Elf32_Word hwp_flags2;	/* Extra flags.  */
} Elf_Options_Hw;

/* Masks for `info' in ElfOptions for ODK_HWAND and ODK_HWOR entries.  */

#define OHWA0_R4KEOP_CHECKED	0x00000001
#define OHWA1_R4KEOP_CLEAN	0x00000002

/* MIPS relocs.  */

#define R_MIPS_NONE		0	/* No reloc */
#define R_MIPS_16		1	/* Direct 16 bit */
#define R_MIPS_32		2	/* Direct 32 bit */
#define R_MIPS_REL32		3	/* PC relative 32 bit */
#define R_MIPS_26		4	/* Direct 26 bit shifted */
#define R_MIPS_HI16		5	/* High 16 bit */
#define R_MIPS_LO16		6	/* Low 16 bit */
#define R_MIPS_GPREL16		7	/* GP relative 16 bit */
#define R_MIPS_LITERAL		8	/* 16 bit literal entry */
#define R_MIPS_GOT16		9	/* 16 bit GOT entry */
#define R_MIPS_PC16		10	/* PC relative 16 bit */
#define R_MIPS_CALL16		11	/* 16 bit GOT entry for function */
#define R_MIPS_GPREL32		12	/* GP relative 32 bit */

#define R_MIPS_SHIFT5		16
#define R_MIPS_SHIFT6		17
#define R_MIPS_64		18
#define R_MIPS_GOT_DISP		19
#define R_MIPS_GOT_PAGE		20
#define R_MIPS_GOT_OFST		21
#define R_MIPS_GOT_HI16		22
#define R_MIPS_GOT_LO16		23
#define R_MIPS_SUB		24
#define R_MIPS_INSERT_A		25
#define R_MIPS_INSERT_B		26
#define R_MIPS_DELETE		27
#define R_MIPS_HIGHER		28
#define R_MIPS_HIGHEST		29
#define R_MIPS_CALL_HI16	30
#define R_MIPS_CALL_LO16	31
#define R_MIPS_SCN_DISP		32
#define R_MIPS_REL16		33
#define R_MIPS_ADD_IMMEDIATE	34
#define R_MIPS_PJUMP		35
#define R_MIPS_RELGOT		36
#define R_MIPS_JALR		37
#define R_MIPS_TLS_DTPMOD32	38	/* Module number 32 bit */
#define R_MIPS_TLS_DTPREL32	39	/* Module-relative offset 32 bit */
#define R_MIPS_TLS_DTPMOD64	40	/* Module number 64 bit */
#define R_MIPS_TLS_DTPREL64	41	/* Module-relative offset 64 bit */
#define R_MIPS_TLS_GD		42	/* 16 bit GOT offset for GD */
#define R_MIPS_TLS_LDM		43	/* 16 bit GOT offset for LDM */
#define R_MIPS_TLS_DTPREL_HI16	44	/* Module-relative offset, high 16 bits */
#define R_MIPS_TLS_DTPREL_LO16	45	/* Module-relative offset, low 16 bits */
#define R_MIPS_TLS_GOTTPREL	46	/* 16 bit GOT offset for IE */
#define R_MIPS_TLS_TPREL32	47	/* TP-relative offset, 32 bit */
#define R_MIPS_TLS_TPREL64	48	/* TP-relative offset, 64 bit */
#define R_MIPS_TLS_TPREL_HI16	49	/* TP-relative offset, high 16 bits */
#define R_MIPS_TLS_TPREL_LO16	50	/* TP-relative offset, low 16 bits */
#define R_MIPS_GLOB_DAT		51
#define R_MIPS_COPY		126
#define R_MIPS_JUMP_SLOT        127
/* Keep this the last entry.  */
#define R_MIPS_NUM		128

/* Legal values for p_type field of Elf32_Phdr.  */

#define PT_MIPS_REGINFO	  0x70000000	/* Register usage information. */
#define PT_MIPS_RTPROC	  0x70000001	/* Runtime procedure table. */
#define PT_MIPS_OPTIONS	  0x70000002
#define PT_MIPS_ABIFLAGS  0x70000003	/* FP mode requirement. */

/* Special program header types.  */

#define PF_MIPS_LOCAL	0x10000000

/* Legal values for d_tag field of Elf32_Dyn.  */

#define DT_MIPS_RLD_VERSION  0x70000001	/* Runtime linker interface version */
#define DT_MIPS_TIME_STAMP   0x70000002	/* Timestamp */
#define DT_MIPS_ICHECKSUM    0x70000003	/* Checksum */
#define DT_MIPS_IVERSION     0x70000004	/* Version string (string tbl index) */
#define DT_MIPS_FLAGS	     0x70000005	/* Flags */
#define DT_MIPS_BASE_ADDRESS 0x70000006	/* Base address */
#define DT_MIPS_MSYM	     0x70000007
#define DT_MIPS_CONFLICT     0x70000008	/* Address of CONFLICT section */
#define DT_MIPS_LIBLIST	     0x70000009	/* Address of LIBLIST section */
#define DT_MIPS_LOCAL_GOTNO  0x7000000a	/* Number of local GOT entries */
#define DT_MIPS_CONFLICTNO   0x7000000b	/* Number of CONFLICT entries */
#define DT_MIPS_LIBLISTNO    0x70000010	/* Number of LIBLIST entries */
#define DT_MIPS_SYMTABNO     0x70000011	/* Number of DYNSYM entries */
#define DT_MIPS_UNREFEXTNO   0x70000012	/* First external DYNSYM */
#define DT_MIPS_GOTSYM	     0x70000013	/* First GOT entry in DYNSYM */
#define DT_MIPS_HIPAGENO     0x70000014	/* Number of GOT page table entries */
#define DT_MIPS_RLD_MAP	     0x70000016	/* Address of run time loader map.  */
#define DT_MIPS_DELTA_CLASS  0x70000017	/* Delta C++ class definition.  */
#define DT_MIPS_DELTA_CLASS_NO    0x70000018 /* Number of entries in
						DT_MIPS_DELTA_CLASS.  */
#define DT_MIPS_DELTA_INSTANCE    0x70000019 /* Delta C++ class instances.  */
#define DT_MIPS_DELTA_INSTANCE_NO 0x7000001a /* Number of entries in
						DT_MIPS_DELTA_INSTANCE.  */
#define DT_MIPS_DELTA_RELOC  0x7000001b /* Delta relocations.  */
#define DT_MIPS_DELTA_RELOC_NO 0x7000001c /* Number of entries in
					     DT_MIPS_DELTA_RELOC.  */
#define DT_MIPS_DELTA_SYM    0x7000001d /* Delta symbols that Delta
					   relocations refer to.  */
#define DT_MIPS_DELTA_SYM_NO 0x7000001e /* Number of entries in
					   DT_MIPS_DELTA_SYM.  */
#define DT_MIPS_DELTA_CLASSSYM 0x70000020 /* Delta symbols that hold the
					     class declaration.  */
#define DT_MIPS_DELTA_CLASSSYM_NO 0x70000021 /* Number of entries in
						DT_MIPS_DELTA_CLASSSYM.  */
#define DT_MIPS_CXX_FLAGS    0x70000022 /* Flags indicating for C++ flavor.  */
#define DT_MIPS_PIXIE_INIT   0x70000023
#define DT_MIPS_SYMBOL_LIB   0x70000024
#define DT_MIPS_LOCALPAGE_GOTIDX 0x70000025
#define DT_MIPS_LOCAL_GOTIDX 0x70000026
#define DT_MIPS_HIDDEN_GOTIDX 0x70000027
#define DT_MIPS_PROTECTED_GOTIDX 0x70000028
#define DT_MIPS_OPTIONS	     0x70000029 /* Address of .options.  */
#define DT_MIPS_INTERFACE    0x7000002a /* Address of .interface.  */
#define DT_MIPS_DYNSTR_ALIGN 0x7000002b
#define DT_MIPS_INTERFACE_SIZE 0x7000002c /* Size of the .interface section. */
#define DT_MIPS_RLD_TEXT_RESOLVE_ADDR 0x7000002d /* Address of rld_text_rsolve
						    function stored in GOT.  */
#define DT_MIPS_PERF_SUFFIX  0x7000002e /* Default suffix of dso to be added
					   by rld on dlopen() calls.  */
#define DT_MIPS_COMPACT_SIZE 0x7000002f /* (O32)Size of compact rel section. */
#define DT_MIPS_GP_VALUE     0x70000030 /* GP value for aux GOTs.  */
#define DT_MIPS_AUX_DYNAMIC  0x70000031 /* Address of aux .dynamic.  */
/* The address of .got.plt in an executable using the new non-PIC ABI.  */
#define DT_MIPS_PLTGOT	     0x70000032
/* The base of the PLT in an executable using the new non-PIC ABI if that
   PLT is writable.  For a non-writable PLT, this is omitted or has a zero
   value.  */
#define DT_MIPS_RWPLT        0x70000034
/* An alternative description of the classic MIPS RLD_MAP that is usable
   in a PIE as it stores a relative offset from the address of the tag
   rather than an absolute address.  */
#define DT_MIPS_RLD_MAP_REL  0x70000035
/* GNU-style hash table with xlat.  */
#define DT_MIPS_XHASH	     0x70000036
#define DT_MIPS_NUM	     0x37

/* Legal values for DT_MIPS_FLAGS Elf32_Dyn entry.  */

#define RHF_NONE		   0		/* No flags */
#define RHF_QUICKSTART		   (1 << 0)	/* Use quickstart */
#define RHF_NOTPOT		   (1 << 1)	/* Hash size not power of 2 */
#define RHF_NO_LIBRARY_REPLACEMENT (1 << 2)	/* Ignore LD_LIBRARY_PATH */
#define RHF_NO_MOVE		   (1 << 3)
#define RHF_SGI_ONLY		   (1 << 4)
#define RHF_GUARANTEE_INIT	   (1 << 5)
#define RHF_DELTA_C_PLUS_PLUS	   (1 << 6)
#define RHF_GUARANTEE_START_INIT   (1 << 7)
#define RHF_PIXIE		   (1 << 8)
#define RHF_DEFAULT_DELAY_LOAD	   (1 << 9)
#define RHF_REQUICKSTART	   (1 << 10)
#define RHF_REQUICKSTARTED	   (1 << 11)
#define RHF_CORD		   (1 << 12)
#define RHF_NO_UNRES_UNDEF	   (1 << 13)
#define RHF_RLD_ORDER_SAFE	   (1 << 14)

/* Entries found in sections of type SHT_MIPS_LIBLIST.  */

typedef struct
{
  Elf32_Word l_name;		/* Name (string table index) */
  Elf32_Word l_time_stamp;	/* Timestamp */
  Elf32_Word l_checksum;	/* Checksum */
  Elf32_Word l_version;		/* Interface version */
  Elf32_Word l_flags;		/* Flags */
} Elf32_Lib;

typedef struct
{
  Elf64_Word l_name;		/* Name (string table index) */
  Elf64_Word l_time_stamp;	/* Timestamp */
  Elf64_Word l_checksum;	/* Checksum */
  Elf64_Word l_version;		/* Interface version */
  Elf64_Word l_flags;		/* Flags */
} Elf64_Lib;


/* Legal values for l_flags.  */

#define LL_NONE		  0
#define LL_EXACT_MATCH	  (1 << 0)	/* Require exact match */
#define LL_IGNORE_INT_VER (1 << 1)	/* Ignore interface version */
#define LL_REQUIRE_MINOR  (1 << 2)
#define LL_EXPORTS	  (1 << 3)
#define LL_DELAY_LOAD	  (1 << 4)
#define LL_DELTA	  (1 << 5)

/* Entries found in sections of type SHT_MIPS_CONFLICT.  */

typedef Elf32_Addr Elf32_Conflict;

typedef struct
{
  /* Version of flags structure.  */
  Elf32_Half version;
  /* The level of the ISA: 1-5, 32, 64.  */
  unsigned char isa_level;
  /* The revision of ISA: 0 for MIPS V and below, 1-n otherwise.  */
  unsigned char isa_rev;
  /* The size of general purpose registers.  */
  unsigned char gpr_size;
  /* The size of co-processor 1 registers.  */
  unsigned char cpr1_size;
  /* The size of co-processor 2 registers.  */
  unsigned char cpr2_size;
  /* The floating-point ABI.  */
  unsigned char fp_abi;
  /* Processor-specific extension.  */
  Elf32_Word isa_ext;
  /* Mask of ASEs used.  */
  Elf32_Word ases;
  /* Mask of general flags.  */
  Elf32_Word flags1;
  Elf32_Word flags2;
} Elf_MIPS_ABIFlags_v0;

/* Values for the register size bytes of an abi flags structure.  */

#define MIPS_AFL_REG_NONE	0x00	 /* No registers.  */
#define MIPS_AFL_REG_32		0x01	 /* 32-bit registers.  */
#define MIPS_AFL_REG_64		0x02	 /* 64-bit registers.  */
#define MIPS_AFL_REG_128	0x03	 /* 128-bit registers.  */

/* Masks for the ases word of an ABI flags structure.  */

#define MIPS_AFL_ASE_DSP	0x00000001 /* DSP ASE.  */
#define MIPS_AFL_ASE_DSPR2	0x00000002 /* DSP R2 ASE.  */
#define MIPS_AFL_ASE_EVA	0x00000004 /* Enhanced VA Scheme.  */
#define MIPS_AFL_ASE_MCU	0x00000008 /* MCU (MicroController) ASE.  */
#define MIPS_AFL_ASE_MDMX	0x00000010 /* MDMX ASE.  */
#define MIPS_AFL_ASE_MIPS3D	0x00000020 /* MIPS-3D ASE.  */
#define MIPS_AFL_ASE_MT		0x00000040 /* MT ASE.  */
#define MIPS_AFL_ASE_SMARTMIPS	0x00000080 /* SmartMIPS ASE.  */
#define MIPS_AFL_ASE_VIRT	0x00000100 /* VZ ASE.  */
#define MIPS_AFL_ASE_MSA	0x00000200 /* MSA ASE.  */
#define MIPS_AFL_ASE_MIPS16	0x00000400 /* MIPS16 ASE.  */
#define MIPS_AFL_ASE_MICROMIPS	0x00000800 /* MICROMIPS ASE.  */
#define MIPS_AFL_ASE_XPA	0x00001000 /* XPA ASE.  */
#define MIPS_AFL_ASE_MASK	0x00001fff /* All ASEs.  */

/* Values for the isa_ext word of an ABI flags structure.  */

#define MIPS_AFL_EXT_XLR	  1   /* RMI Xlr instruction.  */
#define MIPS_AFL_EXT_OCTEON2	  2   /* Cavium Networks Octeon2.  */
#define MIPS_AFL_EXT_OCTEONP	  3   /* Cavium Networks OcteonP.  */
#define MIPS_AFL_EXT_LOONGSON_3A  4   /* Loongson 3A.  */
#define MIPS_AFL_EXT_OCTEON	  5   /* Cavium Networks Octeon.  */
#define MIPS_AFL_EXT_5900	  6   /* MIPS R5900 instruction.  */
#define MIPS_AFL_EXT_4650	  7   /* MIPS R4650 instruction.  */
#define MIPS_AFL_EXT_4010	  8   /* LSI R4010 instruction.  */
#define MIPS_AFL_EXT_4100	  9   /* NEC VR4100 instruction.  */
#define MIPS_AFL_EXT_3900	  10  /* Toshiba R3900 instruction.  */
#define MIPS_AFL_EXT_10000	  11  /* MIPS R10000 instruction.  */
#define MIPS_AFL_EXT_SB1	  12  /* Broadcom SB-1 instruction.  */
#define MIPS_AFL_EXT_4111	  13  /* NEC VR4111/VR4181 instruction.  */
#define MIPS_AFL_EXT_4120	  14  /* NEC VR4120 instruction.  */
#define MIPS_AFL_EXT_5400	  15  /* NEC VR5400 instruction.  */
#define MIPS_AFL_EXT_5500	  16  /* NEC VR5500 instruction.  */
#define MIPS_AFL_EXT_LOONGSON_2E  17  /* ST Microelectronics Loongson 2E.  */
#define MIPS_AFL_EXT_LOONGSON_2F  18  /* ST Microelectronics Loongson 2F.  */

/* Masks for the flags1 word of an ABI flags structure.  */
#define MIPS_AFL_FLAGS1_ODDSPREG  1  /* Uses odd single-precision registers.  */

/* Object attribute values.  */
enum
{
  /* Not tagged or not using any ABIs affected by the differences.  */
  Val_GNU_MIPS_ABI_FP_ANY = 0,
  /* Using hard-float -mdouble-float.  */
  Val_GNU_MIPS_ABI_FP_DOUBLE = 1,
  /* Using hard-float -msingle-float.  */
  Val_GNU_MIPS_ABI_FP_SINGLE = 2,
  /* Using soft-float.  */
  Val_GNU_MIPS_ABI_FP_SOFT = 3,
  /* Using -mips32r2 -mfp64.  */
  Val_GNU_MIPS_ABI_FP_OLD_64 = 4,
  /* Using -mfpxx.  */
  Val_GNU_MIPS_ABI_FP_XX = 5,
  /* Using -mips32r2 -mfp64.  */
  Val_GNU_MIPS_ABI_FP_64 = 6,
  /* Using -mips32r2 -mfp64 -mno-odd-spreg.  */
  Val_GNU_MIPS_ABI_FP_64A = 7,
  /* Maximum allocated FP ABI value.  */
  Val_GNU_MIPS_ABI_FP_MAX = 7
};

/* HPPA specific definitions.  */

/* Legal values for e_flags field of Elf32_Ehdr.  */

#define EF_PARISC_TRAPNIL	0x00010000 /* Trap nil pointer dereference.  */
#define EF_PARISC_EXT		0x00020000 /* Program uses arch. extensions. */
#define EF_PARISC_LSB		0x00040000 /* Program expects little endian. */
#define EF_PARISC_WIDE		0x00080000 /* Program expects wide mode.  */
#define EF_PARISC_NO_KABP	0x00100000 /* No kernel assisted branch
					      prediction.  */
#define EF_PARISC_LAZYSWAP	0x00400000 /* Allow lazy swapping.  */
#define EF_PARISC_ARCH		0x0000ffff /* Architecture version.  */

/* Defined values for `e_flags & EF_PARISC_ARCH' are:  */

#define EFA_PARISC_1_0		    0x020b /* PA-RISC 1.0 big-endian.  */
#define EFA_PARISC_1_1		    0x0210 /* PA-RISC 1.1 big-endian.  */
#define EFA_PARISC_2_0		    0x0214 /* PA-RISC 2.0 big-endian.  */

/* Additional section indices.  */

#define SHN_PARISC_ANSI_COMMON	0xff00	   /* Section for tentatively declared
					      symbols in ANSI C.  */
#define SHN_PARISC_HUGE_COMMON	0xff01	   /* Common blocks in huge model.  */

/* Legal values for sh_type field of Elf32_Shdr.  */

#define SHT_PARISC_EXT		0x70000000 /* Contains product specific ext. */
#define SHT_PARISC_UNWIND	0x70000001 /* Unwind information.  */
#define SHT_PARISC_DOC		0x70000002 /* Debug info for optimized code. */

/* Legal values for sh_flags field of Elf32_Shdr.  */

#define SHF_PARISC_SHORT	0x20000000 /* Section with short addressing. */
#define SHF_PARISC_HUGE		0x40000000 /* Section far from gp.  */
#define SHF_PARISC_SBP		0x80000000 /* Static branch prediction code. */

/* Legal values for ST_TYPE subfield of st_info (symbol type).  */

#define STT_PARISC_MILLICODE	13	/* Millicode function entry point.  */

#define STT_HP_OPAQUE		(STT_LOOS + 0x1)
#define STT_HP_STUB		(STT_LOOS + 0x2)

/* HPPA relocs.  */

#define R_PARISC_NONE		0	/* No reloc.  */
#define R_PARISC_DIR32		1	/* Direct 32-bit reference.  */
#define R_PARISC_DIR21L		2	/* Left 21 bits of eff. address.  */
#define R_PARISC_DIR17R		3	/* Right 17 bits of eff. address.  */
#define R_PARISC_DIR17F		4	/* 17 bits of eff. address.  */
#define R_PARISC_DIR14R		6	/* Right 14 bits of eff. address.  */
#define R_PARISC_PCREL32	9	/* 32-bit rel. address.  */
#define R_PARISC_PCREL21L	10	/* Left 21 bits of rel. address.  */
#define R_PARISC_PCREL17R	11	/* Right 17 bits of rel. address.  */
#define R_PARISC_PCREL17F	12	/* 17 bits of rel. address.  */
#define R_PARISC_PCREL14R	14	/* Right 14 bits of rel. address.  */
#define R_PARISC_DPREL21L	18	/* Left 21 bits of rel. address.  */
#define R_PARISC_DPREL14R	22	/* Right 14 bits of rel. address.  */
#define R_PARISC_GPREL21L	26	/* GP-relative, left 21 bits.  */
#define R_PARISC_GPREL14R	30	/* GP-relative, right 14 bits.  */
#define R_PARISC_LTOFF21L	34	/* LT-relative, left 21 bits.  */
#define R_PARISC_LTOFF14R	38	/* LT-relative, right 14 bits.  */
#define R_PARISC_SECREL32	41	/* 32 bits section rel. address.  */
#define R_PARISC_SEGBASE	48	/* No relocation, set segment base.  */
#define R_PARISC_SEGREL32	49	/* 32 bits segment rel. address.  */
#define R_PARISC_PLTOFF21L	50	/* PLT rel. address, left 21 bits.  */
#define R_PARISC_PLTOFF14R	54	/* PLT rel. address, right 14 bits.  */
#define R_PARISC_LTOFF_FPTR32	57	/* 32 bits LT-rel. function pointer. */
#define R_PARISC_LTOFF_FPTR21L	58	/* LT-rel. fct ptr, left 21 bits. */
#define R_PARISC_LTOFF_FPTR14R	62	/* LT-rel. fct ptr, right 14 bits. */
#define R_PARISC_FPTR64		64	/* 64 bits function address.  */
#define R_PARISC_PLABEL32	65	/* 32 bits function address.  */
#define R_PARISC_PLABEL21L	66	/* Left 21 bits of fdesc address.  */
#define R_PARISC_PLABEL14R	70	/* Right 14 bits of fdesc address.  */
#define R_PARISC_PCREL64	72	/* 64 bits PC-rel. address.  */
#define R_PARISC_PCREL22F	74	/* 22 bits PC-rel. address.  */
#define R_PARISC_PCREL14WR	75	/* PC-rel. address, right 14 bits.  */
#define R_PARISC_PCREL14DR	76	/* PC rel. address, right 14 bits.  */
#define R_PARISC_PCREL16F	77	/* 16 bits PC-rel. address.  */
#define R_PARISC_PCREL16WF	78	/* 16 bits PC-rel. address.  */
#define R_PARISC_PCREL16DF	79	/* 16 bits PC-rel. address.  */
#define R_PARISC_DIR64		80	/* 64 bits of eff. address.  */
#define R_PARISC_DIR14WR	83	/* 14 bits of eff. address.  */
#define R_PARISC_DIR14DR	84	/* 14 bits of eff. address.  */
#define R_PARISC_DIR16F		85	/* 16 bits of eff. address.  */
#define R_PARISC_DIR16WF	86	/* 16 bits of eff. address.  */
#define R_PARISC_DIR16DF	87	/* 16 bits of eff. address.  */
#define R_PARISC_GPREL64	88	/* 64 bits of GP-rel. address.  */
#define R_PARISC_GPREL14WR	91	/* GP-rel. address, right 14 bits.  */
#define R_PARISC_GPREL14DR	92	/* GP-rel. address, right 14 bits.  */
#define R_PARISC_GPREL16F	93	/* 16 bits GP-rel. address.  */
#define R_PARISC_GPREL16WF	94	/* 16 bits GP-rel. address.  */
#define R_PARISC_GPREL16DF	95	/* 16 bits GP-rel. address.  */
#define R_PARISC_LTOFF64	96	/* 64 bits LT-rel. address.  */
#define R_PARISC_LTOFF14WR	99	/* LT-rel. address, right 14 bits.  */
#define R_PARISC_LTOFF14DR	100	/* LT-rel. address, right 14 bits.  */
#define R_PARISC_LTOFF16F	101	/* 16 bits LT-rel. address.  */
#define R_PARISC_LTOFF16WF	102	/* 16 bits LT-rel. address.  */
#define R_PARISC_LTOFF16DF	103	/* 16 bits LT-rel. address.  */
#define R_PARISC_SECREL64	104	/* 64 bits section rel. address.  */
#define R_PARISC_SEGREL64	112	/* 64 bits segment rel. address.  */
#define R_PARISC_PLTOFF14WR	115	/* PLT-rel. address, right 14 bits.  */
#define R_PARISC_PLTOFF14DR	116	/* PLT-rel. address, right 14 bits.  */
#define R_PARISC_PLTOFF16F	117	/* 16 bits LT-rel. address.  */
#define R_PARISC_PLTOFF16WF	118	/* 16 bits PLT-rel. address.  */
#define R_PARISC_PLTOFF16DF	119	/* 16 bits PLT-rel. address.  */
#define R_PARISC_LTOFF_FPTR64	120	/* 64 bits LT-rel. function ptr.  */
#define R_PARISC_LTOFF_FPTR14WR	123	/* LT-rel. fct. ptr., right 14 bits. */
#define R_PARISC_LTOFF_FPTR14DR	124	/* LT-rel. fct. ptr., right 14 bits. */
#define R_PARISC_LTOFF_FPTR16F	125	/* 16 bits LT-rel. function ptr.  */
#define R_PARISC_LTOFF_FPTR16WF	126	/* 16 bits LT-rel. function ptr.  */
#define R_PARISC_LTOFF_FPTR16DF	127	/* 16 bits LT-rel. function ptr.  */
#define R_PARISC_LORESERVE	128
#define R_PARISC_COPY		128	/* Copy relocation.  */
#define R_PARISC_IPLT		129	/* Dynamic reloc, imported PLT */
#define R_PARISC_EPLT		130	/* Dynamic reloc, exported PLT */
#define R_PARISC_TPREL32	153	/* 32 bits TP-rel. address.  */
#define R_PARISC_TPREL21L	154	/* TP-rel. address, left 21 bits.  */
#define R_PARISC_TPREL14R	158	/* TP-rel. address, right 14 bits.  */
#define R_PARISC_LTOFF_TP21L	162	/* LT-TP-rel. address, left 21 bits. */
#define R_PARISC_LTOFF_TP14R	166	/* LT-TP-rel. address, right 14 bits.*/
#define R_PARISC_LTOFF_TP14F	167	/* 14 bits LT-TP-rel. address.  */
#define R_PARISC_TPREL64	216	/* 64 bits TP-rel. address.  */
#define R_PARISC_TPREL14WR	219	/* TP-rel. address, right 14 bits.  */
#define R_PARISC_TPREL14DR	220	/* TP-rel. address, right 14 bits.  */
#define R_PARISC_TPREL16F	221	/* 16 bits TP-rel. address.  */
#define R_PARISC_TPREL16WF	222	/* 16 bits TP-rel. address.  */
#define R_PARISC_TPREL16DF	223	/* 16 bits TP-rel. address.  */
#define R_PARISC_LTOFF_TP64	224	/* 64 bits LT-TP-rel. address.  */
#define R_PARISC_LTOFF_TP14WR	227	/* LT-TP-rel. address, right 14 bits.*/
#define R_PARISC_LTOFF_TP14DR	228	/* LT-TP-rel. address, right 14 bits.*/
#define R_PARISC_LTOFF_TP16F	229	/* 16 bits LT-TP-rel. address.  */
#define R_PARISC_LTOFF_TP16WF	230	/* 16 bits LT-TP-rel. address.  */
#define R_PARISC_LTOFF_TP16DF	231	/* 16 bits LT-TP-rel. address.  */
#define R_PARISC_GNU_VTENTRY	232
#define R_PARISC_GNU_VTINHERIT	233
#define R_PARISC_TLS_GD21L	234	/* GD 21-bit left.  */
#define R_PARISC_TLS_GD14R	235	/* GD 14-bit right.  */
#define R_PARISC_TLS_GDCALL	236	/* GD call to __t_g_a.  */
#define R_PARISC_TLS_LDM21L	237	/* LD module 21-bit left.  */
#define R_PARISC_TLS_LDM14R	238	/* LD module 14-bit right.  */
#define R_PARISC_TLS_LDMCALL	239	/* LD module call to __t_g_a.  */
#define R_PARISC_TLS_LDO21L	240	/* LD offset 21-bit left.  */
#define R_PARISC_TLS_LDO14R	241	/* LD offset 14-bit right.  */
#define R_PARISC_TLS_DTPMOD32	242	/* DTP module 32-bit.  */
#define R_PARISC_TLS_DTPMOD64	243	/* DTP module 64-bit.  */
#define R_PARISC_TLS_DTPOFF32	244	/* DTP offset 32-bit.  */
#define R_PARISC_TLS_DTPOFF64	245	/* DTP offset 32-bit.  */
#define R_PARISC_TLS_LE21L	R_PARISC_TPREL21L
#define R_PARISC_TLS_LE14R	R_PARISC_TPREL14R
#define R_PARISC_TLS_IE21L	R_PARISC_LTOFF_TP21L
#define R_PARISC_TLS_IE14R	R_PARISC_LTOFF_TP14R
#define R_PARISC_TLS_TPREL32	R_PARISC_TPREL32
#define R_PARISC_TLS_TPREL64	R_PARISC_TPREL64
#define R_PARISC_HIRESERVE	255

/* Legal values for p_type field of Elf32_Phdr/Elf64_Phdr.  */

#define PT_HP_TLS		(PT_LOOS + 0x0)
#define PT_HP_CORE_NONE		(PT_LOOS + 0x1)
#define PT_HP_CORE_VERSION	(PT_LOOS + 0x2)
#define PT_HP_CORE_KERNEL	(PT_LOOS + 0x3)
#define PT_HP_CORE_COMM		(PT_LOOS + 0x4)
#define PT_HP_CORE_PROC		(PT_LOOS + 0x5)
#define PT_HP_CORE_LOADABLE	(PT_LOOS + 0x6)
#define PT_HP_CORE_STACK	(PT_LOOS + 0x7)
#define PT_HP_CORE_SHM		(PT_LOOS + 0x8)
#define PT_HP_CORE_MMF		(PT_LOOS + 0x9)
#define PT_HP_PARALLEL		(PT_LOOS + 0x10)
#define PT_HP_FASTBIND		(PT_LOOS + 0x11)
#define PT_HP_OPT_ANNOT		(PT_LOOS + 0x12)
#define PT_HP_HSL_ANNOT		(PT_LOOS + 0x13)
#define PT_HP_STACK		(PT_LOOS + 0x14)

#define PT_PARISC_ARCHEXT	0x70000000
#define PT_PARISC_UNWIND	0x70000001

/* Legal values for p_flags field of Elf32_Phdr/Elf64_Phdr.  */

#define PF_PARISC_SBP		0x08000000

#define PF_HP_PAGE_SIZE		0x00100000
#define PF_HP_FAR_SHARED	0x00200000
#define PF_HP_NEAR_SHARED	0x00400000
#define PF_HP_CODE		0x01000000
#define PF_HP_MODIFY		0x02000000
#define PF_HP_LAZYSWAP		0x04000000
#define PF_HP_SBP		0x08000000


/* Alpha specific definitions.  */

/* Legal values for e_flags field of Elf64_Ehdr.  */

#define EF_ALPHA_32BIT		1	/* All addresses must be < 2GB.  */
#define EF_ALPHA_CANRELAX	2	/* Relocations for relaxing exist.  */

/* Legal values for sh_type field of Elf64_Shdr.  */

/* These two are primerily concerned with ECOFF debugging info.  */
#define SHT_ALPHA_DEBUG		0x70000001
#define SHT_ALPHA_REGINFO	0x70000002

/* Legal values for sh_flags field of Elf64_Shdr.  */

#define SHF_ALPHA_GPREL		0x10000000

/* Legal values for st_other field of Elf64_Sym.  */
#define STO_ALPHA_NOPV		0x80	/* No PV required.  */
#define STO_ALPHA_STD_GPLOAD	0x88	/* PV only used for initial ldgp.  */

/* Alpha relocs.  */

#define R_ALPHA_NONE		0	/* No reloc */
#define R_ALPHA_REFLONG		1	/* Direct 32 bit */
#define R_ALPHA_REFQUAD		2	/* Direct 64 bit */
#define R_ALPHA_GPREL32		3	/* GP relative 32 bit */
#define R_ALPHA_LITERAL		4	/* GP relative 16 bit w/optimization */
#define R_ALPHA_LITUSE		5	/* Optimization hint for LITERAL */
#define R_ALPHA_GPDISP		6	/* Add displacement to GP */
#define R_ALPHA_BRADDR		7	/* PC+4 relative 23 bit shifted */
#define R_ALPHA_HINT		8	/* PC+4 relative 16 bit shifted */
#define R_ALPHA_SREL16		9	/* PC relative 16 bit */
#define R_ALPHA_SREL32		10	/* PC relative 32 bit */
#define R_ALPHA_SREL64		11	/* PC relative 64 bit */
#define R_ALPHA_GPRELHIGH	17	/* GP relative 32 bit, high 16 bits */
#define R_ALPHA_GPRELLOW	18	/* GP relative 32 bit, low 16 bits */
#define R_ALPHA_GPREL16		19	/* GP relative 16 bit */
#define R_ALPHA_COPY		24	/* Copy symbol at runtime */
#define R_ALPHA_GLOB_DAT	25	/* Create GOT entry */
#define R_ALPHA_JMP_SLOT	26	/* Create PLT entry */
#define R_ALPHA_RELATIVE	27	/* Adjust by program base */
#define R_ALPHA_TLS_GD_HI	28
#define R_ALPHA_TLSGD		29
#define R_ALPHA_TLS_LDM		30
#define R_ALPHA_DTPMOD64	31
#define R_ALPHA_GOTDTPREL	32
#define R_ALPHA_DTPREL64	33
#define R_ALPHA_DTPRELHI	34
#define R_ALPHA_DTPRELLO	35
#define R_ALPHA_DTPREL16	36
#define R_ALPHA_GOTTPREL	37
#define R_ALPHA_TPREL64		38
#define R_ALPHA_TPRELHI		39
#define R_ALPHA_TPRELLO		40
#define R_ALPHA_TPREL16		41
/* Keep this the last entry.  */
#define R_ALPHA_NUM		46

/* Magic values of the LITUSE relocation addend.  */
#define LITUSE_ALPHA_ADDR	0
#define LITUSE_ALPHA_BASE	1
#define LITUSE_ALPHA_BYTOFF	2
#define LITUSE_ALPHA_JSR	3
#define LITUSE_ALPHA_TLS_GD	4
#define LITUSE_ALPHA_TLS_LDM	5

/* Legal values for d_tag of Elf64_Dyn.  */
#define DT_ALPHA_PLTRO		(DT_LOPROC + 0)
#define DT_ALPHA_NUM		1

/* PowerPC specific declarations */

/* Values for Elf32/64_Ehdr.e_flags.  */
#define EF_PPC_EMB		0x80000000	/* PowerPC embedded flag */

/* Cygnus local bits below */
#define EF_PPC_RELOCATABLE	0x00010000	/* PowerPC -mrelocatable flag*/
#define EF_PPC_RELOCATABLE_LIB	0x00008000	/* PowerPC -mrelocatable-lib
						   flag */

/* PowerPC relocations defined by the ABIs */
#define R_PPC_NONE		0
#define R_PPC_ADDR32		1	/* 32bit absolute address */
#define R_PPC_ADDR24		2	/* 26bit address, 2 bits ignored.  */
#define R_PPC_ADDR16		3	/* 16bit absolute address */
#define R_PPC_ADDR16_LO		4	/* lower 16bit of absolute address */
#define R_PPC_ADDR16_HI		5	/* high 16bit of absolute address */
#define R_PPC_ADDR16_HA		6	/* adjusted high 16bit */
#define R_PPC_ADDR14		7	/* 16bit address, 2 bits ignored */
#define R_PPC_ADDR14_BRTAKEN	8
#define R_PPC_ADDR14_BRNTAKEN	9
#define R_PPC_REL24		10	/* PC relative 26 bit */
#define R_PPC_REL14		11	/* PC relative 16 bit */
#define R_PPC_REL14_BRTAKEN	12
#define R_PPC_REL14_BRNTAKEN	13
#define R_PPC_GOT16		14
#define R_PPC_GOT16_LO		15
#define R_PPC_GOT16_HI		16
#define R_PPC_GOT16_HA		17
#define R_PPC_PLTREL24		18
#define R_PPC_COPY		19
#define R_PPC_GLOB_DAT		20
#define R_PPC_JMP_SLOT		21
#define R_PPC_RELATIVE		22
#define R_PPC_LOCAL24PC		23
#define R_PPC_UADDR32		24
#define R_PPC_UADDR16		25
#define R_PPC_REL32		26
#define R_PPC_PLT32		27
#define R_PPC_PLTREL32		28
#define R_PPC_PLT16_LO		29
#define R_PPC_PLT16_HI		30
#define R_PPC_PLT16_HA		31
#define R_PPC_SDAREL16		32
#define R_PPC_SECTOFF		33
#define R_PPC_SECTOFF_LO	34
#define R_PPC_SECTOFF_HI	35
#define R_PPC_SECTOFF_HA	36

/* PowerPC relocations defined for the TLS access ABI.  */
#define R_PPC_TLS		67 /* none	(sym+add)@tls */
#define R_PPC_DTPMOD32		68 /* word32	(sym+add)@dtpmod */
#define R_PPC_TPREL16		69 /* half16*	(sym+add)@tprel */
#define R_PPC_TPREL16_LO	70 /* half16	(sym+add)@tprel@l */
#define R_PPC_TPREL16_HI	71 /* half16	(sym+add)@tprel@h */
#define R_PPC_TPREL16_HA	72 /* half16	(sym+add)@tprel@ha */
#define R_PPC_TPREL32		73 /* word32	(sym+add)@tprel */
#define R_PPC_DTPREL16		74 /* half16*	(sym+add)@dtprel */
#define R_PPC_DTPREL16_LO	75 /* half16	(sym+add)@dtprel@l */
#define R_PPC_DTPREL16_HI	76 /* half16	(sym+add)@dtprel@h */
#define R_PPC_DTPREL16_HA	77 /* half16	(sym+add)@dtprel@ha */
#define R_PPC_DTPREL32		78 /* word32	(sym+add)@dtprel */
#define R_PPC_GOT_TLSGD16	79 /* half16*	(sym+add)@got@tlsgd */
#define R_PPC_GOT_TLSGD16_LO	80 /* half16	(sym+add)@got@tlsgd@l */
#define R_PPC_GOT_TLSGD16_HI	81 /* half16	(sym+add)@got@tlsgd@h */
#define R_PPC_GOT_TLSGD16_HA	82 /* half16	(sym+add)@got@tlsgd@ha */
#define R_PPC_GOT_TLSLD16	83 /* half16*	(sym+add)@got@tlsld */
#define R_PPC_GOT_TLSLD16_LO	84 /* half16	(sym+add)@got@tlsld@l */
#define R_PPC_GOT_TLSLD16_HI	85 /* half16	(sym+add)@got@tlsld@h */
#define R_PPC_GOT_TLSLD16_HA	86 /* half16	(sym+add)@got@tlsld@ha */
#define R_PPC_GOT_TPREL16	87 /* half16*	(sym+add)@got@tprel */
#define R_PPC_GOT_TPREL16_LO	88 /* half16	(sym+add)@got@tprel@l */
#define R_PPC_GOT_TPREL16_HI	89 /* half16	(sym+add)@got@tprel@h */
#define R_PPC_GOT_TPREL16_HA	90 /* half16	(sym+add)@got@tprel@ha */
#define R_PPC_GOT_DTPREL16	91 /* half16*	(sym+add)@got@dtprel */
#define R_PPC_GOT_DTPREL16_LO	92 /* half16*	(sym+add)@got@dtprel@l */
#define R_PPC_GOT_DTPREL16_HI	93 /* half16*	(sym+add)@got@dtprel@h */
#define R_PPC_GOT_DTPREL16_HA	94 /* half16*	(sym+add)@got@dtprel@ha */
#define R_PPC_TLSGD		95 /* none	(sym+add)@tlsgd */
#define R_PPC_TLSLD		96 /* none	(sym+add)@tlsld */

/* The remaining relocs are from the Embedded ELF ABI, and are not
   in the SVR4 ELF ABI.  */
#define R_PPC_EMB_NADDR32	101
#define R_PPC_EMB_NADDR16	102
#define R_PPC_EMB_NADDR16_LO	103
#define R_PPC_EMB_NADDR16_HI	104
#define R_PPC_EMB_NADDR16_HA	105
#define R_PPC_EMB_SDAI16	106
#define R_PPC_EMB_SDA2I16	107
#define R_PPC_EMB_SDA2REL	108
#define R_PPC_EMB_SDA21		109	/* 16 bit offset in SDA */
#define R_PPC_EMB_MRKREF	110
#define R_PPC_EMB_RELSEC16	111
#define R_PPC_EMB_RELST_LO	112
#define R_PPC_EMB_RELST_HI	113
#define R_PPC_EMB_RELST_HA	114
#define R_PPC_EMB_BIT_FLD	115
#define R_PPC_EMB_RELSDA	116	/* 16 bit relative offset in SDA */

/* Diab tool relocations.  */
#define R_PPC_DIAB_SDA21_LO	180	/* like EMB_SDA21, but lower 16 bit */
#define R_PPC_DIAB_SDA21_HI	181	/* like EMB_SDA21, but high 16 bit */
#define R_PPC_DIAB_SDA21_HA	182	/* like EMB_SDA21, adjusted high 16 */
#define R_PPC_DIAB_RELSDA_LO	183	/* like EMB_RELSDA, but lower 16 bit */
#define R_PPC_DIAB_RELSDA_HI	184	/* like EMB_RELSDA, but high 16 bit */
#define R_PPC_DIAB_RELSDA_HA	185	/* like EMB_RELSDA, adjusted high 16 */

/* GNU extension to support local ifunc.  */
#define R_PPC_IRELATIVE		248

/* GNU relocs used in PIC code sequences.  */
#define R_PPC_REL16		249	/* half16   (sym+add-.) */
#define R_PPC_REL16_LO		250	/* half16   (sym+add-.)@l */
#define R_PPC_REL16_HI		251	/* half16   (sym+add-.)@h */
#define R_PPC_REL16_HA		252	/* half16   (sym+add-.)@ha */

/* This is a phony reloc to handle any old fashioned TOC16 references
   that may still be in object files.  */
#define R_PPC_TOC16		255

/* PowerPC specific values for the Dyn d_tag field.  */
#define DT_PPC_GOT		(DT_LOPROC + 0)
#define DT_PPC_OPT		(DT_LOPROC + 1)
#define DT_PPC_NUM		2

/* PowerPC specific values for the DT_PPC_OPT Dyn entry.  */
#define PPC_OPT_TLS		1

/* PowerPC64 relocations defined by the ABIs */
#define R_PPC64_NONE		R_PPC_NONE
#define R_PPC64_ADDR32		R_PPC_ADDR32 /* 32bit absolute address */
#define R_PPC64_ADDR24		R_PPC_ADDR24 /* 26bit address, word aligned */
#define R_PPC64_ADDR16		R_PPC_ADDR16 /* 16bit absolute address */
#define R_PPC64_ADDR16_LO	R_PPC_ADDR16_LO	/* lower 16bits of address */
#define R_PPC64_ADDR16_HI	R_PPC_ADDR16_HI	/* high 16bits of address. */
#define R_PPC64_ADDR16_HA	R_PPC_ADDR16_HA /* adjusted high 16bits.  */
#define R_PPC64_ADDR14		R_PPC_ADDR14 /* 16bit address, word aligned */
#define R_PPC64_ADDR14_BRTAKEN	R_PPC_ADDR14_BRTAKEN
#define R_PPC64_ADDR14_BRNTAKEN	R_PPC_ADDR14_BRNTAKEN
#define R_PPC64_REL24		R_PPC_REL24 /* PC-rel. 26 bit, word aligned */
#define R_PPC64_REL14		R_PPC_REL14 /* PC relative 16 bit */
#define R_PPC64_REL14_BRTAKEN	R_PPC_REL14_BRTAKEN
#define R_PPC64_REL14_BRNTAKEN	R_PPC_REL14_BRNTAKEN
#define R_PPC64_GOT16		R_PPC_GOT16
#define R_PPC64_GOT16_LO	R_PPC_GOT16_LO
#define R_PPC64_GOT16_HI	R_PPC_GOT16_HI
#define R_PPC64_GOT16_HA	R_PPC_GOT16_HA

#define R_PPC64_COPY		R_PPC_COPY
#define R_PPC64_GLOB_DAT	R_PPC_GLOB_DAT
#define R_PPC64_JMP_SLOT	R_PPC_JMP_SLOT
#define R_PPC64_RELATIVE	R_PPC_RELATIVE

#define R_PPC64_UADDR32		R_PPC_UADDR32
#define R_PPC64_UADDR16		R_PPC_UADDR16
#define R_PPC64_REL32		R_PPC_REL32
#define R_PPC64_PLT32		R_PPC_PLT32
#define R_PPC64_PLTREL32	R_PPC_PLTREL32
#define R_PPC64_PLT16_LO	R_PPC_PLT16_LO
#define R_PPC64_PLT16_HI	R_PPC_PLT16_HI
#define R_PPC64_PLT16_HA	R_PPC_PLT16_HA

#define R_PPC64_SECTOFF		R_PPC_SECTOFF
#define R_PPC64_SECTOFF_LO	R_PPC_SECTOFF_LO
#define R_PPC64_SECTOFF_HI	R_PPC_SECTOFF_HI
#define R_PPC64_SECTOFF_HA	R_PPC_SECTOFF_HA
#define R_PPC64_ADDR30		37 /* word30 (S + A - P) >> 2 */
#define R_PPC64_ADDR64		38 /* doubleword64 S + A */
#define R_PPC64_ADDR16_HIGHER	39 /* half16 #higher(S + A) */
#define R_PPC64_ADDR16_HIGHERA	40 /* half16 #highera(S + A) */
#define R_PPC64_ADDR16_HIGHEST	41 /* half16 #highest(S + A) */
#define R_PPC64_ADDR16_HIGHESTA	42 /* half16 #highesta(S + A) */
#define R_PPC64_UADDR64		43 /* doubleword64 S + A */
#define R_PPC64_REL64		44 /* doubleword64 S + A - P */
#define R_PPC64_PLT64		45 /* doubleword64 L + A */
#define R_PPC64_PLTREL64	46 /* doubleword64 L + A - P */
#define R_PPC64_TOC16		47 /* half16* S + A - .TOC */
#define R_PPC64_TOC16_LO	48 /* half16 #lo(S + A - .TOC.) */
#define R_PPC64_TOC16_HI	49 /* half16 #hi(S + A - .TOC.) */
#define R_PPC64_TOC16_HA	50 /* half16 #ha(S + A - .TOC.) */
#define R_PPC64_TOC		51 /* doubleword64 .TOC */
#define R_PPC64_PLTGOT16	52 /* half16* M + A */
#define R_PPC64_PLTGOT16_LO	53 /* half16 #lo(M + A) */
#define R_PPC64_PLTGOT16_HI	54 /* half16 #hi(M + A) */
#define R_PPC64_PLTGOT16_HA	55 /* half16 #ha(M + A) */

#define R_PPC64_ADDR16_DS	56 /* half16ds* (S + A) >> 2 */
#define R_PPC64_ADDR16_LO_DS	57 /* half16ds  #lo(S + A) >> 2 */
#define R_PPC64_GOT16_DS	58 /* half16ds* (G + A) >> 2 */
#define R_PPC64_GOT16_LO_DS	59 /* half16ds  #lo(G + A) >> 2 */
#define R_PPC64_PLT16_LO_DS	60 /* half16ds  #lo(L + A) >> 2 */
#define R_PPC64_SECTOFF_DS	61 /* half16ds* (R + A) >> 2 */
#define R_PPC64_SECTOFF_LO_DS	62 /* half16ds  #lo(R + A) >> 2 */
#define R_PPC64_TOC16_DS	63 /* half16ds* (S + A - .TOC.) >> 2 */
#define R_PPC64_TOC16_LO_DS	64 /* half16ds  #lo(S + A - .TOC.) >> 2 */
#define R_PPC64_PLTGOT16_DS	65 /* half16ds* (M + A) >> 2 */
#define R_PPC64_PLTGOT16_LO_DS	66 /* half16ds  #lo(M + A) >> 2 */

/* PowerPC64 relocations defined for the TLS access ABI.  */
#define R_PPC64_TLS		67 /* none	(sym+add)@tls */
#define R_PPC64_DTPMOD64	68 /* doubleword64 (sym+add)@dtpmod */
#define R_PPC64_TPREL16		69 /* half16*	(sym+add)@tprel */
#define R_PPC64_TPREL16_LO	70 /* half16	(sym+add)@tprel@l */
#define R_PPC64_TPREL16_HI	71 /* half16	(sym+add)@tprel@h */
#define R_PPC64_TPREL16_HA	72 /* half16	(sym+add)@tprel@ha */
#define R_PPC64_TPREL64		73 /* doubleword64 (sym+add)@tprel */
#define R_PPC64_DTPREL16	74 /* half16*	(sym+add)@dtprel */
#define R_PPC64_DTPREL16_LO	75 /* half16	(sym+add)@dtprel@l */
#define R_PPC64_DTPREL16_HI	76 /* half16	(sym+add)@dtprel@h */
#define R_PPC64_DTPREL16_HA	77 /* half16	(sym+add)@dtprel@ha */
#define R_PPC64_DTPREL64	78 /* doubleword64 (sym+add)@dtprel */
#define R_PPC64_GOT_TLSGD16	79 /* half16*	(sym+add)@got@tlsgd */
#define R_PPC64_GOT_TLSGD16_LO	80 /* half16	(sym+add)@got@tlsgd@l */
#define R_PPC64_GOT_TLSGD16_HI	81 /* half16	(sym+add)@got@tlsgd@h */
#define R_PPC64_GOT_TLSGD16_HA	82 /* half16	(sym+add)@got@tlsgd@ha */
#define R_PPC64_GOT_TLSLD16	83 /* half16*	(sym+add)@got@tlsld */
#define R_PPC64_GOT_TLSLD16_LO	84 /* half16	(sym+add)@got@tlsld@l */
#define R_PPC64_GOT_TLSLD16_HI	85 /* half16	(sym+add)@got@tlsld@h */
#define R_PPC64_GOT_TLSLD16_HA	86 /* half16	(sym+add)@got@tlsld@ha */
#define R_PPC64_GOT_TPREL16_DS	87 /* half16ds*	(sym+add)@got@tprel */
#define R_PPC64_GOT_TPREL16_LO_DS 88 /* half16ds (sym+add)@got@tprel@l */
#define R_PPC64_GOT_TPREL16_HI	89 /* half16	(sym+add)@got@tprel@h */
#define R_PPC64_GOT_TPREL16_HA	90 /* half16	(sym+add)@got@tprel@ha */
#define R_PPC64_GOT_DTPREL16_DS	91 /* half16ds*	(sym+add)@got@dtprel */
#define R_PPC64_GOT_DTPREL16_LO_DS 92 /* half16ds (sym+add)@got@dtprel@l */
#define R_PPC64_GOT_DTPREL16_HI	93 /* half16	(sym+add)@got@dtprel@h */
#define R_PPC64_GOT_DTPREL16_HA	94 /* half16	(sym+add)@got@dtprel@ha */
#define R_PPC64_TPREL16_DS	95 /* half16ds*	(sym+add)@tprel */
#define R_PPC64_TPREL16_LO_DS	96 /* half16ds	(sym+add)@tprel@l */
#define R_PPC64_TPREL16_HIGHER	97 /* half16	(sym+add)@tprel@higher */
#define R_PPC64_TPREL16_HIGHERA	98 /* half16	(sym+add)@tprel@highera */
#define R_PPC64_TPREL16_HIGHEST	99 /* half16	(sym+add)@tprel@highest */
#define R_PPC64_TPREL16_HIGHESTA 100 /* half16	(sym+add)@tprel@highesta */
#define R_PPC64_DTPREL16_DS	101 /* half16ds* (sym+add)@dtprel */
#define R_PPC64_DTPREL16_LO_DS	102 /* half16ds	(sym+add)@dtprel@l */
#define R_PPC64_DTPREL16_HIGHER	103 /* half16	(sym+add)@dtprel@higher */
#define R_PPC64_DTPREL16_HIGHERA 104 /* half16	(sym+add)@dtprel@highera */
#define R_PPC64_DTPREL16_HIGHEST 105 /* half16	(sym+add)@dtprel@highest */
#define R_PPC64_DTPREL16_HIGHESTA 106 /* half16	(sym+add)@dtprel@highesta */
#define R_PPC64_TLSGD		107 /* none	(sym+add)@tlsgd */
#define R_PPC64_TLSLD		108 /* none	(sym+add)@tlsld */
#define R_PPC64_TOCSAVE		109 /* none */

/* Added when HA and HI relocs were changed to report overflows.  */
#define R_PPC64_ADDR16_HIGH	110
#define R_PPC64_ADDR16_HIGHA	111
#define R_PPC64_TPREL16_HIGH	112
#define R_PPC64_TPREL16_HIGHA	113
#define R_PPC64_DTPREL16_HIGH	114
#define R_PPC64_DTPREL16_HIGHA	115

/* GNU extension to support local ifunc.  */
#define R_PPC64_JMP_IREL	247
#define R_PPC64_IRELATIVE	248
#define R_PPC64_REL16		249	/* half16   (sym+add-.) */
#define R_PPC64_REL16_LO	250	/* half16   (sym+add-.)@l */
#define R_PPC64_REL16_HI	251	/* half16   (sym+add-.)@h */
#define R_PPC64_REL16_HA	252	/* half16   (sym+add-.)@ha */

/* e_flags bits specifying ABI.
   1 for original function descriptor using ABI,
   2 for revised ABI without function descriptors,
   0 for unspecified or not using any features affected by the differences.  */
#define EF_PPC64_ABI	3

/* PowerPC64 specific values for the Dyn d_tag field.  */
#define DT_PPC64_GLINK  (DT_LOPROC + 0)
#define DT_PPC64_OPD	(DT_LOPROC + 1)
#define DT_PPC64_OPDSZ	(DT_LOPROC + 2)
#define DT_PPC64_OPT	(DT_LOPROC + 3)
#define DT_PPC64_NUM    4

/* PowerPC64 specific bits in the DT_PPC64_OPT Dyn entry.  */
#define PPC64_OPT_TLS		1
#define PPC64_OPT_MULTI_TOC	2
#define PPC64_OPT_LOCALENTRY	4

/* PowerPC64 specific values for the Elf64_Sym st_other field.  */
#define STO_PPC64_LOCAL_BIT	5
#define STO_PPC64_LOCAL_MASK	(7 << STO_PPC64_LOCAL_BIT)
#define PPC64_LOCAL_ENTRY_OFFSET(other)				\
 (((1 << (((other) & STO_PPC64_LOCAL_MASK) >> STO_PPC64_LOCAL_BIT)) >> 2) << 2)


/* ARM specific declarations */

/* Processor specific flags for the ELF header e_flags field.  */
#define EF_ARM_RELEXEC		0x01
#define EF_ARM_HASENTRY		0x02
#define EF_ARM_INTERWORK	0x04
#define EF_ARM_APCS_26		0x08
#define EF_ARM_APCS_FLOAT	0x10
#define EF_ARM_PIC		0x20
#define EF_ARM_ALIGN8		0x40 /* 8-bit structure alignment is in use */
#define EF_ARM_NEW_ABI		0x80
#define EF_ARM_OLD_ABI		0x100
#define EF_ARM_SOFT_FLOAT	0x200
#define EF_ARM_VFP_FLOAT	0x400
#define EF_ARM_MAVERICK_FLOAT	0x800

#define EF_ARM_ABI_FLOAT_SOFT	0x200   /* NB conflicts with EF_ARM_SOFT_FLOAT */
#define EF_ARM_ABI_FLOAT_HARD	0x400   /* NB conflicts with EF_ARM_VFP_FLOAT */


/* Other constants defined in the ARM ELF spec. version B-01.  */
/* NB. These conflict with values defined above.  */
#define EF_ARM_SYMSARESORTED	0x04
#define EF_ARM_DYNSYMSUSESEGIDX	0x08
#define EF_ARM_MAPSYMSFIRST	0x10
#define EF_ARM_EABIMASK		0XFF000000

/* Constants defined in AAELF.  */
#define EF_ARM_BE8	    0x00800000
#define EF_ARM_LE8	    0x00400000

#define EF_ARM_EABI_VERSION(flags)	((flags) & EF_ARM_EABIMASK)
#define EF_ARM_EABI_UNKNOWN	0x00000000
#define EF_ARM_EABI_VER1	0x01000000
#define EF_ARM_EABI_VER2	0x02000000
#define EF_ARM_EABI_VER3	0x03000000
#define EF_ARM_EABI_VER4	0x04000000
#define EF_ARM_EABI_VER5	0x05000000

/* Additional symbol types for Thumb.  */
#define STT_ARM_TFUNC		STT_LOPROC /* A Thumb function.  */
#define STT_ARM_16BIT		STT_HIPROC /* A Thumb label.  */

/* ARM-specific values for sh_flags */
#define SHF_ARM_ENTRYSECT	0x10000000 /* Section contains an entry point */
#define SHF_ARM_COMDEF		0x80000000 /* Section may be multiply defined
					      in the input to a link step.  */

/* ARM-specific program header flags */
#define PF_ARM_SB		0x10000000 /* Segment contains the location
					      addressed by the static base. */
#define PF_ARM_PI		0x20000000 /* Position-independent segment.  */
#define PF_ARM_ABS		0x40000000 /* Absolute segment.  */

/* Processor specific values for the Phdr p_type field.  */
#define PT_ARM_EXIDX		(PT_LOPROC + 1)	/* ARM unwind segment.  */

/* Processor specific values for the Shdr sh_type field.  */
#define SHT_ARM_EXIDX		(SHT_LOPROC + 1) /* ARM unwind section.  */
#define SHT_ARM_PREEMPTMAP	(SHT_LOPROC + 2) /* Preemption details.  */
#define SHT_ARM_ATTRIBUTES	(SHT_LOPROC + 3) /* ARM attributes section.  */


/* AArch64 relocs.  */

#define R_AARCH64_NONE            0	/* No relocation.  */

/* ILP32 AArch64 relocs.  */
#define R_AARCH64_P32_ABS32		  1	/* Direct 32 bit.  */
#define R_AARCH64_P32_COPY		180	/* Copy symbol at runtime.  */
#define R_AARCH64_P32_GLOB_DAT		181	/* Create GOT entry.  */
#define R_AARCH64_P32_JUMP_SLOT		182	/* Create PLT entry.  */
#define R_AARCH64_P32_RELATIVE		183	/* Adjust by program base.  */
#define R_AARCH64_P32_TLS_DTPMOD	184	/* Module number, 32 bit.  */
#define R_AARCH64_P32_TLS_DTPREL	185	/* Module-relative offset, 32 bit.  */
#define R_AARCH64_P32_TLS_TPREL		186	/* TP-relative offset, 32 bit.  */
#define R_AARCH64_P32_TLSDESC		187	/* TLS Descriptor.  */
#define R_AARCH64_P32_IRELATIVE		188	/* STT_GNU_IFUNC relocation. */

/* LP64 AArch64 relocs.  */
#define R_AARCH64_ABS64         257	/* Direct 64 bit. */
#define R_AARCH64_ABS32         258	/* Direct 32 bit.  */
#define R_AARCH64_ABS16		259	/* Direct 16-bit.  */
#define R_AARCH64_PREL64	260	/* PC-relative 64-bit.	*/
#define R_AARCH64_PREL32	261	/* PC-relative 32-bit.	*/
#define R_AARCH64_PREL16	262	/* PC-relative 16-bit.	*/
#define R_AARCH64_MOVW_UABS_G0	263	/* Dir. MOVZ imm. from bits 15:0.  */
#define R_AARCH64_MOVW_UABS_G0_NC 264	/* Likewise for MOVK; no check.  */
#define R_AARCH64_MOVW_UABS_G1	265	/* Dir. MOVZ imm. from bits 31:16.  */
#define R_AARCH64_MOVW_UABS_G1_NC 266	/* Likewise for MOVK; no check.  */
#define R_AARCH64_MOVW_UABS_G2	267	/* Dir. MOVZ imm. from bits 47:32.  */
#define R_AARCH64_MOVW_UABS_G2_NC 268	/* Likewise for MOVK; no check.  */
#define R_AARCH64_MOVW_UABS_G3	269	/* Dir. MOV{K,Z} imm. from 63:48.  */
#define R_AARCH64_MOVW_SABS_G0	270	/* Dir. MOV{N,Z} imm. from 15:0.  */
#define R_AARCH64_MOVW_SABS_G1	271	/* Dir. MOV{N,Z} imm. from 31:16.  */
#define R_AARCH64_MOVW_SABS_G2	272	/* Dir. MOV{N,Z} imm. from 47:32.  */
#define R_AARCH64_LD_PREL_LO19	273	/* PC-rel. LD imm. from bits 20:2.  */
#define R_AARCH64_ADR_PREL_LO21	274	/* PC-rel. ADR imm. from bits 20:0.  */
#define R_AARCH64_ADR_PREL_PG_HI21 275	/* Page-rel. ADRP imm. from 32:12.  */
#define R_AARCH64_ADR_PREL_PG_HI21_NC 276 /* Likewise; no overflow check.  */
#define R_AARCH64_ADD_ABS_LO12_NC 277	/* Dir. ADD imm. from bits 11:0.  */
#define R_AARCH64_LDST8_ABS_LO12_NC 278	/* Likewise for LD/ST; no check. */
#define R_AARCH64_TSTBR14	279	/* PC-rel. TBZ/TBNZ imm. from 15:2.  */
#define R_AARCH64_CONDBR19	280	/* PC-rel. cond. br. imm. from 20:2. */
#define R_AARCH64_JUMP26	282	/* PC-rel. B imm. from bits 27:2.  */
#define R_AARCH64_CALL26	283	/* Likewise for CALL.  */
#define R_AARCH64_LDST16_ABS_LO12_NC 284 /* Dir. ADD imm. from bits 11:1.  */
#define R_AARCH64_LDST32_ABS_LO12_NC 285 /* Likewise for bits 11:2.  */
#define R_AARCH64_LDST64_ABS_LO12_NC 286 /* Likewise for bits 11:3.  */
#define R_AARCH64_MOVW_PREL_G0	287	/* PC-rel. MOV{N,Z} imm. from 15:0.  */
#define R_AARCH64_MOVW_PREL_G0_NC 288	/* Likewise for MOVK; no check.  */
#define R_AARCH64_MOVW_PREL_G1	289	/* PC-rel. MOV{N,Z} imm. from 31:16. */
#define R_AARCH64_MOVW_PREL_G1_NC 290	/* Likewise for MOVK; no check.  */
#define R_AARCH64_MOVW_PREL_G2	291	/* PC-rel. MOV{N,Z} imm. from 47:32. */
#define R_AARCH64_MOVW_PREL_G2_NC 292	/* Likewise for MOVK; no check.  */
#define R_AARCH64_MOVW_PREL_G3	293	/* PC-rel. MOV{N,Z} imm. from 63:48. */
#define R_AARCH64_LDST128_ABS_LO12_NC 299 /* Dir. ADD imm. from bits 11:4.  */
#define R_AARCH64_MOVW_GOTOFF_G0 300	/* GOT-rel. off. MOV{N,Z} imm. 15:0. */
#define R_AARCH64_MOVW_GOTOFF_G0_NC 301	/* Likewise for MOVK; no check.  */
#define R_AARCH64_MOVW_GOTOFF_G1 302	/* GOT-rel. o. MOV{N,Z} imm. 31:16.  */
#define R_AARCH64_MOVW_GOTOFF_G1_NC 303	/* Likewise for MOVK; no check.  */
#define R_AARCH64_MOVW_GOTOFF_G2 304	/* GOT-rel. o. MOV{N,Z} imm. 47:32.  */
#define R_AARCH64_MOVW_GOTOFF_G2_NC 305	/* Likewise for MOVK; no check.  */
#define R_AARCH64_MOVW_GOTOFF_G3 306	/* GOT-rel. o. MOV{N,Z} imm. 63:48.  */
#define R_AARCH64_GOTREL64	307	/* GOT-relative 64-bit.  */
#define R_AARCH64_GOTREL32	308	/* GOT-relative 32-bit.  */
#define R_AARCH64_GOT_LD_PREL19	309	/* PC-rel. GOT off. load imm. 20:2.  */
#define R_AARCH64_LD64_GOTOFF_LO15 310	/* GOT-rel. off. LD/ST imm. 14:3.  */
#define R_AARCH64_ADR_GOT_PAGE	311	/* P-page-rel. GOT off. ADRP 32:12.  */
#define R_AARCH64_LD64_GOT_LO12_NC 312	/* Dir. GOT off. LD/ST imm. 11:3.  */
#define R_AARCH64_LD64_GOTPAGE_LO15 313	/* GOT-page-rel. GOT off. LD/ST 14:3 */
#define R_AARCH64_TLSGD_ADR_PREL21 512	/* PC-relative ADR imm. 20:0.  */
#define R_AARCH64_TLSGD_ADR_PAGE21 513	/* page-rel. ADRP imm. 32:12.  */
#define R_AARCH64_TLSGD_ADD_LO12_NC 514	/* direct ADD imm. from 11:0.  */
#define R_AARCH64_TLSGD_MOVW_G1	515	/* GOT-rel. MOV{N,Z} 31:16.  */
#define R_AARCH64_TLSGD_MOVW_G0_NC 516	/* GOT-rel. MOVK imm. 15:0.  */
#define R_AARCH64_TLSLD_ADR_PREL21 517	/* Like 512; local dynamic model.  */
#define R_AARCH64_TLSLD_ADR_PAGE21 518	/* Like 513; local dynamic model.  */
#define R_AARCH64_TLSLD_ADD_LO12_NC 519	/* Like 514; local dynamic model.  */
#define R_AARCH64_TLSLD_MOVW_G1	520	/* Like 515; local dynamic model.  */
#define R_AARCH64_TLSLD_MOVW_G0_NC 521	/* Like 516; local dynamic model.  */
#define R_AARCH64_TLSLD_LD_PREL19 522	/* TLS PC-rel. load imm. 20:2.  */
#define R_AARCH64_TLSLD_MOVW_DTPREL_G2 523 /* TLS DTP-rel. MOV{N,Z} 47:32.  */
#define R_AARCH64_TLSLD_MOVW_DTPREL_G1 524 /* TLS DTP-rel. MOV{N,Z} 31:16.  */
#define R_AARCH64_TLSLD_MOVW_DTPREL_G1_NC 525 /* Likewise; MOVK; no check.  */
#define R_AARCH64_TLSLD_MOVW_DTPREL_G0 526 /* TLS DTP-rel. MOV{N,Z} 15:0.  */
#define R_AARCH64_TLSLD_MOVW_DTPREL_G0_NC 527 /* Likewise; MOVK; no check.  */
#define R_AARCH64_TLSLD_ADD_DTPREL_HI12 528 /* DTP-rel. ADD imm. from 23:12. */
#define R_AARCH64_TLSLD_ADD_DTPREL_LO12 529 /* DTP-rel. ADD imm. from 11:0.  */
#define R_AARCH64_TLSLD_ADD_DTPREL_LO12_NC 530 /* Likewise; no ovfl. check.  */
#define R_AARCH64_TLSLD_LDST8_DTPREL_LO12 531 /* DTP-rel. LD/ST imm. 11:0.  */
#define R_AARCH64_TLSLD_LDST8_DTPREL_LO12_NC 532 /* Likewise; no check.  */
#define R_AARCH64_TLSLD_LDST16_DTPREL_LO12 533 /* DTP-rel. LD/ST imm. 11:1.  */
#define R_AARCH64_TLSLD_LDST16_DTPREL_LO12_NC 534 /* Likewise; no check.  */
#define R_AARCH64_TLSLD_LDST32_DTPREL_LO12 535 /* DTP-rel. LD/ST imm. 11:2.  */
#define R_AARCH64_TLSLD_LDST32_DTPREL_LO12_NC 536 /* Likewise; no check.  */
#define R_AARCH64_TLSLD_LDST64_DTPREL_LO12 537 /* DTP-rel. LD/ST imm. 11:3.  */
#define R_AARCH64_TLSLD_LDST64_DTPREL_LO12_NC 538 /* Likewise; no check.  */
#define R_AARCH64_TLSIE_MOVW_GOTTPREL_G1 539 /* GOT-rel. MOV{N,Z} 31:16.  */
#define R_AARCH64_TLSIE_MOVW_GOTTPREL_G0_NC 540 /* GOT-rel. MOVK 15:0.  */
#define R_AARCH64_TLSIE_ADR_GOTTPREL_PAGE21 541 /* Page-rel. ADRP 32:12.  */
#define R_AARCH64_TLSIE_LD64_GOTTPREL_LO12_NC 542 /* Direct LD off. 11:3.  */
#define R_AARCH64_TLSIE_LD_GOTTPREL_PREL19 543 /* PC-rel. load imm. 20:2.  */
#define R_AARCH64_TLSLE_MOVW_TPREL_G2 544 /* TLS TP-rel. MOV{N,Z} 47:32.  */
#define R_AARCH64_TLSLE_MOVW_TPREL_G1 545 /* TLS TP-rel. MOV{N,Z} 31:16.  */
#define R_AARCH64_TLSLE_MOVW_TPREL_G1_NC 546 /* Likewise; MOVK; no check.  */
#define R_AARCH64_TLSLE_MOVW_TPREL_G0 547 /* TLS TP-rel. MOV{N,Z} 15:0.  */
#define R_AARCH64_TLSLE_MOVW_TPREL_G0_NC 548 /* Likewise; MOVK; no check.  */
#define R_AARCH64_TLSLE_ADD_TPREL_HI12 549 /* TP-rel. ADD imm. 23:12.  */
#define R_AARCH64_TLSLE_ADD_TPREL_LO12 550 /* TP-rel. ADD imm. 11:0.  */
#define R_AARCH64_TLSLE_ADD_TPREL_LO12_NC 551 /* Likewise; no ovfl. check.  */
#define R_AARCH64_TLSLE_LDST8_TPREL_LO12 552 /* TP-rel. LD/ST off. 11:0.  */
#define R_AARCH64_TLSLE_LDST8_TPREL_LO12_NC 553 /* Likewise; no ovfl. check. */
#define R_AARCH64_TLSLE_LDST16_TPREL_LO12 554 /* TP-rel. LD/ST off. 11:1.  */
#define R_AARCH64_TLSLE_LDST16_TPREL_LO12_NC 555 /* Likewise; no check.  */
#define R_AARCH64_TLSLE_LDST32_TPREL_LO12 556 /* TP-rel. LD/ST off. 11:2.  */
#define R_AARCH64_TLSLE_LDST32_TPREL_LO12_NC 557 /* Likewise; no check.  */
#define R_AARCH64_TLSLE_LDST64_TPREL_LO12 558 /* TP-rel. LD/ST off. 11:3.  */
#define R_AARCH64_TLSLE_LDST64_TPREL_LO12_NC 559 /* Likewise; no check.  */
#define R_AARCH64_TLSDESC_LD_PREL19 560	/* PC-rel. load immediate 20:2.  */
#define R_AARCH64_TLSDESC_ADR_PREL21 561 /* PC-rel. ADR immediate 20:0.  */
#define R_AARCH64_TLSDESC_ADR_PAGE21 562 /* Page-rel. ADRP imm. 32:12.  */
#define R_AARCH64_TLSDESC_LD64_LO12 563	/* Direct LD off. from 11:3.  */
#define R_AARCH64_TLSDESC_ADD_LO12 564	/* Direct ADD imm. from 11:0.  */
#define R_AARCH64_TLSDESC_OFF_G1 565	/* GOT-rel. MOV{N,Z} imm. 31:16.  */
#define R_AARCH64_TLSDESC_OFF_G0_NC 566	/* GOT-rel. MOVK imm. 15:0; no ck.  */
#define R_AARCH64_TLSDESC_LDR	567	/* Relax LDR.  */
#define R_AARCH64_TLSDESC_ADD	568	/* Relax ADD.  */
#define R_AARCH64_TLSDESC_CALL	569	/* Relax BLR.  */
#define R_AARCH64_TLSLE_LDST128_TPREL_LO12 570 /* TP-rel. LD/ST off. 11:4.  */
#define R_AARCH64_TLSLE_LDST128_TPREL_LO12_NC 571 /* Likewise; no check.  */
#define R_AARCH64_TLSLD_LDST128_DTPREL_LO12 572 /* DTP-rel. LD/ST imm. 11:4. */
#define R_AARCH64_TLSLD_LDST128_DTPREL_LO12_NC 573 /* Likewise; no check.  */
#define R_AARCH64_COPY         1024	/* Copy symbol at runtime.  */
#define R_AARCH64_GLOB_DAT     1025	/* Create GOT entry.  */
#define R_AARCH64_JUMP_SLOT    1026	/* Create PLT entry.  */
#define R_AARCH64_RELATIVE     1027	/* Adjust by program base.  */
#define R_AARCH64_TLS_DTPMOD   1028	/* Module number, 64 bit.  */
#define R_AARCH64_TLS_DTPREL   1029	/* Module-relative offset, 64 bit.  */
#define R_AARCH64_TLS_TPREL    1030	/* TP-relative offset, 64 bit.  */
#define R_AARCH64_TLSDESC      1031	/* TLS Descriptor.  */
#define R_AARCH64_IRELATIVE	1032	/* STT_GNU_IFUNC relocation.  */

/* MTE memory tag segment type.  */
#define PT_AARCH64_MEMTAG_MTE	(PT_LOPROC + 2)

/* AArch64 specific values for the Dyn d_tag field.  */
#define DT_AARCH64_BTI_PLT	(DT_LOPROC + 1)
#define DT_AARCH64_PAC_PLT	(DT_LOPROC + 3)
#define DT_AARCH64_VARIANT_PCS	(DT_LOPROC + 5)
#define DT_AARCH64_NUM		6

/* AArch64 specific values for the st_other field.  */
#define STO_AARCH64_VARIANT_PCS 0x80

/* ARM relocs.  */

#define R_ARM_NONE		0	/* No reloc */
#define R_ARM_PC24		1	/* Deprecated PC relative 26
					   bit branch.  */
#define R_ARM_ABS32		2	/* Direct 32 bit  */
#define R_ARM_REL32		3	/* PC relative 32 bit */
#define R_ARM_PC13		4
#define R_ARM_ABS16		5	/* Direct 16 bit */
#define R_ARM_ABS12		6	/* Direct 12 bit */
#define R_ARM_THM_ABS5		7	/* Direct & 0x7C (LDR, STR).  */
#define R_ARM_ABS8		8	/* Direct 8 bit */
#define R_ARM_SBREL32		9
#define R_ARM_THM_PC22		10	/* PC relative 24 bit (Thumb32 BL).  */
#define R_ARM_THM_PC8		11	/* PC relative & 0x3FC
					   (Thumb16 LDR, ADD, ADR).  */
#define R_ARM_AMP_VCALL9	12
#define R_ARM_SWI24		13	/* Obsolete static relocation.  */
#define R_ARM_TLS_DESC		13      /* Dynamic relocation.  */
#define R_ARM_THM_SWI8		14	/* Reserved.  */
#define R_ARM_XPC25		15	/* Reserved.  */
#define R_ARM_THM_XPC22		16	/* Reserved.  */
#define R_ARM_TLS_DTPMOD32	17	/* ID of module containing symbol */
#define R_ARM_TLS_DTPOFF32	18	/* Offset in TLS block */
#define R_ARM_TLS_TPOFF32	19	/* Offset in static TLS block */
#define R_ARM_COPY		20	/* Copy symbol at runtime */
#define R_ARM_GLOB_DAT		21	/* Create GOT entry */
#define R_ARM_JUMP_SLOT		22	/* Create PLT entry */
#define R_ARM_RELATIVE		23	/* Adjust by program base */
#define R_ARM_GOTOFF		24	/* 32 bit offset to GOT */
#define R_ARM_GOTPC		25	/* 32 bit PC relative offset to GOT */
#define R_ARM_GOT32		26	/* 32 bit GOT entry */
#define R_ARM_PLT32		27	/* Deprecated, 32 bit PLT address.  */
#define R_ARM_CALL		28	/* PC relative 24 bit (BL, BLX).  */
#define R_ARM_JUMP24		29	/* PC relative 24 bit
					   (B, BL<cond>).  */
#define R_ARM_THM_JUMP24	30	/* PC relative 24 bit (Thumb32 B.W).  */
#define R_ARM_BASE_ABS		31	/* Adjust by program base.  */
#define R_ARM_ALU_PCREL_7_0	32	/* Obsolete.  */
#define R_ARM_ALU_PCREL_15_8	33	/* Obsolete.  */
#define R_ARM_ALU_PCREL_23_15	34	/* Obsolete.  */
#define R_ARM_LDR_SBREL_11_0	35	/* Deprecated, prog. base relative.  */
#define R_ARM_ALU_SBREL_19_12	36	/* Deprecated, prog. base relative.  */
#define R_ARM_ALU_SBREL_27_20	37	/* Deprecated, prog. base relative.  */
#define R_ARM_TARGET1		38
#define R_ARM_SBREL31		39	/* Program base relative.  */
#define R_ARM_V4BX		40
#define R_ARM_TARGET2		41
#define R_ARM_PREL31		42	/* 32 bit PC relative.  */
#define R_ARM_MOVW_ABS_NC	43	/* Direct 16-bit (MOVW).  */
#define R_ARM_MOVT_ABS		44	/* Direct high 16-bit (MOVT).  */
#define R_ARM_MOVW_PREL_NC	45	/* PC relative 16-bit (MOVW).  */
#define R_ARM_MOVT_PREL		46	/* PC relative (MOVT).  */
#define R_ARM_THM_MOVW_ABS_NC	47	/* Direct 16 bit (Thumb32 MOVW).  */
#define R_ARM_THM_MOVT_ABS	48	/* Direct high 16 bit
					   (Thumb32 MOVT).  */
#define R_ARM_THM_MOVW_PREL_NC	49	/* PC relative 16 bit
					   (Thumb32 MOVW).  */
#define R_ARM_THM_MOVT_PREL	50	/* PC relative high 16 bit
					   (Thumb32 MOVT).  */
#define R_ARM_THM_JUMP19	51	/* PC relative 20 bit
					   (Thumb32 B<cond>.W).  */
#define R_ARM_THM_JUMP6		52	/* PC relative X & 0x7E
					   (Thumb16 CBZ, CBNZ).  */
#define R_ARM_THM_ALU_PREL_11_0	53	/* PC relative 12 bit
					   (Thumb32 ADR.W).  */
#define R_ARM_THM_PC12		54	/* PC relative 12 bit
					   (Thumb32 LDR{D,SB,H,SH}).  */
#define R_ARM_ABS32_NOI		55	/* Direct 32-bit.  */
#define R_ARM_REL32_NOI		56	/* PC relative 32-bit.  */
#define R_ARM_ALU_PC_G0_NC	57	/* PC relative (ADD, SUB).  */
#define R_ARM_ALU_PC_G0		58	/* PC relative (ADD, SUB).  */
#define R_ARM_ALU_PC_G1_NC	59	/* PC relative (ADD, SUB).  */
#define R_ARM_ALU_PC_G1		60	/* PC relative (ADD, SUB).  */
#define R_ARM_ALU_PC_G2		61	/* PC relative (ADD, SUB).  */
#define R_ARM_LDR_PC_G1		62	/* PC relative (LDR,STR,LDRB,STRB).  */
#define R_ARM_LDR_PC_G2		63	/* PC relative (LDR,STR,LDRB,STRB).  */
#define R_ARM_LDRS_PC_G0	64	/* PC relative (STR{D,H},
					   LDR{D,SB,H,SH}).  */
#define R_ARM_LDRS_PC_G1	65	/* PC relative (STR{D,H},
					   LDR{D,SB,H,SH}).  */
#define R_ARM_LDRS_PC_G2	66	/* PC relative (STR{D,H},
					   LDR{D,SB,H,SH}).  */
#define R_ARM_LDC_PC_G0		67	/* PC relative (LDC, STC).  */
#define R_ARM_LDC_PC_G1		68	/* PC relative (LDC, STC).  */
#define R_ARM_LDC_PC_G2		69	/* PC relative (LDC, STC).  */
#define R_ARM_ALU_SB_G0_NC	70	/* Program base relative (ADD,SUB).  */
#define R_ARM_ALU_SB_G0		71	/* Program base relative (ADD,SUB).  */
#define R_ARM_ALU_SB_G1_NC	72	/* Program base relative (ADD,SUB).  */
#define R_ARM_ALU_SB_G1		73	/* Program base relative (ADD,SUB).  */
#define R_ARM_ALU_SB_G2		74	/* Program base relative (ADD,SUB).  */
#define R_ARM_LDR_SB_G0		75	/* Program base relative (LDR,
					   STR, LDRB, STRB).  */
#define R_ARM_LDR_SB_G1		76	/* Program base relative
					   (LDR, STR, LDRB, STRB).  */
#define R_ARM_LDR_SB_G2		77	/* Program base relative
					   (LDR, STR, LDRB, STRB).  */
#define R_ARM_LDRS_SB_G0	78	/* Program base relative
					   (LDR, STR, LDRB, STRB).  */
#define R_ARM_LDRS_SB_G1	79	/* Program base relative
					   (LDR, STR, LDRB, STRB).  */
#define R_ARM_LDRS_SB_G2	80	/* Program base relative
					   (LDR, STR, LDRB, STRB).  */
#define R_ARM_LDC_SB_G0		81	/* Program base relative (LDC,STC).  */
#define R_ARM_LDC_SB_G1		82	/* Program base relative (LDC,STC).  */
#define R_ARM_LDC_SB_G2		83	/* Program base relative (LDC,STC).  */
#define R_ARM_MOVW_BREL_NC	84	/* Program base relative 16
					   bit (MOVW).  */
#define R_ARM_MOVT_BREL		85	/* Program base relative high
					   16 bit (MOVT).  */
#define R_ARM_MOVW_BREL		86	/* Program base relative 16
					   bit (MOVW).  */
#define R_ARM_THM_MOVW_BREL_NC	87	/* Program base relative 16
					   bit (Thumb32 MOVW).  */
#define R_ARM_THM_MOVT_BREL	88	/* Program base relative high
					   16 bit (Thumb32 MOVT).  */
#define R_ARM_THM_MOVW_BREL	89	/* Program base relative 16
					   bit (Thumb32 MOVW).  */
#define R_ARM_TLS_GOTDESC	90
#define R_ARM_TLS_CALL		91
#define R_ARM_TLS_DESCSEQ	92	/* TLS relaxation.  */
#define R_ARM_THM_TLS_CALL	93
#define R_ARM_PLT32_ABS		94
#define R_ARM_GOT_ABS		95	/* GOT entry.  */
#define R_ARM_GOT_PREL		96	/* PC relative GOT entry.  */
#define R_ARM_GOT_BREL12	97	/* GOT entry relative to GOT
					   origin (LDR).  */
#define R_ARM_GOTOFF12		98	/* 12 bit, GOT entry relative
					   to GOT origin (LDR, STR).  */
#define R_ARM_GOTRELAX		99
#define R_ARM_GNU_VTENTRY	100
#define R_ARM_GNU_VTINHERIT	101
#define R_ARM_THM_PC11		102	/* PC relative & 0xFFE (Thumb16 B).  */
#define R_ARM_THM_PC9		103	/* PC relative & 0x1FE
					   (Thumb16 B/B<cond>).  */
#define R_ARM_TLS_GD32		104	/* PC-rel 32 bit for global dynamic
					   thread local data */
#define R_ARM_TLS_LDM32		105	/* PC-rel 32 bit for local dynamic
					   thread local data */
#define R_ARM_TLS_LDO32		106	/* 32 bit offset relative to TLS
					   block */
#define R_ARM_TLS_IE32		107	/* PC-rel 32 bit for GOT entry of
					   static TLS block offset */
#define R_ARM_TLS_LE32		108	/* 32 bit offset relative to static
					   TLS block */
#define R_ARM_TLS_LDO12		109	/* 12 bit relative to TLS
					   block (LDR, STR).  */
#define R_ARM_TLS_LE12		110	/* 12 bit relative to static
					   TLS block (LDR, STR).  */
#define R_ARM_TLS_IE12GP	111	/* 12 bit GOT entry relative
					   to GOT origin (LDR).  */
#define R_ARM_ME_TOO		128	/* Obsolete.  */
#define R_ARM_THM_TLS_DESCSEQ	129
#define R_ARM_THM_TLS_DESCSEQ16	129
#define R_ARM_THM_TLS_DESCSEQ32	130
#define R_ARM_THM_GOT_BREL12	131	/* GOT entry relative to GOT
					   origin, 12 bit (Thumb32 LDR).  */
#define R_ARM_IRELATIVE		160
#define R_ARM_RXPC25		249
#define R_ARM_RSBREL32		250
#define R_ARM_THM_RPC22		251
#define R_ARM_RREL32		252
#define R_ARM_RABS22		253
#define R_ARM_RPC24		254
#define R_ARM_RBASE		255
/* Keep this the last entry.  */
#define R_ARM_NUM		256

/* C-SKY */
#define R_CKCORE_NONE               0	/* no reloc */
#define R_CKCORE_ADDR32             1	/* direct 32 bit (S + A) */
#define R_CKCORE_PCRELIMM8BY4       2	/* disp ((S + A - P) >> 2) & 0xff   */
#define R_CKCORE_PCRELIMM11BY2      3	/* disp ((S + A - P) >> 1) & 0x7ff  */
#define R_CKCORE_PCREL32            5	/* 32-bit rel (S + A - P)           */
#define R_CKCORE_PCRELJSR_IMM11BY2  6	/* disp ((S + A - P) >>1) & 0x7ff   */
#define R_CKCORE_RELATIVE           9	/* 32 bit adjust program base(B + A)*/
#define R_CKCORE_COPY               10	/* 32 bit adjust by program base    */
#define R_CKCORE_GLOB_DAT           11	/* off between got and sym (S)      */
#define R_CKCORE_JUMP_SLOT          12	/* PLT entry (S) */
#define R_CKCORE_GOTOFF             13	/* offset to GOT (S + A - GOT)      */
#define R_CKCORE_GOTPC              14	/* PC offset to GOT (GOT + A - P)   */
#define R_CKCORE_GOT32              15	/* 32 bit GOT entry (G) */
#define R_CKCORE_PLT32              16	/* 32 bit PLT entry (G) */
#define R_CKCORE_ADDRGOT            17	/* GOT entry in GLOB_DAT (GOT + G)  */
#define R_CKCORE_ADDRPLT            18	/* PLT entry in GLOB_DAT (GOT + G)  */
#define R_CKCORE_PCREL_IMM26BY2     19	/* ((S + A - P) >> 1) & 0x3ffffff   */
#define R_CKCORE_PCREL_IMM16BY2     20	/* disp ((S + A - P) >> 1) & 0xffff */
#define R_CKCORE_PCREL_IMM16BY4     21	/* disp ((S + A - P) >> 2) & 0xffff */
#define R_CKCORE_PCREL_IMM10BY2     22	/* disp ((S + A - P) >> 1) & 0x3ff  */
#define R_CKCORE_PCREL_IMM10BY4     23	/* disp ((S + A - P) >> 2) & 0x3ff  */
#define R_CKCORE_ADDR_HI16          24	/* high & low 16 bit ADDR */
                                        /* ((S + A) >> 16) & 0xffff */
#define R_CKCORE_ADDR_LO16          25	/* (S + A) & 0xffff */
#define R_CKCORE_GOTPC_HI16         26	/* high & low 16 bit GOTPC */
                                        /* ((GOT + A - P) >> 16) & 0xffff */
#define R_CKCORE_GOTPC_LO16         27	/* (GOT + A - P) & 0xffff */
#define R_CKCORE_GOTOFF_HI16        28	/* high & low 16 bit GOTOFF */
                                        /* ((S + A - GOT) >> 16) & 0xffff */
#define R_CKCORE_GOTOFF_LO16        29	/* (S + A - GOT) & 0xffff */
#define R_CKCORE_GOT12              30	/* 12 bit disp GOT entry (G) */
#define R_CKCORE_GOT_HI16           31	/* high & low 16 bit GOT */
                                        /* (G >> 16) & 0xffff */
#define R_CKCORE_GOT_LO16           32	/* (G & 0xffff) */
#define R_CKCORE_PLT12              33	/* 12 bit disp PLT entry (G) */
#define R_CKCORE_PLT_HI16           34	/* high & low 16 bit PLT */
                                        /* (G >> 16) & 0xffff */
#define R_CKCORE_PLT_LO16           35	/* G & 0xffff */
#define R_CKCORE_ADDRGOT_HI16       36	/* high & low 16 bit ADDRGOT */
                                        /* (GOT + G * 4) & 0xffff */
#define R_CKCORE_ADDRGOT_LO16       37	/* (GOT + G * 4) & 0xffff */
#define R_CKCORE_ADDRPLT_HI16       38	/* high & low 16 bit ADDRPLT */
                                        /* ((GOT + G * 4) >> 16) & 0xFFFF */
#define R_CKCORE_ADDRPLT_LO16       39	/* (GOT+G*4) & 0xffff */
#define R_CKCORE_PCREL_JSR_IMM26BY2 40	/* disp ((S+A-P) >>1) & x3ffffff */
#define R_CKCORE_TOFFSET_LO16       41	/* (S+A-BTEXT) & 0xffff */
#define R_CKCORE_DOFFSET_LO16       42	/* (S+A-BTEXT) & 0xffff */
#define R_CKCORE_PCREL_IMM18BY2     43	/* disp ((S+A-P) >>1) & 0x3ffff */
#define R_CKCORE_DOFFSET_IMM18      44	/* disp (S+A-BDATA) & 0x3ffff */
#define R_CKCORE_DOFFSET_IMM18BY2   45	/* disp ((S+A-BDATA)>>1) & 0x3ffff */
#define R_CKCORE_DOFFSET_IMM18BY4   46	/* disp ((S+A-BDATA)>>2) & 0x3ffff */
#define R_CKCORE_GOT_IMM18BY4       48	/* disp (G >> 2) */
#define R_CKCORE_PLT_IMM18BY4       49	/* disp (G >> 2) */
#define R_CKCORE_PCREL_IMM7BY4      50	/* disp ((S+A-P) >>2) & 0x7f */
#define R_CKCORE_TLS_LE32           51	/* 32 bit offset to TLS block */
#define R_CKCORE_TLS_IE32           52
#define R_CKCORE_TLS_GD32           53
#define R_CKCORE_TLS_LDM32          54
#define R_CKCORE_TLS_LDO32          55
#define R_CKCORE_TLS_DTPMOD32       56
#define R_CKCORE_TLS_DTPOFF32       57
#define R_CKCORE_TLS_TPOFF32        58

/* C-SKY elf header definition.  */
#define EF_CSKY_ABIMASK		    0XF0000000
#define EF_CSKY_OTHER		    0X0FFF0000
#define EF_CSKY_PROCESSOR	    0X0000FFFF

#define EF_CSKY_ABIV1		    0X10000000
#define EF_CSKY_ABIV2		    0X20000000

/* C-SKY attributes section.  */
#define SHT_CSKY_ATTRIBUTES	    (SHT_LOPROC + 1)

/* IA-64 specific declarations.  */

/* Processor specific flags for the Ehdr e_flags field.  */
#define EF_IA_64_MASKOS		0x0000000f	/* os-specific flags */
#define EF_IA_64_ABI64		0x00000010	/* 64-bit ABI */
#define EF_IA_64_ARCH		0xff000000	/* arch. version mask */

/* Processor specific values for the Phdr p_type field.  */
#define PT_IA_64_ARCHEXT	(PT_LOPROC + 0)	/* arch extension bits */
#define PT_IA_64_UNWIND		(PT_LOPROC + 1)	/* ia64 unwind bits */
#define PT_IA_64_HP_OPT_ANOT	(PT_LOOS + 0x12)
#define PT_IA_64_HP_HSL_ANOT	(PT_LOOS + 0x13)
#define PT_IA_64_HP_STACK	(PT_LOOS + 0x14)

/* Processor specific flags for the Phdr p_flags field.  */
#define PF_IA_64_NORECOV	0x80000000	/* spec insns w/o recovery */

/* Processor specific values for the Shdr sh_type field.  */
#define SHT_IA_64_EXT		(SHT_LOPROC + 0) /* extension bits */
#define SHT_IA_64_UNWIND	(SHT_LOPROC + 1) /* unwind bits */

/* Processor specific flags for the Shdr sh_flags field.  */
#define SHF_IA_64_SHORT		0x10000000	/* section near gp */
#define SHF_IA_64_NORECOV	0x20000000	/* spec insns w/o recovery */

/* Processor specific values for the Dyn d_tag field.  */
#define DT_IA_64_PLT_RESERVE	(DT_LOPROC + 0)
#define DT_IA_64_NUM		1

/* IA-64 relocations.  */
#define R_IA64_NONE		0x00	/* none */
#define R_IA64_IMM14		0x21	/* symbol + addend, add imm14 */
#define R_IA64_IMM22		0x22	/* symbol + addend, add imm22 */
#define R_IA64_IMM64		0x23	/* symbol + addend, mov imm64 */
#define R_IA64_DIR32MSB		0x24	/* symbol + addend, data4 MSB */
#define R_IA64_DIR32LSB		0x25	/* symbol + addend, data4 LSB */
#define R_IA64_DIR64MSB		0x26	/* symbol + addend, data8 MSB */
#define R_IA64_DIR64LSB		0x27	/* symbol + addend, data8 LSB */
#define R_IA64_GPREL22		0x2a	/* @gprel(sym + add), add imm22 */
#define R_IA64_GPREL64I		0x2b	/* @gprel(sym + add), mov imm64 */
#define R_IA64_GPREL32MSB	0x2c	/* @gprel(sym + add), data4 MSB */
#define R_IA64_GPREL32LSB	0x2d	/* @gprel(sym + add), data4 LSB */
#define R_IA64_GPREL64MSB	0x2e	/* @gprel(sym + add), data8 MSB */
#define R_IA64_GPREL64LSB	0x2f	/* @gprel(sym + add), data8 LSB */
#define R_IA64_LTOFF22		0x32	/* @ltoff(sym + add), add imm22 */
#define R_IA64_LTOFF64I		0x33	/* @ltoff(sym + add), mov imm64 */
#define R_IA64_PLTOFF22		0x3a	/* @pltoff(sym + add), add imm22 */
#define R_IA64_PLTOFF64I	0x3b	/* @pltoff(sym + add), mov imm64 */
#define R_IA64_PLTOFF64MSB	0x3e	/* @pltoff(sym + add), data8 MSB */
#define R_IA64_PLTOFF64LSB	0x3f	/* @pltoff(sym + add), data8 LSB */
#define R_IA64_FPTR64I		0x43	/* @fptr(sym + add), mov imm64 */
#define R_IA64_FPTR32MSB	0x44	/* @fptr(sym + add), data4 MSB */
#define R_IA64_FPTR32LSB	0x45	/* @fptr(sym + add), data4 LSB */
#define R_IA64_FPTR64MSB	0x46	/* @fptr(sym + add), data8 MSB */
#define R_IA64_FPTR64LSB	0x47	/* @fptr(sym + add), data8 LSB */
#define R_IA64_PCREL60B		0x48	/* @pcrel(sym + add), brl */
#define R_IA64_PCREL21B		0x49	/* @pcrel(sym + add), ptb, call */
#define R_IA64_PCREL21M		0x4a	/* @pcrel(sym + add), chk.s */
#define R_IA64_PCREL21F		0x4b	/* @pcrel(sym + add), fchkf */
#define R_IA64_PCREL32MSB	0x4c	/* @pcrel(sym + add), data4 MSB */
#define R_IA64_PCREL32LSB	0x4d	/* @pcrel(sym + add), data4 LSB */
#define R_IA64_PCREL64MSB	0x4e	/* @pcrel(sym + add), data8 MSB */
#define R_IA64_PCREL64LSB	0x4f	/* @pcrel(sym + add), data8 LSB */
#define R_IA64_LTOFF_FPTR22	0x52	/* @ltoff(@fptr(s+a)), imm22 */
#define R_IA64_LTOFF_FPTR64I	0x53	/* @ltoff(@fptr(s+a)), imm64 */
#define R_IA64_LTOFF_FPTR32MSB	0x54	/* @ltoff(@fptr(s+a)), data4 MSB */
#define R_IA64_LTOFF_FPTR32LSB	0x55	/* @ltoff(@fptr(s+a)), data4 LSB */
#define R_IA64_LTOFF_FPTR64MSB	0x56	/* @ltoff(@fptr(s+a)), data8 MSB */
#define R_IA64_LTOFF_FPTR64LSB	0x57	/* @ltoff(@fptr(s+a)), data8 LSB */
#define R_IA64_SEGREL32MSB	0x5c	/* @segrel(sym + add), data4 MSB */
#define R_IA64_SEGREL32LSB	0x5d	/* @segrel(sym + add), data4 LSB */
#define R_IA64_SEGREL64MSB	0x5e	/* @segrel(sym + add), data8 MSB */
#define R_IA64_SEGREL64LSB	0x5f	/* @segrel(sym + add), data8 LSB */
#define R_IA64_SECREL32MSB	0x64	/* @secrel(sym + add), data4 MSB */
#define R_IA64_SECREL32LSB	0x65	/* @secrel(sym + add), data4 LSB */
#define R_IA64_SECREL64MSB	0x66	/* @secrel(sym + add), data8 MSB */
#define R_IA64_SECREL64LSB	0x67	/* @secrel(sym + add), data8 LSB */
#define R_IA64_REL32MSB		0x6c	/* data 4 + REL */
#define R_IA64_REL32LSB		0x6d	/* data 4 + REL */
#define R_IA64_REL64MSB		0x6e	/* data 8 + REL */
#define R_IA64_REL64LSB		0x6f	/* data 8 + REL */
#define R_IA64_LTV32MSB		0x74	/* symbol + addend, data4 MSB */
#define R_IA64_LTV32LSB		0x75	/* symbol + addend, data4 LSB */
#define R_IA64_LTV64MSB		0x76	/* symbol + addend, data8 MSB */
#define R_IA64_LTV64LSB		0x77	/* symbol + addend, data8 LSB */
#define R_IA64_PCREL21BI	0x79	/* @pcrel(sym + add), 21bit inst */
#define R_IA64_PCREL22		0x7a	/* @pcrel(sym + add), 22bit inst */
#define R_IA64_PCREL64I		0x7b	/* @pcrel(sym + add), 64bit inst */
#define R_IA64_IPLTMSB		0x80	/* dynamic reloc, imported PLT, MSB */
#define R_IA64_IPLTLSB		0x81	/* dynamic reloc, imported PLT, LSB */
#define R_IA64_COPY		0x84	/* copy relocation */
#define R_IA64_SUB		0x85	/* Addend and symbol difference */
#define R_IA64_LTOFF22X		0x86	/* LTOFF22, relaxable.  */
#define R_IA64_LDXMOV		0x87	/* Use of LTOFF22X.  */
#define R_IA64_TPREL14		0x91	/* @tprel(sym + add), imm14 */
#define R_IA64_TPREL22		0x92	/* @tprel(sym + add), imm22 */
#define R_IA64_TPREL64I		0x93	/* @tprel(sym + add), imm64 */
#define R_IA64_TPREL64MSB	0x96	/* @tprel(sym + add), data8 MSB */
#define R_IA64_TPREL64LSB	0x97	/* @tprel(sym + add), data8 LSB */
#define R_IA64_LTOFF_TPREL22	0x9a	/* @ltoff(@tprel(s+a)), imm2 */
#define R_IA64_DTPMOD64MSB	0xa6	/* @dtpmod(sym + add), data8 MSB */
#define R_IA64_DTPMOD64LSB	0xa7	/* @dtpmod(sym + add), data8 LSB */
#define R_IA64_LTOFF_DTPMOD22	0xaa	/* @ltoff(@dtpmod(sym + add)), imm22 */
#define R_IA64_DTPREL14		0xb1	/* @dtprel(sym + add), imm14 */
#define R_IA64_DTPREL22		0xb2	/* @dtprel(sym + add), imm22 */
#define R_IA64_DTPREL64I	0xb3	/* @dtprel(sym + add), imm64 */
#define R_IA64_DTPREL32MSB	0xb4	/* @dtprel(sym + add), data4 MSB */
#define R_IA64_DTPREL32LSB	0xb5	/* @dtprel(sym + add), data4 LSB */
#define R_IA64_DTPREL64MSB	0xb6	/* @dtprel(sym + add), data8 MSB */
#define R_IA64_DTPREL64LSB	0xb7	/* @dtprel(sym + add), data8 LSB */
#define R_IA64_LTOFF_DTPREL22	0xba	/* @ltoff(@dtprel(s+a)), imm22 */

/* SH specific declarations */

/* Processor specific flags for the ELF header e_flags field.  */
#define EF_SH_MACH_MASK		0x1f
#define EF_SH_UNKNOWN		0x0
#define EF_SH1			0x1
#define EF_SH2			0x2
#define EF_SH3			0x3
#define EF_SH_DSP		0x4
#define EF_SH3_DSP		0x5
#define EF_SH4AL_DSP		0x6
#define EF_SH3E			0x8
#define EF_SH4			0x9
#define EF_SH2E			0xb
#define EF_SH4A			0xc
#define EF_SH2A			0xd
#define EF_SH4_NOFPU		0x10
#define EF_SH4A_NOFPU		0x11
#define EF_SH4_NOMMU_NOFPU	0x12
#define EF_SH2A_NOFPU		0x13
#define EF_SH3_NOMMU		0x14
#define EF_SH2A_SH4_NOFPU	0x15
#define EF_SH2A_SH3_NOFPU	0x16
#define EF_SH2A_SH4		0x17
#define EF_SH2A_SH3E		0x18

/* SH relocs.  */
#define	R_SH_NONE		0
#define	R_SH_DIR32		1
#define	R_SH_REL32		2
#define	R_SH_DIR8WPN		3
#define	R_SH_IND12W		4
#define	R_SH_DIR8WPL		5
#define	R_SH_DIR8WPZ		6
#define	R_SH_DIR8BP		7
#define	R_SH_DIR8W		8
#define	R_SH_DIR8L		9
#define	R_SH_SWITCH16		25
#define	R_SH_SWITCH32		26
#define	R_SH_USES		27
#define	R_SH_COUNT		28
#define	R_SH_ALIGN		29
#define	R_SH_CODE		30
#define	R_SH_DATA		31
#define	R_SH_LABEL		32
#define	R_SH_SWITCH8		33
#define	R_SH_GNU_VTINHERIT	34
#define	R_SH_GNU_VTENTRY	35
#define	R_SH_TLS_GD_32		144
#define	R_SH_TLS_LD_32		145
#define	R_SH_TLS_LDO_32		146
#define	R_SH_TLS_IE_32		147
#define	R_SH_TLS_LE_32		148
#define	R_SH_TLS_DTPMOD32	149
#define	R_SH_TLS_DTPOFF32	150
#define	R_SH_TLS_TPOFF32	151
#define	R_SH_GOT32		160
#define	R_SH_PLT32		161
#define	R_SH_COPY		162
#define	R_SH_GLOB_DAT		163
#define	R_SH_JMP_SLOT		164
#define	R_SH_RELATIVE		165
#define	R_SH_GOTOFF		166
#define	R_SH_GOTPC		167
/* Keep this the last entry.  */
#define	R_SH_NUM		256

/* S/390 specific definitions.  */

/* Valid values for the e_flags field.  */

#define EF_S390_HIGH_GPRS    0x00000001  /* High GPRs kernel facility needed.  */

/* Additional s390 relocs */

#define R_390_NONE		0	/* No reloc.  */
#define R_390_8			1	/* Direct 8 bit.  */
#define R_390_12		2	/* Direct 12 bit.  */
#define R_390_16		3	/* Direct 16 bit.  */
#define R_390_32		4	/* Direct 32 bit.  */
#define R_390_PC32		5	/* PC relative 32 bit.	*/
#define R_390_GOT12		6	/* 12 bit GOT offset.  */
#define R_390_GOT32		7	/* 32 bit GOT offset.  */
#define R_390_PLT32		8	/* 32 bit PC relative PLT address.  */
#define R_390_COPY		9	/* Copy symbol at runtime.  */
#define R_390_GLOB_DAT		10	/* Create GOT entry.  */
#define R_390_JMP_SLOT		11	/* Create PLT entry.  */
#define R_390_RELATIVE		12	/* Adjust by program base.  */
#define R_390_GOTOFF32		13	/* 32 bit offset to GOT.	 */
#define R_390_GOTPC		14	/* 32 bit PC relative offset to GOT.  */
#define R_390_GOT16		15	/* 16 bit GOT offset.  */
#define R_390_PC16		16	/* PC relative 16 bit.	*/
#define R_390_PC16DBL		17	/* PC relative 16 bit shifted by 1.  */
#define R_390_PLT16DBL		18	/* 16 bit PC rel. PLT shifted by 1.  */
#define R_390_PC32DBL		19	/* PC relative 32 bit shifted by 1.  */
#define R_390_PLT32DBL		20	/* 32 bit PC rel. PLT shifted by 1.  */
#define R_390_GOTPCDBL		21	/* 32 bit PC rel. GOT shifted by 1.  */
#define R_390_64		22	/* Direct 64 bit.  */
#define R_390_PC64		23	/* PC relative 64 bit.	*/
#define R_390_GOT64		24	/* 64 bit GOT offset.  */
#define R_390_PLT64		25	/* 64 bit PC relative PLT address.  */
#define R_390_GOTENT		26	/* 32 bit PC rel. to GOT entry >> 1. */
#define R_390_GOTOFF16		27	/* 16 bit offset to GOT. */
#define R_390_GOTOFF64		28	/* 64 bit offset to GOT. */
#define R_390_GOTPLT12		29	/* 12 bit offset to jump slot.	*/
#define R_390_GOTPLT16		30	/* 16 bit offset to jump slot.	*/
#define R_390_GOTPLT32		31	/* 32 bit offset to jump slot.	*/
#define R_390_GOTPLT64		32	/* 64 bit offset to jump slot.	*/
#define R_390_GOTPLTENT		33	/* 32 bit rel. offset to jump slot.  */
#define R_390_PLTOFF16		34	/* 16 bit offset from GOT to PLT. */
#define R_390_PLTOFF32		35	/* 32 bit offset from GOT to PLT. */
#define R_390_PLTOFF64		36	/* 16 bit offset from GOT to PLT. */
#define R_390_TLS_LOAD		37	/* Tag for load insn in TLS code.  */
#define R_390_TLS_GDCALL	38	/* Tag for function call in general
					   dynamic TLS code. */
#define R_390_TLS_LDCALL	39	/* Tag for function call in local
					   dynamic TLS code. */
#define R_390_TLS_GD32		40	/* Direct 32 bit for general dynamic
					   thread local data.  */
#define R_390_TLS_GD64		41	/* Direct 64 bit for general dynamic
					  thread local data.  */
#define R_390_TLS_GOTIE12	42	/* 12 bit GOT offset for static TLS
					   block offset.  */
#define R_390_TLS_GOTIE32	43	/* 32 bit GOT offset for static TLS
					   block offset.  */
#define R_390_TLS_GOTIE64	44	/* 64 bit GOT offset for static TLS
					   block offset. */
#define R_390_TLS_LDM32		45	/* Direct 32 bit for local dynamic
					   thread local data in LE code.  */
#define R_390_TLS_LDM64		46	/* Direct 64 bit for local dynamic
					   thread local data in LE code.  */
#define R_390_TLS_IE32		47	/* 32 bit address of GOT entry for
					   negated static TLS block offset.  */
#define R_390_TLS_IE64		48	/* 64 bit address of GOT entry for
					   negated static TLS block offset.  */
#define R_390_TLS_IEENT		49	/* 32 bit rel. offset to GOT entry for
					   negated static TLS block offset.  */
#define R_390_TLS_LE32		50	/* 32 bit negated offset relative to
					   static TLS block.  */
#define R_390_TLS_LE64		51	/* 64 bit negated offset relative to
					   static TLS block.  */
#define R_390_TLS_LDO32		52	/* 32 bit offset relative to TLS
					   block.  */
#define R_390_TLS_LDO64		53	/* 64 bit offset relative to TLS
					   block.  */
#define R_390_TLS_DTPMOD	54	/* ID of module containing symbol.  */
#define R_390_TLS_DTPOFF	55	/* Offset in TLS block.	 */
#define R_390_TLS_TPOFF		56	/* Negated offset in static TLS
					   block.  */
#define R_390_20		57	/* Direct 20 bit.  */
#define R_390_GOT20		58	/* 20 bit GOT offset.  */
#define R_390_GOTPLT20		59	/* 20 bit offset to jump slot.  */
#define R_390_TLS_GOTIE20	60	/* 20 bit GOT offset for static TLS
					   block offset.  */
#define R_390_IRELATIVE         61      /* STT_GNU_IFUNC relocation.  */
/* Keep this the last entry.  */
#define R_390_NUM		62


/* CRIS relocations.  */
#define R_CRIS_NONE		0
#define R_CRIS_8		1
#define R_CRIS_16		2
#define R_CRIS_32		3
#define R_CRIS_8_PCREL		4
#define R_CRIS_16_PCREL		5
#define R_CRIS_32_PCREL		6
#define R_CRIS_GNU_VTINHERIT	7
#define R_CRIS_GNU_VTENTRY	8
#define R_CRIS_COPY		9
#define R_CRIS_GLOB_DAT		10
#define R_CRIS_JUMP_SLOT	11
#define R_CRIS_RELATIVE		12
#define R_CRIS_16_GOT		13
#define R_CRIS_32_GOT		14
#define R_CRIS_16_GOTPLT	15
#define R_CRIS_32_GOTPLT	16
#define R_CRIS_32_GOTREL	17
#define R_CRIS_32_PLT_GOTREL	18
#define R_CRIS_32_PLT_PCREL	19

#define R_CRIS_NUM		20


/* AMD x86-64 relocations.  */
#define R_X86_64_NONE		0	/* No reloc */
#define R_X86_64_64		1	/* Direct 64 bit  */
#define R_X86_64_PC32		2	/* PC relative 32 bit signed */
#define R_X86_64_GOT32		3	/* 32 bit GOT entry */
#define R_X86_64_PLT32		4	/* 32 bit PLT address */
#define R_X86_64_COPY		5	/* Copy symbol at runtime */
#define R_X86_64_GLOB_DAT	6	/* Create GOT entry */
#define R_X86_64_JUMP_SLOT	7	/* Create PLT entry */
#define R_X86_64_RELATIVE	8	/* Adjust by program base */
#define R_X86_64_GOTPCREL	9	/* 32 bit signed PC relative
					   offset to GOT */
#define R_X86_64_32		10	/* Direct 32 bit zero extended */
#define R_X86_64_32S		11	/* Direct 32 bit sign extended */
#define R_X86_64_16		12	/* Direct 16 bit zero extended */
#define R_X86_64_PC16		13	/* 16 bit sign extended pc relative */
#define R_X86_64_8		14	/* Direct 8 bit sign extended  */
#define R_X86_64_PC8		15	/* 8 bit sign extended pc relative */
#define R_X86_64_DTPMOD64	16	/* ID of module containing symbol */
#define R_X86_64_DTPOFF64	17	/* Offset in module's TLS block */
#define R_X86_64_TPOFF64	18	/* Offset in initial TLS block */
#define R_X86_64_TLSGD		19	/* 32 bit signed PC relative offset
					   to two GOT entries for GD symbol */
#define R_X86_64_TLSLD		20	/* 32 bit signed PC relative offset
					   to two GOT entries for LD symbol */
#define R_X86_64_DTPOFF32	21	/* Offset in TLS block */
#define R_X86_64_GOTTPOFF	22	/* 32 bit signed PC relative offset
					   to GOT entry for IE symbol */
#define R_X86_64_TPOFF32	23	/* Offset in initial TLS block */
#define R_X86_64_PC64		24	/* PC relative 64 bit */
#define R_X86_64_GOTOFF64	25	/* 64 bit offset to GOT */
#define R_X86_64_GOTPC32	26	/* 32 bit signed pc relative
					   offset to GOT */
#define R_X86_64_GOT64		27	/* 64-bit GOT entry offset */
#define R_X86_64_GOTPCREL64	28	/* 64-bit PC relative offset
					   to GOT entry */
#define R_X86_64_GOTPC64	29	/* 64-bit PC relative offset to GOT */
#define R_X86_64_GOTPLT64	30 	/* like GOT64, says PLT entry needed */
#define R_X86_64_PLTOFF64	31	/* 64-bit GOT relative offset
					   to PLT entry */
#define R_X86_64_SIZE32		32	/* Size of symbol plus 32-bit addend */
#define R_X86_64_SIZE64		33	/* Size of symbol plus 64-bit addend */
#define R_X86_64_GOTPC32_TLSDESC 34	/* GOT offset for TLS descriptor.  */
#define R_X86_64_TLSDESC_CALL   35	/* Marker for call through TLS
					   descriptor.  */
#define R_X86_64_TLSDESC        36	/* TLS descriptor.  */
#define R_X86_64_IRELATIVE	37	/* Adjust indirectly by program base */
#define R_X86_64_RELATIVE64	38	/* 64-bit adjust by program base */
					/* 39 Reserved was R_X86_64_PC32_BND */
					/* 40 Reserved was R_X86_64_PLT32_BND */
#define R_X86_64_GOTPCRELX	41	/* Load from 32 bit signed pc relative
					   offset to GOT entry without REX
					   prefix, relaxable.  */
#define R_X86_64_REX_GOTPCRELX	42	/* Load from 32 bit signed pc relative
					   offset to GOT entry with REX prefix,
					   relaxable.  */
#define R_X86_64_NUM		43

/* x86-64 sh_type values.  */
#define SHT_X86_64_UNWIND	0x70000001 /* Unwind information.  */


/* AM33 relocations.  */
#define R_MN10300_NONE		0	/* No reloc.  */
#define R_MN10300_32		1	/* Direct 32 bit.  */
#define R_MN10300_16		2	/* Direct 16 bit.  */
#define R_MN10300_8		3	/* Direct 8 bit.  */
#define R_MN10300_PCREL32	4	/* PC-relative 32-bit.  */
#define R_MN10300_PCREL16	5	/* PC-relative 16-bit signed.  */
#define R_MN10300_PCREL8	6	/* PC-relative 8-bit signed.  */
#define R_MN10300_GNU_VTINHERIT	7	/* Ancient C++ vtable garbage... */
#define R_MN10300_GNU_VTENTRY	8	/* ... collection annotation.  */
#define R_MN10300_24		9	/* Direct 24 bit.  */
#define R_MN10300_GOTPC32	10	/* 32-bit PCrel offset to GOT.  */
#define R_MN10300_GOTPC16	11	/* 16-bit PCrel offset to GOT.  */
#define R_MN10300_GOTOFF32	12	/* 32-bit offset from GOT.  */
#define R_MN10300_GOTOFF24	13	/* 24-bit offset from GOT.  */
#define R_MN10300_GOTOFF16	14	/* 16-bit offset from GOT.  */
#define R_MN10300_PLT32		15	/* 32-bit PCrel to PLT entry.  */
#define R_MN10300_PLT16		16	/* 16-bit PCrel to PLT entry.  */
#define R_MN10300_GOT32		17	/* 32-bit offset to GOT entry.  */
#define R_MN10300_GOT24		18	/* 24-bit offset to GOT entry.  */
#define R_MN10300_GOT16		19	/* 16-bit offset to GOT entry.  */
#define R_MN10300_COPY		20	/* Copy symbol at runtime.  */
#define R_MN10300_GLOB_DAT	21	/* Create GOT entry.  */
#define R_MN10300_JMP_SLOT	22	/* Create PLT entry.  */
#define R_MN10300_RELATIVE	23	/* Adjust by program base.  */
#define R_MN10300_TLS_GD	24	/* 32-bit offset for global dynamic.  */
#define R_MN10300_TLS_LD	25	/* 32-bit offset for local dynamic.  */
#define R_MN10300_TLS_LDO	26	/* Module-relative offset.  */
#define R_MN10300_TLS_GOTIE	27	/* GOT offset for static TLS block
					   offset.  */
#define R_MN10300_TLS_IE	28	/* GOT address for static TLS block
					   offset.  */
#define R_MN10300_TLS_LE	29	/* Offset relative to static TLS
					   block.  */
#define R_MN10300_TLS_DTPMOD	30	/* ID of module containing symbol.  */
#define R_MN10300_TLS_DTPOFF	31	/* Offset in module TLS block.  */
#define R_MN10300_TLS_TPOFF	32	/* Offset in static TLS block.  */
#define R_MN10300_SYM_DIFF	33	/* Adjustment for next reloc as needed
					   by linker relaxation.  */
#define R_MN10300_ALIGN		34	/* Alignment requirement for linker
					   relaxation.  */
#define R_MN10300_NUM		35


/* M32R relocs.  */
#define R_M32R_NONE		0	/* No reloc. */
#define R_M32R_16		1	/* Direct 16 bit. */
#define R_M32R_32		2	/* Direct 32 bit. */
#define R_M32R_24		3	/* Direct 24 bit. */
#define R_M32R_10_PCREL		4	/* PC relative 10 bit shifted. */
#define R_M32R_18_PCREL		5	/* PC relative 18 bit shifted. */
#define R_M32R_26_PCREL		6	/* PC relative 26 bit shifted. */
#define R_M32R_HI16_ULO		7	/* High 16 bit with unsigned low. */
#define R_M32R_HI16_SLO		8	/* High 16 bit with signed low. */
#define R_M32R_LO16		9	/* Low 16 bit. */
#define R_M32R_SDA16		10	/* 16 bit offset in SDA. */
#define R_M32R_GNU_VTINHERIT	11
#define R_M32R_GNU_VTENTRY	12
/* M32R relocs use SHT_RELA.  */
#define R_M32R_16_RELA		33	/* Direct 16 bit. */
#define R_M32R_32_RELA		34	/* Direct 32 bit. */
#define R_M32R_24_RELA		35	/* Direct 24 bit. */
#define R_M32R_10_PCREL_RELA	36	/* PC relative 10 bit shifted. */
#define R_M32R_18_PCREL_RELA	37	/* PC relative 18 bit shifted. */
#define R_M32R_26_PCREL_RELA	38	/* PC relative 26 bit shifted. */
#define R_M32R_HI16_ULO_RELA	39	/* High 16 bit with unsigned low */
#define R_M32R_HI16_SLO_RELA	40	/* High 16 bit with signed low */
#define R_M32R_LO16_RELA	41	/* Low 16 bit */
#define R_M32R_SDA16_RELA	42	/* 16 bit offset in SDA */
#define R_M32R_RELA_GNU_VTINHERIT	43
#define R_M32R_RELA_GNU_VTENTRY	44
#define R_M32R_REL32		45	/* PC relative 32 bit.  */

#define R_M32R_GOT24		48	/* 24 bit GOT entry */
#define R_M32R_26_PLTREL	49	/* 26 bit PC relative to PLT shifted */
#define R_M32R_COPY		50	/* Copy symbol at runtime */
#define R_M32R_GLOB_DAT		51	/* Create GOT entry */
#define R_M32R_JMP_SLOT		52	/* Create PLT entry */
#define R_M32R_RELATIVE		53	/* Adjust by program base */
#define R_M32R_GOTOFF		54	/* 24 bit offset to GOT */
#define R_M32R_GOTPC24		55	/* 24 bit PC relative offset to GOT */
#define R_M32R_GOT16_HI_ULO	56	/* High 16 bit GOT entry with unsigned
					   low */
#define R_M32R_GOT16_HI_SLO	57	/* High 16 bit GOT entry with signed
					   low */
#define R_M32R_GOT16_LO		58	/* Low 16 bit GOT entry */
#define R_M32R_GOTPC_HI_ULO	59	/* High 16 bit PC relative offset to
					   GOT with unsigned low */
#define R_M32R_GOTPC_HI_SLO	60	/* High 16 bit PC relative offset to
					   GOT with signed low */
#define R_M32R_GOTPC_LO		61	/* Low 16 bit PC relative offset to
					   GOT */
#define R_M32R_GOTOFF_HI_ULO	62	/* High 16 bit offset to GOT
					   with unsigned low */
#define R_M32R_GOTOFF_HI_SLO	63	/* High 16 bit offset to GOT
					   with signed low */
#define R_M32R_GOTOFF_LO	64	/* Low 16 bit offset to GOT */
#define R_M32R_NUM		256	/* Keep this the last entry. */

/* MicroBlaze relocations */
#define R_MICROBLAZE_NONE		0	/* No reloc. */
#define R_MICROBLAZE_32 		1	/* Direct 32 bit. */
#define R_MICROBLAZE_32_PCREL		2	/* PC relative 32 bit. */
#define R_MICROBLAZE_64_PCREL		3	/* PC relative 64 bit. */
#define R_MICROBLAZE_32_PCREL_LO	4	/* Low 16 bits of PCREL32. */
#define R_MICROBLAZE_64 		5	/* Direct 64 bit. */
#define R_MICROBLAZE_32_LO		6	/* Low 16 bit. */
#define R_MICROBLAZE_SRO32		7	/* Read-only small data area. */
#define R_MICROBLAZE_SRW32		8	/* Read-write small data area. */
#define R_MICROBLAZE_64_NONE		9	/* No reloc. */
#define R_MICROBLAZE_32_SYM_OP_SYM	10	/* Symbol Op Symbol relocation. */
#define R_MICROBLAZE_GNU_VTINHERIT	11	/* GNU C++ vtable hierarchy. */
#define R_MICROBLAZE_GNU_VTENTRY	12	/* GNU C++ vtable member usage. */
#define R_MICROBLAZE_GOTPC_64		13	/* PC-relative GOT offset.  */
#define R_MICROBLAZE_GOT_64		14	/* GOT entry offset.  */
#define R_MICROBLAZE_PLT_64		15	/* PLT offset (PC-relative).  */
#define R_MICROBLAZE_REL		16	/* Adjust by program base.  */
#define R_MICROBLAZE_JUMP_SLOT		17	/* Create PLT entry.  */
#define R_MICROBLAZE_GLOB_DAT		18	/* Create GOT entry.  */
#define R_MICROBLAZE_GOTOFF_64		19	/* 64 bit offset to GOT. */
#define R_MICROBLAZE_GOTOFF_32		20	/* 32 bit offset to GOT. */
#define R_MICROBLAZE_COPY		21	/* Runtime copy.  */
#define R_MICROBLAZE_TLS		22	/* TLS Reloc. */
#define R_MICROBLAZE_TLSGD		23	/* TLS General Dynamic. */
#define R_MICROBLAZE_TLSLD		24	/* TLS Local Dynamic. */
#define R_MICROBLAZE_TLSDTPMOD32	25	/* TLS Module ID. */
#define R_MICROBLAZE_TLSDTPREL32	26	/* TLS Offset Within TLS Block. */
#define R_MICROBLAZE_TLSDTPREL64	27	/* TLS Offset Within TLS Block. */
#define R_MICROBLAZE_TLSGOTTPREL32	28	/* TLS Offset From Thread Pointer. */
#define R_MICROBLAZE_TLSTPREL32 	29	/* TLS Offset From Thread Pointer. */

/* Legal values for d_tag (dynamic entry type).  */
#define DT_NIOS2_GP             0x70000002 /* Address of _gp.  */

/* Nios II relocations.  */
#define R_NIOS2_NONE		0	/* No reloc.  */
#define R_NIOS2_S16		1	/* Direct signed 16 bit.  */
#define R_NIOS2_U16		2	/* Direct unsigned 16 bit.  */
#define R_NIOS2_PCREL16		3	/* PC relative 16 bit.  */
#define R_NIOS2_CALL26		4	/* Direct call.  */
#define R_NIOS2_IMM5		5	/* 5 bit constant expression.  */
#define R_NIOS2_CACHE_OPX	6	/* 5 bit expression, shift 22.  */
#define R_NIOS2_IMM6		7	/* 6 bit constant expression.  */
#define R_NIOS2_IMM8		8	/* 8 bit constant expression.  */
#define R_NIOS2_HI16		9	/* High 16 bit.  */
#define R_NIOS2_LO16		10	/* Low 16 bit.  */
#define R_NIOS2_HIADJ16		11	/* High 16 bit, adjusted.  */
#define R_NIOS2_BFD_RELOC_32	12	/* 32 bit symbol value + addend.  */
#define R_NIOS2_BFD_RELOC_16	13	/* 16 bit symbol value + addend.  */
#define R_NIOS2_BFD_RELOC_8	14	/* 8 bit symbol value + addend.  */
#define R_NIOS2_GPREL		15	/* 16 bit GP pointer offset.  */
#define R_NIOS2_GNU_VTINHERIT	16	/* GNU C++ vtable hierarchy.  */
#define R_NIOS2_GNU_VTENTRY	17	/* GNU C++ vtable member usage.  */
#define R_NIOS2_UJMP		18	/* Unconditional branch.  */
#define R_NIOS2_CJMP		19	/* Conditional branch.  */
#define R_NIOS2_CALLR		20	/* Indirect call through register.  */
#define R_NIOS2_ALIGN		21	/* Alignment requirement for
					   linker relaxation.  */
#define R_NIOS2_GOT16		22	/* 16 bit GOT entry.  */
#define R_NIOS2_CALL16		23	/* 16 bit GOT entry for function.  */
#define R_NIOS2_GOTOFF_LO	24	/* %lo of offset to GOT pointer.  */
#define R_NIOS2_GOTOFF_HA	25	/* %hiadj of offset to GOT pointer.  */
#define R_NIOS2_PCREL_LO	26	/* %lo of PC relative offset.  */
#define R_NIOS2_PCREL_HA	27	/* %hiadj of PC relative offset.  */
#define R_NIOS2_TLS_GD16	28	/* 16 bit GOT offset for TLS GD.  */
#define R_NIOS2_TLS_LDM16	29	/* 16 bit GOT offset for TLS LDM.  */
#define R_NIOS2_TLS_LDO16	30	/* 16 bit module relative offset.  */
#define R_NIOS2_TLS_IE16	31	/* 16 bit GOT offset for TLS IE.  */
#define R_NIOS2_TLS_LE16	32	/* 16 bit LE TP-relative offset.  */
#define R_NIOS2_TLS_DTPMOD	33	/* Module number.  */
#define R_NIOS2_TLS_DTPREL	34	/* Module-relative offset.  */
#define R_NIOS2_TLS_TPREL	35	/* TP-relative offset.  */
#define R_NIOS2_COPY		36	/* Copy symbol at runtime.  */
#define R_NIOS2_GLOB_DAT	37	/* Create GOT entry.  */
#define R_NIOS2_JUMP_SLOT	38	/* Create PLT entry.  */
#define R_NIOS2_RELATIVE	39	/* Adjust by program base.  */
#define R_NIOS2_GOTOFF		40	/* 16 bit offset to GOT pointer.  */
#define R_NIOS2_CALL26_NOAT	41	/* Direct call in .noat section.  */
#define R_NIOS2_GOT_LO		42	/* %lo() of GOT entry.  */
#define R_NIOS2_GOT_HA		43	/* %hiadj() of GOT entry.  */
#define R_NIOS2_CALL_LO		44	/* %lo() of function GOT entry.  */
#define R_NIOS2_CALL_HA		45	/* %hiadj() of function GOT entry.  */

/* TILEPro relocations.  */
#define R_TILEPRO_NONE		0	/* No reloc */
#define R_TILEPRO_32		1	/* Direct 32 bit */
#define R_TILEPRO_16		2	/* Direct 16 bit */
#define R_TILEPRO_8		3	/* Direct 8 bit */
#define R_TILEPRO_32_PCREL	4	/* PC relative 32 bit */
#define R_TILEPRO_16_PCREL	5	/* PC relative 16 bit */
#define R_TILEPRO_8_PCREL	6	/* PC relative 8 bit */
#define R_TILEPRO_LO16		7	/* Low 16 bit */
#define R_TILEPRO_HI16		8	/* High 16 bit */
#define R_TILEPRO_HA16		9	/* High 16 bit, adjusted */
#define R_TILEPRO_COPY		10	/* Copy relocation */
#define R_TILEPRO_GLOB_DAT	11	/* Create GOT entry */
#define R_TILEPRO_JMP_SLOT	12	/* Create PLT entry */
#define R_TILEPRO_RELATIVE	13	/* Adjust by program base */
#define R_TILEPRO_BROFF_X1	14	/* X1 pipe branch offset */
#define R_TILEPRO_JOFFLONG_X1	15	/* X1 pipe jump offset */
#define R_TILEPRO_JOFFLONG_X1_PLT 16	/* X1 pipe jump offset to PLT */
#define R_TILEPRO_IMM8_X0	17	/* X0 pipe 8-bit */
#define R_TILEPRO_IMM8_Y0	18	/* Y0 pipe 8-bit */
#define R_TILEPRO_IMM8_X1	19	/* X1 pipe 8-bit */
#define R_TILEPRO_IMM8_Y1	20	/* Y1 pipe 8-bit */
#define R_TILEPRO_MT_IMM15_X1	21	/* X1 pipe mtspr */
#define R_TILEPRO_MF_IMM15_X1	22	/* X1 pipe mfspr */
#define R_TILEPRO_IMM16_X0	23	/* X0 pipe 16-bit */
#define R_TILEPRO_IMM16_X1	24	/* X1 pipe 16-bit */
#define R_TILEPRO_IMM16_X0_LO	25	/* X0 pipe low 16-bit */
#define R_TILEPRO_IMM16_X1_LO	26	/* X1 pipe low 16-bit */
#define R_TILEPRO_IMM16_X0_HI	27	/* X0 pipe high 16-bit */
#define R_TILEPRO_IMM16_X1_HI	28	/* X1 pipe high 16-bit */
#define R_TILEPRO_IMM16_X0_HA	29	/* X0 pipe high 16-bit, adjusted */
#define R_TILEPRO_IMM16_X1_HA	30	/* X1 pipe high 16-bit, adjusted */
#define R_TILEPRO_IMM16_X0_PCREL 31	/* X0 pipe PC relative 16 bit */
#define R_TILEPRO_IMM16_X1_PCREL 32	/* X1 pipe PC relative 16 bit */
#define R_TILEPRO_IMM16_X0_LO_PCREL 33	/* X0 pipe PC relative low 16 bit */
#define R_TILEPRO_IMM16_X1_LO_PCREL 34	/* X1 pipe PC relative low 16 bit */
#define R_TILEPRO_IMM16_X0_HI_PCREL 35	/* X0 pipe PC relative high 16 bit */
#define R_TILEPRO_IMM16_X1_HI_PCREL 36	/* X1 pipe PC relative high 16 bit */
#define R_TILEPRO_IMM16_X0_HA_PCREL 37	/* X0 pipe PC relative ha() 16 bit */
#define R_TILEPRO_IMM16_X1_HA_PCREL 38	/* X1 pipe PC relative ha() 16 bit */
#define R_TILEPRO_IMM16_X0_GOT	39	/* X0 pipe 16-bit GOT offset */
#define R_TILEPRO_IMM16_X1_GOT	40	/* X1 pipe 16-bit GOT offset */
#define R_TILEPRO_IMM16_X0_GOT_LO 41	/* X0 pipe low 16-bit GOT offset */
#define R_TILEPRO_IMM16_X1_GOT_LO 42	/* X1 pipe low 16-bit GOT offset */
#define R_TILEPRO_IMM16_X0_GOT_HI 43	/* X0 pipe high 16-bit GOT offset */
#define R_TILEPRO_IMM16_X1_GOT_HI 44	/* X1 pipe high 16-bit GOT offset */
#define R_TILEPRO_IMM16_X0_GOT_HA 45	/* X0 pipe ha() 16-bit GOT offset */
#define R_TILEPRO_IMM16_X1_GOT_HA 46	/* X1 pipe ha() 16-bit GOT offset */
#define R_TILEPRO_MMSTART_X0	47	/* X0 pipe mm "start" */
#define R_TILEPRO_MMEND_X0	48	/* X0 pipe mm "end" */
#define R_TILEPRO_MMSTART_X1	49	/* X1 pipe mm "start" */
#define R_TILEPRO_MMEND_X1	50	/* X1 pipe mm "end" */
#define R_TILEPRO_SHAMT_X0	51	/* X0 pipe shift amount */
#define R_TILEPRO_SHAMT_X1	52	/* X1 pipe shift amount */
#define R_TILEPRO_SHAMT_Y0	53	/* Y0 pipe shift amount */
#define R_TILEPRO_SHAMT_Y1	54	/* Y1 pipe shift amount */
#define R_TILEPRO_DEST_IMM8_X1	55	/* X1 pipe destination 8-bit */
/* Relocs 56-59 are currently not defined.  */
#define R_TILEPRO_TLS_GD_CALL	60	/* "jal" for TLS GD */
#define R_TILEPRO_IMM8_X0_TLS_GD_ADD 61	/* X0 pipe "addi" for TLS GD */
#define R_TILEPRO_IMM8_X1_TLS_GD_ADD 62	/* X1 pipe "addi" for TLS GD */
#define R_TILEPRO_IMM8_Y0_TLS_GD_ADD 63	/* Y0 pipe "addi" for TLS GD */
#define R_TILEPRO_IMM8_Y1_TLS_GD_ADD 64	/* Y1 pipe "addi" for TLS GD */
#define R_TILEPRO_TLS_IE_LOAD	65	/* "lw_tls" for TLS IE */
#define R_TILEPRO_IMM16_X0_TLS_GD 66	/* X0 pipe 16-bit TLS GD offset */
#define R_TILEPRO_IMM16_X1_TLS_GD 67	/* X1 pipe 16-bit TLS GD offset */
#define R_TILEPRO_IMM16_X0_TLS_GD_LO 68	/* X0 pipe low 16-bit TLS GD offset */
#define R_TILEPRO_IMM16_X1_TLS_GD_LO 69	/* X1 pipe low 16-bit TLS GD offset */
#define R_TILEPRO_IMM16_X0_TLS_GD_HI 70	/* X0 pipe high 16-bit TLS GD offset */
#define R_TILEPRO_IMM16_X1_TLS_GD_HI 71	/* X1 pipe high 16-bit TLS GD offset */
#define R_TILEPRO_IMM16_X0_TLS_GD_HA 72	/* X0 pipe ha() 16-bit TLS GD offset */
#define R_TILEPRO_IMM16_X1_TLS_GD_HA 73	/* X1 pipe ha() 16-bit TLS GD offset */
#define R_TILEPRO_IMM16_X0_TLS_IE 74	/* X0 pipe 16-bit TLS IE offset */
#define R_TILEPRO_IMM16_X1_TLS_IE 75	/* X1 pipe 16-bit TLS IE offset */
#define R_TILEPRO_IMM16_X0_TLS_IE_LO 76	/* X0 pipe low 16-bit TLS IE offset */
#define R_TILEPRO_IMM16_X1_TLS_IE_LO 77	/* X1 pipe low 16-bit TLS IE offset */
#define R_TILEPRO_IMM16_X0_TLS_IE_HI 78	/* X0 pipe high 16-bit TLS IE offset */
#define R_TILEPRO_IMM16_X1_TLS_IE_HI 79	/* X1 pipe high 16-bit TLS IE offset */
#define R_TILEPRO_IMM16_X0_TLS_IE_HA 80	/* X0 pipe ha() 16-bit TLS IE offset */
#define R_TILEPRO_IMM16_X1_TLS_IE_HA 81	/* X1 pipe ha() 16-bit TLS IE offset */
#define R_TILEPRO_TLS_DTPMOD32	82	/* ID of module containing symbol */
#define R_TILEPRO_TLS_DTPOFF32	83	/* Offset in TLS block */
#define R_TILEPRO_TLS_TPOFF32	84	/* Offset in static TLS block */
#define R_TILEPRO_IMM16_X0_TLS_LE 85	/* X0 pipe 16-bit TLS LE offset */
#define R_TILEPRO_IMM16_X1_TLS_LE 86	/* X1 pipe 16-bit TLS LE offset */
#define R_TILEPRO_IMM16_X0_TLS_LE_LO 87	/* X0 pipe low 16-bit TLS LE offset */
#define R_TILEPRO_IMM16_X1_TLS_LE_LO 88	/* X1 pipe low 16-bit TLS LE offset */
#define R_TILEPRO_IMM16_X0_TLS_LE_HI 89	/* X0 pipe high 16-bit TLS LE offset */
#define R_TILEPRO_IMM16_X1_TLS_LE_HI 90	/* X1 pipe high 16-bit TLS LE offset */
#define R_TILEPRO_IMM16_X0_TLS_LE_HA 91	/* X0 pipe ha() 16-bit TLS LE offset */
#define R_TILEPRO_IMM16_X1_TLS_LE_HA 92	/* X1 pipe ha() 16-bit TLS LE offset */

#define R_TILEPRO_GNU_VTINHERIT	128	/* GNU C++ vtable hierarchy */
#define R_TILEPRO_GNU_VTENTRY	129	/* GNU C++ vtable member usage */

#define R_TILEPRO_NUM		130


/* TILE-Gx relocations.  */
#define R_TILEGX_NONE		0	/* No reloc */
#define R_TILEGX_64		1	/* Direct 64 bit */
#define R_TILEGX_32		2	/* Direct 32 bit */
#define R_TILEGX_16		3	/* Direct 16 bit */
#define R_TILEGX_8		4	/* Direct 8 bit */
#define R_TILEGX_64_PCREL	5	/* PC relative 64 bit */
#define R_TILEGX_32_PCREL	6	/* PC relative 32 bit */
#define R_TILEGX_16_PCREL	7	/* PC relative 16 bit */
#define R_TILEGX_8_PCREL	8	/* PC relative 8 bit */
#define R_TILEGX_HW0		9	/* hword 0 16-bit */
#define R_TILEGX_HW1		10	/* hword 1 16-bit */
#define R_TILEGX_HW2		11	/* hword 2 16-bit */
#define R_TILEGX_HW3		12	/* hword 3 16-bit */
#define R_TILEGX_HW0_LAST	13	/* last hword 0 16-bit */
#define R_TILEGX_HW1_LAST	14	/* last hword 1 16-bit */
#define R_TILEGX_HW2_LAST	15	/* last hword 2 16-bit */
#define R_TILEGX_COPY		16	/* Copy relocation */
#define R_TILEGX_GLOB_DAT	17	/* Create GOT entry */
#define R_TILEGX_JMP_SLOT	18	/* Create PLT entry */
#define R_TILEGX_RELATIVE	19	/* Adjust by program base */
#define R_TILEGX_BROFF_X1	20	/* X1 pipe branch offset */
#define R_TILEGX_JUMPOFF_X1	21	/* X1 pipe jump offset */
#define R_TILEGX_JUMPOFF_X1_PLT	22	/* X1 pipe jump offset to PLT */
#define R_TILEGX_IMM8_X0	23	/* X0 pipe 8-bit */
#define R_TILEGX_IMM8_Y0	24	/* Y0 pipe 8-bit */
#define R_TILEGX_IMM8_X1	25	/* X1 pipe 8-bit */
#define R_TILEGX_IMM8_Y1	26	/* Y1 pipe 8-bit */
#define R_TILEGX_DEST_IMM8_X1	27	/* X1 pipe destination 8-bit */
#define R_TILEGX_MT_IMM14_X1	28	/* X1 pipe mtspr */
#define R_TILEGX_MF_IMM14_X1	29	/* X1 pipe mfspr */
#define R_TILEGX_MMSTART_X0	30	/* X0 pipe mm "start" */
#define R_TILEGX_MMEND_X0	31	/* X0 pipe mm "end" */
#define R_TILEGX_SHAMT_X0	32	/* X0 pipe shift amount */
#define R_TILEGX_SHAMT_X1	33	/* X1 pipe shift amount */
#define R_TILEGX_SHAMT_Y0	34	/* Y0 pipe shift amount */
#define R_TILEGX_SHAMT_Y1	35	/* Y1 pipe shift amount */
#define R_TILEGX_IMM16_X0_HW0	36	/* X0 pipe hword 0 */
#define R_TILEGX_IMM16_X1_HW0	37	/* X1 pipe hword 0 */
#define R_TILEGX_IMM16_X0_HW1	38	/* X0 pipe hword 1 */
#define R_TILEGX_IMM16_X1_HW1	39	/* X1 pipe hword 1 */
#define R_TILEGX_IMM16_X0_HW2	40	/* X0 pipe hword 2 */
#define R_TILEGX_IMM16_X1_HW2	41	/* X1 pipe hword 2 */
#define R_TILEGX_IMM16_X0_HW3	42	/* X0 pipe hword 3 */
#define R_TILEGX_IMM16_X1_HW3	43	/* X1 pipe hword 3 */
#define R_TILEGX_IMM16_X0_HW0_LAST 44	/* X0 pipe last hword 0 */
#define R_TILEGX_IMM16_X1_HW0_LAST 45	/* X1 pipe last hword 0 */
#define R_TILEGX_IMM16_X0_HW1_LAST 46	/* X0 pipe last hword 1 */
#define R_TILEGX_IMM16_X1_HW1_LAST 47	/* X1 pipe last hword 1 */
#define R_TILEGX_IMM16_X0_HW2_LAST 48	/* X0 pipe last hword 2 */
#define R_TILEGX_IMM16_X1_HW2_LAST 49	/* X1 pipe last hword 2 */
#define R_TILEGX_IMM16_X0_HW0_PCREL 50	/* X0 pipe PC relative hword 0 */
#define R_TILEGX_IMM16_X1_HW0_PCREL 51	/* X1 pipe PC relative hword 0 */
#define R_TILEGX_IMM16_X0_HW1_PCREL 52	/* X0 pipe PC relative hword 1 */
#define R_TILEGX_IMM16_X1_HW1_PCREL 53	/* X1 pipe PC relative hword 1 */
#define R_TILEGX_IMM16_X0_HW2_PCREL 54	/* X0 pipe PC relative hword 2 */
#define R_TILEGX_IMM16_X1_HW2_PCREL 55	/* X1 pipe PC relative hword 2 */
#define R_TILEGX_IMM16_X0_HW3_PCREL 56	/* X0 pipe PC relative hword 3 */
#define R_TILEGX_IMM16_X1_HW3_PCREL 57	/* X1 pipe PC relative hword 3 */
#define R_TILEGX_IMM16_X0_HW0_LAST_PCREL 58 /* X0 pipe PC-rel last hword 0 */
#define R_TILEGX_IMM16_X1_HW0_LAST_PCREL 59 /* X1 pipe PC-rel last hword 0 */
#define R_TILEGX_IMM16_X0_HW1_LAST_PCREL 60 /* X0 pipe PC-rel last hword 1 */
#define R_TILEGX_IMM16_X1_HW1_LAST_PCREL 61 /* X1 pipe PC-rel last hword 1 */
#define R_TILEGX_IMM16_X0_HW2_LAST_PCREL 62 /* X0 pipe PC-rel last hword 2 */
#define R_TILEGX_IMM16_X1_HW2_LAST_PCREL 63 /* X1 pipe PC-rel last hword 2 */
#define R_TILEGX_IMM16_X0_HW0_GOT 64	/* X0 pipe hword 0 GOT offset */
#define R_TILEGX_IMM16_X1_HW0_GOT 65	/* X1 pipe hword 0 GOT offset */
#define R_TILEGX_IMM16_X0_HW0_PLT_PCREL 66 /* X0 pipe PC-rel PLT hword 0 */
#define R_TILEGX_IMM16_X1_HW0_PLT_PCREL 67 /* X1 pipe PC-rel PLT hword 0 */
#define R_TILEGX_IMM16_X0_HW1_PLT_PCREL 68 /* X0 pipe PC-rel PLT hword 1 */
#define R_TILEGX_IMM16_X1_HW1_PLT_PCREL 69 /* X1 pipe PC-rel PLT hword 1 */
#define R_TILEGX_IMM16_X0_HW2_PLT_PCREL 70 /* X0 pipe PC-rel PLT hword 2 */
#define R_TILEGX_IMM16_X1_HW2_PLT_PCREL 71 /* X1 pipe PC-rel PLT hword 2 */
#define R_TILEGX_IMM16_X0_HW0_LAST_GOT 72 /* X0 pipe last hword 0 GOT offset */
#define R_TILEGX_IMM16_X1_HW0_LAST_GOT 73 /* X1 pipe last hword 0 GOT offset */
#define R_TILEGX_IMM16_X0_HW1_LAST_GOT 74 /* X0 pipe last hword 1 GOT offset */
#define R_TILEGX_IMM16_X1_HW1_LAST_GOT 75 /* X1 pipe last hword 1 GOT offset */
#define R_TILEGX_IMM16_X0_HW3_PLT_PCREL 76 /* X0 pipe PC-rel PLT hword 3 */
#define R_TILEGX_IMM16_X1_HW3_PLT_PCREL 77 /* X1 pipe PC-rel PLT hword 3 */
#define R_TILEGX_IMM16_X0_HW0_TLS_GD 78	/* X0 pipe hword 0 TLS GD offset */
#define R_TILEGX_IMM16_X1_HW0_TLS_GD 79	/* X1 pipe hword 0 TLS GD offset */
#define R_TILEGX_IMM16_X0_HW0_TLS_LE 80	/* X0 pipe hword 0 TLS LE offset */
#define R_TILEGX_IMM16_X1_HW0_TLS_LE 81	/* X1 pipe hword 0 TLS LE offset */
#define R_TILEGX_IMM16_X0_HW0_LAST_TLS_LE 82 /* X0 pipe last hword 0 LE off */
#define R_TILEGX_IMM16_X1_HW0_LAST_TLS_LE 83 /* X1 pipe last hword 0 LE off */
#define R_TILEGX_IMM16_X0_HW1_LAST_TLS_LE 84 /* X0 pipe last hword 1 LE off */
#define R_TILEGX_IMM16_X1_HW1_LAST_TLS_LE 85 /* X1 pipe last hword 1 LE off */
#define R_TILEGX_IMM16_X0_HW0_LAST_TLS_GD 86 /* X0 pipe last hword 0 GD off */
#define R_TILEGX_IMM16_X1_HW0_LAST_TLS_GD 87 /* X1 pipe last hword 0 GD off */
#define R_TILEGX_IMM16_X0_HW1_LAST_TLS_GD 88 /* X0 pipe last hword 1 GD off */
#define R_TILEGX_IMM16_X1_HW1_LAST_TLS_GD 89 /* X1 pipe last hword 1 GD off */
/* Relocs 90-91 are currently not defined.  */
#define R_TILEGX_IMM16_X0_HW0_TLS_IE 92	/* X0 pipe hword 0 TLS IE offset */
#define R_TILEGX_IMM16_X1_HW0_TLS_IE 93	/* X1 pipe hword 0 TLS IE offset */
#define R_TILEGX_IMM16_X0_HW0_LAST_PLT_PCREL 94 /* X0 pipe PC-rel PLT last hword 0 */
#define R_TILEGX_IMM16_X1_HW0_LAST_PLT_PCREL 95 /* X1 pipe PC-rel PLT last hword 0 */
#define R_TILEGX_IMM16_X0_HW1_LAST_PLT_PCREL 96 /* X0 pipe PC-rel PLT last hword 1 */
#define R_TILEGX_IMM16_X1_HW1_LAST_PLT_PCREL 97 /* X1 pipe PC-rel PLT last hword 1 */
#define R_TILEGX_IMM16_X0_HW2_LAST_PLT_PCREL 98 /* X0 pipe PC-rel PLT last hword 2 */
#define R_TILEGX_IMM16_X1_HW2_LAST_PLT_PCREL 99 /* X1 pipe PC-rel PLT last hword 2 */
#define R_TILEGX_IMM16_X0_HW0_LAST_TLS_IE 100 /* X0 pipe last hword 0 IE off */
#define R_TILEGX_IMM16_X1_HW0_LAST_TLS_IE 101 /* X1 pipe last hword 0 IE off */
#define R_TILEGX_IMM16_X0_HW1_LAST_TLS_IE 102 /* X0 pipe last hword 1 IE off */
#define R_TILEGX_IMM16_X1_HW1_LAST_TLS_IE 103 /* X1 pipe last hword 1 IE off */
/* Relocs 104-105 are currently not defined.  */
#define R_TILEGX_TLS_DTPMOD64	106	/* 64-bit ID of symbol's module */
#define R_TILEGX_TLS_DTPOFF64	107	/* 64-bit offset in TLS block */
#define R_TILEGX_TLS_TPOFF64	108	/* 64-bit offset in static TLS block */
#define R_TILEGX_TLS_DTPMOD32	109	/* 32-bit ID of symbol's module */
#define R_TILEGX_TLS_DTPOFF32	110	/* 32-bit offset in TLS block */
#define R_TILEGX_TLS_TPOFF32	111	/* 32-bit offset in static TLS block */
#define R_TILEGX_TLS_GD_CALL	112	/* "jal" for TLS GD */
#define R_TILEGX_IMM8_X0_TLS_GD_ADD 113	/* X0 pipe "addi" for TLS GD */
#define R_TILEGX_IMM8_X1_TLS_GD_ADD 114	/* X1 pipe "addi" for TLS GD */
#define R_TILEGX_IMM8_Y0_TLS_GD_ADD 115	/* Y0 pipe "addi" for TLS GD */
#define R_TILEGX_IMM8_Y1_TLS_GD_ADD 116	/* Y1 pipe "addi" for TLS GD */
#define R_TILEGX_TLS_IE_LOAD	117	/* "ld_tls" for TLS IE */
#define R_TILEGX_IMM8_X0_TLS_ADD 118	/* X0 pipe "addi" for TLS GD/IE */
#define R_TILEGX_IMM8_X1_TLS_ADD 119	/* X1 pipe "addi" for TLS GD/IE */
#define R_TILEGX_IMM8_Y0_TLS_ADD 120	/* Y0 pipe "addi" for TLS GD/IE */
#define R_TILEGX_IMM8_Y1_TLS_ADD 121	/* Y1 pipe "addi" for TLS GD/IE */

#define R_TILEGX_GNU_VTINHERIT	128	/* GNU C++ vtable hierarchy */
#define R_TILEGX_GNU_VTENTRY	129	/* GNU C++ vtable member usage */

#define R_TILEGX_NUM		130

/* RISC-V ELF Flags */
#define EF_RISCV_RVC 			0x0001
#define EF_RISCV_FLOAT_ABI 		0x0006
#define EF_RISCV_FLOAT_ABI_SOFT 	0x0000
#define EF_RISCV_FLOAT_ABI_SINGLE 	0x0002
#define EF_RISCV_FLOAT_ABI_DOUBLE 	0x0004
#define EF_RISCV_FLOAT_ABI_QUAD 	0x0006
#define EF_RISCV_RVE			0x0008
#define EF_RISCV_TSO			0x0010

/* RISC-V relocations.  */
#define R_RISCV_NONE		 0
#define R_RISCV_32		 1
#define R_RISCV_64		 2
#define R_RISCV_RELATIVE	 3
#define R_RISCV_COPY		 4
#define R_RISCV_JUMP_SLOT	 5
#define R_RISCV_TLS_DTPMOD32	 6
#define R_RISCV_TLS_DTPMOD64	 7
#define R_RISCV_TLS_DTPREL32	 8
#define R_RISCV_TLS_DTPREL64	 9
#define R_RISCV_TLS_TPREL32	10
#define R_RISCV_TLS_TPREL64	11
#define R_RISCV_BRANCH		16
#define R_RISCV_JAL		17
#define R_RISCV_CALL		18
#define R_RISCV_CALL_PLT	19
#define R_RISCV_GOT_HI20	20
#define R_RISCV_TLS_GOT_HI20	21
#define R_RISCV_TLS_GD_HI20	22
#define R_RISCV_PCREL_HI20	23
#define R_RISCV_PCREL_LO12_I	24
#define R_RISCV_PCREL_LO12_S	25
#define R_RISCV_HI20		26
#define R_RISCV_LO12_I		27
#define R_RISCV_LO12_S		28
#define R_RISCV_TPREL_HI20	29
#define R_RISCV_TPREL_LO12_I	30
#define R_RISCV_TPREL_LO12_S	31
#define R_RISCV_TPREL_ADD	32
#define R_RISCV_ADD8		33
#define R_RISCV_ADD16		34
#define R_RISCV_ADD32		35
#define R_RISCV_ADD64		36
#define R_RISCV_SUB8		37
#define R_RISCV_SUB16		38
#define R_RISCV_SUB32		39
#define R_RISCV_SUB64		40
#define R_RISCV_GNU_VTINHERIT	41
#define R_RISCV_GNU_VTENTRY	42
#define R_RISCV_ALIGN		43
#define R_RISCV_RVC_BRANCH	44
#define R_RISCV_RVC_JUMP	45
#define R_RISCV_RVC_LUI		46
#define R_RISCV_GPREL_I		47
#define R_RISCV_GPREL_S		48
#define R_RISCV_TPREL_I		49
#define R_RISCV_TPREL_S		50
#define R_RISCV_RELAX		51
#define R_RISCV_SUB6		52
#define R_RISCV_SET6		53
#define R_RISCV_SET8		54
#define R_RISCV_SET16		55
#define R_RISCV_SET32		56
#define R_RISCV_32_PCREL	57
#define R_RISCV_IRELATIVE	58

#define R_RISCV_NUM		59

/* RISC-V specific values for the st_other field.  */
#define STO_RISCV_VARIANT_CC	0x80	/* Function uses variant calling
					   convention */

/* RISC-V specific values for the sh_type field.  */
#define SHT_RISCV_ATTRIBUTES	(SHT_LOPROC + 3)

/* RISC-V specific values for the p_type field.  */
#define PT_RISCV_ATTRIBUTES	(PT_LOPROC + 3)

/* RISC-V specific values for the d_tag field.  */
#define DT_RISCV_VARIANT_CC	(DT_LOPROC + 1)

/* BPF specific declarations.  */

#define R_BPF_NONE		0	/* No reloc */
#define R_BPF_64_64		1
#define R_BPF_64_32		10

/* Imagination Meta specific relocations. */

#define R_METAG_HIADDR16	0
#define R_METAG_LOADDR16	1
#define R_METAG_ADDR32		2	/* 32bit absolute address */
#define R_METAG_NONE		3	/* No reloc */
#define R_METAG_RELBRANCH	4
#define R_METAG_GETSETOFF	5

/* Backward compatibility */
#define R_METAG_REG32OP1	6
#define R_METAG_REG32OP2	7
#define R_METAG_REG32OP3	8
#define R_METAG_REG16OP1	9
#define R_METAG_REG16OP2	10
#define R_METAG_REG16OP3	11
#define R_METAG_REG32OP4	12

#define R_METAG_HIOG		13
#define R_METAG_LOOG		14

#define R_METAG_REL8		15
#define R_METAG_REL16		16

/* GNU */
#define R_METAG_GNU_VTINHERIT	30
#define R_METAG_GNU_VTENTRY	31

/* PIC relocations */
#define R_METAG_HI16_GOTOFF	32
#define R_METAG_LO16_GOTOFF	33
#define R_METAG_GETSET_GOTOFF	34
#define R_METAG_GETSET_GOT	35
#define R_METAG_HI16_GOTPC	36
#define R_METAG_LO16_GOTPC	37
#define R_METAG_HI16_PLT	38
#define R_METAG_LO16_PLT	39
#define R_METAG_RELBRANCH_PLT	40
#define R_METAG_GOTOFF		41
#define R_METAG_PLT		42
#define R_METAG_COPY		43
#define R_METAG_JMP_SLOT	44
#define R_METAG_RELATIVE	45
#define R_METAG_GLOB_DAT	46

/* TLS relocations */
#define R_METAG_TLS_GD		47
#define R_METAG_TLS_LDM		48
#define R_METAG_TLS_LDO_HI16	49
#define R_METAG_TLS_LDO_LO16	50
#define R_METAG_TLS_LDO		51
#define R_METAG_TLS_IE		52
#define R_METAG_TLS_IENONPIC	53
#define R_METAG_TLS_IENONPIC_HI16 54
#define R_METAG_TLS_IENONPIC_LO16 55
#define R_METAG_TLS_TPOFF	56
#define R_METAG_TLS_DTPMOD	57
#define R_METAG_TLS_DTPOFF	58
#define R_METAG_TLS_LE		59
#define R_METAG_TLS_LE_HI16	60
#define R_METAG_TLS_LE_LO16	61

/* NDS32 relocations.  */
#define R_NDS32_NONE		0
#define R_NDS32_32_RELA 	20
#define R_NDS32_COPY		39
#define R_NDS32_GLOB_DAT	40
#define R_NDS32_JMP_SLOT	41
#define R_NDS32_RELATIVE	42
#define R_NDS32_TLS_TPOFF	102
#define R_NDS32_TLS_DESC	119

/* LoongArch ELF Flags */
#define EF_LARCH_ABI_MODIFIER_MASK  0x07
#define EF_LARCH_ABI_SOFT_FLOAT     0x01
#define EF_LARCH_ABI_SINGLE_FLOAT   0x02
#define EF_LARCH_ABI_DOUBLE_FLOAT   0x03
#define EF_LARCH_OBJABI_V1          0x40

/* LoongArch specific dynamic relocations */
#define R_LARCH_NONE		0
#define R_LARCH_32		1
#define R_LARCH_64		2
#define R_LARCH_RELATIVE	3
#define R_LARCH_COPY		4
#define R_LARCH_JUMP_SLOT	5
#define R_LARCH_TLS_DTPMOD32	6
#define R_LARCH_TLS_DTPMOD64	7
#define R_LARCH_TLS_DTPREL32	8
#define R_LARCH_TLS_DTPREL64	9
#define R_LARCH_TLS_TPREL32	10
#define R_LARCH_TLS_TPREL64	11
#define R_LARCH_IRELATIVE	12

/* Reserved for future relocs that the dynamic linker must understand.  */

/* used by the static linker for relocating .text.  */
#define R_LARCH_MARK_LA  20
#define R_LARCH_MARK_PCREL  21
#define R_LARCH_SOP_PUSH_PCREL  22
#define R_LARCH_SOP_PUSH_ABSOLUTE  23
#define R_LARCH_SOP_PUSH_DUP  24
#define R_LARCH_SOP_PUSH_GPREL  25
#define R_LARCH_SOP_PUSH_TLS_TPREL  26
#define R_LARCH_SOP_PUSH_TLS_GOT  27
#define R_LARCH_SOP_PUSH_TLS_GD  28
#define R_LARCH_SOP_PUSH_PLT_PCREL  29
#define R_LARCH_SOP_ASSERT  30
#define R_LARCH_SOP_NOT  31
#define R_LARCH_SOP_SUB  32
#define R_LARCH_SOP_SL  33
#define R_LARCH_SOP_SR  34
#define R_LARCH_SOP_ADD  35
#define R_LARCH_SOP_AND  36
#define R_LARCH_SOP_IF_ELSE  37
#define R_LARCH_SOP_POP_32_S_10_5  38
#define R_LARCH_SOP_POP_32_U_10_12  39
#define R_LARCH_SOP_POP_32_S_10_12  40
#define R_LARCH_SOP_POP_32_S_10_16  41
#define R_LARCH_SOP_POP_32_S_10_16_S2  42
#define R_LARCH_SOP_POP_32_S_5_20  43
#define R_LARCH_SOP_POP_32_S_0_5_10_16_S2  44
#define R_LARCH_SOP_POP_32_S_0_10_10_16_S2  45
#define R_LARCH_SOP_POP_32_U  46

/* used by the static linker for relocating non .text.  */
#define R_LARCH_ADD8  47
#define R_LARCH_ADD16  48
#define R_LARCH_ADD24  49
#define R_LARCH_ADD32  50
#define R_LARCH_ADD64  51
#define R_LARCH_SUB8  52
#define R_LARCH_SUB16  53
#define R_LARCH_SUB24  54
#define R_LARCH_SUB32  55
#define R_LARCH_SUB64  56
#define R_LARCH_GNU_VTINHERIT  57
#define R_LARCH_GNU_VTENTRY  58


/* ARCompact/ARCv2 specific relocs.  */
#define R_ARC_NONE		0x0
#define R_ARC_8			0x1
#define R_ARC_16		0x2
#define R_ARC_24		0x3
#define R_ARC_32		0x4
#define R_ARC_B26		0x5
#define R_ARC_B22_PCREL		0x6
#define R_ARC_H30		0x7
#define R_ARC_N8		0x8
#define R_ARC_N16		0x9
#define R_ARC_N24		0xA
#define R_ARC_N32		0xB
#define R_ARC_SDA		0xC
#define R_ARC_SECTOFF		0xD
#define R_ARC_S21H_PCREL	0xE
#define R_ARC_S21W_PCREL	0xF
#define R_ARC_S25H_PCREL	0x10
#define R_ARC_S25W_PCREL	0x11
#define R_ARC_SDA32		0x12
#define R_ARC_SDA_LDST		0x13
#define R_ARC_SDA_LDST1		0x14
#define R_ARC_SDA_LDST2		0x15
#define R_ARC_SDA16_LD		0x16
#define R_ARC_SDA16_LD1		0x17
#define R_ARC_SDA16_LD2		0x18
#define R_ARC_S13_PCREL		0x19
#define R_ARC_W			0x1A
#define R_ARC_32_ME		0x1B
#define R_ARC_N32_ME		0x1C
#define R_ARC_SECTOFF_ME	0x1D
#define R_ARC_SDA32_ME		0x1E
#define R_ARC_W_ME		0x1F
#define R_ARC_H30_ME		0x20
#define R_ARC_SECTOFF_U8	0x21
#define R_ARC_SECTOFF_S9	0x22
#define R_AC_SECTOFF_U8		0x23
#define R_AC_SECTOFF_U8_1	0x24
#define R_AC_SECTOFF_U8_2	0x25
#define R_AC_SECTOFF_S9		0x26
#define R_AC_SECTOFF_S9_1	0x27
#define R_AC_SECTOFF_S9_2	0x28
#define R_ARC_SECTOFF_ME_1	0x29
#define R_ARC_SECTOFF_ME_2	0x2A
#define R_ARC_SECTOFF_1		0x2B
#define R_ARC_SECTOFF_2		0x2C
#define R_ARC_PC32		0x32
#define R_ARC_GOTPC32		0x33
#define R_ARC_PLT32		0x34
#define R_ARC_COPY		0x35
#define R_ARC_GLOB_DAT		0x36
#define R_ARC_JUMP_SLOT		0x37
#define R_ARC_RELATIVE		0x38
#define R_ARC_GOTOFF		0x39
#define R_ARC_GOTPC		0x3A
#define R_ARC_GOT32		0x3B

#define R_ARC_TLS_DTPMOD	0x42
#define R_ARC_TLS_DTPOFF	0x43
#define R_ARC_TLS_TPOFF		0x44
#define R_ARC_TLS_GD_GOT	0x45
#define R_ARC_TLS_GD_LD	        0x46
#define R_ARC_TLS_GD_CALL	0x47
#define R_ARC_TLS_IE_GOT	0x48
#define R_ARC_TLS_DTPOFF_S9	0x4a
#define R_ARC_TLS_LE_S9		0x4a
#define R_ARC_TLS_LE_32		0x4b

/* OpenRISC 1000 specific relocs.  */
#define R_OR1K_NONE		0
#define R_OR1K_32		1
#define R_OR1K_16		2
#define R_OR1K_8		3
#define R_OR1K_LO_16_IN_INSN	4
#define R_OR1K_HI_16_IN_INSN	5
#define R_OR1K_INSN_REL_26	6
#define R_OR1K_GNU_VTENTRY	7
#define R_OR1K_GNU_VTINHERIT	8
#define R_OR1K_32_PCREL		9
#define R_OR1K_16_PCREL		10
#define R_OR1K_8_PCREL		11
#define R_OR1K_GOTPC_HI16	12
#define R_OR1K_GOTPC_LO16	13
#define R_OR1K_GOT16		14
#define R_OR1K_PLT26		15
#define R_OR1K_GOTOFF_HI16	16
#define R_OR1K_GOTOFF_LO16	17
#define R_OR1K_COPY		18
#define R_OR1K_GLOB_DAT		19
#define R_OR1K_JMP_SLOT		20
#define R_OR1K_RELATIVE		21
#define R_OR1K_TLS_GD_HI16	22
#define R_OR1K_TLS_GD_LO16	23
#define R_OR1K_TLS_LDM_HI16	24
#define R_OR1K_TLS_LDM_LO16	25
#define R_OR1K_TLS_LDO_HI16	26
#define R_OR1K_TLS_LDO_LO16	27
#define R_OR1K_TLS_IE_HI16	28
#define R_OR1K_TLS_IE_LO16	29
#define R_OR1K_TLS_LE_HI16	30
#define R_OR1K_TLS_LE_LO16	31
#define R_OR1K_TLS_TPOFF	32
#define R_OR1K_TLS_DTPOFF	33
#define R_OR1K_TLS_DTPMOD	34

#endif	/* elf.h */
