"""Findings, obligations, known-findings matching, evidence files, exit codes.

Three outcomes per run: PASS (exit 0), VIOLATION (exit 1), ANALYSIS-ERROR (exit 2).
Findings are keyed by rule | construct | instance -- never by line number.
"""
import json
import os
import sys
import time
import re

VERIF = os.path.dirname(os.path.dirname(os.path.abspath(__file__)))


class AnalysisError(Exception):
    """The construct a rule is anchored on was not found, or uses Python the
    engine does not model.  Never a VIOLATION: exit code 2."""

    def __init__(self, rule, construct, why):
        Exception.__init__(self, '%s %s: %s' % (rule, construct, why))
        self.rule = rule
        self.construct = construct
        self.why = why


class Finding(object):
    def __init__(self, rule, construct, instance, msg, line=None, got=None, expected=None):
        self.rule = rule
        self.construct = construct
        self.instance = instance
        self.msg = msg
        self.line = line
        self.got = got
        self.expected = expected

    def key(self):
        return '%s|%s|%s' % (self.rule, self.construct, self.instance)

    def text(self):
        loc = self.construct
        if self.line:
            # construct is "relpath:Qual.name" -> show relpath:line Qual.name
            if ':' in loc:
                f, q = loc.split(':', 1)
                loc = '%s:%s %s' % (f, self.line, q)
            else:
                loc = '%s:%s' % (loc, self.line)
        s = '%s -- %s -- %s -- %s' % (loc, self.rule, self.instance, self.msg)
        if self.got is not None or self.expected is not None:
            s += ' [got: %s; expected: %s]' % (_short(self.got), _short(self.expected))
        return s

    def as_json(self):
        return dict(rule=self.rule, construct=self.construct, instance=self.instance,
                    msg=self.msg, line=self.line, got=_js(self.got), expected=_js(self.expected))


def _short(x, n=300):
    s = x if isinstance(x, str) else repr(x)
    return s if len(s) <= n else s[:n] + '...'


def _js(x):
    try:
        json.dumps(x)
        return x
    except Exception:
        return repr(x)


class Ctx(object):
    """One property run: collects obligations, findings, analysis errors, samples."""

    def __init__(self, prop, tier='quick', root='/repo', seed=0, quiet=False):
        self.prop = prop
        self.tier = tier
        self.root = root
        self.seed = seed
        self.quiet = quiet
        self.findings = []
        self.errors = []           # (rule, construct, why)
        self.rules = {}            # rule -> dict(instances=, failed=, desc=)
        self.samples = []
        self.notes = []            # listed, never failed (unverifiable names etc.)
        self.analysed = {}
        self.assumptions = []
        self.explanation = []
        self.t0 = time.time()
        self._seen_keys = set()
        self.selftest = None

    # -- recording -----------------------------------------------------------
    def rule(self, rule, desc):
        r = self.rules.setdefault(rule, dict(instances=0, failed=0, desc=desc))
        r['desc'] = desc
        return r

    def ob(self, rule, construct, instance, ok, msg='', line=None, got=None, expected=None,
           sample=None):
        """Record one obligation (rule instance); a failed one becomes a finding."""
        r = self.rules.setdefault(rule, dict(instances=0, failed=0, desc=''))
        r['instances'] += 1
        if sample is None:
            sample = '%s %s %s' % (rule, construct, instance)
            if expected is not None:
                sample += ' == %s' % _short(expected, 120)
        if len(self.samples) < 400:
            self.samples.append(sample)
        if not ok:
            r['failed'] += 1
            f = Finding(rule, construct, str(instance), msg or 'rule violated', line, got, expected)
            if f.key() not in self._seen_keys:
                self._seen_keys.add(f.key())
                self.findings.append(f)
        return ok

    def error(self, rule, construct, why):
        self.errors.append((rule, construct, why))

    def note(self, text):
        if len(self.notes) < 2000:
            self.notes.append(text)

    def floor(self, rule, n):
        got = self.rules.get(rule, dict(instances=0))['instances']
        if got < n:
            self.error(rule, 'instance-floor', 'rule matched %d instances, floor confirmed by hand is %d '
                       '(a rule matching too few sites would pass vacuously)' % (got, n))

    def guard(self, rule, construct, fn, *a, **kw):
        """Run one rule body; AnalysisError is recorded, not propagated, so that the
        other rules of the property still report."""
        try:
            return fn(*a, **kw)
        except AnalysisError as e:
            self.error(e.rule or rule, e.construct or construct, e.why)
        except RecursionError:
            self.error(rule, construct, 'recursion limit in analyser')
        except Exception as e:  # engine bug or unmodelled construct: fail closed as analysis error
            import traceback
            tb = traceback.extract_tb(sys.exc_info()[2])
            where = '%s:%d' % (os.path.basename(tb[-1].filename), tb[-1].lineno) if tb else '?'
            self.error(rule, construct, 'analyser exception %s: %s at %s' % (type(e).__name__, e, where))
        return None


def load_known(prop):
    path = os.path.join(VERIF, 'known_findings.json')
    if not os.path.exists(path):
        return [], []
    data = json.load(open(path))
    known = [k for k in data.get('known', []) if k.get('property') == prop]
    fixed = [k for k in data.get('fixed', []) if k.get('property') == prop]
    return known, fixed


def finish(ctx, write_evidence=True):
    """Print the report, write evidence and replay files, return the exit code."""
    known, fixed = load_known(ctx.prop)
    known_keys = dict((k['key'], k) for k in known)
    out = []
    new = []
    listed = []
    for f in ctx.findings:
        if f.key() in known_keys:
            listed.append(f)
        else:
            new.append(f)
    nob = sum(r['instances'] for r in ctx.rules.values())
    nfail = sum(r['failed'] for r in ctx.rules.values())
    out.append('== %s tier=%s root=%s: %d rules, %d obligations, %d failed (%d known), %d analysis errors'
               % (ctx.prop, ctx.tier, ctx.root, len(ctx.rules), nob, nfail, len(listed), len(ctx.errors)))
    for name in sorted(ctx.rules):
        r = ctx.rules[name]
        out.append('   rule %-28s instances=%-5d failed=%-3d %s' % (name, r['instances'], r['failed'], r['desc']))
    for k, v in sorted(ctx.analysed.items()):
        out.append('   analysed %s: %s' % (k, v))
    for f in listed:
        out.append('KNOWN-FINDING: property=%s %s' % (ctx.prop, f.text()))
    stale = [k for k in known_keys if k not in set(f.key() for f in ctx.findings)]
    for k in stale:
        out.append('   note: known finding no longer reported (fixed or code moved): %s' % k)
    code = 0
    replay_dir = os.path.join(VERIF, 'evidence', 'replay')
    if write_evidence and os.path.isdir(replay_dir):
        # replay files describe the violations of *this* run: drop the ones an earlier run of this property left behind
        for fn in os.listdir(replay_dir):
            if fn.startswith(ctx.prop + '-'):
                try:
                    os.remove(os.path.join(replay_dir, fn))
                except OSError:
                    pass
    if ctx.errors:
        code = 2
        for (rule, construct, why) in ctx.errors:
            out.append('ANALYSIS-ERROR property=%s rule=%s %s: %s' % (ctx.prop, rule, construct, why))
    if new:
        # violations dominate: if the analyser both found a violation and failed elsewhere,
        # the violation is still real; report exit 1.
        code = 1
        for f in new:
            path = None
            if write_evidence:
                os.makedirs(replay_dir, exist_ok=True)
                slug = re.sub(r'[^A-Za-z0-9_.-]+', '_', '%s-%s-%s-%s' % (ctx.prop, f.rule, f.construct, f.instance))[:150]
                path = os.path.join(replay_dir, slug + '.json')
                with open(path, 'w') as fp:
                    json.dump(dict(property=ctx.prop, root=ctx.root, **f.as_json()), fp, indent=1)
            out.append('FINDING %s' % f.text())
            out.append('VIOLATION property=%s replay=%s' % (ctx.prop, path or '-'))
    if code == 0:
        out.append('PASS property=%s' % ctx.prop)
    wall = time.time() - ctx.t0
    if write_evidence:
        ev = dict(
            property_id=ctx.prop, tier=ctx.tier, seed=int(ctx.seed), level='other',
            coverage=dict(
                explanation='static analysis of %s/elftools sources (no execution of pyelftools): '
                            % ctx.root + ' '.join(ctx.explanation),
                obligations=nob, discharged=nob - nfail,
                evaluations=max(nob, 1), distinct_nontrivial=max(len(set(ctx.samples)), 0),
                rule='every instance of each listed rule in the current tree is enumerated; an instance is one '
                     '(rule, construct, key) obligation; distinct_nontrivial counts distinct obligation texts '
                     '(capped at the %d samples kept)' % 400,
                rules=[dict(rule=n, description=r['desc'], instances=r['instances'], failed=r['failed'])
                       for n, r in sorted(ctx.rules.items())],
                analysed=ctx.analysed,
                samples=ctx.samples[:60],
                exhaustive=True,
                known_findings=[f.as_json() for f in listed],
                new_findings=[f.as_json() for f in new],
                analysis_errors=['%s %s: %s' % e for e in ctx.errors],
                notes=ctx.notes[:200],
                selftest=ctx.selftest,
                trusted_base=['CPython ast module', 'canonicalising front-end sa/canon.py + sa/inline.py with the reference table spec/locals.json (DESIGN.md 8.1, 8.7, 8.8)',
                              'vendored registries under /verif/registry',
                              'hand-transcribed specification rows under /verif/spec'],
                checker_cmd='./check %s --tier %s' % (ctx.prop, ctx.tier),
            ),
            assumptions=ctx.assumptions,
            wall_s=round(wall, 3),
            violations=len(new),
        )
        os.makedirs(os.path.join(VERIF, 'evidence'), exist_ok=True)
        with open(os.path.join(VERIF, 'evidence', ctx.prop + '.json'), 'w') as fp:
            json.dump(ev, fp, indent=1, sort_keys=True)
    if not ctx.quiet:
        print('\n'.join(out))
        sys.stdout.flush()
    return code
