"""Engine D: layout IR derived from the construct Nodes the abstract interpreter builds.

to_ir(Node)            -> nested tuples (kind, ...)
flatten(ir, case, ..)  -> list of (name, atom) stream-consuming fields for one case split
L-PRIM                 -> width/sign/endianness of the integer macros, read from construct/macros.py
"""
import ast
import re
from .absint import Node, Ctor, Unknown, FuncV, Obj, Sym, Env
from .report import AnalysisError

FMT = {'B': (1, False), 'b': (1, True), 'H': (2, False), 'h': (2, True), 'L': (4, False), 'l': (4, True),
       'Q': (8, False), 'q': (8, True), 'I': (4, False), 'i': (4, True)}


class CtxV(object):
    """Parsed-context stand-in for evaluating field predicates under a case split."""

    def __init__(self, d):
        self.d = d


def prim_table(world, ctx=None):
    """Read construct/macros.py: macro name -> (size, signed, endian char).  Emits the L-PRIM
    obligations (name promise == FormatField literals) when ctx is given."""
    tree = world.model.tree('construct/macros.py')
    out = {}
    for st in tree.body:
        if isinstance(st, ast.FunctionDef):
            m = re.match(r'^([US])([BLN])Int(8|16|32|64)$', st.name)
            rets = [n for n in ast.walk(st) if isinstance(n, ast.Return)]
            if len(rets) != 1 or not isinstance(rets[0].value, ast.Call):
                continue
            call = rets[0].value
            if not (isinstance(call.func, ast.Name) and call.func.id == 'FormatField'):
                continue
            args = call.args
            if len(args) != 3 or not all(isinstance(a, ast.Constant) for a in args[1:]):
                if m:
                    raise AnalysisError('L-PRIM', 'construct/macros.py:' + st.name, 'FormatField arguments not literal')
                continue
            if not (isinstance(args[0], ast.Name) and st.args.args and args[0].id == st.args.args[0].arg):
                if m:
                    raise AnalysisError('L-PRIM', 'construct/macros.py:' + st.name, 'name argument not forwarded')
            endian, fmt = args[1].value, args[2].value
            if fmt not in FMT:
                continue
            size, signed = FMT[fmt]
            out[st.name] = (size, signed, endian)
            if m and ctx is not None:
                exp = (int(m.group(3)) // 8, m.group(1) == 'S', {'B': '>', 'L': '<', 'N': '='}[m.group(2)])
                ctx.ob('L-PRIM', 'construct/macros.py:' + st.name, 'format', (size, signed, endian) == exp,
                       msg='integer macro does not decode what its name promises',
                       got=(size, signed, endian), expected=exp, line=st.lineno,
                       sample='%s -> FormatField(%r,%r) == %s' % (st.name, endian, fmt, exp))
    return out


def check_formatfield(world, ctx):
    """FormatField reads exactly packer.size bytes and _read_stream raises FieldError on a short read."""
    m = world.model
    f = m.func('construct/core.py', 'FormatField._parse')
    src = ast.unparse(f.node)
    ok = '_read_stream(stream, self.length)' in src.replace(' ', '').replace('self.length', 'self.length') or \
        re.search(r'_read_stream\(\s*stream\s*,\s*self\.length\s*\)', src) is not None
    ctx.ob('L-PRIM', 'construct/core.py:FormatField._parse', 'reads self.length bytes', bool(ok),
           msg='FormatField._parse no longer reads exactly self.length bytes through _read_stream', line=f.node.lineno)
    # every returning path hands back what the struct packer makes of exactly those bytes: the format character carries width *and*
    # signedness, so a path that indexes the bytes itself (data[0]) decodes every signed field of that width as unsigned
    from . import expr as _e
    env0 = _e.FEnv(f.node, params=('stream', 'context'), inline=True)
    rows = _e.return_rows(f.node, env0)
    want = _e.nfs(ast.parse('self.packer.unpack(_read_stream(stream, self.length))[0]', mode='eval').body, env0)
    vals = sorted(set(v for c, v in rows))
    ctx.ob('L-PRIM', 'construct/core.py:FormatField._parse', 'every returning path returns packer.unpack(bytes read)[0]', vals == [want], got=vals, expected=[want],
           msg='a decoding path of the fixed-width integer fields bypasses the struct packer, which is what knows the signedness and byte order', line=f.node.lineno)
    init = m.func('construct/core.py', 'FormatField.__init__')
    isrc = ast.unparse(init.node)
    ok2 = re.search(r'StaticField\.__init__\(\s*self\s*,\s*name\s*,\s*self\.packer\.size\s*\)', isrc) is not None
    ctx.ob('L-PRIM', 'construct/core.py:FormatField.__init__', 'length = packer.size', ok2,
           msg='FormatField length is not the struct packer size', line=init.node.lineno)
    ok3 = re.search(r'Packer\(\s*endianity\s*\+\s*format\s*\)', isrc) is not None
    ctx.ob('L-PRIM', 'construct/core.py:FormatField.__init__', 'packer = endianity+format', ok3,
           msg='FormatField packer is not built from endianity+format', line=init.node.lineno)
    rs = None
    for (mod, q), fi in m.funcs.items():
        if mod == 'elftools/construct/core.py' and q == '_read_stream':
            rs = fi
    if rs is None:
        raise AnalysisError('L-PRIM', 'construct/core.py:_read_stream', 'not found')
    # structure: data = stream.read(length); if len(data) != length: raise FieldError
    from . import paths as _paths, expr as _expr
    _env = _expr.FEnv(rs.node, inline=False)
    short = [p for p in _paths.func_paths(rs.node) if p.end[0] == 'raise' and
             _expr.Facts(_expr.CP(_expr.cond_str(t, _env), pol) for t, pol in p.conds()).get(_expr.spec_cond('len(data) != length')) is True]
    full = [p for p in _paths.func_paths(rs.node) if p.end[0] == 'return' and
            _expr.Facts(_expr.CP(_expr.cond_str(t, _env), pol) for t, pol in p.conds()).get(_expr.spec_cond('len(data) != length')) is not False]
    has_check = len(short) >= 1 and all(p.end[1] is not None and 'FieldError' in ast.unparse(p.end[1]) for p in short) and not full
    ctx.ob('L-PRIM', 'construct/core.py:_read_stream', 'short read raises FieldError', has_check,
           msg='_read_stream does not raise FieldError when fewer bytes than requested are read', line=rs.node.lineno)


# ---------------------------------------------------------------------------------------------

def _name_arg(n, idx=0):
    if len(n.args) > idx and isinstance(n.args[idx], (str, type(None))):
        return n.args[idx]
    return n.kwargs.get('name')


class IRBuilder(object):
    def __init__(self, world):
        self.world = world
        self.prims = prim_table(world)

    def to_ir(self, v):
        if v is None:
            return ('none',)
        if isinstance(v, Ctor):
            # an un-named constructor used as a value, e.g. Elf_uleb128 = ULEB128
            return ('ctor', v.kind)
        if isinstance(v, Unknown):
            raise AnalysisError('D-IR', '?', 'layout contains an Unknown value: %s' % v.why)
        if not isinstance(v, Node):
            return ('const', v if isinstance(v, (int, str, bytes, bool)) else repr(v))
        k = v.kind
        a = v.args
        kw = v.kwargs
        if k in self.prims:
            size, signed, endian = self.prims[k]
            return ('int', _name_arg(v), size, signed, endian)
        if k == 'ULEB128':
            return ('uleb', _name_arg(v))
        if k == 'SLEB128':
            return ('sleb', _name_arg(v))
        if k in ('ULInt24', 'UBInt24'):
            return ('int24', _name_arg(v), '<' if k == 'ULInt24' else '>')
        if k == 'CString':
            return ('cstr', _name_arg(v))
        if k in ('String', 'Field', 'StaticField'):
            ln = a[1] if len(a) > 1 else kw.get('length')
            return ('bytes', _name_arg(v), self.lenexpr(ln))
        if k == 'Padding':
            ln = a[0] if a else kw.get('length')
            return ('pad', self.lenexpr(ln))
        if k == 'Struct':
            return ('struct', _name_arg(v), tuple(self.to_ir(x) for x in a[1:]))
        if k == 'BitStruct':
            return ('bitstruct', _name_arg(v), tuple(self.to_ir(x) for x in a[1:]))
        if k == 'BitField':
            return ('bits', _name_arg(v), a[1] if len(a) > 1 else kw.get('length'),
                    bool(kw.get('swapped', a[2] if len(a) > 2 else False)),
                    bool(kw.get('signed', a[3] if len(a) > 3 else False)))
        if k == 'Enum':
            table = dict((kk, vv) for kk, vv in kw.items() if isinstance(kk, str))
            default = table.pop('_default_', None)
            return ('enum', self.to_ir(a[0]), table, default)
        if k == 'Array':
            return ('array', self.lenexpr(a[0]), self.to_ir(a[1]))
        if k == 'PrefixedArray':
            sub = a[0] if a else kw.get('subcon')
            lf = a[1] if len(a) > 1 else kw.get('length_field')
            if lf is None:
                lf = Node('UBInt8', ['length'], {})
            return ('prefixed', self.to_ir(lf), self.to_ir(sub))
        if k == 'RepeatUntilExcluding':
            return ('repeat_until', self.fn(a[0]), self.to_ir(a[1]))
        if k == 'If':
            pred, sub = a[0], a[1]
            els = a[2] if len(a) > 2 else kw.get('elsevalue')
            return ('if', pred, self.to_ir(sub), els if not isinstance(els, Node) else 'node')
        if k == 'IfThenElse':
            return ('ifelse', a[0], a[1], self.to_ir(a[2]), self.to_ir(a[3]))
        if k == 'Switch':
            cases = a[2] if len(a) > 2 else kw.get('cases')
            if not isinstance(cases, dict):
                raise AnalysisError('D-IR', str(v.site), 'Switch cases not a dict')
            default = kw.get('default', a[3] if len(a) > 3 else None)
            return ('switch', a[0], a[1], dict((ck, self.to_ir(cv)) for ck, cv in cases.items()),
                    self.to_ir(default) if default is not None else None)
        if k in ('Embed', 'Embedded'):
            return ('embed', self.to_ir(a[0]))
        if k == 'Rename':
            return ('rename', a[0], self.to_ir(a[1]))
        if k == 'Value':
            return ('value', a[0], self.fn(a[1]))
        if k == 'StreamOffset':
            return ('offset', _name_arg(v))
        if k == '_InitialLengthAdapter':
            return ('initlen', self.to_ir(a[0]))
        return ('opaque', k, tuple(repr(x) for x in a))

    def lenexpr(self, v):
        if isinstance(v, int):
            return v
        if isinstance(v, FuncV):
            return self.fn(v)
        return ('?', repr(v))

    def fn(self, f):
        if isinstance(f, FuncV):
            body = f.node.body
            if isinstance(body, list):
                return ('fn', f.name, f)
            return ('fn', ast.unparse(body), f)
        return ('fn?', repr(f))


def eval_pred(world, fnv, case):
    """Evaluate a field predicate (lambda ctx: ...) under a case split; returns bool or raises."""
    interp = world.interp
    if isinstance(fnv, tuple) and fnv and fnv[0] == 'fn':
        fnv = fnv[2]
    if not isinstance(fnv, FuncV):
        raise AnalysisError('D-IR', '?', 'predicate is not a function: %r' % (fnv,))
    r = interp.call_func(fnv, [CtxV(case)], {}, None)
    if isinstance(r, Unknown):
        raise AnalysisError('D-IR', '%s:%d' % (fnv.mod, fnv.node.lineno),
                            'predicate %s not decidable under case %r (%s)' % (
                                ast.unparse(fnv.node.body) if not isinstance(fnv.node.body, list) else fnv.name,
                                case, r.why))
    return r


def atom_str(ir):
    k = ir[0]
    if k == 'int':
        return '%s%d%s' % ('s' if ir[3] else 'u', ir[2] * 8, ir[4])
    if k == 'uleb':
        return 'uleb'
    if k == 'sleb':
        return 'sleb'
    if k == 'int24':
        return 'u24' + ir[2]
    if k == 'cstr':
        return 'cstr'
    return k


def flatten(world, ir, case=None, prefix=''):
    """-> list of (name, atom) of stream-consuming (or offset-capturing) leaves, resolving
    If/IfThenElse/Switch through `case` (dict of already-parsed field values)."""
    case = case if case is not None else {}
    out = []
    k = ir[0]
    if k in ('int', 'uleb', 'sleb', 'int24', 'cstr'):
        out.append((ir[1], atom_str(ir)))
    elif k == 'bytes':
        out.append((ir[1], 'bytes:%s' % _len_str(ir[2])))
    elif k == 'pad':
        out.append((None, 'pad:%s' % _len_str(ir[1])))
    elif k == 'enum':
        sub = flatten(world, ir[1], case, prefix)
        out.extend(sub)
    elif k == 'struct':
        for f in ir[2]:
            out.extend(flatten(world, f, case, prefix))
    elif k == 'bitstruct':
        bits = 0
        for f in ir[2]:
            g = f[1] if f[0] == 'enum' else f
            if g[0] == 'bits':
                bits += g[2]
            elif g[0] == 'pad':
                bits += g[1]
            else:
                raise AnalysisError('D-IR', str(ir[1]), 'bit struct member kind %s' % g[0])
        if bits % 8:
            raise AnalysisError('D-IR', str(ir[1]), 'bit struct of %d bits' % bits)
        out.append((ir[1], 'bits%d' % bits))
    elif k == 'array':
        sub = flatten(world, ir[2], case, prefix)
        out.append((sub[0][0] if len(sub) == 1 else None,
                    'array[%s]{%s}' % (_len_str(ir[1]), ','.join(('%s:%s' % (n, a)) if n else a for n, a in sub))))
    elif k == 'prefixed':
        lf = flatten(world, ir[1], case, prefix)
        sub = flatten(world, ir[2], case, prefix)
        out.append((sub[0][0] if len(sub) == 1 else None,
                    'prefixed[%s]{%s}' % (lf[0][1], ','.join('%s' % (a,) for n, a in sub))))
    elif k == 'repeat_until':
        sub = flatten(world, ir[2], dict(case), prefix)
        out.append((None, 'repeat_until[%s]{%s}' % (ir[1][1], ','.join('%s:%s' % (n, a) for n, a in sub))))
    elif k == 'if':
        t = eval_pred(world, ir[1], case)
        if t:
            out.extend(flatten(world, ir[2], case, prefix))
    elif k == 'ifelse':
        t = eval_pred(world, ir[2], case)
        sub = flatten(world, ir[3] if t else ir[4], case, prefix)
        if ir[1]:
            # IfThenElse(name, ...) names the chosen sub-construct's value
            sub = [(ir[1] if not n else n, a) for n, a in sub]
        out.extend(sub)
    elif k == 'switch':
        key = eval_pred(world, ir[2], case)
        cases = ir[3]
        if key in cases:
            out.extend(flatten(world, cases[key], case, prefix))
        elif ir[4] is not None:
            out.extend(flatten(world, ir[4], case, prefix))
        else:
            out.append((None, 'switch-error'))
    elif k in ('embed',):
        out.extend(flatten(world, ir[1], case, prefix))
    elif k == 'rename':
        sub = flatten(world, ir[2], case, prefix)
        out.extend([(ir[1], a) for n, a in sub][:1] + sub[1:])
    elif k == 'value':
        pass
    elif k == 'offset':
        out.append((ir[1], 'offset'))
    elif k == 'initlen':
        st = ir[1]
        out.append((st[1] if st[0] == 'struct' else None, 'initlen'))
    elif k == 'opaque':
        out.append((None, 'opaque:%s' % ir[1]))
    elif k in ('none', 'const', 'ctor'):
        pass
    else:
        raise AnalysisError('D-IR', '?', 'flatten: kind %s' % k)
    return out


def _len_str(x):
    if isinstance(x, int):
        return str(x)
    if isinstance(x, tuple) and x and x[0] == 'fn':
        tab = _len_table(x[1])
        return tab if tab is not None else re.sub(r'\s+', '', x[1])
    return '?'


def _len_table(text):
    """A length that is a pure arithmetic function of the length of one earlier string field (ctx.<field>) is written as its value
    table over lengths 0..11 -- '@filename:3,2,1,0,3,2,...' -- so that any spelling of the same function compares equal and a
    different function does not.  Evaluated by the analyser's own restricted evaluator (arithmetic, len, ctx.<name> only)."""
    import ast as _ast
    try:
        e = _ast.parse(text.strip(), mode='eval').body
    except SyntaxError:
        return None
    fields = set()
    for n in _ast.walk(e):
        if isinstance(n, _ast.Attribute) and isinstance(n.value, _ast.Name) and n.value.id == 'ctx':
            fields.add(n.attr)
        elif isinstance(n, _ast.Subscript) and isinstance(n.value, _ast.Name) and n.value.id == 'ctx' and isinstance(n.slice, _ast.Constant):
            fields.add(n.slice.value)
        elif isinstance(n, _ast.Call):
            if not (isinstance(n.func, _ast.Name) and n.func.id == 'len' and len(n.args) == 1):
                return None
        elif not isinstance(n, (_ast.BinOp, _ast.UnaryOp, _ast.Constant, _ast.Name, _ast.Load, _ast.operator, _ast.unaryop, _ast.Expression)):
            return None
    if len(fields) != 1 or not any(isinstance(n, _ast.Call) for n in _ast.walk(e)):
        return None         # counts read straight from an integer field (array lengths) stay symbolic
    fld = list(fields)[0]

    class C(dict):
        __getattr__ = dict.__getitem__
    vals = []
    for n in range(12):
        try:
            vals.append(str(eval(compile(_ast.Expression(body=e), '<len>', 'eval'), {'__builtins__': {}, 'len': len}, {'ctx': C({fld: 'x' * n})})))
        except Exception:
            return None
    return '@%s:%s' % (fld, ','.join(vals))


def find_fields(ir, acc=None):
    """All named leaf/enum nodes of an IR, regardless of case (for L-ENUM and G-FLD)."""
    acc = acc if acc is not None else []
    k = ir[0]
    if k in ('int', 'uleb', 'sleb', 'int24', 'cstr', 'bytes', 'offset', 'bits'):
        acc.append((ir[1], ir))
    elif k == 'enum':
        sub = ir[1]
        acc.append((sub[1] if len(sub) > 1 else None, ir))
    elif k in ('struct', 'bitstruct'):
        acc.append((ir[1], ir))
        for f in ir[2]:
            find_fields(f, acc)
    elif k in ('array', 'prefixed', 'repeat_until'):
        find_fields(ir[2], acc)
    elif k == 'if':
        find_fields(ir[2], acc)
    elif k == 'ifelse':
        find_fields(ir[3], acc)
        find_fields(ir[4], acc)
    elif k == 'switch':
        for c in ir[3].values():
            find_fields(c, acc)
        if ir[4] is not None:
            find_fields(ir[4], acc)
    elif k in ('embed',):
        find_fields(ir[1], acc)
    elif k == 'rename':
        acc.append((ir[1], ir[2]))
    elif k == 'value':
        acc.append((ir[1], ir))
    elif k == 'initlen':
        st = ir[1]
        acc.append((st[1] if st[0] == 'struct' else None, ir))
    return acc


def field_names(ir):
    return set(n for n, _ in find_fields(ir) if n)


# -- struct factories -----------------------------------------------------------------------

def build_elf_structs(world, little_endian, elfclass, e_type=None, e_machine=None, osabi=None):
    interp = world.interp
    cv = interp.class_value(world.model.cls('ELFStructs'))
    obj = interp.instantiate(cv, [], dict(little_endian=little_endian, elfclass=elfclass), None)
    if not isinstance(obj, Obj):
        raise AnalysisError('D-BUILD', 'elf/structs.py:ELFStructs', 'constructor did not yield an object')
    for name, args in (('create_basic_structs', []), ('create_advanced_structs', [e_type, e_machine, osabi])):
        f = interp.getattr(obj, name)
        if not isinstance(f, FuncV):
            raise AnalysisError('D-BUILD', 'elf/structs.py:ELFStructs.' + name, 'method not found')
        interp.call_func(f, args, {}, None)
    return obj


def build_dwarf_structs(world, little_endian, dwarf_format, address_size, dwarf_version):
    interp = world.interp
    cv = interp.class_value(world.model.cls('DWARFStructs'))
    obj = interp.instantiate(cv, [], dict(little_endian=little_endian, dwarf_format=dwarf_format,
                                          address_size=address_size, dwarf_version=dwarf_version), None)
    if not isinstance(obj, Obj):
        raise AnalysisError('D-BUILD', 'dwarf/structs.py:DWARFStructs', 'constructor did not yield an object')
    return obj


def struct_attr(world, obj, name):
    v = obj.attrs.get(name)
    if v is None or isinstance(v, Unknown):
        raise AnalysisError('D-BUILD', '%s.%s' % (obj.cls.ci.name, name), 'struct attribute missing or Unknown')
    return v
