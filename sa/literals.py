"""Rules G-LIT (enum-literal membership), G-FLD (field-literal membership), G-ARCH."""
import ast
import re
from .report import AnalysisError

FAMILY = re.compile(r'^(SHT_|PT_|DT_|EM_|ET_|NT_|STT_|STB_|STV_|SHN_|ELFCOMPRESS_|ELFOSABI_|ELFCLASS|ELFDATA|'
                    r'GNU_PROPERTY_|TAG_|R_[A-Za-z0-9]+_|DW_TAG_|DW_AT_|DW_FORM_|DW_OP_|DW_CFA_|DW_LLE_|DW_RLE_|'
                    r'DW_UT_|DW_LNCT_|DW_CHILDREN_|DW_EH_PE_|DW_LNS_|DW_LNE_|DW_ATE_|DW_LANG_|VER_NDX_|SYMINFO_BT_|'
                    r'ELF_NOTE_OS_)[A-Za-z0-9_]*$')


def _docstring_nodes(tree):
    out = set()
    for n in ast.walk(tree):
        if isinstance(n, (ast.Module, ast.FunctionDef, ast.ClassDef, ast.AsyncFunctionDef)):
            if n.body and isinstance(n.body[0], ast.Expr) and isinstance(n.body[0].value, ast.Constant):
                out.add(id(n.body[0].value))
    return out


def glit(ctx, world, mods, rule='G-LIT', skip_tables=True, only=None):
    """Every enum-family string literal in the given modules names something a table defines."""
    names = world.all_enum_names()
    count = 0
    for mod in mods:
        tree = world.model.tree(mod)
        doc = _docstring_nodes(tree)
        parents = {}
        for n in ast.walk(tree):
            for c in ast.iter_child_nodes(n):
                parents[id(c)] = n
        # enclosing function names for constructs
        for n in ast.walk(tree):
            if not (isinstance(n, ast.Constant) and isinstance(n.value, str)):
                continue
            if id(n) in doc or not FAMILY.match(n.value):
                continue
            par = parents.get(id(n))
            # messages: operands of % formatting on the left, raise arguments, f-strings
            if isinstance(par, ast.JoinedStr):
                continue
            # definitions of the tables themselves (dict(...) keyword names are not Constants) and
            # description-table keys are not comparisons
            if skip_tables and isinstance(par, ast.Dict) and _is_module_level_table(par, parents):
                continue
            lit = n.value
            ok = lit in names
            prefix_pos = False
            if not ok:
                # prefix position: startswith(lit), lit + ..., lit % ...
                if isinstance(par, ast.Call) and isinstance(par.func, ast.Attribute) and par.func.attr in ('startswith', 'lstrip', 'replace', 'removeprefix'):
                    prefix_pos = True
                elif isinstance(par, ast.BinOp):
                    prefix_pos = True
                elif isinstance(par, ast.Tuple) and isinstance(parents.get(id(par)), ast.Call) and \
                        isinstance(parents[id(par)].func, ast.Attribute) and parents[id(par)].func.attr == 'startswith':
                    prefix_pos = True
                elif lit.endswith('_') or lit.endswith('*'):
                    prefix_pos = True
                if prefix_pos:
                    stem = lit.rstrip('*')
                    ok = any(k.startswith(stem) for k in names)
            fn = _enclosing(parents, n)
            if only is not None and mod in only and not any(fn.startswith(x) for x in only[mod]):
                continue
            if prefix_pos and not ok:
                # a prefix no table name extends selects nothing today and changes no result: listed only
                ctx.note('%s %s: prefix literal %r matches no defined name (listed)' % (mod, fn, lit))
                continue
            count += 1
            ctx.ob(rule, '%s:%s' % (mod, fn), lit, ok,
                   msg='literal is compared with / looked up among values of an enumerated field but no table '
                       'defines this name: the branch or set element is dead for every input',
                   got=lit, expected='a name defined by the enum tables', line=n.lineno,
                   sample='%s %s: %r is a defined name' % (mod, fn, lit))
    return count


def _is_module_level_table(d, parents):
    p = parents.get(id(d))
    hops = 0
    while p is not None and hops < 4:
        if isinstance(p, (ast.FunctionDef, ast.AsyncFunctionDef, ast.Lambda)):
            return False
        if isinstance(p, ast.Module):
            return True
        p = parents.get(id(p))
        hops += 1
    return p is None or isinstance(p, ast.Module)


def _enclosing(parents, n):
    names = []
    p = parents.get(id(n))
    while p is not None:
        if isinstance(p, (ast.FunctionDef, ast.AsyncFunctionDef, ast.ClassDef)):
            names.append(p.name)
        p = parents.get(id(p))
    return '.'.join(reversed(names)) or '<module>'


FIELD_FAMILY = re.compile(r'^(e_|sh_|p_|st_|r_|d_|n_|ch_|vd_|vda_|vn_|vna_|si_|pr_|abi_|EI_)[A-Za-z0-9_]+$')
# keys the code itself adds to parsed containers
SYNTHETIC_FIELDS = {'n_offset', 'n_name', 'n_desc', 'n_descdata', 'n_size', 'r_info_sym', 'r_info_type'}


def gfld(ctx, world, mods, known_fields, rule='G-FLD'):
    """Every struct-family field literal used as a subscript names a field some layout defines."""
    count = 0
    for mod in mods:
        tree = world.model.tree(mod)
        parents = {}
        for n in ast.walk(tree):
            for c in ast.iter_child_nodes(n):
                parents[id(c)] = n
        for n in ast.walk(tree):
            if isinstance(n, ast.Subscript) and isinstance(n.slice, ast.Constant) and isinstance(n.slice.value, str):
                f = n.slice.value
                if not FIELD_FAMILY.match(f):
                    continue
                if isinstance(n.ctx, ast.Store):
                    continue
                ok = f in known_fields or f in SYNTHETIC_FIELDS
                count += 1
                ctx.ob(rule, '%s:%s' % (mod, _enclosing(parents, n)), f, ok,
                       msg='subscript names a field no parsed structure defines (KeyError for every input)',
                       got=f, expected='a field of an ELF structure', line=n.lineno,
                       sample='%s: field %s is defined by a layout' % (mod, f))
    return count


def all_elf_fields(world):
    from . import elfconf, layout
    fields = set()
    for cls in (32, 64):
        for mach in ('EM_386', 'EM_MIPS'):
            for et in ('ET_EXEC', 'ET_CORE'):
                st = elfconf.structs_for(world, True, cls, e_type=et, machine=mach)
                for k, v in st.attrs.items():
                    from .absint import Node
                    if isinstance(v, Node):
                        try:
                            fields |= layout.field_names(elfconf.irb(world).to_ir(v))
                        except AnalysisError:
                            pass
    return fields
