"""Shared DWARF-structure rules: L-CONF for DWARFStructs layouts over (byte order, format, address size, version)."""
import re
from . import layout
from .report import AnalysisError
from .elfconf import compare_rows, irb

CONFIGS_QUICK = [(le, fmt, asz, ver) for le in (True, False) for fmt in (32, 64) for asz in (4, 8) for ver in (2, 3, 4, 5)]


def structs_for(world, le, fmt, asz, ver):
    cache = world.__dict__.setdefault('_dwarf_structs', {})
    key = (le, fmt, asz, ver)
    if key not in cache:
        cache[key] = layout.build_dwarf_structs(world, le, fmt, asz, ver)
    return cache[key]


def resolve(rows, le, fmt, asz, ver=None):
    e = '<' if le else '>'
    m = {'off': 'u%d' % fmt, 'addr': 'u%d' % (asz * 8)}
    if ver is not None:
        m['ref_addr'] = m['addr'] if ver == 2 else m['off']

    def one(tok):
        t = tok.group(0)
        t = m.get(t, t)
        if re.match(r'^[us]\d+$', t):
            return t + e
        return t
    out = []
    for n, a in rows:
        if a.startswith(('array[', 'prefixed[', 'repeat_until[')):
            head, body = a.split('{', 1)
            hm = re.match(r'^(\w+\[)(.*)(\])$', head)
            if hm and a.startswith('prefixed['):
                head = hm.group(1) + re.sub(r'^[a-z_]+\d*$', one, hm.group(2)) + hm.group(3)
            body = re.sub(r'(?<![\w.])(off|addr|ref_addr|[us]\d+)(?![\w<>])', one, body)
            out.append((n, head + '{' + body))
        else:
            out.append((n, re.sub(r'^[a-z_]+\d*$', one, a)))
    return out


def label(le, fmt, asz, ver, extra=''):
    return '[%s,DWARF%d,addr%d,v%d%s]' % ('LSB' if le else 'MSB', fmt, asz, ver, extra)


def atom_of(world, node, case=None):
    """Single-field atom string of a parser node (form table / operand structs)."""
    if node is None:
        return 'none'
    ir = irb(world).to_ir(node)
    fl = layout.flatten(world, ir, case or {})
    if not fl:
        return 'none'
    if len(fl) != 1:
        return '+'.join(a for n, a in fl)
    return fl[0][1]


def check_struct(ctx, world, attr, rows_fn, cases=({},), configs=None, rule='L-CONF', construct=None, versions=None):
    construct = construct or 'dwarf/structs.py:DWARFStructs.%s' % attr
    for (le, fmt, asz, ver) in (configs or CONFIGS_QUICK):
        if versions is not None and ver not in versions:
            continue
        st = structs_for(world, le, fmt, asz, ver)
        node = layout.struct_attr(world, st, attr)
        ir = irb(world).to_ir(node)
        for case in cases:
            got = layout.flatten(world, ir, dict(case))
            rows = rows_fn(case) if callable(rows_fn) else rows_fn
            exp = resolve(rows, le, fmt, asz, ver)
            extra = ''.join(',%s=%s' % (k, v) for k, v in sorted(case.items()))
            compare_rows(ctx, rule, construct, label(le, fmt, asz, ver, extra), got, exp,
                         line=node.site[1] if getattr(node, 'site', None) else None)


def find_kind(ir, kind, acc=None):
    acc = acc if acc is not None else []
    if isinstance(ir, tuple):
        if ir and ir[0] == kind:
            acc.append(ir)
        for x in ir:
            if isinstance(x, tuple):
                find_kind(x, kind, acc)
            elif isinstance(x, dict):
                for v in x.values():
                    if isinstance(v, tuple):
                        find_kind(v, kind, acc)
    return acc
