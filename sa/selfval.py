"""Self-validation (thorough tier): each rule must report seeded single edits of today's sources.

Variants are in-memory overlays of the source model (no scratch copy): (a) the MUTANTS table of the
property module -- (id, file, old snippet, new snippet, rule expected) located by text, not line; a
variant whose snippet no longer occurs is *skipped*, never failed; (b) the patches kept under
/verif/seeded/<id>/patch.diff whose meta.json names this property, applied in memory.
A variant that applies and is not reported ends the run as ANALYSIS-ERROR (exit 2).
"""
import importlib
import json
import os
import re
import multiprocessing
import ast

from .report import VERIF
from .model import read_sources


def apply_unified_diff(sources, diff_text):
    """Apply a git-style unified diff to the {relpath: text} map; returns overlay dict or None."""
    overlay = {}
    cur = None
    hunks = []
    files = []
    for line in diff_text.split('\n'):
        if line.startswith('+++ '):
            path = line[4:].strip()
            if path.startswith('b/'):
                path = path[2:]
            cur = path
            hunks = []
            files.append((cur, hunks))
        elif line.startswith('--- ') or line.startswith('diff ') or line.startswith('index '):
            continue
        elif line.startswith('@@') and cur is not None:
            m = re.match(r'@@ -(\d+)(?:,(\d+))? \+(\d+)(?:,(\d+))? @@', line)
            if not m:
                return None
            hunks.append([int(m.group(1)), [], int(m.group(2) or 1), int(m.group(4) or 1)])
        elif cur is not None and hunks and (line[:1] in (' ', '+', '-') or line == ''):
            if line.startswith('\\'):
                continue
            h = hunks[-1]
            # the @@ header says how many old/new lines the hunk has: anything after that (the empty string after the
            # final newline of the file, mail signatures) is not part of it
            n_old = sum(1 for l in h[1] if l[:1] in (' ', '-'))
            n_new = sum(1 for l in h[1] if l[:1] in (' ', '+'))
            if n_old >= h[2] and n_new >= h[3]:
                continue
            h[1].append(line if line else ' ')
    for path, hs in files:
        if path == '/dev/null' or not path.endswith('.py'):
            continue
        if path not in sources:
            if not (path.startswith('elftools/') or path.startswith('scripts/')):
                continue
            base = []
        else:
            base = sources[path].split('\n')
        out = list(base)
        offset = 0
        for start, lines, _no, _nn in hs:
            old = [l[1:] for l in lines if l[:1] in (' ', '-')]
            new = [l[1:] for l in lines if l[:1] in (' ', '+')]
            # trailing blank artefacts
            while old and new and old[-1] == '' and new[-1] == '' and len(old) > 1 and \
                    (start - 1 + offset + len(old) > len(out)):
                old.pop()
                new.pop()
            pos = start - 1 + offset
            found = None
            for delta in [0] + [d for k in range(1, 200) for d in (k, -k)]:
                p = pos + delta
                if p < 0 or p + len(old) > len(out):
                    continue
                if out[p:p + len(old)] == old:
                    found = p
                    break
            if found is None:
                # fuzz: drop leading/trailing context lines (a later fix commit touched the neighbourhood) as long as the
                # remaining old block is non-empty, still contains every removed line, and occurs exactly once
                lead = 0
                while lead < len(lines) and lines[lead][:1] == ' ':
                    lead += 1
                trail = 0
                while trail < len(lines) - lead and lines[len(lines) - 1 - trail][:1] == ' ':
                    trail += 1
                done = False
                for cut in range(1, max(lead, trail) + 1):
                    a, b = min(cut, lead), min(cut, trail)
                    sub = lines[a:len(lines) - b]
                    o2 = [l[1:] for l in sub if l[:1] in (' ', '-')]
                    n2 = [l[1:] for l in sub if l[:1] in (' ', '+')]
                    if not o2:
                        break
                    hits = [p for p in range(0, len(out) - len(o2) + 1) if out[p:p + len(o2)] == o2]
                    if len(hits) == 1:
                        found, old, new = hits[0], o2, n2
                        pos = found
                        done = True
                        break
                if not done:
                    return None
            out[found:found + len(old)] = new
            offset += len(new) - len(old) + (found - pos)
        overlay[path] = '\n'.join(out)
    return overlay or None


def _run_variant(args):
    prop, root, overlay, vid = args
    from .cli import run_property
    try:
        code, ctx = run_property(prop, 'quick', root, write_evidence=False, quiet=True, overlay=overlay)
        return vid, code, sorted(f.key() for f in ctx.findings), ['%s %s: %s' % e for e in ctx.errors]
    except Exception as e:
        return vid, 2, [], ['variant crashed: %s' % e]


def run(ctx, prop):
    mod = importlib.import_module('props.' + prop)
    sources = read_sources(ctx.root)
    variants = []
    skipped = []
    for m in getattr(mod, 'MUTANTS', []):
        vid, rel, old, new, rule = m[:5]
        rel_full = rel if rel in sources else 'elftools/' + rel
        src = sources.get(rel_full)
        if src is None or src.count(old) < 1:
            skipped.append(vid)
            continue
        nth = m[5] if len(m) > 5 else 0
        idx = -1
        for _ in range(nth + 1):
            idx = src.find(old, idx + 1)
        if idx < 0:
            skipped.append(vid)
            continue
        new_src = src[:idx] + new + src[idx + len(old):]
        try:
            ast.parse(new_src)
        except SyntaxError:
            skipped.append(vid)
            continue
        variants.append((vid, {rel_full: new_src}, rule))
    sd = os.path.join(VERIF, 'seeded')
    if os.path.isdir(sd):
        for d in sorted(os.listdir(sd)):
            meta_p = os.path.join(sd, d, 'meta.json')
            patch_p = os.path.join(sd, d, 'patch.diff')
            if not (os.path.exists(meta_p) and os.path.exists(patch_p)):
                continue
            try:
                meta = json.load(open(meta_p))
            except Exception:
                continue
            props = meta.get('detected_by') or [meta.get('property')]
            if prop not in props:
                continue
            if meta.get('expected') == 'miss':
                continue
            ov = apply_unified_diff(sources, open(patch_p).read())
            if ov is None:
                skipped.append('seeded/' + d)
                continue
            variants.append(('seeded/' + d, ov, meta.get('rule')))
    baseline = set(f.key() for f in ctx.findings)
    # the other direction: behaviour-preserving variants of the whole tree (sa/neutral.py) on which every rule must stay silent
    from . import neutral
    neutral_ids = []
    if os.environ.get('VERIF_NO_NEUTRAL') != '1':
        for kind in neutral.KINDS:
            try:
                ov = neutral.variant_sources(kind, sources)
            except Exception as e:
                ctx.error('SELFVAL', 'neutral/' + kind, 'variant could not be generated: %s' % e)
                continue
            vid = 'neutral/' + kind
            neutral_ids.append(vid)
            variants.append((vid, ov, '<none>'))
    # ... and the behaviour-preserving refactoring patches written by independent sub-agents (neutral/*.diff, DESIGN.md §8.8)
    nd = os.path.join(VERIF, 'neutral')
    if os.path.isdir(nd) and os.environ.get('VERIF_NO_NEUTRAL') != '1':
        for fn in sorted(os.listdir(nd)):
            if not fn.endswith('.diff'):
                continue
            ov = apply_unified_diff(sources, open(os.path.join(nd, fn)).read())
            if ov is None:
                skipped.append('neutral/' + fn)
                continue
            vid = 'neutral/' + fn[:-5]
            neutral_ids.append(vid)
            variants.append((vid, ov, '<none>'))
    jobs = [(prop, ctx.root, ov, vid) for vid, ov, rule in variants]
    results = {}
    if jobs:
        nproc = min(16, len(jobs))
        with multiprocessing.Pool(nproc) as pool:
            for vid, code, keys, errs in pool.imap_unordered(_run_variant, jobs):
                results[vid] = (code, keys, errs)
    detected = 0
    missed = []
    details = []
    false_alarms = []
    for vid, ov, rule in variants:
        code, keys, errs = results.get(vid, (2, [], ['no result']))
        new = [k for k in keys if k not in baseline]
        if vid in neutral_ids:
            if new or errs:
                false_alarms.append(vid)
                details.append(dict(variant=vid, reported=new[:3], errors=errs[:2], note='ALARM on a behaviour-preserving variant'))
            else:
                details.append(dict(variant=vid, reported=[], note='silent, as required'))
            continue
        hit = [k for k in new if (rule is None or k.split('|')[0].startswith(rule))]
        if hit:
            detected += 1
            details.append(dict(variant=vid, reported=hit[:3]))
        elif new:
            detected += 1
            details.append(dict(variant=vid, reported=new[:3], note='reported by another rule than expected (%s)' % rule))
        else:
            missed.append(vid)
            details.append(dict(variant=vid, reported=[], errors=errs[:2]))
    n_break = len(variants) - len(neutral_ids)
    ctx.selftest = dict(variants=n_break, detected=detected, missed=missed, skipped=skipped, neutral_variants=len(neutral_ids),
                        neutral_silent=len(neutral_ids) - len(false_alarms), neutral_alarms=false_alarms, details=details[:120])
    ctx.analysed['selfvalidation_neutral_variants_silent'] = '%d of %d' % (len(neutral_ids) - len(false_alarms), len(neutral_ids))
    for vid in false_alarms:
        ctx.error('SELFVAL', vid, 'a rule of %s reports a behaviour-preserving variant of the current tree (false alarm in waiting)' % prop)
    ctx.analysed['selfvalidation_variants'] = n_break
    ctx.analysed['selfvalidation_detected'] = detected
    ctx.analysed['selfvalidation_skipped'] = len(skipped)
    for v in missed:
        ctx.error('SELFVAL', v, 'seeded variant applies to the current tree but no rule of %s reports it' % prop)
    return ctx.selftest
