"""Shape facts of common/utils.py:struct_parse (shared by C16 K-WRAP and C19 K-WRAP).

Structural, not textual: which try statements lexically enclose the seek and the parse, which exception names their handlers
catch, and whether every handler re-raises the library's parse error."""
import ast
from . import expr, paths


def _enclosing_handlers(fnode, node):
    """[(set of caught names, raises ELFParseError?)] for every try whose *body* contains node"""
    out = []
    for t in ast.walk(fnode):
        if isinstance(t, ast.Try) and any(paths.contains_node(s, node) for s in t.body):
            for h in t.handlers:
                if h.type is None:
                    names = {'BaseException'}
                else:
                    names = set(ast.unparse(x).split('.')[-1] for x in (h.type.elts if isinstance(h.type, ast.Tuple) else [h.type]))
                last = h.body[-1] if h.body else None
                raises = isinstance(last, ast.Raise) and last.exc is not None and 'ELFParseError' in ast.unparse(last.exc)
                out.append((names, raises))
    return out


def wrap_facts(fnode):
    f = {}
    parses = [c for c in ast.walk(fnode) if isinstance(c, ast.Call) and isinstance(c.func, ast.Attribute) and c.func.attr in ('parse_stream', 'parse')]
    seeks = [c for c in ast.walk(fnode) if isinstance(c, ast.Call) and isinstance(c.func, ast.Attribute) and c.func.attr == 'seek']
    f['n_parse'] = len(parses)
    f['n_seek'] = len(seeks)
    f['parse_is_parse_stream_of_args'] = len(parses) == 1 and ast.unparse(parses[0]) == 'struct.parse_stream(stream)'
    rets = [n for n in ast.walk(fnode) if isinstance(n, ast.Return)]
    f['returns_parse_result'] = len(parses) == 1 and len(rets) == 1 and rets[0].value is parses[0]
    ph = _enclosing_handlers(fnode, parses[0]) if len(parses) == 1 else []
    f['parse_construct_error_converted'] = any(('ConstructError' in n or 'Exception' in n) and r for n, r in ph)
    sh = _enclosing_handlers(fnode, seeks[0]) if len(seeks) == 1 else []
    caught = set()
    for n, r in sh:
        if r:
            caught |= n
    f['seek_errors_converted'] = sorted(caught)
    f['seek_is_absolute_to_position'] = len(seeks) == 1 and ast.unparse(seeks[0]) == 'stream.seek(stream_pos)'
    # every handler of the function ends by raising the library's parse error (none swallows)
    hs = [h for t in ast.walk(fnode) if isinstance(t, ast.Try) for h in t.handlers]
    f['no_handler_swallows'] = bool(hs) and all(h.body and isinstance(h.body[-1], ast.Raise) and h.body[-1].exc is not None and
                                                'ELFParseError' in ast.unparse(h.body[-1].exc) for h in hs)
    # the seek happens iff a position is given, and before the parse
    env = expr.FEnv(fnode, inline=False)
    want = expr.spec_cond('stream_pos is not None')
    ok = len(seeks) == 1 and len(parses) == 1
    n_with = n_without = 0
    if ok:
        for p in paths.func_paths(fnode):
            if p.end[0] != 'return' or any(e[0] == 'except' for e in p.events):
                continue
            conds = [(expr.cond_str(t, env), pol) for t, pol in p.conds()]
            has_seek = any(paths.contains_node(s, seeks[0]) for s in p.stmts() if not isinstance(s, ast.Return))
            if (want, True) in conds:
                n_with += 1
                ok = ok and has_seek
            elif (want, False) in conds:
                n_without += 1
                ok = ok and not has_seek
            else:
                ok = False
    f['seek_iff_position_given'] = ok and n_with >= 1 and n_without >= 1
    return f
