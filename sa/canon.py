"""Alpha-renaming invariance: function-local variables are identified by *where and how they are bound*, not by spelling.

The rules name locals in spec rows and normal forms (`offset`, `opcode`, `sectype`, ...).  A rename of a local is a
behaviour-preserving edit, so before any rule sees a tree, every function whose locals are not spelled as in the reference
table (spec/locals.json, generated from the confirmed tree by tools/gen_locals.py) is aligned with the reference by binding
signature and its locals are renamed *in the analyser's in-memory AST* back to the reference spelling.

  signature of a local = (kind of its first binding, dump of the bound expression with every local name abstracted)
  alignment            = difflib.SequenceMatcher over the two signature sequences (order of first binding)

Locals that do not align (new code) keep their spelling (suffixed if it would collide with a reference name).  Parameters,
globals/nonlocals, attribute names and keyword names are never touched.  Line numbers are unchanged.
"""
import ast
import copy
import builtins
import difflib
import json
import os

_BUILTINS = set(dir(builtins))
REF_PATH = os.path.join(os.path.dirname(os.path.dirname(os.path.abspath(__file__))), 'spec', 'locals.json')
_ref_cache = None


def reference():
    global _ref_cache
    if _ref_cache is None:
        try:
            _ref_cache = json.load(open(REF_PATH))
        except Exception:
            _ref_cache = {}
    return _ref_cache


def _params(fn):
    a = fn.args
    out = set(x.arg for x in a.args + a.kwonlyargs + a.posonlyargs)
    if a.vararg:
        out.add(a.vararg.arg)
    if a.kwarg:
        out.add(a.kwarg.arg)
    return out


class _Binder(ast.NodeVisitor):
    """Collects, in source order, the first binding of every local of an outermost function (nested defs, lambdas and
    comprehensions share the map: a free variable of a closure must be renamed with its owner)."""

    def __init__(self, fn):
        self.order = []          # [(name, kind, bound_expr_or_None)]
        self.seen = set()
        self.excluded = set(_params(fn))
        for n in ast.walk(fn):
            if isinstance(n, (ast.Global, ast.Nonlocal)):
                self.excluded |= set(n.names)
            elif isinstance(n, ast.Lambda) or (isinstance(n, (ast.FunctionDef, ast.AsyncFunctionDef)) and n is not fn):
                self.excluded |= _params(n)
        self.fn = fn
        for st in fn.body:
            self.visit(st)

    def _bind(self, name, kind, value):
        if name in self.excluded or name in self.seen:
            return
        self.seen.add(name)
        self.order.append((name, kind, value))

    def _targets(self, t, kind, value):
        if isinstance(t, ast.Name):
            self._bind(t.id, kind, value)
        elif isinstance(t, (ast.Tuple, ast.List)):
            for i, e in enumerate(t.elts):
                self._targets(e, '%s[%d]' % (kind, i), value)
        elif isinstance(t, ast.Starred):
            self._targets(t.value, kind + '*', value)

    def visit_Assign(self, n):
        self.generic_visit(n.value)
        for t in n.targets:
            self._targets(t, 'assign', n.value)

    def visit_AnnAssign(self, n):
        if n.value is not None:
            self.generic_visit(n.value)
        self._targets(n.target, 'assign', n.value)

    def visit_AugAssign(self, n):
        self.generic_visit(n.value)
        self._targets(n.target, 'aug', n.value)

    def visit_NamedExpr(self, n):
        self.visit(n.value)
        self._targets(n.target, 'walrus', n.value)

    def visit_For(self, n):
        self.visit(n.iter)
        self._targets(n.target, 'for', n.iter)
        for s in n.body + n.orelse:
            self.visit(s)

    def visit_With(self, n):
        for it in n.items:
            self.visit(it.context_expr)
            if it.optional_vars is not None:
                self._targets(it.optional_vars, 'with', it.context_expr)
        for s in n.body:
            self.visit(s)

    def visit_ExceptHandler(self, n):
        if n.name:
            self._bind(n.name, 'except', n.type)
        for s in n.body:
            self.visit(s)

    def visit_comprehension(self, n):
        self.visit(n.iter)
        self._targets(n.target, 'comp', n.iter)
        for c in n.ifs:
            self.visit(c)

    def _comp(self, n):
        for g in n.generators:
            self.visit(g)
        for f in ('elt', 'key', 'value'):
            if hasattr(n, f):
                self.visit(getattr(n, f))
    visit_ListComp = visit_SetComp = visit_GeneratorExp = visit_DictComp = _comp

    def visit_FunctionDef(self, n):
        self._bind(n.name, 'def', None)
        for s in n.body:
            self.visit(s)
    visit_AsyncFunctionDef = visit_FunctionDef

    def visit_Import(self, n):
        for a in n.names:
            self._bind((a.asname or a.name).split('.')[0], 'import', None)

    def visit_ImportFrom(self, n):
        for a in n.names:
            self._bind(a.asname or a.name, 'import', None)


class _Abstract(ast.NodeTransformer):
    def __init__(self, names):
        self.names = names

    def visit_Name(self, n):
        if n.id in self.names:
            return ast.Name(id='_', ctx=ast.Load())
        return ast.Name(id=n.id, ctx=ast.Load())


def signatures(fn):
    """[(name, signature)] in order of first binding"""
    b = _Binder(fn)
    names = set(n for n, k, v in b.order)
    out = []
    for name, kind, value in b.order:
        if value is None:
            sig = kind
        else:
            import copy
            v = _Abstract(names).visit(copy.deepcopy(value))
            sig = '%s:%s' % (kind, ast.dump(v, annotate_fields=False))
        out.append((name, sig))
    return out


def outer_functions(tree):
    """[(qualname, node)] module-level functions and methods (one level of class nesting, as the repository uses)"""
    out = []
    for st in tree.body:
        if isinstance(st, (ast.FunctionDef, ast.AsyncFunctionDef)):
            out.append((st.name, st))
        elif isinstance(st, ast.ClassDef):
            for m in st.body:
                if isinstance(m, (ast.FunctionDef, ast.AsyncFunctionDef)):
                    out.append(('%s.%s' % (st.name, m.name), m))
                elif isinstance(m, ast.ClassDef):
                    for m2 in m.body:
                        if isinstance(m2, (ast.FunctionDef, ast.AsyncFunctionDef)):
                            out.append(('%s.%s.%s' % (st.name, m.name, m2.name), m2))
    return out


def _rename(fn, mapping):
    for n in ast.walk(fn):
        if isinstance(n, ast.Name) and n.id in mapping:
            n.id = mapping[n.id]
        elif isinstance(n, ast.ExceptHandler) and n.name in mapping:
            n.name = mapping[n.name]
        elif isinstance(n, (ast.FunctionDef, ast.AsyncFunctionDef)) and n is not fn and n.name in mapping:
            n.name = mapping[n.name]
        elif isinstance(n, ast.alias):
            nm = n.asname or n.name
            if nm in mapping and '.' not in nm:
                n.asname = mapping[nm]


# ---------------------------------------------------------------------------------------------------
# Idiom normalisation: equivalent spellings are brought to one canonical form before any rule looks at a tree (the confirmed
# tree and every variant go through the same pass, so the rules only ever see canonical code).
#   N1  T = e; return T          ->  return e              (T bound once, read once)
#   N2  x = x <op> e             ->  x <op>= e
#   N3  a > b / a >= b           ->  b < a / b <= a ;  CONST == x -> x == CONST
#   N4  if not c: B else: A      ->  if c: A else: B       (else present, not an elif chain)
#   N5  not (a <cmp> b)          ->  a <negated cmp> b ;  not not x -> x (in tests)
#   N6  pass in a non-empty block ->  removed
#   N7  struct_parse(s, st, stream_pos=p) -> struct_parse(s, st, p)   (keywords of the common/utils helpers made positional)
#   N8  while 1:                 ->  while True:
# ---------------------------------------------------------------------------------------------------
_NEG = {ast.Eq: ast.NotEq, ast.NotEq: ast.Eq, ast.Lt: ast.GtE, ast.GtE: ast.Lt, ast.Gt: ast.LtE, ast.LtE: ast.Gt,
        ast.In: ast.NotIn, ast.NotIn: ast.In, ast.Is: ast.IsNot, ast.IsNot: ast.Is}


def _constlike(n):
    if isinstance(n, ast.Constant):
        return True
    if isinstance(n, ast.UnaryOp) and isinstance(n.operand, ast.Constant):
        return True
    if isinstance(n, ast.Name) and n.id.isupper():
        return True
    if isinstance(n, ast.Attribute) and n.attr.isupper():
        return True
    if isinstance(n, ast.Subscript) and isinstance(n.slice, ast.Constant) and isinstance(n.value, ast.Name) and \
            (n.value.id.isupper() or n.value.id[:1].isupper()):
        return True          # ENUM_D_TAG['DT_RELA'], DW_EH_encoding_flags['DW_EH_PE_absptr']
    return False


KNOWN_SIGS = {'struct_parse': ['struct', 'stream', 'stream_pos'], 'parse_cstring_from_stream': ['stream', 'stream_pos'],
              'elf_assert': ['cond', 'msg'], 'dwarf_assert': ['cond', 'msg'], 'roundup': ['num', 'bits']}


def _terminates(body):
    """every path through the statement list leaves the enclosing block (return / raise / continue / break)"""
    if not body:
        return False
    last = body[-1]
    if isinstance(last, (ast.Return, ast.Raise, ast.Continue, ast.Break)):
        return True
    if isinstance(last, ast.If):
        return bool(last.orelse) and _terminates(last.body) and _terminates(last.orelse)
    return False


def _prime_to_while_true(loop, before, norm):
    """N24: x = E; ...; while x: BODY; x = E   ->   ...; while True: x = E; if not x: break; BODY
    (the priming read and the re-read at the end of the body are one read at the head of each iteration)"""
    from .inline import _has_impure_call, _read_roots, _write_roots
    if loop.orelse or len(loop.body) < 2 or (isinstance(loop.test, ast.Constant)):
        return
    last0 = loop.body[-1]
    if isinstance(last0, ast.AugAssign) and isinstance(last0.target, ast.Name):
        # the same with an update in place: x op= E; while x: BODY; x op= E  (the priming update right before the loop)
        x = last0.target.id
        if not any(isinstance(t, ast.Name) and t.id == x for t in ast.walk(loop.test)) or any(isinstance(t, ast.NamedExpr) for t in ast.walk(loop.test)) or \
                any(isinstance(n, ast.Continue) for s in loop.body for n in ast.walk(s)) or not before or ast.dump(before[-1]) != ast.dump(last0):
            return
        prime = before.pop()
        brk = ast.copy_location(ast.If(test=norm.visit(ast.UnaryOp(op=ast.Not(), operand=loop.test)), body=[ast.Break()], orelse=[]), loop)
        loop.body = norm._block([prime, brk] + loop.body[:-1])
        loop.test = ast.copy_location(ast.Constant(value=True), loop.test)
        return
    if not (isinstance(last0, ast.Assign) and len(last0.targets) == 1 and isinstance(last0.targets[0], ast.Name)):
        return
    x = last0.targets[0].id
    # the loop test reads x (while x: / while x != 0:) and binds nothing
    if not any(isinstance(t, ast.Name) and t.id == x for t in ast.walk(loop.test)) or any(isinstance(t, ast.NamedExpr) for t in ast.walk(loop.test)):
        return
    last = loop.body[-1]
    if not (isinstance(last, ast.Assign) and len(last.targets) == 1 and isinstance(last.targets[0], ast.Name) and last.targets[0].id == x):
        return
    if any(isinstance(n, ast.Continue) for s in loop.body for n in ast.walk(s)):
        return
    want = ast.dump(last.value)
    k = len(before) - 1
    while k >= 0:
        st = before[k]
        if isinstance(st, ast.Assign) and len(st.targets) == 1 and isinstance(st.targets[0], ast.Name) and st.targets[0].id == x and ast.dump(st.value) == want:
            break
        if not (isinstance(st, ast.Assign) and not _has_impure_call(st.value)) or x in _write_roots(st) or x in _read_roots(st.value) or \
                (_write_roots(st) & _read_roots(last.value)):
            return
        k -= 1
    if k < 0:
        return
    prime = before.pop(k)
    brk = ast.copy_location(ast.If(test=norm.visit(ast.UnaryOp(op=ast.Not(), operand=loop.test)), body=[ast.Break()], orelse=[]), loop)
    loop.body = norm._block([prime, brk] + loop.body[:-1])
    loop.test = ast.copy_location(ast.Constant(value=True), loop.test)


def _hoist_invariants(loop):
    """N19: leading statements of a loop body of the form  name = <call-free expression over things the loop never writes>
    are the same before the loop (they are evaluated at least once whenever the body runs; hoisting them when the body never
    runs only binds a name nobody reads).  Returns the hoisted statements; the loop body is shortened in place."""
    from .inline import _has_impure_call, _read_roots, _write_roots
    if isinstance(loop, ast.While) and not (isinstance(loop.test, ast.Constant) and loop.test.value is True):
        return []
    if isinstance(loop, ast.For):
        return []
    hoisted = []
    while len(loop.body) > 1:
        st = loop.body[0]
        if not (isinstance(st, ast.Assign) and len(st.targets) == 1 and isinstance(st.targets[0], ast.Name)) or _has_impure_call(st.value):
            break
        name = st.targets[0].id
        rest_writes = set()
        for s in loop.body[1:]:
            rest_writes |= _write_roots(s)
        if name in rest_writes or (_read_roots(st.value) & (rest_writes | {name})):
            break
        hoisted.append(st)
        loop.body = loop.body[1:]
    return hoisted


def _drop_trailing_continue(body):
    """N18: a `continue` that is the last thing a loop body would do anyway (also at the end of the arms of a final if) is dropped"""
    if not body:
        return body
    last = body[-1]
    if isinstance(last, ast.Continue):
        return body[:-1] or [ast.Pass()]
    if isinstance(last, ast.If):
        last.body = _drop_trailing_continue(last.body)
        if last.orelse:
            last.orelse = _drop_trailing_continue(last.orelse)
    return body


class _Norm(ast.NodeTransformer):
    module_sigs = {}

    def __init__(self, counts, module_sigs=None):
        self.counts = counts     # name -> (stores, loads) in the enclosing outermost function
        if module_sigs is not None:
            self.module_sigs = module_sigs

    # N13: inside an error message (raise X(...), elf_assert/dwarf_assert(c, msg)) every way of formatting is the same opaque
    # thing over the same operands.  Formatting that computes *data* (opcode names built with '%d' % n) is left alone.
    def _msg(self, e):
        class M(ast.NodeTransformer):
            def visit_JoinedStr(s, n):
                s.generic_visit(n)
                args = [v.value for v in n.values if isinstance(v, ast.FormattedValue)]
                return ast.copy_location(ast.Call(func=ast.Name(id='__fmt__', ctx=ast.Load()), args=args, keywords=[]), n)

            def visit_BinOp(s, n):
                if isinstance(n.op, ast.Mod) and isinstance(n.left, ast.Constant) and isinstance(n.left.value, str):
                    args = list(n.right.elts) if isinstance(n.right, ast.Tuple) else [n.right]
                    return ast.copy_location(ast.Call(func=ast.Name(id='__fmt__', ctx=ast.Load()), args=args, keywords=[]), n)
                s.generic_visit(n)
                return n

            def visit_Call(s, n):
                if isinstance(n.func, ast.Attribute) and n.func.attr == 'format' and isinstance(n.func.value, ast.Constant) and isinstance(n.func.value.value, str):
                    return ast.copy_location(ast.Call(func=ast.Name(id='__fmt__', ctx=ast.Load()), args=list(n.args) + [k.value for k in n.keywords], keywords=[]), n)
                s.generic_visit(n)
                return n

            def visit_Constant(s, n):
                if isinstance(n.value, str) and ' ' in n.value:
                    return ast.copy_location(ast.Call(func=ast.Name(id='__fmt__', ctx=ast.Load()), args=[], keywords=[]), n)
                return n
        return M().visit(e)

    def visit_Raise(self, n):
        self.generic_visit(n)
        if n.exc is not None and isinstance(n.exc, ast.Call):
            n.exc.args = [self._msg(a) for a in n.exc.args]
        return n

    def visit_Call(self, n):
        self.generic_visit(n)
        if isinstance(n.func, ast.Name) and n.func.id in ('elf_assert', 'dwarf_assert') and len(n.args) > 1:
            n.args[1] = self._msg(n.args[1])
        # N35: d.get(k, None)  ->  d.get(k)
        if isinstance(n.func, ast.Attribute) and n.func.attr == 'get' and len(n.args) == 2 and not n.keywords and \
                isinstance(n.args[1], ast.Constant) and n.args[1].value is None:
            n.args = n.args[:1]
        # N23: f(**{'k': v, ..}) with identifier keys  ->  f(k=v, ..)
        kws = []
        for k in n.keywords:
            if k.arg is None and isinstance(k.value, ast.Dict) and k.value.keys and \
                    all(isinstance(x, ast.Constant) and isinstance(x.value, str) and x.value.isidentifier() for x in k.value.keys):
                kws += [ast.keyword(arg=x.value, value=v) for x, v in zip(k.value.keys, k.value.values)]
            else:
                kws.append(k)
        n.keywords = kws
        sigs = dict(KNOWN_SIGS)
        sigs.update(self.module_sigs)
        fname = n.func.id if isinstance(n.func, ast.Name) else (n.func.attr if isinstance(n.func, ast.Attribute) and isinstance(n.func.value, ast.Name) and
                                                                 n.func.value.id == 'self' else None)
        if fname in sigs and n.keywords and not any(isinstance(a, ast.Starred) for a in n.args):
            sig = sigs[fname]
            kws = dict((k.arg, k) for k in n.keywords if k.arg)
            while len(n.args) < len(sig) and sig[len(n.args)] in kws:
                k = kws.pop(sig[len(n.args)])
                n.keywords.remove(k)
                n.args.append(k.value)
        return n

    def visit_While(self, n):
        self.generic_visit(n)
        if isinstance(n.test, ast.Constant) and n.test.value == 1 and n.test.value is not True:
            n.test = ast.copy_location(ast.Constant(value=True), n.test)
        # N31: while True: if T: break; BODY  ->  while not T: BODY   (the exit test is the first thing every iteration does)
        if isinstance(n.test, ast.Constant) and n.test.value is True and not n.orelse and n.body and isinstance(n.body[0], ast.If) and \
                len(n.body[0].body) == 1 and isinstance(n.body[0].body[0], ast.Break) and \
                not any(isinstance(x, ast.NamedExpr) for x in ast.walk(n.body[0].test)):
            first = n.body[0]
            rest = list(first.orelse) + list(n.body[1:])
            if rest:
                neg = self.visit(ast.copy_location(ast.UnaryOp(op=ast.Not(), operand=first.test), first.test))
                n.test = neg
                n.body = rest
        # N21: while (x := e): BODY  ->  while True: x = e; if not x: break; BODY      (no else clause)
        # ... and `while (x := e) != 0:` likewise: the binding first, then the test on the name
        walrus = [x for x in ast.walk(n.test) if isinstance(x, ast.NamedExpr)]
        if len(walrus) == 1 and not isinstance(n.test, ast.NamedExpr) and not n.orelse and isinstance(walrus[0].target, ast.Name) and \
                not isinstance(n.test, ast.BoolOp):
            wx = walrus[0]

            class R(ast.NodeTransformer):
                def visit_NamedExpr(s, m):
                    return ast.copy_location(ast.Name(id=wx.target.id, ctx=ast.Load()), m) if m is wx else m
            asg = ast.copy_location(ast.Assign(targets=[ast.Name(id=wx.target.id, ctx=ast.Store())], value=wx.value), n)
            tst = R().visit(n.test)
            brk = ast.copy_location(ast.If(test=self.visit(ast.UnaryOp(op=ast.Not(), operand=tst)), body=[ast.Break()], orelse=[]), n)
            n.body = self._block([asg, brk] + n.body)
            n.test = ast.copy_location(ast.Constant(value=True), n)
            return n
        if isinstance(n.test, ast.NamedExpr) and not n.orelse and isinstance(n.test.target, ast.Name):
            x = n.test.target.id
            asg = ast.copy_location(ast.Assign(targets=[ast.Name(id=x, ctx=ast.Store())], value=n.test.value), n)
            brk = ast.copy_location(ast.If(test=ast.UnaryOp(op=ast.Not(), operand=ast.Name(id=x, ctx=ast.Load())), body=[ast.Break()], orelse=[]), n)
            n.body = self._block([asg, brk] + n.body)
            n.test = ast.copy_location(ast.Constant(value=True), n.test)
        return n

    def visit_BoolOp(self, n):
        self.generic_visit(n)
        # N22: x == c1 or x == c2 (same x, constants)  ->  x in (c1, c2);   x != c1 and x != c2  ->  x not in (c1, c2)
        want = ast.Eq if isinstance(n.op, ast.Or) else ast.NotEq
        if len(n.values) >= 2 and all(isinstance(v, ast.Compare) and len(v.ops) == 1 and isinstance(v.ops[0], want) and _constlike(v.comparators[0])
                                      and not _constlike(v.left) for v in n.values):
            lefts = set(ast.dump(v.left) for v in n.values)
            if len(lefts) == 1:
                tup = ast.Tuple(elts=[v.comparators[0] for v in n.values], ctx=ast.Load())
                op = ast.In() if want is ast.Eq else ast.NotIn()
                return ast.copy_location(ast.Compare(left=n.values[0].left, ops=[op], comparators=[tup]), n)
        return n

    def visit_GeneratorExp(self, n):
        r = self.visit_ListComp(n)
        return r

    def visit_ListComp(self, n):
        self.generic_visit(n)
        # N16: [f(v) for v in (c1, c2, ..)] over a short constant tuple  ->  [f(c1), f(c2), ..]
        if len(n.generators) == 1 and not n.generators[0].ifs and isinstance(n.generators[0].target, ast.Name) and \
                isinstance(n.generators[0].iter, (ast.Tuple, ast.List)) and 1 <= len(n.generators[0].iter.elts) <= 8 and \
                all(isinstance(e, (ast.Constant, ast.Name)) or (isinstance(e, ast.Attribute) and isinstance(e.value, ast.Name))
                    for e in n.generators[0].iter.elts):
            import copy as _copy
            var = n.generators[0].target.id

            class S(ast.NodeTransformer):
                def __init__(s, c):
                    s.c = c

                def visit_Name(s, x):
                    return ast.copy_location(_copy.deepcopy(s.c), x) if x.id == var and isinstance(x.ctx, ast.Load) else x
            return ast.copy_location(ast.List(elts=[S(c).visit(_copy.deepcopy(n.elt)) for c in n.generators[0].iter.elts], ctx=ast.Load()), n)
        return n

    def visit_UnaryOp(self, n):
        self.generic_visit(n)
        if isinstance(n.op, ast.Not):
            o = n.operand
            if isinstance(o, ast.UnaryOp) and isinstance(o.op, ast.Not) and isinstance(o.operand, (ast.Compare, ast.BoolOp, ast.UnaryOp)):
                return o.operand
            if isinstance(o, ast.Compare) and len(o.ops) == 1 and type(o.ops[0]) in _NEG:
                return self._orient(ast.copy_location(ast.Compare(left=o.left, ops=[_NEG[type(o.ops[0])]()], comparators=o.comparators), n))
            # De Morgan, when every part is a comparison the negation folds into: not (a is None and n <= 2)  ->  a is not None or 2 < n
            if isinstance(o, ast.BoolOp) and all((isinstance(v, ast.Compare) and len(v.ops) == 1 and type(v.ops[0]) in _NEG) or
                                                 (isinstance(v, ast.UnaryOp) and isinstance(v.op, ast.Not)) for v in o.values):
                parts = [self.visit_UnaryOp(ast.copy_location(ast.UnaryOp(op=ast.Not(), operand=v), v)) for v in o.values]
                return ast.copy_location(ast.BoolOp(op=ast.Or() if isinstance(o.op, ast.And) else ast.And(), values=parts), n)
        return n

    def visit_Compare(self, n):
        self.generic_visit(n)
        return self._orient(n)

    def _orient(self, n):
        if len(n.ops) == 1:
            op = n.ops[0]
            l, r = n.left, n.comparators[0]
            if isinstance(op, ast.Gt):
                return ast.copy_location(ast.Compare(left=r, ops=[ast.Lt()], comparators=[l]), n)
            if isinstance(op, ast.GtE):
                return ast.copy_location(ast.Compare(left=r, ops=[ast.LtE()], comparators=[l]), n)
            if isinstance(op, (ast.Eq, ast.NotEq)):
                cl, cr = _constlike(l), _constlike(r)
                # constants on the right; two non-constants (or two constants) in a fixed, spelling-independent order
                if (cl and not cr) or (cl == cr and ast.dump(r) < ast.dump(l)):
                    return ast.copy_location(ast.Compare(left=r, ops=[op], comparators=[l]), n)
        return n

    def visit_Assign(self, n):
        self.generic_visit(n)
        if len(n.targets) == 1 and isinstance(n.targets[0], ast.Name) and isinstance(n.value, ast.BinOp) and \
                isinstance(n.value.left, ast.Name) and n.value.left.id == n.targets[0].id:
            return ast.copy_location(ast.AugAssign(target=ast.Name(id=n.targets[0].id, ctx=ast.Store()), op=n.value.op, value=n.value.right), n)
        # x = x + a + b  (a left-nested sum that starts with x)  ->  x += a + b
        if len(n.targets) == 1 and isinstance(n.targets[0], ast.Name) and isinstance(n.value, ast.BinOp) and isinstance(n.value.op, ast.Add):
            terms = []
            e = n.value
            while isinstance(e, ast.BinOp) and isinstance(e.op, ast.Add):
                terms.append(e.right)
                e = e.left
            if isinstance(e, ast.Name) and e.id == n.targets[0].id and len(terms) >= 2 and \
                    not any(isinstance(x, ast.Name) and x.id == e.id for t in terms for x in ast.walk(t)):
                terms.reverse()
                rest = terms[0]
                for t in terms[1:]:
                    rest = ast.BinOp(left=rest, op=ast.Add(), right=t)
                return ast.copy_location(ast.AugAssign(target=ast.Name(id=e.id, ctx=ast.Store()), op=ast.Add(), value=rest), n)
        return n

    def visit_If(self, n):
        # a negated compound test of a two-armed if is un-negated by exchanging the arms *before* the test is visited: De Morgan (N5) would
        # otherwise fold the negation into the parts and the arms could no longer be matched with the reference spelling
        if n.orelse and not (len(n.orelse) == 1 and isinstance(n.orelse[0], ast.If)) and isinstance(n.test, ast.UnaryOp) and \
                isinstance(n.test.op, ast.Not) and isinstance(n.test.operand, ast.BoolOp):
            n = ast.copy_location(ast.If(test=n.test.operand, body=n.orelse, orelse=n.body), n)
        self.generic_visit(n)
        if n.orelse and (not (len(n.orelse) == 1 and isinstance(n.orelse[0], ast.If)) or
                         (isinstance(n.test, ast.Compare) and len(n.test.ops) == 1 and isinstance(n.test.ops[0], (ast.NotEq, ast.IsNot, ast.NotIn)))):
            if isinstance(n.test, ast.UnaryOp) and isinstance(n.test.op, ast.Not):
                return ast.copy_location(ast.If(test=n.test.operand, body=n.orelse, orelse=n.body), n)
            # a two-armed if tests the positive form: a != b / a is not b / a not in b  ->  swap the arms
            if isinstance(n.test, ast.Compare) and len(n.test.ops) == 1 and isinstance(n.test.ops[0], (ast.NotEq, ast.IsNot, ast.NotIn)):
                pos = ast.copy_location(ast.Compare(left=n.test.left, ops=[_NEG[type(n.test.ops[0])]()], comparators=n.test.comparators), n.test)
                return ast.copy_location(ast.If(test=pos, body=n.orelse, orelse=n.body), n)
            # ... and of the two spellings of an order test the strict one: if a <= b: X else: Y  ->  if b < a: Y else: X
            if isinstance(n.test, ast.Compare) and len(n.test.ops) == 1 and isinstance(n.test.ops[0], ast.LtE):
                strict = ast.copy_location(ast.Compare(left=n.test.comparators[0], ops=[ast.Lt()], comparators=[n.test.left]), n.test)
                return ast.copy_location(ast.If(test=strict, body=n.orelse, orelse=n.body), n)
        return n

    def _next_to_for(self, stmts):
        """N34: F = next(IT, None); x = E if F is not None else None  ->  x = None; for F in IT: x = E; break
        (F bound once and read only in that conditional expression)"""
        out = []
        i = 0
        while i < len(stmts):
            st = stmts[i]
            nx = stmts[i + 1] if i + 1 < len(stmts) else None
            if isinstance(st, ast.Assign) and len(st.targets) == 1 and isinstance(st.targets[0], ast.Name) and isinstance(st.value, ast.Call) and \
                    isinstance(st.value.func, ast.Name) and st.value.func.id == 'next' and len(st.value.args) == 2 and \
                    isinstance(st.value.args[1], ast.Constant) and st.value.args[1].value is None and \
                    isinstance(nx, ast.Assign) and len(nx.targets) == 1 and isinstance(nx.targets[0], ast.Name) and isinstance(nx.value, ast.IfExp):
                f = st.targets[0].id
                t = nx.value.test
                pos = isinstance(t, ast.Compare) and len(t.ops) == 1 and isinstance(t.left, ast.Name) and t.left.id == f and \
                    isinstance(t.comparators[0], ast.Constant) and t.comparators[0].value is None
                if pos and isinstance(t.ops[0], ast.IsNot):
                    val, other = nx.value.body, nx.value.orelse
                elif pos and isinstance(t.ops[0], ast.Is):
                    val, other = nx.value.orelse, nx.value.body
                else:
                    val = None
                if val is not None and isinstance(other, ast.Constant) and other.value is None and self.counts.get(f, (0, 0))[0] == 1 and \
                        self.counts.get(f, (0, 0))[1] == 1 + sum(1 for x in ast.walk(val) if isinstance(x, ast.Name) and x.id == f):
                    x = nx.targets[0].id
                    out.append(ast.copy_location(ast.Assign(targets=[ast.Name(id=x, ctx=ast.Store())], value=ast.Constant(value=None)), st))
                    loop = ast.For(target=ast.Name(id=f, ctx=ast.Store()), iter=st.value.args[0],
                                   body=[ast.Assign(targets=[ast.Name(id=x, ctx=ast.Store())], value=val), ast.Break()], orelse=[])
                    out.append(ast.copy_location(loop, st))
                    i += 2
                    continue
            out.append(st)
            i += 1
        return out

    def _genexp_private(self, g):
        """the names a generator expression binds occur nowhere else in the function (so binding them with for statements
        instead changes nothing that is read later)"""
        names = set(x.id for c in g.generators for x in ast.walk(c.target) if isinstance(x, ast.Name))
        if any(c.is_async for c in g.generators) or not all(isinstance(x, (ast.Name, ast.Tuple)) for c in g.generators for x in ast.walk(c.target)
                                                            if not isinstance(x, ast.expr_context)):
            return False
        for nm in names:
            st = sum(1 for x in ast.walk(g) if isinstance(x, ast.Name) and x.id == nm and isinstance(x.ctx, ast.Store))
            ld = sum(1 for x in ast.walk(g) if isinstance(x, ast.Name) and x.id == nm and isinstance(x.ctx, ast.Load))
            if self.counts.get(nm) != (st, ld):
                return False
        return True

    @staticmethod
    def _loops_of(g, innermost):
        """for/if nest of a generator expression around the statements `innermost`"""
        body = innermost
        for c in reversed(g.generators):
            for t in reversed(c.ifs):
                body = [ast.If(test=t, body=body, orelse=[])]
            body = [ast.For(target=c.target, iter=c.iter, body=body, orelse=[])]
        return body

    def _genexp_to_loops(self, stmts):
        """N39: a search spelled with a generator expression is the loop it abbreviates:
        return next((E for x in IT if C), D)  ->  for x in IT: if C: return E   /  return D
        if any(E for x in IT): S              ->  for x in IT: if E: S; break          (one for clause, no else arm)"""
        out = []
        for st in stmts:
            if isinstance(st, ast.Return) and isinstance(st.value, ast.Call) and isinstance(st.value.func, ast.Name) and st.value.func.id == 'next' and \
                    len(st.value.args) == 2 and not st.value.keywords and isinstance(st.value.args[0], ast.GeneratorExp) and \
                    isinstance(st.value.args[1], (ast.Constant, ast.Name)) and self._genexp_private(st.value.args[0]):
                g = st.value.args[0]
                bound = set(x.id for c in g.generators for x in ast.walk(c.target) if isinstance(x, ast.Name))
                if not (isinstance(st.value.args[1], ast.Name) and st.value.args[1].id in bound):
                    for x in self._loops_of(g, [ast.Return(value=g.elt)]) + [ast.Return(value=st.value.args[1])]:
                        out.append(ast.fix_missing_locations(ast.copy_location(x, st)))
                    continue
            if isinstance(st, ast.If) and not st.orelse and isinstance(st.test, ast.Call) and isinstance(st.test.func, ast.Name) and st.test.func.id == 'any' and \
                    len(st.test.args) == 1 and not st.test.keywords and isinstance(st.test.args[0], ast.GeneratorExp) and \
                    len(st.test.args[0].generators) == 1 and self._genexp_private(st.test.args[0]) and \
                    not any(isinstance(x, (ast.Break, ast.Continue)) for b in st.body for x in ast.walk(b)):
                g = st.test.args[0]
                for x in self._loops_of(g, [ast.If(test=g.elt, body=st.body + [ast.Break()], orelse=[])]):
                    out.append(ast.fix_missing_locations(ast.copy_location(x, st)))
                continue
            out.append(st)
        return out

    def _default_idiom(self, stmts):
        """N44: x = A if C else x  ->  if C: x = A      /      x = x if C else A  ->  if not C: x = A     (x a plain name)"""
        out = []
        for st in stmts:
            if isinstance(st, ast.Assign) and len(st.targets) == 1 and isinstance(st.targets[0], ast.Name) and isinstance(st.value, ast.IfExp):
                x = st.targets[0].id
                v = st.value
                same = lambda e: isinstance(e, ast.Name) and e.id == x
                if same(v.orelse) and not same(v.body):
                    test, val = v.test, v.body
                elif same(v.body) and not same(v.orelse):
                    test, val = self.visit(ast.UnaryOp(op=ast.Not(), operand=v.test)), v.orelse
                else:
                    out.append(st)
                    continue
                new = ast.If(test=test, body=[ast.copy_location(ast.Assign(targets=[ast.Name(id=x, ctx=ast.Store())], value=val), st)], orelse=[])
                out.append(ast.fix_missing_locations(ast.copy_location(new, st)))
            else:
                out.append(st)
        return out

    def _loops_to_comprehension(self, stmts):
        """N40: acc = []; for T in IT: [if C:] acc.append(E)   ->   acc = [E for T in IT if C]
        (acc a plain local that IT, C and E do not mention; the loop variable is dead after the loop)"""
        out = []
        i = 0
        while i < len(stmts):
            st = stmts[i]
            nx = stmts[i + 1] if i + 1 < len(stmts) else None
            if isinstance(st, ast.Assign) and len(st.targets) == 1 and isinstance(st.targets[0], ast.Name) and isinstance(st.value, ast.List) and \
                    not st.value.elts and isinstance(nx, ast.For) and not nx.orelse and len(nx.body) == 1:
                acc = st.targets[0].id
                inner = nx.body[0]
                cond = None
                if isinstance(inner, ast.If) and not inner.orelse and len(inner.body) == 1:
                    cond, inner = inner.test, inner.body[0]
                if isinstance(inner, ast.Expr) and isinstance(inner.value, ast.Call) and isinstance(inner.value.func, ast.Attribute) and \
                        inner.value.func.attr == 'append' and isinstance(inner.value.func.value, ast.Name) and inner.value.func.value.id == acc and \
                        len(inner.value.args) == 1 and not inner.value.keywords and not isinstance(inner.value.args[0], ast.Starred):
                    elt = inner.value.args[0]
                    others = [nx.iter, elt] + ([cond] if cond is not None else [])
                    tnames = set(x.id for x in ast.walk(nx.target) if isinstance(x, ast.Name))
                    private = all(isinstance(x, (ast.Name, ast.Tuple, ast.expr_context)) for x in ast.walk(nx.target))
                    for nm in tnames:
                        # the loop variable is dead after the loop: every read of it elsewhere in the function sits in another
                        # loop or comprehension that binds it itself (a shared `i`), none in the statements that follow here
                        ldc = sum(1 for x in ast.walk(nx) if isinstance(x, ast.Name) and x.id == nm and isinstance(x.ctx, ast.Load))
                        after = sum(1 for r in stmts[i + 2:] for x in ast.walk(r) if isinstance(x, ast.Name) and x.id == nm and isinstance(x.ctx, ast.Load))
                        if after or (self.counts.get(nm, (0, 0))[1] != ldc and self.counts.get(nm, (0, 0))[0] < 2):
                            private = False
                    if private and not any(isinstance(x, ast.Name) and x.id == acc for o in others for x in ast.walk(o)) and \
                            not any(isinstance(x, (ast.Yield, ast.YieldFrom, ast.Await, ast.NamedExpr)) for o in others for x in ast.walk(o)):
                        comp = ast.ListComp(elt=elt, generators=[ast.comprehension(target=nx.target, iter=nx.iter, ifs=[cond] if cond is not None else [], is_async=0)])
                        out.append(ast.fix_missing_locations(ast.copy_location(ast.Assign(targets=[ast.Name(id=acc, ctx=ast.Store())], value=comp), st)))
                        i += 2
                        continue
            out.append(st)
            i += 1
        return out

    def _copy_prop(self, stmts):
        """N32: after a plain copy `x = y` (two names), the plain assignments that follow read y where they read x, until x or y
        is written again (`off = offset; end = off + n` is `end = offset + n`).  Only the right-hand sides of plain assignments to
        other names are touched; loops, branches and calls on x keep x."""
        out = list(stmts)
        for i, st in enumerate(out):
            if isinstance(st, ast.Assign) and len(st.targets) == 1 and isinstance(st.targets[0], ast.Name) and isinstance(st.value, ast.Name) and \
                    st.targets[0].id != st.value.id:
                x, y = st.targets[0].id, st.value.id
                for j in range(i + 1, len(out)):
                    nx = out[j]
                    if not (isinstance(nx, ast.Assign) and len(nx.targets) == 1 and isinstance(nx.targets[0], ast.Name)):
                        break
                    if nx.targets[0].id in (x, y):
                        break
                    for n in ast.walk(nx.value):
                        if isinstance(n, ast.Name) and n.id == x and isinstance(n.ctx, ast.Load):
                            n.id = y
        return out

    def _block(self, stmts):
        stmts = self._default_idiom(self._copy_prop(self._next_to_for(self._genexp_to_loops(self._loops_to_comprehension(self._list_extends(self._split_tuples(stmts)))))))
        out = []
        i = 0
        while i < len(stmts):
            st = stmts[i]
            # N9: early exit -> else.  `if c: ...return/raise/continue/break` followed by more statements is the same as
            # putting those statements in the else arm; the nested form is canonical (dispatch chains become if/elif chains)
            if isinstance(st, ast.If) and i + 1 < len(stmts) and _terminates(st.body):
                tail = st
                while tail.orelse:
                    if len(tail.orelse) == 1 and isinstance(tail.orelse[0], ast.If) and _terminates(tail.orelse[0].body):
                        tail = tail.orelse[0]
                    else:
                        tail = None
                        break
                if tail is not None:
                    tail.orelse = self._block(stmts[i + 1:])
                    out.append(st)
                    return out
            nxt = stmts[i + 1] if i + 1 < len(stmts) else None
            if isinstance(st, ast.Assign) and len(st.targets) == 1 and isinstance(st.targets[0], ast.Name) and isinstance(nxt, ast.Return) and \
                    isinstance(nxt.value, ast.Name) and nxt.value.id == st.targets[0].id and self.counts.get(st.targets[0].id) == (1, 1):
                out.append(ast.copy_location(ast.Return(value=st.value), st))
                i += 2
                continue
            if isinstance(st, ast.Pass) and len(stmts) > 1:
                i += 1
                continue
            if isinstance(st, ast.While):
                _prime_to_while_true(st, out, self)
            if isinstance(st, (ast.While, ast.For)):
                out.extend(_hoist_invariants(st))
            out.append(st)
            i += 1
        return out or [ast.Pass()]

    def _list_extends(self, stmts):
        """N15: x += [a, b] / x.extend([a, b])  ->  x.append(a); x.append(b)   (x a plain name)"""
        out = []
        for st in stmts:
            tgt = elts = None
            if isinstance(st, ast.AugAssign) and isinstance(st.op, ast.Add) and isinstance(st.target, ast.Name) and isinstance(st.value, ast.List):
                tgt, elts = st.target.id, st.value.elts
            elif isinstance(st, ast.Expr) and isinstance(st.value, ast.Call) and isinstance(st.value.func, ast.Attribute) and st.value.func.attr == 'extend' and \
                    isinstance(st.value.func.value, ast.Name) and len(st.value.args) == 1 and isinstance(st.value.args[0], (ast.List, ast.Tuple)):
                tgt, elts = st.value.func.value.id, st.value.args[0].elts
            if tgt is not None and elts and not any(isinstance(e, ast.Starred) for e in elts):
                for e in elts:
                    out.append(ast.copy_location(ast.Expr(value=ast.Call(func=ast.Attribute(value=ast.Name(id=tgt, ctx=ast.Load()), attr='append', ctx=ast.Load()),
                                                                       args=[e], keywords=[])), st))
                continue
            out.append(st)
        return out

    def _split_tuples(self, stmts):
        """N12: a, b = x, y  ->  a = x; b = y   when no target is read by a later element (plain names only)"""
        out = []
        for st in stmts:
            # N37: a = b = e  (plain names)  ->  a = e; b = a
            if isinstance(st, ast.Assign) and len(st.targets) >= 2 and all(isinstance(t, ast.Name) for t in st.targets):
                first = st.targets[0]
                out.append(ast.copy_location(ast.Assign(targets=[first], value=st.value), st))
                for t in st.targets[1:]:
                    out.append(ast.copy_location(ast.Assign(targets=[t], value=ast.Name(id=first.id, ctx=ast.Load())), st))
                continue
            # N33: _, x = f(..)  ->  x = f(..)[1]   (one real name among `_` placeholders, right-hand side not a tuple display)
            if isinstance(st, ast.Assign) and len(st.targets) == 1 and isinstance(st.targets[0], ast.Tuple) and not isinstance(st.value, ast.Tuple) and \
                    all(isinstance(t, ast.Name) for t in st.targets[0].elts):
                real = [(k, t) for k, t in enumerate(st.targets[0].elts) if t.id != '_' and self.counts.get(t.id, (0, 1))[1] > 0]     # a name nobody reads is a placeholder
                if len(real) == 1 and len(st.targets[0].elts) >= 1:      # also (x,) = f()  ->  x = f()[0]
                    k, t = real[0]
                    out.append(ast.copy_location(ast.Assign(targets=[ast.Name(id=t.id, ctx=ast.Store())],
                                                            value=ast.Subscript(value=st.value, slice=ast.Constant(value=k), ctx=ast.Load())), st))
                    continue
            if isinstance(st, ast.Assign) and len(st.targets) == 1 and isinstance(st.targets[0], ast.Tuple) and isinstance(st.value, ast.Tuple) and \
                    len(st.targets[0].elts) == len(st.value.elts) and all(isinstance(t, ast.Name) for t in st.targets[0].elts):
                names = [t.id for t in st.targets[0].elts]
                ok = True
                for k, v in enumerate(st.value.elts):
                    if any(isinstance(x, ast.Name) and x.id in names[:k] for x in ast.walk(v)):
                        ok = False
                if ok:
                    for t, v in zip(st.targets[0].elts, st.value.elts):
                        out.append(ast.copy_location(ast.Assign(targets=[t], value=v), st))
                    continue
            out.append(st)
        return out

    def generic_visit(self, node):
        super().generic_visit(node)
        for fld in ('body', 'orelse', 'finalbody'):
            b = getattr(node, fld, None)
            if isinstance(b, list) and b and isinstance(b[0], ast.stmt):
                setattr(node, fld, self._block(b))
        if isinstance(node, (ast.For, ast.While)):
            node.body = _drop_trailing_continue(node.body)     # after N9 moved the rest of the body into else arms
        return node


def _module_sigs(tree):
    """bare name -> positional parameter names (without self) for the functions and methods this module defines exactly once"""
    seen = {}
    for qual, fn in outer_functions(tree):
        a = fn.args
        if a.vararg or a.kwarg or a.kwonlyargs or a.posonlyargs:
            seen.setdefault(fn.name, []).append(None)
            continue
        ps = [x.arg for x in a.args]
        if '.' in qual and ps and ps[0] in ('self', 'cls') and not any(ast.unparse(d) == 'staticmethod' for d in fn.decorator_list):
            ps = ps[1:]
        seen.setdefault(fn.name, []).append(ps)
    return dict((k, v[0]) for k, v in seen.items() if len(v) == 1 and v[0] is not None and not (k.startswith('__') and k.endswith('__')))


def normalise(tree, keep_count=()):
    """Apply the N rules to every outermost function of the module until nothing changes (module/class level statements are
    left alone).  One rule can enable another (an early exit turned into an else arm makes the test swappable), so the pass is
    repeated to a fixed point: the canonical form must not depend on how often the front-end ran."""
    prev = None
    for _ in range(4):
        _normalise_once(tree, keep_count)
        cur = ast.dump(tree)
        if cur == prev:
            break
        prev = cur
    return tree


def _strip_hints(tree):
    """N38: type hints are comments to the analyser: argument and return annotations dropped, `x: T = e` is `x = e`,
    a bare `x: T` disappears"""
    class H(ast.NodeTransformer):
        def visit_FunctionDef(s, n):
            s.generic_visit(n)
            n.returns = None
            for a in n.args.args + n.args.kwonlyargs + n.args.posonlyargs + [x for x in (n.args.vararg, n.args.kwarg) if x is not None]:
                a.annotation = None
            return n

        def visit_AnnAssign(s, n):
            s.generic_visit(n)
            if n.value is None:
                return ast.copy_location(ast.Pass(), n)
            return ast.copy_location(ast.Assign(targets=[n.target], value=n.value), n)
    H().visit(tree)


def _count_loops(fn):
    """N42: for X in itertools.count(A, S): BODY  ->  X = A; while True: BODY; X += S     (no continue that belongs to this loop)"""
    def own_continue(stmts):
        for st in stmts:
            if isinstance(st, ast.Continue):
                return True
            if isinstance(st, (ast.For, ast.While, ast.FunctionDef, ast.ClassDef)):
                continue
            for fld in ('body', 'orelse', 'finalbody'):
                b = getattr(st, fld, None)
                if isinstance(b, list) and b and isinstance(b[0], ast.stmt) and own_continue(b):
                    return True
            for h in getattr(st, 'handlers', []) or []:
                if own_continue(h.body):
                    return True
        return False

    def rewrite(stmts):
        out = []
        for st in stmts:
            for fld in ('body', 'orelse', 'finalbody'):
                b = getattr(st, fld, None)
                if isinstance(b, list) and b and isinstance(b[0], ast.stmt) and not isinstance(st, (ast.FunctionDef, ast.ClassDef)):
                    setattr(st, fld, rewrite(b))
            for h in getattr(st, 'handlers', []) or []:
                h.body = rewrite(h.body)
            it = st.iter if isinstance(st, ast.For) else None
            if it is not None and isinstance(it, ast.Call) and not it.keywords and len(it.args) <= 2 and isinstance(st.target, ast.Name) and not st.orelse and \
                    ((isinstance(it.func, ast.Attribute) and it.func.attr == 'count' and isinstance(it.func.value, ast.Name) and it.func.value.id == 'itertools') or
                     (isinstance(it.func, ast.Name) and it.func.id == 'count')) and not own_continue(st.body) and \
                    all(isinstance(a, (ast.Name, ast.Constant)) for a in it.args[1:]):
                x = st.target.id
                start = it.args[0] if it.args else ast.Constant(value=0)
                step = it.args[1] if len(it.args) > 1 else ast.Constant(value=1)
                out.append(ast.copy_location(ast.Assign(targets=[ast.Name(id=x, ctx=ast.Store())], value=start), st))
                loop = ast.While(test=ast.Constant(value=True), orelse=[],
                                 body=st.body + [ast.AugAssign(target=ast.Name(id=x, ctx=ast.Store()), op=ast.Add(), value=step)])
                out.append(ast.copy_location(loop, st))
                continue
            # N42b: for X in range(A, B, S): BODY  ->  X = A; while X < B: BODY; X += S   (three-argument form only; the tree under
            # analysis has none, so this is always a step towards the reference spelling; X not rebound in BODY, no own continue)
            if it is not None and isinstance(it, ast.Call) and not it.keywords and len(it.args) == 3 and isinstance(it.func, ast.Name) and it.func.id == 'range' and \
                    isinstance(st.target, ast.Name) and not st.orelse and not own_continue(st.body) and \
                    not any(isinstance(n, ast.Name) and n.id == st.target.id and isinstance(n.ctx, ast.Store) for b in st.body for n in ast.walk(b)):
                x = st.target.id
                out.append(ast.copy_location(ast.Assign(targets=[ast.Name(id=x, ctx=ast.Store())], value=it.args[0]), st))
                loop = ast.While(test=ast.Compare(left=ast.Name(id=x, ctx=ast.Load()), ops=[ast.Lt()], comparators=[it.args[1]]), orelse=[],
                                 body=st.body + [ast.AugAssign(target=ast.Name(id=x, ctx=ast.Store()), op=ast.Add(), value=it.args[2])])
                out.append(ast.fix_missing_locations(ast.copy_location(loop, st)))
                continue
            out.append(st)
        return out
    fn.body = rewrite(fn.body)


def _sentinel_loops(fn):
    """N45: for X in iter(F, S): BODY  ->  while True: X = F(); if X == S: break; BODY      with F a parameterless lambda written in
    place or bound once to a local (the binding goes when that was its only use)"""
    lambdas = {}
    for n in ast.walk(fn):
        if isinstance(n, ast.Assign) and len(n.targets) == 1 and isinstance(n.targets[0], ast.Name) and isinstance(n.value, ast.Lambda) and \
                not (n.value.args.args or n.value.args.vararg or n.value.args.kwarg or n.value.args.kwonlyargs):
            lambdas.setdefault(n.targets[0].id, []).append(n)
    stores = {}
    loads = {}
    for n in ast.walk(fn):
        if isinstance(n, ast.Name):
            d = stores if isinstance(n.ctx, ast.Store) else loads
            d[n.id] = d.get(n.id, 0) + 1
    drop = set()

    def rewrite(stmts):
        out = []
        for st in stmts:
            for fld in ('body', 'orelse', 'finalbody'):
                b = getattr(st, fld, None)
                if isinstance(b, list) and b and isinstance(b[0], ast.stmt) and not isinstance(st, (ast.FunctionDef, ast.ClassDef)):
                    setattr(st, fld, rewrite(b))
            for h in getattr(st, 'handlers', []) or []:
                h.body = rewrite(h.body)
            it = st.iter if isinstance(st, ast.For) else None
            if it is not None and isinstance(it, ast.Call) and isinstance(it.func, ast.Name) and it.func.id == 'iter' and len(it.args) == 2 and not it.keywords and \
                    not st.orelse and isinstance(st.target, ast.Name) and isinstance(it.args[1], (ast.Constant, ast.Name)):
                f = it.args[0]
                body = None
                if isinstance(f, ast.Lambda) and not (f.args.args or f.args.vararg or f.args.kwarg or f.args.kwonlyargs):
                    body = f.body
                elif isinstance(f, ast.Name) and len(lambdas.get(f.id, ())) == 1 and stores.get(f.id) == 1:
                    body = copy.deepcopy(lambdas[f.id][0].value.body)
                    if loads.get(f.id) == 1:
                        drop.add(id(lambdas[f.id][0]))
                if body is not None:
                    x = st.target.id
                    read = ast.Assign(targets=[ast.Name(id=x, ctx=ast.Store())], value=body)
                    brk = ast.If(test=ast.Compare(left=ast.Name(id=x, ctx=ast.Load()), ops=[ast.Eq()], comparators=[it.args[1]]), body=[ast.Break()], orelse=[])
                    loop = ast.While(test=ast.Constant(value=True), body=[read, brk] + st.body, orelse=[])
                    out.append(ast.fix_missing_locations(ast.copy_location(loop, st)))
                    continue
            out.append(st)
        return out
    fn.body = rewrite(fn.body)
    if drop:
        for n in ast.walk(fn):
            for fld in ('body', 'orelse', 'finalbody'):
                b = getattr(n, fld, None)
                if isinstance(b, list) and any(id(x) in drop for x in b):
                    setattr(n, fld, [x for x in b if id(x) not in drop] or [ast.Pass()])


def _coalesce_copies(fn):
    """N43: Y = X (two plain locals, outside any loop), Y unseen before, X never used after  ->  Y is X: the copy goes and Y is
    spelled X from there on (`first = buckets[h]; if first < lo: return; idx = first; while ...: idx += 1`)"""
    order = {}
    nested = set()

    def dfs(n, innested):
        order[id(n)] = len(order)
        for c in ast.iter_child_nodes(n):
            inn = innested or (isinstance(c, (ast.FunctionDef, ast.AsyncFunctionDef, ast.Lambda, ast.ClassDef)))
            if inn and isinstance(c, ast.Name):
                nested.add(c.id)
            dfs(c, inn)
    dfs(fn, False)
    names = [n for n in ast.walk(fn) if isinstance(n, ast.Name)]
    params = set(a.arg for a in fn.args.args + fn.args.kwonlyargs + fn.args.posonlyargs)
    stored = set(n.id for n in names if isinstance(n.ctx, ast.Store)) | params
    declared = set(x for n in ast.walk(fn) if isinstance(n, (ast.Global, ast.Nonlocal)) for x in n.names)

    def blocks(stmts, inloop):
        yield stmts, inloop
        for st in stmts:
            if isinstance(st, (ast.FunctionDef, ast.ClassDef)):
                continue
            for fld in ('body', 'orelse', 'finalbody'):
                b = getattr(st, fld, None)
                if isinstance(b, list) and b and isinstance(b[0], ast.stmt):
                    for r in blocks(b, inloop or isinstance(st, (ast.For, ast.While))):
                        yield r
            for h in getattr(st, 'handlers', []) or []:
                for r in blocks(h.body, inloop):
                    yield r
    for stmts, inloop in list(blocks(fn.body, False)):
        if inloop:
            continue
        for i, st in enumerate(stmts):
            if not (isinstance(st, ast.Assign) and len(st.targets) == 1 and isinstance(st.targets[0], ast.Name) and isinstance(st.value, ast.Name)):
                continue
            y, x = st.targets[0].id, st.value.id
            if x == y or x not in stored or {x, y} & (nested | declared) or y in params:
                continue
            lo, hi = order[id(st)], max(order[id(n)] for n in ast.walk(st) if not isinstance(n, (ast.expr_context, ast.operator)))    # (context nodes are shared singletons)
            if any(n.id == y and order[id(n)] < lo for n in names) or any(n.id == x and order[id(n)] > hi for n in names):
                continue
            # the copy dominates every other use of Y: they all sit in the statements that follow it in its own block
            follow = set(id(n) for r in stmts[i + 1:] for n in ast.walk(r))
            if any(n.id == y and order[id(n)] > hi and id(n) not in follow for n in names):
                continue
            for n in names:
                if n.id == y and order[id(n)] > hi:
                    n.id = x
            stmts[i] = ast.copy_location(ast.Pass(), st)
            return True
    return False


def _normalise_once(tree, keep_count=()):
    _strip_hints(tree)
    msigs = _module_sigs(tree)
    for qual, fn in outer_functions(tree):
        if qual not in keep_count:       # towards the reference spelling: a function that is written with count() there keeps it
            _count_loops(fn)
        _sentinel_loops(fn)
        for _ in range(4):
            if not _coalesce_copies(fn):
                break
    for qual, fn in outer_functions(tree):
        counts = {}
        for n in ast.walk(fn):
            if isinstance(n, ast.Name):
                s, l = counts.get(n.id, (0, 0))
                counts[n.id] = (s + 1, l) if isinstance(n.ctx, (ast.Store, ast.Del)) else (s, l + 1)
        nv = _Norm(counts, msigs)
        fn.body = [nv.visit(st) for st in fn.body]
        fn.body = nv._block(fn.body)
    ast.fix_missing_locations(tree)
    return tree


def nested_defs(fn):
    """[(name, [parameter names])] of the function definitions nested in an outermost function, in source order"""
    out = []
    for n in ast.walk(fn):
        if isinstance(n, (ast.FunctionDef, ast.AsyncFunctionDef)) and n is not fn:
            out.append((n.name, [a.arg for a in n.args.args]))
    return out


def _rename_nested_params(fn, ref_nested):
    """a nested helper whose parameters were renamed (same helper by name, same arity): rename them back inside it"""
    want = dict((n, ps) for n, ps in ref_nested)
    for n in ast.walk(fn):
        if isinstance(n, (ast.FunctionDef, ast.AsyncFunctionDef)) and n is not fn and n.name in want:
            cur = [a.arg for a in n.args.args]
            ref = want[n.name]
            if cur != ref and len(cur) == len(ref):
                mp = dict((c, r) for c, r in zip(cur, ref) if c != r)
                inner_stores = set(x.id for x in ast.walk(n) if isinstance(x, ast.Name) and isinstance(x.ctx, ast.Store))
                if set(mp.values()) & (set(cur) | inner_stores):
                    continue
                for a in n.args.args:
                    if a.arg in mp:
                        a.arg = mp[a.arg]
                for x in ast.walk(n):
                    if isinstance(x, ast.Name) and x.id in mp:
                        x.id = mp[x.id]


def _rename_params(fn, ref_params, stats, rel, qual):
    """parameters are identified by position: a function whose parameters were renamed (same arity) gets the reference spelling
    back, in the analyser's tree only (callers that pass them by keyword were made positional by N7 where the name is unique)"""
    a = fn.args
    if a.vararg or a.kwarg or a.kwonlyargs or a.posonlyargs:
        return
    cur = [x.arg for x in a.args]
    if cur == ref_params or len(cur) != len(ref_params):
        return
    mp = dict((c, r) for c, r in zip(cur, ref_params) if c != r)
    others = set(x.id for x in ast.walk(fn) if isinstance(x, ast.Name)) - set(cur)
    if set(mp.values()) & (others | (set(cur) - set(mp))):
        return
    # nested functions/lambdas that rebind one of the names keep their own
    for x in a.args:
        if x.arg in mp:
            x.arg = mp[x.arg]
    for n in ast.walk(fn):
        if isinstance(n, ast.Name) and n.id in mp:
            n.id = mp[n.id]
    if stats is not None:
        stats.append((rel, qual, dict(mp)))


def new_locals(rel, qual, fn):
    """locals of a function that the reference function does not have (after renaming): candidates for N10"""
    mod = reference().get(rel, {})
    ref = mod.get(qual)
    if ref is None:
        if qual not in mod.get('__functions__', ()):
            return set()        # a function the reference does not know at all
        ref = []                # known, and it had no locals: every local it has now is new
    have = set(n for n, s in ref)
    return set(n for n, s in signatures(fn)) - have


def canonicalise(rel, tree, stats=None):
    """Rename the locals of every function of `tree` whose spelling differs from the reference table.  Returns the number
    of functions touched."""
    ref = reference().get(rel)
    if not ref:
        return 0
    touched = 0
    refn = ref.get('__nested__', {})
    refp = ref.get('__params__', {})
    for qual, fn in outer_functions(tree):
        if qual in refn:
            _rename_nested_params(fn, refn[qual])
        if qual in refp:
            _rename_params(fn, refp[qual], stats, rel, qual)
        want = ref.get(qual)
        if want is None:
            continue
        cur = signatures(fn)
        if [n for n, s in cur] == [n for n, s in want]:
            continue
        sm = difflib.SequenceMatcher(a=[s for n, s in want], b=[s for n, s in cur], autojunk=False)
        mapping = {}
        matched_cur = set()
        for blk in sm.get_matching_blocks():
            for k in range(blk.size):
                r, c = want[blk.a + k][0], cur[blk.b + k][0]
                matched_cur.add(c)
                if r != c:
                    mapping[c] = r
        if not mapping:
            continue
        # an unmatched current local that is spelled like a reference name now given to another local must move away
        targets = set(mapping.values())
        for c, s in cur:
            if c not in matched_cur and c in targets and c not in mapping:
                mapping[c] = c + '__x'
        # a matched-but-identically-spelled local whose name is the target of another mapping would merge two variables
        keep = set(c for c, s in cur if c in matched_cur and c not in mapping)
        clash = [c for c, r in mapping.items() if r in keep]
        for c in clash:
            del mapping[c]
        if not mapping:
            continue
        # never capture a parameter (a builtin is fine: the reference function itself used that spelling for a local)
        bad = _params(fn)
        mapping = dict((c, r) for c, r in mapping.items() if r not in bad)
        if mapping:
            _rename(fn, mapping)
            touched += 1
            if stats is not None:
                stats.append((rel, qual, dict(mapping)))
    return touched


def ifexp_names(fn):
    """plain locals of a function that some statement binds with a conditional expression (x = a if c else b)"""
    return sorted(set(st.targets[0].id for st in ast.walk(fn) if isinstance(st, ast.Assign) and len(st.targets) == 1 and
                      isinstance(st.targets[0], ast.Name) and isinstance(st.value, ast.IfExp)))


def align_ifexp(fn, ref_names, skip=()):
    """N46 (towards the reference spelling): a local the reference binds under if/else and this tree binds with a conditional
    expression is split into the if/else; one the reference binds with a conditional expression and this tree under a two-armed
    if (one plain assignment to it in each arm, nothing else) is merged.  Returns the number of statements changed."""
    cur = set(ifexp_names(fn)) - set(skip or ())
    ref = set(ref_names)
    n = [0]

    def rewrite(stmts):
        out = []
        for st in stmts:
            for fld in ('body', 'orelse', 'finalbody'):
                b = getattr(st, fld, None)
                if isinstance(b, list) and b and isinstance(b[0], ast.stmt) and not isinstance(st, (ast.FunctionDef, ast.ClassDef)):
                    setattr(st, fld, rewrite(b))
            for h in getattr(st, 'handlers', []) or []:
                h.body = rewrite(h.body)
            if isinstance(st, ast.Assign) and len(st.targets) == 1 and isinstance(st.targets[0], ast.Name) and isinstance(st.value, ast.IfExp) and \
                    st.targets[0].id in cur - ref:
                x = st.targets[0].id
                mk = lambda v: [ast.copy_location(ast.Assign(targets=[ast.Name(id=x, ctx=ast.Store())], value=v), st)]
                new = ast.If(test=st.value.test, body=rewrite(mk(st.value.body)), orelse=rewrite(mk(st.value.orelse)))
                out.append(ast.fix_missing_locations(ast.copy_location(new, st)))
                n[0] += 1
                continue
            if isinstance(st, ast.If) and len(st.body) == 1 and len(st.orelse) == 1 and \
                    all(isinstance(a, ast.Assign) and len(a.targets) == 1 and isinstance(a.targets[0], ast.Name) for a in (st.body[0], st.orelse[0])) and \
                    st.body[0].targets[0].id == st.orelse[0].targets[0].id and st.body[0].targets[0].id in ref - cur:
                x = st.body[0].targets[0].id
                new = ast.Assign(targets=[ast.Name(id=x, ctx=ast.Store())], value=ast.IfExp(test=st.test, body=st.body[0].value, orelse=st.orelse[0].value))
                out.append(ast.fix_missing_locations(ast.copy_location(new, st)))
                n[0] += 1
                continue
            out.append(st)
        return out
    fn.body = rewrite(fn.body)
    return n[0]


def count_loop_functions(tree):
    """outermost functions written with a `for .. in itertools.count(..)` loop"""
    return sorted(qual for qual, fn in outer_functions(tree)
                  if any(isinstance(n, ast.For) and isinstance(n.iter, ast.Call) and
                         ((isinstance(n.iter.func, ast.Attribute) and n.iter.func.attr == 'count') or (isinstance(n.iter.func, ast.Name) and n.iter.func.id == 'count'))
                         for n in ast.walk(fn)))


def build_reference(sources):
    """{rel: {qual: [[name, sig], ...]}} for every elftools/ module (tools/gen_locals.py)"""
    out = {}
    for rel, src in sorted(sources.items()):
        if not rel.startswith('elftools/'):
            continue
        try:
            tree = ast.parse(src)
        except SyntaxError:
            continue
        counted = count_loop_functions(tree)
        normalise(tree, counted)
        fns = {}
        allq = []
        nested = {}
        for qual, fn in outer_functions(tree):
            allq.append(qual)
            nd = nested_defs(fn)
            if nd:
                nested[qual] = [[n, ps] for n, ps in nd]
                allq += ['%s.<locals>.%s' % (qual, n) for n, ps in nd]
            sigs = signatures(fn)
            if sigs:
                fns[qual] = [[n, s] for n, s in sigs]
        fns['__functions__'] = allq
        fns['__nested__'] = nested
        fns['__params__'] = dict((qual, [x.arg for x in fn.args.args]) for qual, fn in outer_functions(tree))
        fns['__globals__'] = sorted(set(t.id for st in tree.body if isinstance(st, (ast.Assign, ast.AugAssign, ast.AnnAssign))
                                        for t in ast.walk(st) if isinstance(t, ast.Name) and isinstance(t.ctx, ast.Store)))
        fns['__countloops__'] = counted
        fns['__ifexp__'] = dict((qual, ifexp_names(fn)) for qual, fn in outer_functions(tree) if ifexp_names(fn))
        fns['__classattrs__'] = sorted(set('%s.%s' % (c.name, t.id) for c in ast.walk(tree) if isinstance(c, ast.ClassDef) for st in c.body
                                           if isinstance(st, (ast.Assign, ast.AnnAssign)) for t in ast.walk(st)
                                           if isinstance(t, ast.Name) and isinstance(t.ctx, ast.Store)))
        out[rel] = fns
    return out


# ---------------------------------------------------------------------------------------------------
# Code text that compares modulo the idiom normalisation: rules that look for a statement or expression by its unparsed
# text (`'x > 2' in src`) pass the needle through the same N2-N5 pass the trees went through, and ignore indentation.
# ---------------------------------------------------------------------------------------------------
import textwrap
_norm_cache = {}


def norm_text(snippet):
    """unparsed canonical form of a code snippet (statements or an expression); the snippet itself when it does not parse"""
    if snippet in _norm_cache:
        return _norm_cache[snippet]
    out = snippet
    try:
        t = ast.parse(textwrap.dedent(snippet))
        nv = _Norm({})
        t.body = [nv.visit(st) for st in t.body]
        ast.fix_missing_locations(t)
        out = ast.unparse(t)
    except (SyntaxError, ValueError, IndentationError):
        pass
    _norm_cache[snippet] = out
    return out


def _flat(text):
    return '\n'.join(l.strip() for l in text.split('\n'))


class Code(str):
    """str whose `in` and `==` compare modulo idiom normalisation and indentation"""
    __hash__ = str.__hash__

    def __contains__(self, needle):
        if str.__contains__(self, needle):
            return True
        if not isinstance(needle, str):
            return False
        return _flat(norm_text(needle)) in _flat(str(self)) or _flat(needle) in _flat(str(self))

    def __eq__(self, other):
        if str.__eq__(self, other) is True:
            return True
        if isinstance(other, str):
            return _flat(str(self)) == _flat(norm_text(other))
        return False

    def __ne__(self, other):
        return not self.__eq__(other)

    def replace(self, *a):
        return Code(str.replace(self, *a))


def U(node):
    """ast.unparse returning Code"""
    return Code(ast.unparse(node))
