"""Engine A: source model of /repo/elftools (+scripts): modules, imports, classes with MRO,
functions, simple call resolution.  Built from a {relpath: source} map so that in-memory
overlays (self-validation variants) need no scratch copy.
"""
import ast
import os
from .report import AnalysisError
from . import canon, inline

PKG_DIRS = ('elftools', 'scripts')


def read_sources(root):
    srcs = {}
    for d in PKG_DIRS:
        base = os.path.join(root, d)
        for dp, dn, fn in os.walk(base):
            dn[:] = [x for x in dn if x != '__pycache__']
            for f in sorted(fn):
                if f.endswith('.py'):
                    p = os.path.join(dp, f)
                    rel = os.path.relpath(p, root)
                    with open(p, 'rb') as fp:
                        srcs[rel] = fp.read().decode('utf-8', 'replace')
    return srcs


class FuncInfo(object):
    def __init__(self, mod, qual, node, cls=None):
        self.mod = mod          # relpath
        self.qual = qual        # 'Class.method' or 'func' (nested: 'outer.<locals>.inner')
        self.node = node
        self.cls = cls          # ClassInfo or None
        self.name = node.name

    @property
    def construct(self):
        return '%s:%s' % (self.mod.replace('elftools/', ''), self.qual)

    def is_generator(self):
        for n in walk_no_nested(self.node):
            if isinstance(n, (ast.Yield, ast.YieldFrom)):
                return True
        return False


class ClassInfo(object):
    def __init__(self, mod, name, node):
        self.mod = mod
        self.name = name
        self.node = node
        self.base_names = []
        self.bases = []         # resolved ClassInfo
        self.methods = {}       # name -> FuncInfo
        self.subclasses = []

    def mro(self):
        out = [self]
        for b in self.bases:
            for c in b.mro():
                if c not in out:
                    out.append(c)
        return out

    def find_method(self, name):
        for c in self.mro():
            if name in c.methods:
                return c.methods[name]
        return None

    def all_subclasses(self):
        out = []
        for s in self.subclasses:
            if s not in out:
                out.append(s)
                for t in s.all_subclasses():
                    if t not in out:
                        out.append(t)
        return out

    def is_subclass_of(self, name):
        return any(c.name == name for c in self.mro())


def walk_no_nested(node):
    """ast.walk that does not descend into nested function/class definitions or lambdas
    (but yields them)."""
    todo = list(ast.iter_child_nodes(node))
    while todo:
        n = todo.pop()
        yield n
        if isinstance(n, (ast.FunctionDef, ast.AsyncFunctionDef, ast.ClassDef, ast.Lambda)):
            continue
        todo.extend(ast.iter_child_nodes(n))


class Model(object):
    def __init__(self, root='/repo', overlay=None, sources=None):
        self.root = root
        self.sources = dict(sources) if sources is not None else read_sources(root)
        if overlay:
            self.sources.update(overlay)
        self.trees = {}
        self.renamed = []       # [(mod, qual, {current: reference})] locals renamed by sa/canon.py
        self.inlined = []       # [(mod, where, names)] new helpers / new locals expanded by sa/inline.py
        self.classes = {}       # name -> [ClassInfo]
        self.funcs = {}         # (mod, qual) -> FuncInfo
        self.by_name = {}       # bare function/method name -> [FuncInfo]
        self.mod_symbols = {}   # mod -> {name: ('class', ClassInfo)|('func', FuncInfo)|('import', mod, name)|('assign', node)}
        self._parse_all()
        self._link()

    # -- building ------------------------------------------------------------------
    def _parse_all(self):
        for rel, src in sorted(self.sources.items()):
            try:
                self.trees[rel] = ast.parse(src, filename=rel)
            except SyntaxError as e:
                raise AnalysisError('A-PARSE', rel, 'syntax error: %s' % e)
            # alpha-renaming invariance: locals spelled differently from the reference table are aligned by binding
            # signature and renamed back in this in-memory tree (sa/canon.py)
            if rel.startswith('elftools/'):
                tree = self.trees[rel]
                ref = canon.reference().get(rel)
                if ref is not None and '__globals__' in ref:
                    # N27: a new module-level table that folds arms of a dispatch chain is unfolded again
                    k = inline.expand_table_dispatch(tree, set(ref['__globals__']))
                    if k:
                        self.inlined.append((rel, 'table dispatch unfolded', [k]))
                    k = inline.expand_table_get(tree, set(ref['__globals__']), set(ref.get('__classattrs__', ())))
                    if k:
                        self.inlined.append((rel, 'table lookup unfolded', [k]))
                    # N30: new module-level constants written out where they are used
                    cs = inline.inline_new_constants(tree, set(ref['__globals__']))
                    if cs:
                        self.inlined.append((rel, 'constants', cs))
                if ref is not None and '__functions__' in ref:
                    # N11: helpers the reference tree does not have are expanded at their call sites (sa/inline.py)
                    n, names = inline.inline_new_helpers(tree, set(ref['__functions__']))
                    if n:
                        self.inlined.append((rel, 'helpers', names))
                canon.normalise(tree, tuple((ref or {}).get('__countloops__', ())))
                canon.canonicalise(rel, tree, self.renamed)
                if ref is not None:
                    # N10: locals the reference function does not have are replaced by their definition where that is safe
                    again = False
                    for qual, fn in canon.outer_functions(tree):
                        new = canon.new_locals(rel, qual, fn)
                        # N46 only re-spells locals the reference function has; a new local bound by a conditional expression stays one
                        # binding so that N10 can write it out where it is used
                        if '__ifexp__' in ref and canon.align_ifexp(fn, ref['__ifexp__'].get(qual, ()), skip=new):
                            again = True
                            new = canon.new_locals(rel, qual, fn)
                        if new:
                            done = inline.inline_temps(fn, new)
                            if done:
                                again = True
                                self.inlined.append((rel, qual, done))
                    if again:
                        canon.normalise(tree, tuple((ref or {}).get('__countloops__', ())))
                        canon.canonicalise(rel, tree, self.renamed)
            else:
                canon.canonicalise(rel, self.trees[rel], self.renamed)
        for rel, tree in self.trees.items():
            syms = self.mod_symbols.setdefault(rel, {})
            self._collect(rel, tree, '', None, syms, toplevel=True)

    def _collect(self, rel, node, prefix, cls, syms, toplevel=False):
        for st in node.body if hasattr(node, 'body') else []:
            self._collect_stmt(rel, st, prefix, cls, syms, toplevel)

    def _collect_stmt(self, rel, st, prefix, cls, syms, toplevel):
        if isinstance(st, ast.ClassDef):
            ci = ClassInfo(rel, st.name, st)
            ci.base_names = [self._name_of(b) for b in st.bases]
            self.classes.setdefault(st.name, []).append(ci)
            if toplevel:
                syms[st.name] = ('class', ci)
            for s2 in st.body:
                self._collect_stmt(rel, s2, prefix + st.name + '.', ci, syms, False)
        elif isinstance(st, (ast.FunctionDef, ast.AsyncFunctionDef)):
            qual = prefix + st.name
            fi = FuncInfo(rel, qual, st, cls)
            self.funcs[(rel, qual)] = fi
            self.by_name.setdefault(st.name, []).append(fi)
            if cls is not None and prefix == cls.name + '.':
                cls.methods[st.name] = fi
            if toplevel:
                syms[st.name] = ('func', fi)
            # nested defs
            for n in walk_no_nested(st):
                if isinstance(n, (ast.FunctionDef, ast.AsyncFunctionDef)):
                    q2 = qual + '.<locals>.' + n.name
                    f2 = FuncInfo(rel, q2, n, cls)
                    self.funcs[(rel, q2)] = f2
                    self.by_name.setdefault(n.name, []).append(f2)
        elif isinstance(st, (ast.Import, ast.ImportFrom)) and toplevel:
            if isinstance(st, ast.ImportFrom):
                target = self._resolve_import(rel, st.module, st.level)
                for a in st.names:
                    syms[a.asname or a.name] = ('import', target, a.name)
            else:
                for a in st.names:
                    syms[a.asname or a.name.split('.')[0]] = ('import', a.name, None)
        elif isinstance(st, ast.Assign) and toplevel:
            for t in st.targets:
                if isinstance(t, ast.Name):
                    syms[t.id] = ('assign', st)
        elif isinstance(st, (ast.If, ast.Try)) and toplevel:
            for s2 in ast.iter_child_nodes(st):
                if isinstance(s2, ast.stmt):
                    self._collect_stmt(rel, s2, prefix, cls, syms, toplevel)

    @staticmethod
    def _name_of(n):
        if isinstance(n, ast.Name):
            return n.id
        if isinstance(n, ast.Attribute):
            return n.attr
        return None

    def _resolve_import(self, rel, module, level):
        """Return the relpath of the imported module when it is in the model, else dotted name."""
        if level == 0:
            dotted = module or ''
            parts = dotted.split('.')
        else:
            base = rel.split('/')[:-1]
            if level > 1:
                base = base[:-(level - 1)]
            parts = base + (module.split('.') if module else [])
        cand = '/'.join(parts) + '.py'
        if cand in self.sources:
            return cand
        cand2 = '/'.join(parts) + '/__init__.py'
        if cand2 in self.sources:
            return cand2
        return '.'.join(parts)

    def _link(self):
        for name, lst in self.classes.items():
            for ci in lst:
                for bn in ci.base_names:
                    if bn is None or bn == 'object':
                        continue
                    b = self.resolve_class(ci.mod, bn)
                    if b is not None and b is not ci:
                        ci.bases.append(b)
                        b.subclasses.append(ci)

    # -- lookup --------------------------------------------------------------------
    def resolve_symbol(self, mod, name, depth=0):
        """Follow imports to the defining ('class'|'func'|'assign', obj, mod)."""
        if depth > 6:
            return None
        syms = self.mod_symbols.get(mod, {})
        if name in syms:
            s = syms[name]
            if s[0] == 'import':
                target, orig = s[1], s[2]
                if target in self.sources and orig:
                    if orig == '*':
                        return None
                    return self.resolve_symbol(target, orig, depth + 1)
                return None
            return (s[0], s[1], mod)
        # star imports
        for k, s in syms.items():
            if s[0] == 'import' and s[2] == '*' and s[1] in self.sources:
                r = self.resolve_symbol(s[1], name, depth + 1)
                if r:
                    return r
        return None

    def resolve_class(self, mod, name):
        r = self.resolve_symbol(mod, name)
        if r and r[0] == 'class':
            return r[1]
        lst = self.classes.get(name, [])
        if len(lst) == 1:
            return lst[0]
        for ci in lst:
            if ci.mod == mod:
                return ci
        return None

    def cls(self, name, mod=None):
        lst = self.classes.get(name, [])
        if mod:
            lst = [c for c in lst if c.mod == mod or c.mod == 'elftools/' + mod]
        if len(lst) != 1:
            raise AnalysisError('A-ANCHOR', name, 'class not found (or ambiguous: %d)' % len(lst))
        return lst[0]

    def func(self, mod, qual):
        """mod is relative to elftools/ (e.g. 'elf/elffile.py') or a full relpath."""
        for m in (mod, 'elftools/' + mod):
            if (m, qual) in self.funcs:
                return self.funcs[(m, qual)]
        # method inherited?
        if '.' in qual:
            cn, mn = qual.split('.', 1)
            for ci in self.classes.get(cn, []):
                if ci.mod in (mod, 'elftools/' + mod):
                    f = ci.find_method(mn)
                    if f:
                        return f
        raise AnalysisError('A-ANCHOR', '%s:%s' % (mod, qual), 'anchored function not found')

    def has_func(self, mod, qual):
        try:
            self.func(mod, qual)
            return True
        except AnalysisError:
            return False

    def tree(self, mod):
        for m in (mod, 'elftools/' + mod):
            if m in self.trees:
                return self.trees[m]
        raise AnalysisError('A-ANCHOR', mod, 'module not found')

    def relpath(self, mod):
        for m in (mod, 'elftools/' + mod):
            if m in self.trees:
                return m
        raise AnalysisError('A-ANCHOR', mod, 'module not found')

    def src(self, node, mod):
        try:
            return ast.get_source_segment(self.sources[self.relpath(mod)], node)
        except Exception:
            return ast.dump(node)

    def library_funcs(self):
        return [f for (m, q), f in sorted(self.funcs.items()) if m.startswith('elftools/')]

    def stats(self):
        mods = [m for m in self.trees if m.startswith('elftools/')]
        return dict(modules=len(mods), functions=len([1 for (m, q) in self.funcs if m.startswith('elftools/')]),
                    classes=sum(len(v) for v in self.classes.values()))


def unparse(n):
    try:
        return ast.unparse(n)
    except Exception:
        return ast.dump(n)
