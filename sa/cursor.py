"""Engine H: stream-cursor typestate.

State per *alias class* of stream (ELF file stream, one class per debug section family, FRESH
locals, P:<param> for parameter streams):
   K  positioned absolutely in this activation
   D  delegated: left by a cooperative callee (stream passed explicitly / method of the same object)
   E  as on entry
   U  unknown: a foreign call may have repositioned it, or a `yield` returned control to the consumer
Relative uses (read, tell, seek CUR, struct_parse without position, parse_stream, ...) need K/D.
A relative use in E becomes a *precondition* of the function, checked at every call site; a public
entry point with such a precondition on its own object's stream is a violation (H-CUR), a relative
use in U is a violation (H-CUR, or H-YIELD when the cause is a yield).
"""
import ast
import re
from .report import AnalysisError
from .model import walk_no_nested

K, D, E, U = 'K', 'D', 'E', 'U'

# names so generic that by-name resolution would be noise: resolved only on `self`
GENERIC = set('get items keys values append insert pop update sort decode encode join format startswith endswith find '
              'index count copy add extend lower upper seek read tell write close parse parse_stream sizeof build '
              '__getitem__ __len__ __iter__ __contains__ strip split replace hex setdefault remove clear group match '
              'search sub unpack pack flush decompress lstrip rstrip title capitalize'.split())

# frozen receiver hints (naming conventions of the repository, confirmed by reading)
RECEIVER_HINTS = {
    'elffile': ['ELFFile'], '_elffile': ['ELFFile'], 'dwarfinfo': ['DWARFInfo'], 'supplementary_dwarfinfo': ['DWARFInfo'],
    'cu': ['CompileUnit', 'TypeUnit'], 'CU': ['CompileUnit', 'TypeUnit'], 'tu': ['TypeUnit'],
    'die': ['DIE'], 'DIE': ['DIE'], 'top_DIE': ['DIE'], 'top': ['DIE'], 'child': ['DIE'], 'search': ['DIE'], 'parent': ['DIE'],
    'stringtable': ['StringTableSection', '_DynamicStringTable'], '_stringtable': ['StringTableSection', '_DynamicStringTable'],
    'symboltable': ['SymbolTableSection', 'DynamicSegment'], '_symboltable': ['SymbolTableSection', 'DynamicSegment'],
    'symtab': ['SymbolTableSection', 'DynamicSegment'],
    'structs': ['ELFStructs', 'DWARFStructs', 'EHABIStructs'], '_structs': ['DWARFStructs'],
    'section': ['Section'], 'seg': ['Segment'], 'segment': ['Segment'],
    '_section_header_stringtable': ['StringTableSection'],
    'strtab_section': ['StringTableSection'], 'symtab_section': ['SymbolTableSection'],
    'cfi': ['CallFrameInfo'], 'lineprogram': ['LineProgram'],
    '_loc': ['LocationLists'], '_loclists': ['LocationLists'], '_ranges': ['RangeLists'], '_rnglists': ['RangeLists'],
    'abbrev_decl': ['AbbrevDecl'], 'reloc_handler': ['RelocationHandler'],
}

SECTION_CLASS = {
    'info': 'D:info', 'types': 'D:info', 'abbrev': 'D:abbrev', 'frame': 'D:frame', 'eh_frame': 'D:frame', 'str': 'D:str',
    'loc': 'D:loc', 'loclists': 'D:loc', 'ranges': 'D:ranges', 'rnglists': 'D:ranges', 'line': 'D:line',
    'pubtypes': 'D:names', 'pubnames': 'D:names', 'addr': 'D:addr', 'str_offsets': 'D:str_offsets',
    'line_str': 'D:line_str', 'sup': 'D:sup', 'aranges': 'D:aranges',
}
MODULE_CLASS = {
    'elftools/dwarf/die.py': 'D:info', 'elftools/dwarf/compileunit.py': 'D:info', 'elftools/dwarf/typeunit.py': 'D:info',
    'elftools/dwarf/abbrevtable.py': 'D:abbrev', 'elftools/dwarf/lineprogram.py': 'D:line',
    'elftools/dwarf/callframe.py': 'D:frame', 'elftools/dwarf/locationlists.py': 'D:loc',
    'elftools/dwarf/ranges.py': 'D:ranges', 'elftools/dwarf/aranges.py': 'D:aranges', 'elftools/dwarf/namelut.py': 'D:names',
}

EXCLUDED_MODS = ('elftools/construct/',)
# functions not analysed, one reason each
SKIP_FUNCS = {
    ('elftools/common/utils.py', 'preserve_stream_pos'): 'the save/restore primitive itself',
    ('elftools/common/utils.py', 'save_dwarf_section'): 'debug helper: tell() value flows only into the restoring seek',
}


# Named exceptions (one symbol, one reason each; DESIGN.md §3 C10):
# a relative use that is exempt from the entry precondition
EXC_REL = {
    ('elftools/dwarf/callframe.py', 'CallFrameInfo._parse_entry_at', 'seek(SEEK_CUR)'):
        'cache-hit skip: the sequential caller holds tell()==offset (loop invariant of _parse_entries), the other caller '
        '(_parse_cie_for_fde) restores the position with preserve_stream_pos',
}
# a call edge treated as having no stream effect
EXC_EDGE = {
    ('elftools/dwarf/dwarf_util.py', '_get_base_offset', 'cu.get_top_DIE'):
        'the top DIE is always cached before any non-top DIE is parsed (DIE objects are constructed only by '
        'get_top_DIE/_get_cached_DIE, rule J-WHO), so this call never parses',
}


def is_streamish(name):
    return name in ('stream', '_stream', 'substream', 'file', 'ext_file') or name.endswith('_stream')


class Summary(object):
    def __init__(self):
        self.touch = set()        # classes possibly repositioned at exit (incl. P:<param>)
        self.need = {}            # class -> (line, what): relative use while state is E
        self.exit = {}            # class -> state at normal exits (join)
        self.is_gen = False


class Cursor(object):
    def __init__(self, world):
        self.world = world
        self.model = world.model
        self.funcs = [f for f in self.model.library_funcs() if not f.mod.startswith(EXCLUDED_MODS)
                      and (f.mod, f.qual) not in SKIP_FUNCS]
        self.summ = {}
        self.reports = []
        self.stats = dict(functions=0, stream_ops=0, relative_uses=0, absolute_ops=0, calls_resolved=0, yields=0,
                          preserve_blocks=0)
        self.properties = {}      # name -> [FuncInfo] for @property functions
        for f in self.funcs:
            for d in f.node.decorator_list:
                if isinstance(d, ast.Name) and d.id == 'property':
                    self.properties.setdefault(f.name, []).append(f)
        self._param_stream_cache = {}
        self.used_exceptions = set()
        self._attr_callables = {}

    # -- classification ------------------------------------------------------------------
    def classify(self, node, f, local):
        """-> alias class of a stream expression or None."""
        if isinstance(node, ast.Name):
            if node.id in local:
                return local[node.id]
            if is_streamish(node.id):
                params = self.params_of(f)
                if node.id in params:
                    return self.param_class(f, node.id)
                # closure variable of an enclosing function
                return self.enclosing_class(f, node.id)
            return None
        if isinstance(node, ast.Attribute) and is_streamish(node.attr):
            txt = ast.unparse(node)
            m = re.search(r'(?:debug_|)([a-z_]+?)_sec\.stream$', txt)
            if m:
                key = m.group(1)
                if txt.endswith('eh_frame_sec.stream'):
                    key = 'eh_frame'
                if txt.endswith('gnu_debugaltlink_sec.stream'):
                    return 'D:altlink'
                if key in SECTION_CLASS:
                    return SECTION_CLASS[key]
            if f.mod in MODULE_CLASS:
                return MODULE_CLASS[f.mod]
            if f.mod.startswith('elftools/elf/') or f.mod.startswith('elftools/ehabi/'):
                return 'ELF'
            if f.mod == 'elftools/common/utils.py':
                return 'X:' + txt
            return 'X:' + txt
        return None

    def params_of(self, f):
        a = f.node.args
        return [p.arg for p in a.posonlyargs + a.args + a.kwonlyargs]

    def param_class(self, f, name):
        # constructor parameter stored as the object's own stream -> the object's class
        if f.name == '__init__' and f.cls is not None:
            for n in walk_no_nested(f.node):
                if isinstance(n, ast.Assign) and isinstance(n.value, ast.Name) and n.value.id == name:
                    for t in n.targets:
                        if isinstance(t, ast.Attribute) and isinstance(t.value, ast.Name) and t.value.id == 'self' \
                                and is_streamish(t.attr):
                            c = self.classify(t, f, {})
                            if c and not c.startswith('X:'):
                                return c
        return 'P:' + name

    def enclosing_class(self, f, name):
        if '.<locals>.' in f.qual:
            outer_q = f.qual.rsplit('.<locals>.', 1)[0]
            outer = self.model.funcs.get((f.mod, outer_q))
            if outer is not None:
                if name in self.params_of(outer):
                    return self.param_class(outer, name)
                for n in walk_no_nested(outer.node):
                    if isinstance(n, ast.Assign) and len(n.targets) == 1 and isinstance(n.targets[0], ast.Name) \
                            and n.targets[0].id == name:
                        c = self.classify(n.value, outer, {})
                        if c:
                            return c
        return 'P:' + name

    # -- call resolution -------------------------------------------------------------------
    def resolve(self, call, f):
        """-> (list of FuncInfo, cooperative_self: bool)"""
        fn = call.func
        out = []
        coop = False
        if isinstance(fn, ast.Name):
            r = self.model.resolve_symbol(f.mod, fn.id)
            if r and r[0] == 'func':
                out = [r[1]]
            elif r and r[0] == 'class':
                out = self.ctor_funcs(r[1])
            else:
                # nested function / closure of the enclosing function
                q = f.qual + '.<locals>.' + fn.id
                g = self.model.funcs.get((f.mod, q))
                if g is None and '.<locals>.' in f.qual:
                    q = f.qual.rsplit('.<locals>.', 1)[0] + '.<locals>.' + fn.id
                    g = self.model.funcs.get((f.mod, q))
                if g is not None:
                    out = [g]
                    coop = True
                else:
                    cl = self.model.resolve_class(f.mod, fn.id)
                    if cl is not None and fn.id in self.model.classes:
                        out = self.ctor_funcs(cl)
        elif isinstance(fn, ast.Attribute):
            name = fn.attr
            base = fn.value
            if isinstance(base, ast.Name) and base.id in ('self', 'cls') and f.cls is not None:
                coop = True
                cands = [f.cls] + f.cls.all_subclasses()
                seen = set()
                for c in cands:
                    m = c.find_method(name)
                    if m is not None and id(m) not in seen:
                        seen.add(id(m))
                        out.append(m)
                if not out:
                    # attribute holding a callable (self.attribute(...)): the classes the constructors pass in
                    for ci in self.attr_callable_classes(f.cls, name):
                        for g in self.ctor_funcs(ci):
                            if g not in out:
                                out.append(g)
            elif isinstance(base, ast.Call) and isinstance(base.func, ast.Name) and base.func.id == 'super' and f.cls:
                coop = True
                for b in f.cls.mro()[1:]:
                    if name in b.methods:
                        out = [b.methods[name]]
                        break
            elif isinstance(base, ast.Name) and base.id in self.model.classes and \
                    self.model.resolve_class(f.mod, base.id) is not None and name in ('__init__',) + tuple(
                        self.model.resolve_class(f.mod, base.id).methods):
                # Section.__init__(self, ...) / StaticField._parse(self, ...)
                c = self.model.resolve_class(f.mod, base.id)
                m = c.find_method(name)
                if m is not None:
                    out = [m]
                    coop = True
            else:
                hint = None
                key = base.attr if isinstance(base, ast.Attribute) else (base.id if isinstance(base, ast.Name) else None)
                if key in RECEIVER_HINTS:
                    hint = RECEIVER_HINTS[key]
                if hint is not None:
                    for cn in hint:
                        for c in self.model.classes.get(cn, []):
                            for cc in [c] + c.all_subclasses():
                                m = cc.find_method(name)
                                if m is not None and m not in out:
                                    out.append(m)
                elif name not in GENERIC:
                    out = [g for g in self.model.by_name.get(name, []) if g.mod.startswith('elftools/') and
                           not g.mod.startswith(EXCLUDED_MODS) and g.cls is not None]
        out = [g for g in out if not g.mod.startswith(EXCLUDED_MODS)]
        return out, coop

    def attr_callable_classes(self, cls, attr):
        """Classes stored in instance attribute `attr` by the constructors of `cls` and of its subclasses
        (self.attr = <ctor parameter>; subclasses pass a class name for that parameter to super().__init__)."""
        key = (cls.name, attr)
        if key in self._attr_callables:
            return self._attr_callables[key]
        out = []
        self._attr_callables[key] = out
        owner = None
        pidx = None
        for c in cls.mro():
            init = c.methods.get('__init__')
            if init is None:
                continue
            params = [a.arg for a in init.node.args.args][1:]
            for n in walk_no_nested(init.node):
                if isinstance(n, ast.Assign) and isinstance(n.value, ast.Name) and n.value.id in params:
                    for t in n.targets:
                        if isinstance(t, ast.Attribute) and isinstance(t.value, ast.Name) and t.value.id == 'self' and t.attr == attr:
                            owner, pidx, pname = c, params.index(n.value.id), n.value.id
            if owner is not None:
                break
        if owner is None:
            return out
        for sub in [owner] + owner.all_subclasses():
            init = sub.methods.get('__init__')
            if init is None:
                continue
            for n in walk_no_nested(init.node):
                if isinstance(n, ast.Call) and isinstance(n.func, ast.Attribute) and n.func.attr == '__init__':
                    arg = None
                    args = list(n.args)
                    if isinstance(n.func.value, ast.Name) and n.func.value.id in self.model.classes and args:
                        args = args[1:]       # Base.__init__(self, ...)
                    if pidx < len(args):
                        arg = args[pidx]
                    for k in n.keywords:
                        if k.arg == pname:
                            arg = k.value
                    if isinstance(arg, ast.Name):
                        ci = self.model.resolve_class(sub.mod, arg.id)
                        if ci is not None and ci not in out:
                            out.append(ci)
        return out

    def ctor_funcs(self, ci):
        out = []
        for nm in ('__new__', '__init__'):
            m = ci.find_method(nm)
            if m is not None and not m.mod.startswith(EXCLUDED_MODS):
                out.append(m)
        return out

    # -- analysis --------------------------------------------------------------------------
    def run(self):
        for f in self.funcs:
            s = Summary()
            s.is_gen = f.is_generator()
            self.summ[(f.mod, f.qual)] = s
        for it in range(8):
            changed = False
            for f in self.funcs:
                old = self.summ[(f.mod, f.qual)]
                new = self.analyse(f, report=False)
                if new.touch != old.touch or set(new.need) != set(old.need) or new.exit != old.exit:
                    changed = True
                new.is_gen = old.is_gen
                self.summ[(f.mod, f.qual)] = new
            if not changed:
                break
        self.reports = []
        self.stats = dict((k, 0) for k in self.stats)
        for f in self.funcs:
            self.analyse(f, report=True)
        self.stats['functions'] = len(self.funcs)
        return self.reports

    def analyse(self, f, report):
        a = _FuncAnalysis(self, f, report)
        return a.run()


def join(a, b):
    if a is None:
        return b
    if b is None:
        return a
    out = {}
    for k in set(a) | set(b):
        x = a.get(k, (E,))
        y = b.get(k, (E,))
        out[k] = _join1(x, y)
    return out


ORDER = {K: 0, D: 1, E: 2, U: 3}


def _join1(x, y):
    if x[0] == y[0]:
        return x
    if x[0] == U:
        return x
    if y[0] == U:
        return y
    # K/D/E mixtures: E dominates (position not established on every path)
    return x if ORDER[x[0]] >= ORDER[y[0]] else y


class _FuncAnalysis(object):
    def __init__(self, cur, f, report):
        self.cur = cur
        self.f = f
        self.report = report
        self.local = {}        # local name -> class (aliases and FRESH)
        self.summary = Summary()
        self.exits = []
        self.preserved = []    # classes currently under preserve_stream_pos
        self._collect_locals()

    def _collect_locals(self):
        f = self.f
        for n in walk_no_nested(f.node):
            if isinstance(n, ast.Assign) and len(n.targets) == 1 and isinstance(n.targets[0], ast.Name):
                nm = n.targets[0].id
                v = n.value
                if isinstance(v, ast.Call) and isinstance(v.func, ast.Name) and v.func.id == 'BytesIO':
                    self.local[nm] = 'FRESH:' + nm
                elif is_streamish(nm) or (isinstance(v, (ast.Attribute, ast.Name)) and
                                          (is_streamish(getattr(v, 'attr', '')) or is_streamish(getattr(v, 'id', '')))):
                    c = self.cur.classify(v, f, {}) if isinstance(v, (ast.Attribute, ast.Name)) else None
                    if c:
                        self.local[nm] = c
            elif isinstance(n, ast.With):
                for it in n.items:
                    if it.optional_vars is not None and isinstance(it.optional_vars, ast.Name) and \
                            is_streamish(it.optional_vars.id):
                        self.local[it.optional_vars.id] = 'FRESH:' + it.optional_vars.id

    def run(self):
        state = {}
        out = self.block(self.f.node.body, state)
        if out is not None:
            self.exits.append(out)
        ex = None
        for e in self.exits:
            ex = join(ex, e)
        self.summary.exit = dict((k, v[0]) for k, v in (ex or {}).items())
        return self.summary

    # state: dict class -> (K,)|(D,)|(E,)|(U, reason)
    def get(self, st, c):
        return st.get(c, (E,))

    def block(self, stmts, st):
        for s in stmts:
            if st is None:
                return None
            st = self.stmt(s, st)
        return st

    def stmt(self, s, st):
        if isinstance(s, (ast.FunctionDef, ast.AsyncFunctionDef, ast.ClassDef)):
            return st
        if isinstance(s, ast.Return):
            if s.value is not None:
                st = self.expr(s.value, st)
            self.exits.append(st)
            return None
        if isinstance(s, ast.Raise):
            if s.exc is not None:
                self.expr(s.exc, st)
            return None
        if isinstance(s, ast.If):
            st = self.expr(s.test, st)
            a = self.block(s.body, dict(st))
            b = self.block(s.orelse, dict(st))
            return join(a, b)
        if isinstance(s, (ast.For, ast.While)):
            if isinstance(s, ast.For):
                st = self.expr(s.iter, st)
            entry = dict(st)
            cur = dict(st)
            self._breaks = getattr(self, '_breaks', [])
            saved_breaks = self._breaks
            for _ in range(4):
                self._breaks = []
                head = dict(cur)
                if isinstance(s, ast.While):
                    head = self.expr(s.test, head)
                else:
                    # a generator in the iterable is resumed at every iteration
                    head = self.expr(s.iter, head, resume_only=True)
                body_out = self.block(s.body, dict(head))
                conts = getattr(self, '_conts', [])
                self._conts = []
                nxt = join(cur, body_out)
                for c in conts:
                    nxt = join(nxt, c)
                if nxt == cur:
                    break
                cur = nxt
            # exit: condition false at head (or iterable exhausted), or break
            out = dict(cur)
            if isinstance(s, ast.While):
                if isinstance(s.test, ast.Constant) and s.test.value is True:
                    out = None
                else:
                    out = self.expr(s.test, out)
            for b in self._breaks:
                out = join(out, b)
            self._breaks = saved_breaks
            if s.orelse and out is not None:
                out = self.block(s.orelse, out)
            return out
        if isinstance(s, ast.Break):
            self._breaks = getattr(self, '_breaks', [])
            self._breaks.append(dict(st))
            return None
        if isinstance(s, ast.Continue):
            self._conts = getattr(self, '_conts', [])
            self._conts.append(dict(st))
            return None
        if isinstance(s, ast.Try):
            a = self.block(s.body, dict(st))
            outs = []
            if a is not None:
                a2 = self.block(s.orelse, a) if s.orelse else a
                outs.append(a2)
            for h in s.handlers:
                # an exception may surface anywhere in the body: handler starts from the join of entry and body exit
                hs = join(dict(st), a) if a is not None else dict(st)
                outs.append(self.block(h.body, hs))
            out = None
            for o in outs:
                out = join(out, o)
            if s.finalbody and out is not None:
                out = self.block(s.finalbody, out)
            return out
        if isinstance(s, ast.With):
            pres = []
            for it in s.items:
                ce = it.context_expr
                if isinstance(ce, ast.Call) and isinstance(ce.func, ast.Name) and ce.func.id == 'preserve_stream_pos' and ce.args:
                    c = self.cur.classify(ce.args[0], self.f, self.local)
                    if c:
                        pres.append(c)
                        self.cur.stats['preserve_blocks'] += 1
                else:
                    st = self.expr(ce, st)
            before = dict(st)
            self.preserved.extend(pres)
            out = self.block(s.body, st)
            for c in pres:
                self.preserved.remove(c)
            if out is not None:
                for c in pres:
                    if c in before:
                        out[c] = before[c]
                    else:
                        out.pop(c, None)
            # returns inside the block also restore: patch recorded exits is not needed for the summary
            return out
        if isinstance(s, ast.Assert):
            return self.expr(s.test, st)
        # simple statements: evaluate contained expressions
        for child in ast.iter_child_nodes(s):
            if isinstance(child, ast.expr):
                st = self.expr(child, st)
        return st

    # -- expressions ------------------------------------------------------------------------
    def expr(self, e, st, resume_only=False):
        """Apply, in evaluation order, the effects of the calls/yields inside an expression."""
        events = []
        self._collect(e, events)
        for kind, node in events:
            if kind == 'yield':
                if not resume_only:
                    self.cur.stats['yields'] += 1
                    for c in list(st.keys()) + [c for c in self._all_classes() if c not in st]:
                        if not c.startswith('FRESH:'):
                            st[c] = (U, ('yield', node.lineno))
            elif kind == 'call':
                st = self.call(node, st, resume_only)
            elif kind == 'prop':
                st = self.prop(node, st)
        return st

    def _all_classes(self):
        # classes this function refers to syntactically
        if not hasattr(self, '_classes'):
            cs = set()
            for n in walk_no_nested(self.f.node):
                if isinstance(n, (ast.Attribute, ast.Name)):
                    c = self.cur.classify(n, self.f, self.local)
                    if c:
                        cs.add(c)
            self._classes = cs
        return self._classes

    def _collect(self, n, out):
        if isinstance(n, (ast.Lambda, ast.FunctionDef, ast.AsyncFunctionDef, ast.ClassDef)):
            return
        if isinstance(n, (ast.ListComp, ast.GeneratorExp, ast.SetComp, ast.DictComp)):
            for g in n.generators:
                self._collect(g.iter, out)
                for c in g.ifs:
                    self._collect(c, out)
            if isinstance(n, ast.DictComp):
                self._collect(n.key, out)
                self._collect(n.value, out)
            else:
                self._collect(n.elt, out)
            return
        for c in ast.iter_child_nodes(n):
            self._collect(c, out)
        if isinstance(n, ast.Call):
            out.append(('call', n))
        elif isinstance(n, (ast.Yield, ast.YieldFrom)):
            out.append(('yield', n))
        elif isinstance(n, ast.Attribute) and isinstance(n.ctx, ast.Load) and n.attr in self.cur.properties:
            out.append(('prop', n))

    def rel_use(self, st, c, node, what):
        self.cur.stats['relative_uses'] += 1
        s = self.get(st, c)
        if c.startswith('FRESH:'):
            return
        if (self.f.mod, self.f.qual, what) in EXC_REL:
            self.cur.used_exceptions.add((self.f.mod, self.f.qual, what))
            return
        if s[0] == E:
            if c not in self.summary.need:
                self.summary.need[c] = (node.lineno, what)
        elif s[0] == U and self.report:
            reason = s[1]
            rule = 'H-YIELD' if reason[0] == 'yield' else 'H-CUR'
            if reason[0] == 'yield':
                why = 'after the yield at line %d the consumer may have repositioned the stream' % reason[1]
                inst = '%s on %s after yield' % (what, c)
            else:
                why = 'after the call to %s (line %d), which may reposition the same stream' % (reason[1], reason[2])
                inst = '%s on %s after %s' % (what, c, reason[1])
            self.cur.reports.append(dict(rule=rule, func=self.f, line=node.lineno, instance=inst,
                                         msg='relative use of the stream cursor at an unknown position: ' + why))

    def touch(self, c):
        if c.startswith('FRESH:'):
            return
        if c in self.preserved:
            return
        self.summary.touch.add(c)

    def call(self, call, st, resume_only=False):
        cur = self.cur
        f = self.f
        fn = call.func
        # primitive stream operations
        if isinstance(fn, ast.Attribute) and fn.attr in ('seek', 'read', 'tell', 'write', 'readline', 'readinto'):
            c = cur.classify(fn.value, f, self.local)
            if c is not None:
                if resume_only:
                    return st
                cur.stats['stream_ops'] += 1
                if fn.attr == 'seek':
                    wh = call.args[1] if len(call.args) > 1 else None
                    for k in call.keywords:
                        if k.arg == 'whence':
                            wh = k.value
                    whs = ast.unparse(wh) if wh is not None else ''
                    if wh is None or whs.endswith('SEEK_SET') or whs.endswith('SEEK_END') or whs in ('0', '2'):
                        cur.stats['absolute_ops'] += 1
                        st[c] = (K,)
                    else:
                        self.rel_use(st, c, call, 'seek(SEEK_CUR)')
                        if self.get(st, c)[0] == E:
                            st[c] = (D,)
                    self.touch(c)
                else:
                    self.rel_use(st, c, call, fn.attr)
                    if self.get(st, c)[0] == E:
                        st[c] = (D,)     # the precondition is recorded once; afterwards the position is ours
                    if fn.attr != 'tell':
                        self.touch(c)
                return st
        if isinstance(fn, ast.Name) and fn.id in ('struct_parse', 'parse_cstring_from_stream'):
            if resume_only:
                return st
            si = 1 if fn.id == 'struct_parse' else 0
            pi = 2 if fn.id == 'struct_parse' else 1
            sarg = call.args[si] if len(call.args) > si else None
            parg = call.args[pi] if len(call.args) > pi else None
            for k in call.keywords:
                if k.arg == 'stream':
                    sarg = k.value
                if k.arg == 'stream_pos':
                    parg = k.value
            c = cur.classify(sarg, f, self.local) if sarg is not None else None
            if c is None and sarg is not None:
                c = 'X:' + ast.unparse(sarg)
            if c is not None:
                cur.stats['stream_ops'] += 1
                if parg is not None and not (isinstance(parg, ast.Constant) and parg.value is None):
                    cur.stats['absolute_ops'] += 1
                    st[c] = (K,)
                else:
                    self.rel_use(st, c, call, fn.id + ' without position')
                    if self.get(st, c)[0] == E:
                        st[c] = (D,)
                self.touch(c)
            return st
        if isinstance(fn, ast.Attribute) and fn.attr in ('parse_stream', '_parse') and call.args and \
                not (isinstance(fn.value, ast.Name) and fn.value.id in cur.model.classes):
            c = cur.classify(call.args[0], f, self.local)
            if c is not None:
                if resume_only:
                    return st
                cur.stats['stream_ops'] += 1
                self.rel_use(st, c, call, fn.attr)
                if self.get(st, c)[0] == E:
                    st[c] = (D,)
                self.touch(c)
                return st
        # calls into the library
        if (f.mod, f.qual, _callee_text(call)) in EXC_EDGE:
            cur.used_exceptions.add((f.mod, f.qual, _callee_text(call)))
            return st
        callees, coop_self = cur.resolve(call, f)
        # stream arguments
        arg_classes = {}
        argnodes = list(call.args) + [k.value for k in call.keywords]
        for a in argnodes:
            c = cur.classify(a, f, self.local) if isinstance(a, (ast.Name, ast.Attribute)) else None
            if c:
                arg_classes[id(a)] = c
        passed = set(arg_classes.values())
        if not callees:
            # unknown callee: a stream passed explicitly is read cooperatively
            for c in passed:
                if resume_only:
                    continue
                self.rel_use(st, c, call, 'passed to %s' % _callee_text(call))
                if self.get(st, c)[0] == E:
                    st[c] = (D,)
                self.touch(c)
            return st
        cur.stats['calls_resolved'] += 1
        name = _callee_text(call)
        eff_touch = set()
        eff_need = {}
        eff_exit = {}
        any_gen = False
        for g in callees:
            s = cur.summ.get((g.mod, g.qual))
            if s is None:
                continue
            any_gen = any_gen or s.is_gen
            pmap = self.param_map(call, g)
            for c in s.touch:
                eff_touch.add(self.map_class(c, pmap))
            for c, v in s.need.items():
                eff_need.setdefault(self.map_class(c, pmap), v)
            for c, v in s.exit.items():
                mc = self.map_class(c, pmap)
                eff_exit[mc] = v if mc not in eff_exit or ORDER[v] > ORDER[eff_exit[mc]] else eff_exit[mc]
        if resume_only and not any_gen:
            return st
        if any_gen and not resume_only and isinstance(call, ast.Call):
            # creating a generator runs nothing; its effects happen when it is iterated.  Callers that
            # iterate it in a `for` get the effects through resume_only; other consumers (list(), any(),
            # return) are treated as running it here.
            pass
        for c in sorted(eff_need):
            if c is None or c.startswith('P:') and c not in self._own_param_classes():
                continue
            cooperative = coop_self or c in passed
            s0 = self.get(st, c)
            if s0[0] == E:
                self.summary.need.setdefault(c, (call.lineno, 'call to %s which reads at entry' % name))
            elif s0[0] == U and self.report:
                reason = s0[1]
                rule = 'H-YIELD' if reason[0] == 'yield' else 'H-CUR'
                self.cur.reports.append(dict(
                    rule=rule, func=f, line=call.lineno,
                    instance='%s reads %s at entry after %s' % (name, c, 'yield' if reason[0] == 'yield' else reason[1]),
                    msg='callee reads the stream at the position the caller holds, which is unknown here'))
        for c in sorted(x for x in eff_touch if x is not None):
            if c.startswith('P:') and c not in self._own_param_classes():
                continue
            if c.startswith('FRESH:'):
                continue
            cooperative = coop_self or c in passed
            if cooperative:
                ex = eff_exit.get(c, D)
                if ex == U:
                    st[c] = (U, ('call', name, call.lineno))
                else:
                    st[c] = (D,)
            else:
                st[c] = (U, ('call', name, call.lineno))
            self.touch(c)
        return st

    def prop(self, node, st):
        # attribute load of a @property that touches streams
        cands = []
        base = node.value
        if isinstance(base, ast.Name) and base.id == 'self' and self.f.cls is not None:
            m = self.f.cls.find_method(node.attr)
            if m is not None and m in self.cur.properties.get(node.attr, []):
                cands = [m]
            coop = True
        else:
            cands = self.cur.properties.get(node.attr, [])
            coop = False
        for g in cands:
            s = self.cur.summ.get((g.mod, g.qual))
            if not s:
                continue
            for c in s.touch:
                if c.startswith('P:') or c.startswith('FRESH:'):
                    continue
                st[c] = (D,) if coop and s.exit.get(c) != U else (U, ('call', 'property ' + node.attr, node.lineno))
                self.touch(c)
        return st

    def _own_param_classes(self):
        return set('P:' + p for p in self.cur.params_of(self.f))

    def param_map(self, call, g):
        """callee param class 'P:x' -> caller class of the actual argument."""
        params = self.cur.params_of(g)
        if params and params[0] in ('self', 'cls') and not (
                isinstance(call.func, ast.Attribute) and isinstance(call.func.value, ast.Name) and
                call.func.value.id in self.cur.model.classes):
            params = params[1:]
        m = {}
        for p, a in zip(params, call.args):
            c = self.cur.classify(a, self.f, self.local) if isinstance(a, (ast.Name, ast.Attribute)) else None
            m['P:' + p] = c
        for k in call.keywords:
            if k.arg:
                c = self.cur.classify(k.value, self.f, self.local) if isinstance(k.value, (ast.Name, ast.Attribute)) else None
                m['P:' + k.arg] = c
        return m

    def map_class(self, c, pmap):
        if c.startswith('P:'):
            return pmap.get(c)
        return c


def _callee_text(call):
    try:
        return ast.unparse(call.func)
    except Exception:
        return '?'


def public_entry_violations(cur):
    """A public method whose own object's stream is read at entry (state E) and which nobody inside the
    library calls cooperatively: the answer depends on where an earlier query left the stream."""
    out = []
    for f in cur.funcs:
        s = cur.summ.get((f.mod, f.qual))
        if not s or not s.need:
            continue
        for c, (line, what) in sorted(s.need.items()):
            if c.startswith('P:') or c.startswith('FRESH:') or c.startswith('X:'):
                continue
            if f.name.startswith('_') and f.name not in ('__iter__', '__len__', '__getitem__', '__contains__'):
                continue
            if '.<locals>.' in f.qual:
                continue
            out.append(dict(rule='H-CUR', func=f, line=line, instance='%s on %s at entry of public %s' % (what, c, f.name),
                            msg='public entry point uses the stream cursor before positioning it: the result depends '
                                'on where earlier queries left the stream'))
    return out
