"""./check --self-check: the framework's own sanity (registries parse, engines import, fixtures match)."""
import sys


def main():
    from . import registry, model, absint, layout, expr, dispatch, paths, literals  # noqa
    g = registry.glibc()
    l = registry.llvm()
    ok = True

    def need(c, what):
        nonlocal ok
        print(('ok   ' if c else 'FAIL ') + what)
        ok = ok and c
    need(len(g.defines) > 2500, 'glibc elf.h: %d defines' % len(g.defines))
    need(g.struct_layout('Elf64_Sym') is not None and len(g.structs) >= 30, 'glibc typedef structs: %d' % len(g.structs))
    need(len(l.elf) > 2000 and len(l.dwarf) > 900, 'LLVM registries: %d ELF, %d DWARF names' % (len(l.elf), len(l.dwarf)))
    need(g.defines.get('R_ARM_IRELATIVE') == 160 and l.elf.get('R_AARCH64_NONE') == 0, 'registry spot values')
    need(expr.spec_nf('a + n*b') == expr.spec_nf('(b*n) + a'), 'normal form commutes')
    need(expr.spec_cond('not (a < b)') == expr.spec_cond('b <= a'), 'condition normal form negates')
    import ast
    src = "def f(x):\n    if x == 'A':\n        return 1\n    elif x in ('B', 'C'):\n        return 2\n    else:\n        return 3\n"
    fn = ast.parse(src).body[0]
    ch = dispatch.find_chain(fn, dispatch.subject_name('x'))
    need(len(ch) == 1 and len(ch[0]) == 3, 'dispatch fixture')
    need(len(paths.func_paths(fn)) == 3, 'path fixture')
    print('SELF-CHECK ' + ('OK' if ok else 'FAILED'))
    return 0 if ok else 2
