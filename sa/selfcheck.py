"""./check --self-check: the framework's own sanity (registries parse, engines import, fixtures match)."""
import sys


def main():
    from . import registry, model, absint, layout, expr, dispatch, paths, literals  # noqa
    g = registry.glibc()
    l = registry.llvm()
    ok = True

    def need(c, what):
        nonlocal ok
        print(('ok   ' if c else 'FAIL ') + what)
        ok = ok and c
    need(len(g.defines) > 2500, 'glibc elf.h: %d defines' % len(g.defines))
    need(g.struct_layout('Elf64_Sym') is not None and len(g.structs) >= 30, 'glibc typedef structs: %d' % len(g.structs))
    need(len(l.elf) > 2000 and len(l.dwarf) > 900, 'LLVM registries: %d ELF, %d DWARF names' % (len(l.elf), len(l.dwarf)))
    need(g.defines.get('R_ARM_IRELATIVE') == 160 and l.elf.get('R_AARCH64_NONE') == 0, 'registry spot values')
    need(expr.spec_nf('a + n*b') == expr.spec_nf('(b*n) + a'), 'normal form commutes')
    need(expr.spec_cond('not (a < b)') == expr.spec_cond('b <= a'), 'condition normal form negates')
    import ast
    src = "def f(x):\n    if x == 'A':\n        return 1\n    elif x in ('B', 'C'):\n        return 2\n    else:\n        return 3\n"
    fn = ast.parse(src).body[0]
    ch = dispatch.find_chain(fn, dispatch.subject_name('x'))
    need(len(ch) == 1 and len(ch[0]) == 3, 'dispatch fixture')
    need(len(paths.func_paths(fn)) == 3, 'path fixture')
    # front-end fixtures (sa/canon.py): equivalent spellings meet in one canonical form; a non-equivalent one does not
    from . import canon, neutral, owner  # noqa

    def canon_of(text):
        t = ast.parse(text)
        canon.normalise(t)
        return ast.unparse(t)
    a = "def f(self, n):\n    if not n > 3:\n        r = n + 1\n    else:\n        r = 0\n    i = 0\n    i = i + 2\n    out = r * i\n    return out\n"
    b = "def f(self, n):\n    if 3 < n:\n        r = 0\n    else:\n        r = n + 1\n    i = 0\n    i += 2\n    return r * i\n"
    c = "def f(self, n):\n    if 3 <= n:\n        r = 0\n    else:\n        r = n + 1\n    i = 0\n    i += 2\n    return r * i\n"
    need(canon_of(a) == canon_of(b), 'idiom normalisation: equivalent spellings meet')
    need(canon_of(a) != canon_of(c), 'idiom normalisation: a changed bound does not')
    need(expr.CP('[x != 0]', True) == ('[x == 0]', False) and expr.CP(expr.spec_cond('a <= b'), True) == (expr.spec_cond('b < a'), False) and
         not (expr.CP('[x != 0]', True) == ('[x == 0]', True)), 'condition pairs fold polarity')
    need(expr.Facts([('[x == 0]', False)]).get('[x != 0]') is True, 'path facts answer both spellings')
    need(('if 2 < len(y):' in canon.Code(canon_of('def g(y):\n    if len(y) > 2:\n        return 1\n'))) and
         ('len(y) > 2' in canon.Code(canon_of('def g(y):\n    if len(y) > 2:\n        return 1\n'))), 'code needles are normalised like the tree')
    t1 = ast.parse("class K:\n    def m(self, a):\n        total = a + 1\n        for item in range(total):\n            total += item\n        return total\n")
    t2 = ast.parse("class K:\n    def m(self, a):\n        acc = a + 1\n        for x in range(acc):\n            acc += x\n        return acc\n")
    ref = {'K.m': [[n, sg] for n, sg in canon.signatures(t1.body[0].body[0])]}
    canon._ref_cache = dict(canon.reference(), **{'<fixture>': ref})
    canon.canonicalise('<fixture>', t2)
    need(ast.unparse(t2) == ast.unparse(t1), 'alpha-renaming: locals aligned with the reference by binding signature')
    need(len(canon.reference()) >= 35, 'spec/locals.json present: %d modules' % len(canon.reference()))
    need(len(neutral.KINDS) >= 9, 'neutral variant kinds: %d' % len(neutral.KINDS))
    # front-end part 2 fixtures (sa/inline.py)
    from . import inline
    h = ast.parse("class K:\n    def _pos(self, n):\n        return self.base + n * self.size\n    def get(self, n):\n        return parse(self.s, self._pos(n))\n")
    n_inl, names = inline.inline_new_helpers(h, {'K.get'})
    need(n_inl == 1 and 'parse(self.s, self.base + n * self.size)' in ast.unparse(h) and '_pos' not in ast.unparse(h), 'new helper expanded at its call site and dropped')
    h2 = ast.parse("class K:\n    def _pos(self, n):\n        return self.base + n * self.size\n    def get(self, n):\n        return parse(self.s, self._pos(n))\n")
    n_inl2, _ = inline.inline_new_helpers(h2, {'K.get', 'K._pos'})
    need(n_inl2 == 0, 'a helper the reference tree knows is left alone')
    fn = ast.parse("def f(a, s):\n    end = a + s.size\n    total = end * 2\n    return total\n").body[0]
    need(inline.inline_temps(fn, {'end'}) == ['end'] and 'total = (a + s.size) * 2' in ast.unparse(fn), 'new local replaced by its definition')
    fn = ast.parse("def f(a, s):\n    end = a + s.size\n    a = 0\n    return end + a\n").body[0]
    need(inline.inline_temps(fn, {'end'}) == [], 'not when an operand is rebound in between')
    fn = ast.parse("def f(s):\n    acc = []\n    for x in s:\n        acc.append(x)\n    return acc\n").body[0]
    need(inline.inline_temps(fn, {'acc'}) == [], 'a mutable display read more than once keeps its name (identity)')
    tg = ast.parse("class K:\n    def m(self, r):\n        nm = self._T.get(r.size)\n        if nm is None:\n            raise E()\n"
                   "        v = getattr(self.s, nm)('')\n        return v\n    _T = {4: 'word', 8: 'xword'}\n")
    need(inline.expand_table_get(tg, set(), set()) == 1 and
         canon_of(ast.unparse(tg.body[0].body[0])) == canon_of("def m(self, r):\n    if r.size == 4:\n        v = self.s.word('')\n    elif r.size == 8:\n"
                                                              "        v = self.s.xword('')\n    else:\n        raise E()\n    return v\n"),
         'N27b: a new constant table consulted with .get is the chain it replaced')
    need(canon_of("def f(self, i):\n    return next((v for v, it in self.iv() if v['n'] == i), None)\n") ==
         canon_of("def f(self, i):\n    for v, it in self.iv():\n        if v['n'] == i:\n            return v\n    return None\n"),
         'N39: a generator-expression search is the loop it abbreviates')
    pv = ast.parse("def g(c, n):\n    size = n\n    if c:\n        size //= 2\n    return size\n").body[0]
    vals = sorted(expr.path_value(p, p.end[1]) for p in paths.func_paths(pv))
    need(vals == ['floordiv(n,2)', 'n'], 'path-sensitive values: %s' % vals)
    print('SELF-CHECK ' + ('OK' if ok else 'FAILED'))
    return 0 if ok else 2
