"""Engine I: record-walk loop rules.

loop_advance: per path round a loop body, the net change of a cursor variable (sum of the
`c += e` steps in normal form, or the absolute target of a `c = e` step).
I-FIT: guard `c + A < end` admits a record of minimum size M that fits exactly (A < M for <, A <= M for <=).
I-REL: an absolute next position must mention a loop-variant position term.
"""
import ast
from . import expr, paths
from .report import AnalysisError


def loop_advance(loop, var, env):
    """-> [(conds [(condstr, polarity)], ('delta', poly) | ('abs', polystr), path)] over paths that reach the
    loop end (fall/continue); break/return/raise paths are returned with kind 'exit'."""
    out = []
    for p in paths.enum_paths(loop.body):
        delta = {}
        absolute = None
        for st in p.stmts():
            for n in [st]:
                if isinstance(n, ast.AugAssign) and isinstance(n.target, ast.Name) and n.target.id == var:
                    v = expr.nf(n.value, env)
                    if isinstance(n.op, ast.Add):
                        delta = expr._padd(delta, v)
                    elif isinstance(n.op, ast.Sub):
                        delta = expr._padd(delta, v, -1)
                    else:
                        absolute = '?augop'
                elif isinstance(n, ast.Assign) and len(n.targets) == 1 and isinstance(n.targets[0], ast.Name) and n.targets[0].id == var:
                    absolute = expr.nfs(n.value, env)
                    # c = c + e  is an advance
                    pv = expr.nf(n.value, env)
                    if pv.get((var,)) == 1:
                        d = dict(pv)
                        del d[(var,)]
                        if not any(var in m for m in d):
                            delta = expr._padd(delta, d)
                            absolute = None
                        else:
                            delta = {}
                    else:
                        delta = {}
        conds = [(expr.cond_str(t, env), pol) for t, pol in p.conds()]
        if p.end[0] in ('fall', 'continue'):
            out.append((conds, ('abs', absolute) if absolute is not None else ('delta', delta), p))
        else:
            out.append((conds, ('exit', p.end[0]), p))
    return out


def const_part(poly):
    """The part of an advance that does not depend on parsed data: constants and sizeof(...) terms."""
    out = {}
    for m, c in poly.items():
        if all(a.startswith('sizeof(') for a in m):
            out[m] = c
    return out


def guard_margin(test, var, end_text, env):
    """For a guard `var + A REL end`: returns (rel, A-poly) or None."""
    if not (isinstance(test, ast.Compare) and len(test.ops) == 1):
        return None
    op = test.ops[0]
    l = expr.nf(test.left, env)
    r = expr.nf(test.comparators[0], env)
    if isinstance(op, (ast.Gt, ast.GtE)):
        l, r = r, l
        op = ast.Lt() if isinstance(op, ast.Gt) else ast.LtE()
    if not isinstance(op, (ast.Lt, ast.LtE)):
        return None
    if l.get((var,)) != 1:
        return None
    a = dict(l)
    del a[(var,)]
    # move everything except `end` to the left: A = l - var - (r - end)
    endp = expr.nf(ast.parse(end_text, mode='eval').body, env)
    rest = expr._padd(r, endp, -1)
    a = expr._padd(a, rest, -1)
    return ('<' if isinstance(op, ast.Lt) else '<=', a)
