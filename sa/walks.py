"""Engine I: record-walk loop rules.

loop_advance: per path round a loop body, the net change of a cursor variable (sum of the
`c += e` steps in normal form, or the absolute target of a `c = e` step).
I-FIT: guard `c + A < end` admits a record of minimum size M that fits exactly (A < M for <, A <= M for <=).
I-REL: an absolute next position must mention a loop-variant position term.
"""
import ast
from . import expr, paths
from .report import AnalysisError


def loop_advance(loop, var, env):
    """-> [(conds [(condstr, polarity)], ('delta', poly) | ('abs', polystr), path)] over paths that reach the
    loop end (fall/continue); break/return/raise paths are returned with kind 'exit'."""
    out = []
    for p in paths.enum_paths(loop.body):
        delta = {}
        absolute = None
        for st in p.stmts():
            for n in [st]:
                if isinstance(n, ast.AugAssign) and isinstance(n.target, ast.Name) and n.target.id == var:
                    v = expr.nf(n.value, env)
                    if isinstance(n.op, ast.Add):
                        delta = expr._padd(delta, v)
                    elif isinstance(n.op, ast.Sub):
                        delta = expr._padd(delta, v, -1)
                    else:
                        absolute = '?augop'
                elif isinstance(n, ast.Assign) and len(n.targets) == 1 and isinstance(n.targets[0], ast.Name) and n.targets[0].id == var:
                    absolute = expr.nfs(n.value, env)
                    # c = c + e  is an advance
                    pv = expr.nf(n.value, env)
                    if pv.get((var,)) == 1:
                        d = dict(pv)
                        del d[(var,)]
                        if not any(var in m for m in d):
                            delta = expr._padd(delta, d)
                            absolute = None
                        else:
                            delta = {}
                    else:
                        delta = {}
        conds = [(expr.cond_str(t, env), pol) for t, pol in p.conds()]
        if p.end[0] in ('fall', 'continue'):
            out.append((conds, ('abs', absolute) if absolute is not None else ('delta', delta), p))
        else:
            out.append((conds, ('exit', p.end[0]), p))
    return out


def const_part(poly):
    """The part of an advance that does not depend on parsed data: constants and sizeof(...) terms."""
    out = {}
    for m, c in poly.items():
        if all(a.startswith('sizeof(') for a in m):
            out[m] = c
    return out


def guard_margin(test, var, end_text, env):
    """For a guard `var + A REL end`: returns (rel, A-poly) or None."""
    if not (isinstance(test, ast.Compare) and len(test.ops) == 1):
        return None
    op = test.ops[0]
    l = expr.nf(test.left, env)
    r = expr.nf(test.comparators[0], env)
    if isinstance(op, (ast.Gt, ast.GtE)):
        l, r = r, l
        op = ast.Lt() if isinstance(op, ast.Gt) else ast.LtE()
    if not isinstance(op, (ast.Lt, ast.LtE)):
        return None
    if l.get((var,)) != 1:
        return None
    a = dict(l)
    del a[(var,)]
    # move everything except `end` to the left: A = l - var - (r - end)
    endp = expr.nf(ast.parse(end_text, mode='eval').body, env)
    rest = expr._padd(r, endp, -1)
    a = expr._padd(a, rest, -1)
    return ('<' if isinstance(op, ast.Lt) else '<=', a)


def unbounded_index_reads(fnode):
    """[(subscript node, list name, index name)]: inside a loop, `L[i]` (load) where the local `i` is stepped (`i += k`) in the same
    loop and nothing on the way to the read bounds `i` by `len(L)`: neither the loop test, nor an enclosing if / conditional
    expression, nor a try that catches IndexError.  The walk it belongs to ends when the list is used up, not when the index
    variable says so -- a list of referenced offsets that runs out before the extent does (a gap at the end) raises IndexError."""
    import ast as _ast
    par = {}
    for n in _ast.walk(fnode):
        for c in _ast.iter_child_nodes(n):
            par[id(c)] = n
    out = []
    for loop in _ast.walk(fnode):
        if not isinstance(loop, (_ast.While, _ast.For)):
            continue
        stepped = set(n.target.id for n in _ast.walk(loop) if isinstance(n, _ast.AugAssign) and isinstance(n.target, _ast.Name) and isinstance(n.op, _ast.Add))
        for n in _ast.walk(loop):
            if not (isinstance(n, _ast.Subscript) and isinstance(n.ctx, _ast.Load) and isinstance(n.value, _ast.Name) and
                    isinstance(n.slice, _ast.Name) and n.slice.id in stepped):
                continue
            lst, idx = n.value.id, n.slice.id

            def bounds(test):
                names = set(x.id for x in _ast.walk(test) if isinstance(x, _ast.Name))
                lens = any(isinstance(x, _ast.Call) and isinstance(x.func, _ast.Name) and x.func.id == 'len' and x.args and
                           isinstance(x.args[0], _ast.Name) and x.args[0].id == lst for x in _ast.walk(test))
                return idx in names and lens
            ok = False
            x = n
            while id(x) in par and x is not fnode:
                p = par[id(x)]
                if isinstance(p, (_ast.If, _ast.While, _ast.IfExp)) and x is not p.test and bounds(p.test):
                    ok = True
                if isinstance(p, _ast.BoolOp) and isinstance(p.op, _ast.And) and any(bounds(v) for v in p.values[:p.values.index(x)] if x in p.values):
                    ok = True
                if isinstance(p, _ast.Try) and any(h.type is None or 'IndexError' in _ast.unparse(h.type) or 'Exception' in _ast.unparse(h.type) for h in p.handlers) and x in p.body:
                    ok = True
                x = p
            if not ok:
                out.append((n, lst, idx))
    # a loop nested in another is visited twice
    seen = set()
    res = []
    for n, l, i in out:
        if id(n) not in seen:
            seen.add(id(n))
            res.append((n, l, i))
    return res
