"""Rules H-CUR / H-YIELD as obligations, shared by the properties that anchor cursor clauses."""
from .cursor import Cursor, public_entry_violations

# Exceptions: one named symbol, one reason each (DESIGN.md §3 C10 "planned exceptions").
# (module, qualname, instance-substring) -> reason
EXCEPTIONS = {}


def cursor_of(world):
    if not hasattr(world, '_cursor'):
        c = Cursor(world)
        c.run()
        c.entry = public_entry_violations(c)
        world._cursor = c
    return world._cursor


def run_h(ctx, world, mods=None, rule_filter=None, label='', only=None):
    """One obligation per analysed function that touches a stream; each report is a failed instance."""
    cur = cursor_of(world)
    reps = list(cur.reports) + list(cur.entry)
    seen = set()
    byfunc = {}
    for r in reps:
        f = r['func']
        key = (r['rule'], f.mod, f.qual, r['instance'])
        if key in seen:
            continue
        seen.add(key)
        byfunc.setdefault((f.mod, f.qual), []).append(r)
    n = 0
    for f in cur.funcs:
        if mods is not None and f.mod.replace('elftools/', '') not in mods:
            continue
        if only is not None and not any(f.qual.startswith(x) for x in only.get(f.mod.replace('elftools/', ''), ('',))):
            continue
        s = cur.summ.get((f.mod, f.qual))
        rs = byfunc.get((f.mod, f.qual), [])
        if rule_filter:
            rs = [r for r in rs if r['rule'] in rule_filter]
        touches = bool(s and (s.touch or s.need)) or bool(rs)
        if not touches:
            continue
        n += 1
        if not rs:
            ctx.ob('H-CUR', f.construct, 'cursor discipline', True,
                   sample='%s: every relative stream use follows an absolute positioning / cooperative call' % f.construct)
        for r in rs:
            ctx.ob(r['rule'], f.construct, r['instance'], False, msg=r['msg'], line=r['line'])
    ctx.analysed['cursor' + label] = dict(cur.stats)
    return n
