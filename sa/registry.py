"""Engine C: parsers for the vendored registries (glibc elf.h; LLVM BinaryFormat headers).

Gives: name -> value maps per registry, C struct layouts (typedef struct) with member
types resolved to (size, signed), and function-like macros of one argument.
"""
import os
import re

REG = os.path.join(os.path.dirname(os.path.dirname(os.path.abspath(__file__))), 'registry')


def _strip_comments(s):
    s = re.sub(r'/\*.*?\*/', ' ', s, flags=re.S)
    s = re.sub(r'//[^\n]*', ' ', s)
    return s


_TOK = re.compile(r'\s*(0[xX][0-9a-fA-F]+|\d+|[A-Za-z_][A-Za-z0-9_]*|<<|>>|[-+*/%|&~^()])')


class CExprError(Exception):
    pass


def c_eval(expr, names):
    """Evaluate a C integer constant expression over known names."""
    expr = expr.strip()
    expr = re.sub(r'\((?:unsigned|uint32_t|uint64_t|unsigned int|int|uint8_t|uint16_t|Elf\d+_\w+)\)', '', expr)
    toks = []
    pos = 0
    while pos < len(expr):
        m = _TOK.match(expr, pos)
        if not m:
            if expr[pos:].strip() == '':
                break
            raise CExprError('token at %r' % expr[pos:pos + 20])
        t = m.group(1)
        pos = m.end()
        # integer suffixes
        m2 = re.match(r'[uUlL]+', expr[pos:])
        if m2 and re.match(r'^(0[xX][0-9a-fA-F]+|\d+)$', t):
            pos += m2.end()
        toks.append(t)
    out = []
    for t in toks:
        if re.match(r'^0[xX]', t):
            out.append(str(int(t, 16)))
        elif re.match(r'^\d+$', t):
            out.append(str(int(t, 8) if len(t) > 1 and t[0] == '0' else int(t)))
        elif re.match(r'^[A-Za-z_]', t):
            if t in names:
                out.append('(%d)' % names[t])
            else:
                raise CExprError('unknown name %s' % t)
        elif t == '/':
            out.append('//')
        else:
            out.append(t)
    src = ' '.join(out)
    if not re.match(r'^[-+*/%|&~^()<>\d\s]*$', src) or not src.strip():
        raise CExprError('bad expr %r' % src)
    try:
        return int(eval(src, {'__builtins__': {}}, {}))  # digits and operators only, checked above
    except Exception as e:
        raise CExprError(str(e))


def _typedef_structs(txt):
    """Yield (body, name) of every `typedef struct [tag] { body } name;` with nested braces."""
    for m in re.finditer(r'typedef\s+struct\s*(?:[A-Za-z_][A-Za-z0-9_]*)?\s*\{', txt):
        i = m.end()
        depth = 1
        while i < len(txt) and depth:
            if txt[i] == '{':
                depth += 1
            elif txt[i] == '}':
                depth -= 1
            i += 1
        body = txt[m.end():i - 1]
        mm = re.match(r'\s*([A-Za-z_][A-Za-z0-9_]*)\s*;', txt[i:])
        if mm:
            yield body, mm.group(1)


class CStruct(object):
    def __init__(self, name):
        self.name = name
        self.fields = []   # (member_name, ctype, arraylen or None)


class GlibcElf(object):
    def __init__(self, path=None):
        path = path or os.path.join(REG, 'glibc_elf.h')
        raw = open(path).read()
        # join continuation lines
        raw = raw.replace('\\\n', ' ')
        txt = _strip_comments(raw)
        self.defines = {}
        self.define_order = []
        self.fmacros = {}       # name -> (param, body)
        self.typedefs = {}      # name -> base type name
        self.structs = {}
        pending = []
        for line in txt.split('\n'):
            m = re.match(r'\s*#\s*define\s+([A-Za-z_][A-Za-z0-9_]*)\(([^)]*)\)\s+(.*)$', line)
            if m:
                self.fmacros[m.group(1)] = (m.group(2).strip(), m.group(3).strip())
                continue
            m = re.match(r'\s*#\s*define\s+([A-Za-z_][A-Za-z0-9_]*)\s+(.+?)\s*$', line)
            if m:
                pending.append((m.group(1), m.group(2)))
        # resolve defines iteratively (macros may reference later ones)
        for _ in range(6):
            rest = []
            for name, ex in pending:
                try:
                    v = c_eval(ex, self.defines)
                    if name in self.defines and self.defines[name] != v:
                        # redefinition with a different value (e.g. per-arch duplicates): keep a set
                        self.defines_multi.setdefault(name, set([self.defines[name]])).add(v)
                    self.defines[name] = v
                except CExprError:
                    rest.append((name, ex))
            if len(rest) == len(pending):
                break
            pending = rest
        self.unparsed = pending
        for m in re.finditer(r'typedef\s+([A-Za-z_][A-Za-z0-9_ ]*?)\s+([A-Za-z_][A-Za-z0-9_]*)\s*;', txt):
            base, name = m.group(1).strip(), m.group(2)
            if 'struct' in base:
                continue
            self.typedefs[name] = base
        for (body, name) in _typedef_structs(txt):
            # a union inside: reduce to its first member, named by that member
            def _u(mm):
                inner = mm.group(1)
                first = inner.strip().split(';')[0]
                return first + ';'
            body = re.sub(r'union\s*\{(.*?)\}\s*[A-Za-z_][A-Za-z0-9_]*\s*;', _u, body, flags=re.S)
            st = CStruct(name)
            for decl in body.split(';'):
                decl = decl.strip()
                if not decl:
                    continue
                mm = re.match(r'^(.*?)\s*([A-Za-z_][A-Za-z0-9_]*)\s*(?:\[\s*([A-Za-z0-9_]+)\s*\])?$', decl, flags=re.S)
                if not mm:
                    continue
                ctype = ' '.join(mm.group(1).split())
                alen = mm.group(3)
                if alen is not None:
                    alen = int(alen) if alen.isdigit() else self.defines.get(alen)
                st.fields.append((mm.group(2), ctype, alen))
            self.structs[name] = st

    defines_multi = {}

    PRIM = {
        'uint8_t': (1, False), 'uint16_t': (2, False), 'uint32_t': (4, False), 'uint64_t': (8, False),
        'int8_t': (1, True), 'int16_t': (2, True), 'int32_t': (4, True), 'int64_t': (8, True),
        'unsigned char': (1, False), 'char': (1, True), 'signed char': (1, True),
        'unsigned short': (2, False), 'short': (2, True), 'unsigned int': (4, False), 'int': (4, True),
    }

    def ctype(self, t):
        """Resolve a C type name to (size, signed)."""
        seen = 0
        while t not in self.PRIM:
            if t not in self.typedefs or seen > 8:
                return None
            t = self.typedefs[t]
            seen += 1
        return self.PRIM[t]

    def struct_layout(self, name):
        """[(member, size, signed, arraylen)]"""
        st = self.structs.get(name)
        if st is None:
            return None
        out = []
        for (m, t, alen) in st.fields:
            ct = self.ctype(t)
            if ct is None:
                return None
            out.append((m, ct[0], ct[1], alen))
        return out


def _parse_enum_bodies(txt, names):
    """Parse `enum [name] [: type] { A = expr, B, ... };` blocks into names (mutated)."""
    for m in re.finditer(r'enum\s*(?:class\s+)?([A-Za-z_][A-Za-z0-9_]*)?\s*(?::\s*[A-Za-z_0-9 ]+)?\s*\{(.*?)\}\s*;', txt, flags=re.S):
        body = m.group(2)
        cur = -1
        for item in body.split(','):
            item = item.strip()
            if not item or item.startswith('#'):
                # preprocessor lines inside enums (#define/#include) are handled elsewhere
                item = re.sub(r'#[^\n]*\n?', '', item).strip()
                if not item:
                    continue
            item = re.sub(r'#[^\n]*', '', item).strip()
            mm = re.match(r'^([A-Za-z_][A-Za-z0-9_]*)\s*(?:=\s*(.+))?$', item, flags=re.S)
            if not mm:
                continue
            nm, ex = mm.group(1), mm.group(2)
            if ex is not None:
                try:
                    cur = c_eval(ex.replace('\n', ' '), names)
                except CExprError:
                    if re.match(r'^~\s*0U?$', ex.strip()):
                        cur = 0xffffffff
                    else:
                        continue
            else:
                cur += 1
            names.setdefault(nm, cur)


class LLVMRegs(object):
    def __init__(self, base=None):
        base = base or os.path.join(REG, 'llvm')
        self.elf = {}
        self.dwarf = {}
        # ELF.h enums
        txt = _strip_comments(open(os.path.join(base, 'ELF.h')).read())
        _parse_enum_bodies(txt, self.elf)
        # relocs
        self.relocs = {}
        rd = os.path.join(base, 'ELFRelocs')
        for f in sorted(os.listdir(rd)):
            t = _strip_comments(open(os.path.join(rd, f)).read())
            for m in re.finditer(r'ELF_RELOC\(\s*([A-Za-z0-9_]+)\s*,\s*([^)]+?)\s*\)', t):
                try:
                    self.elf.setdefault(m.group(1), c_eval(m.group(2), self.elf))
                    self.relocs[m.group(1)] = f
                except CExprError:
                    pass
        t = _strip_comments(open(os.path.join(base, 'DynamicTags.def')).read())
        for m in re.finditer(r'^\s*([A-Z0-9_]*DYNAMIC_TAG(?:_MARKER)?)\(\s*([A-Za-z0-9_]+)\s*,\s*([^)]+?)\s*\)', t, flags=re.M):
            if m.group(2) in ('name',):
                continue
            try:
                self.elf.setdefault('DT_' + m.group(2), c_eval(m.group(3), self.elf))
            except CExprError:
                pass
        # Dwarf.def
        t = _strip_comments(open(os.path.join(base, 'Dwarf.def')).read())
        pref = dict(TAG='DW_TAG_', AT='DW_AT_', FORM='DW_FORM_', OP='DW_OP_', LANG='DW_LANG_', ATE='DW_ATE_',
                    VIRTUALITY='DW_VIRTUALITY_', DEFAULTED='DW_DEFAULTED_', CC='DW_CC_', LNS='DW_LNS_',
                    LNE='DW_LNE_', LNCT='DW_LNCT_', MACRO='DW_MACRO_', MACRO_GNU='DW_MACRO_GNU_', RLE='DW_RLE_', LLE='DW_LLE_',
                    CFA='DW_CFA_', CFA_PRED='DW_CFA_', UT='DW_UT_', IDX='DW_IDX_', END='DW_END_', SECT='DW_SECT_',
                    APPLE_PROPERTY='DW_APPLE_PROPERTY_')
        for m in re.finditer(r'^\s*HANDLE_DW_([A-Z_]+)\(\s*(0x[0-9a-fA-F]+|\d+)\s*,\s*([A-Za-z0-9_]+)', t, flags=re.M):
            kind, val, nm = m.group(1), m.group(2), m.group(3)
            if kind in pref and nm not in ('NAME', 'ID'):
                self.dwarf.setdefault(pref[kind] + nm, int(val, 0))
        txt = _strip_comments(open(os.path.join(base, 'Dwarf.h')).read())
        _parse_enum_bodies(txt, self.dwarf)


_cache = {}


def glibc():
    if 'g' not in _cache:
        _cache['g'] = GlibcElf()
    return _cache['g']


def llvm():
    if 'l' not in _cache:
        _cache['l'] = LLVMRegs()
    return _cache['l']
