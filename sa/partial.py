"""J-PARTIAL -- a container kept on an object must not be observable half-filled.

Two ways a memo becomes history-dependent without any key being wrong:

 R1  *filled between yields*: a generator mutates a container that lives on an object (self.X.append(..), obj.X[k] = .., or a
     local that was published into object state: `self.X = acc = []`, `acc = obj.X[k] = []`, `acc = self.X`) and a `yield` can
     still follow the mutation (same loop, or later in the body).  A consumer that abandons the iteration (break, first match,
     next()) leaves the container partial -- or a second walk fills it twice.  If anything reads that attribute, the answer of
     a later query depends on how far an earlier iteration was driven.
 R2  *incremental containers read as a whole*: an attribute that receives single-element insertions in a function that did not
     itself create the container (a positional cache such as `_dielist`, `_cu_cache`, `_entry_cache`) holds "whatever was asked
     for so far".  Reads by key (subscript with a non-negative index, `in`, bisect, `.get`, truthiness) are history-independent
     when the insertions are correct; reads of the whole (iteration, `iter`, `len`, `list`, `[-1]`, slices, `return`, passing it
     on) are not.

Both are necessary conditions of C10 ("lazily built caches never change an observable result"): breaking one makes a result
depend on the queries that came before.  What is decided is this structural part, not equality of results over histories."""
import ast
from sa.canon import U
from sa.model import walk_no_nested

MUT = ('insert', 'append', 'extend', 'add', 'update', 'setdefault', 'appendleft')
KEYED_CALLS = ('bisect_right', 'bisect_left', 'bisect', 'insort', 'insort_right', 'insort_left')
KEYED_METHODS = ('get', '__contains__', '__getitem__') + MUT + ('pop', 'remove', 'clear', 'sort', 'reverse', 'discard', 'index')
# all-at-once builders may iterate what they built; these attributes are *not* caches of query results but the object's own,
# fully built contents (one line of reason each; confirmed by reading)
R2_EXEMPT = {
    # DIE.attributes: filled completely by _parse_DIE (called by DIE.__init__ only); _translate_indirect_attributes overwrites existing
    # keys of the *top* entry inside get_top_DIE, before that entry is cached or returned.  Exempt only while these are the only fillers.
    'attributes': {'DIE._parse_DIE', 'DIE._translate_indirect_attributes'},
}


def _parents(fnode):
    par = {}
    for n in ast.walk(fnode):
        for c in ast.iter_child_nodes(n):
            par[id(c)] = n
    return par


def _fresh(v):
    return isinstance(v, (ast.List, ast.Dict, ast.Set)) or (isinstance(v, ast.Call) and isinstance(v.func, ast.Name) and
                                                            v.func.id in ('list', 'dict', 'set', 'OrderedDict', 'defaultdict', 'deque') )


def _state_attr(t):
    """attribute name when `t` designates object state: <expr>.A  or  <expr>.A[k]"""
    if isinstance(t, ast.Subscript):
        t = t.value
    if isinstance(t, ast.Attribute) and not (isinstance(t.value, ast.Name) and t.value.id in ('ast', 'os', 'sys')):
        return t.attr
    return None


def _func_facts(f):
    """-> dict(mut=[(attr, node, via)], created=set(attrs freshly assigned here), gen=bool, yields=[nodes], loops)"""
    node = f.node
    nodes = list(walk_no_nested(node))
    yields = [n for n in nodes if isinstance(n, (ast.Yield, ast.YieldFrom))]
    alias = {}          # local name -> attr it aliases
    created = set()
    for n in nodes:
        if isinstance(n, ast.Assign):
            attrs = [a for a in (_state_attr(t) for t in n.targets) if a]
            names = [t.id for t in n.targets if isinstance(t, ast.Name)]
            if attrs and _fresh(n.value):
                for t in n.targets:
                    if isinstance(t, ast.Attribute):
                        created.add(t.attr)
                for nm in names:        # self.X = acc = []
                    alias[nm] = attrs[0]
            elif attrs and isinstance(n.value, ast.Name):          # self.X = acc   /  obj.X[k] = acc
                alias.setdefault(n.value.id, attrs[0])
            elif names and not attrs:
                a = None
                v = n.value
                if isinstance(v, ast.Attribute):                 # acc = self.X
                    a = _state_attr(v)
                elif isinstance(v, ast.Call) and isinstance(v.func, ast.Attribute) and v.func.attr in ('setdefault', 'get') and \
                        isinstance(v.func.value, ast.Attribute):      # acc = self.X.setdefault(k, [])
                    a = v.func.value.attr
                elif isinstance(v, ast.Subscript) and isinstance(v.value, ast.Attribute):   # acc = self.X[k]
                    a = v.value.attr
                if a:
                    for nm in names:
                        alias[nm] = a
    mut = []
    for n in nodes:
        if isinstance(n, ast.Call) and isinstance(n.func, ast.Attribute) and n.func.attr in MUT:
            r = n.func.value
            if isinstance(r, ast.Attribute):
                mut.append((r.attr, n, U(r)))
            elif isinstance(r, ast.Subscript) and isinstance(r.value, ast.Attribute):
                mut.append((r.value.attr, n, U(r)))
            elif isinstance(r, ast.Name) and r.id in alias:
                mut.append((alias[r.id], n, '%s (published as .%s)' % (r.id, alias[r.id])))
        elif isinstance(n, ast.Subscript) and isinstance(n.ctx, ast.Store):
            r = n.value
            if isinstance(r, ast.Attribute):
                mut.append((r.attr, n, U(r)))
            elif isinstance(r, ast.Name) and r.id in alias:
                mut.append((alias[r.id], n, '%s (published as .%s)' % (r.id, alias[r.id])))
    return dict(mut=mut, created=created, gen=bool(yields), yields=yields)


def _yield_can_follow(fnode, par, m, yields):
    """a yield shares a loop with the mutation, or comes later in the body"""
    loops = []
    x = m
    while id(x) in par:
        x = par[id(x)]
        if isinstance(x, (ast.For, ast.While)):
            loops.append(x)
    for y in yields:
        if (getattr(y, 'lineno', 0), getattr(y, 'col_offset', 0)) > (getattr(m, 'lineno', 0), getattr(m, 'col_offset', 0)):
            return True
        for lp in loops:
            if any(z is y for z in ast.walk(lp)):
                return True
    return False


def _read_kind(n, par):
    """classification of one Load of <expr>.A : 'keyed' | description of the whole-read"""
    p = par.get(id(n))
    if isinstance(p, ast.Subscript) and p.value is n:
        s = p.slice
        if isinstance(s, ast.Slice):
            return 'slice ' + U(p)
        if isinstance(s, ast.UnaryOp) and isinstance(s.op, ast.USub) and isinstance(s.operand, ast.Constant):
            return 'position counted from the end ' + U(p)
        if isinstance(s, ast.Constant) and isinstance(s.value, int) and s.value < 0:
            return 'position counted from the end ' + U(p)
        return 'keyed'
    if isinstance(p, ast.Compare) and any(isinstance(o, (ast.In, ast.NotIn)) for o in p.ops) and n in p.comparators:
        return 'keyed'
    if isinstance(p, ast.Compare) and all(isinstance(o, (ast.Is, ast.IsNot)) for o in p.ops):
        return 'keyed'          # None test
    if isinstance(p, ast.Attribute) and p.value is n:
        gp = par.get(id(p))
        if isinstance(gp, ast.Call) and gp.func is p and p.attr in KEYED_METHODS:
            return 'keyed'
        return 'method .%s()' % p.attr
    if isinstance(p, ast.Call) and n in p.args:
        fn = p.func.attr if isinstance(p.func, ast.Attribute) else getattr(p.func, 'id', '?')
        if fn in KEYED_CALLS or fn == 'bool':
            return 'keyed'
        return 'passed whole to %s()' % fn
    if isinstance(p, (ast.If, ast.While, ast.IfExp, ast.Assert)) and p.test is n:
        return 'keyed'          # truthiness
    if isinstance(p, ast.UnaryOp) and isinstance(p.op, ast.Not):
        return 'keyed'
    if isinstance(p, ast.BoolOp):
        return 'keyed'
    if isinstance(p, (ast.For, ast.comprehension)) and p.iter is n:
        return 'iterated'
    if isinstance(p, ast.YieldFrom):
        return 'yield from'
    if isinstance(p, ast.Return):
        return 'returned whole'
    if isinstance(p, ast.Assign) and p.value is n:
        return 'keyed'          # alias binding; the alias' own uses are not followed (reported through R1 when mutated)
    return 'used whole in ' + type(p).__name__


def check_partial(ctx, w, rule='J-PARTIAL', mods=None, quals=None):
    """mods: module suffixes a property owns; quals: qualified-name prefixes inside those modules (None = all)"""
    def mine(f):
        return (mods is None or any(f.mod.endswith(m) for m in mods)) and (quals is None or any(f.qual.startswith(q) for q in quals))
    funcs = [f for f in w.model.library_funcs() if '/construct/' not in f.mod and mine(f)]
    allf = [f for f in w.model.library_funcs() if '/construct/' not in f.mod]
    facts = dict((id(f), _func_facts(f)) for f in allf)
    # every Load of an attribute, over the whole library
    loads = {}
    for f in allf:
        par = _parents(f.node)
        for n in walk_no_nested(f.node):
            if isinstance(n, ast.Attribute) and isinstance(n.ctx, ast.Load):
                loads.setdefault(n.attr, []).append((f, n, par))
    n_gen = n_mut = 0
    # R1
    for f in funcs:
        fa = facts[id(f)]
        if not fa['gen']:
            continue
        n_gen += 1
        par = _parents(f.node)
        seen = set()
        for attr, m, via in fa['mut']:
            if attr in seen or not _yield_can_follow(f.node, par, m, fa['yields']):
                continue
            # readers: any Load of the attribute that is not the receiver of a mutation
            readers = []
            for g, n, gpar in loads.get(attr, []):
                p = gpar.get(id(n))
                if isinstance(p, ast.Attribute) and isinstance(gpar.get(id(p)), ast.Call) and p.attr in MUT:
                    continue
                if isinstance(p, ast.Subscript) and isinstance(p.ctx, ast.Store):
                    continue
                readers.append('%s:%s' % (g.qual, getattr(n, 'lineno', 0)))
            seen.add(attr)
            ctx.ob(rule, f.construct, 'generator fills %s between yields' % via, not readers, got=readers[:4], line=getattr(m, 'lineno', None),
                   msg='a container kept on an object is filled while the generator is suspended between yields: an iteration the caller '
                       'abandons (break, first match, next()) leaves it partial, a repeated one fills it twice, and the readers listed serve it')
    ctx.ob(rule, 'library', 'generators examined for state filled between yields', n_gen > 0, sample='%d generator functions' % n_gen)
    # R2: incremental attributes
    incr = {}
    for f in allf:
        fa = facts[id(f)]
        for attr, m, via in fa['mut']:
            if attr in fa['created'] or f.qual.endswith('__init__'):
                continue
            if isinstance(m, ast.Call) and m.func.attr in ('extend', 'update'):
                continue
            incr.setdefault(attr, []).append(f)
    # methods that run only as part of construction (every call site sits in an __init__ or in another such method): what they fill is
    # complete before the object is handed out -- the object's own contents, not a cache of query results
    sites = {}
    for g in allf:
        for n in walk_no_nested(g.node):
            if isinstance(n, ast.Call) and isinstance(n.func, ast.Attribute):
                sites.setdefault(n.func.attr, set()).add(g.qual.split('.<locals>.')[0])
            elif isinstance(n, ast.Call) and isinstance(n.func, ast.Name):
                sites.setdefault(n.func.id, set()).add(g.qual.split('.<locals>.')[0])
    init_only = set()
    changed = True
    while changed:
        changed = False
        for g in allf:
            q = g.qual.split('.<locals>.')[0]
            nm = q.split('.')[-1]
            if q in init_only or nm.startswith('__') or nm not in sites:
                continue
            if all(c.endswith('.__init__') or c in init_only for c in sites[nm]) and not facts[id(g)]['gen']:
                init_only.add(q)
                changed = True
    for attr in sorted(incr):
        if attr in R2_EXEMPT and set(f.qual.split('.<locals>.')[0] for f in incr[attr]) <= R2_EXEMPT[attr]:
            continue
        if all(f.qual.split('.<locals>.')[0] in init_only for f in incr[attr]):
            continue
        fillers = set(id(f) for f in incr[attr])
        whole = []
        nkeyed = 0
        for g, n, gpar in loads.get(attr, []):
            if mods is not None and not mine(g) and not any(mine(f) for f in incr[attr]):
                continue
            k = _read_kind(n, gpar)
            if k == 'keyed':
                nkeyed += 1
            else:
                whole.append('%s:%s %s' % (g.qual, getattr(n, 'lineno', 0), k))
        if nkeyed or whole:
            n_mut += 1
            ctx.ob(rule, 'attribute ' + attr, 'incrementally filled container read by key only', not whole, got=whole[:4],
                   msg='this container receives one entry per query (filled by %s): it holds whatever was asked for so far, so reading it as a '
                       'whole makes the answer depend on earlier queries' % sorted(set(f.qual for f in incr[attr]))[:3],
                   sample='%s: %d keyed reads' % (attr, nkeyed))
    return n_gen, n_mut
