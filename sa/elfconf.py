"""Shared ELF-structure rules: L-CONF (layout == registry typedef / hand row), L-ENUM."""
from . import layout, registry
from .report import AnalysisError
from .absint import Sym, Unknown
from spec import elf as S

SWITCH_MACHINES = ['EM_386', 'EM_ARM', 'EM_AARCH64', 'EM_X86_64', 'EM_MIPS', 'EM_RISCV', 'EM_PPC64', 'EM_S390',
                   'EM_FRV']


def class_sizes(elfclass):
    n = 4 if elfclass == 32 else 8
    return {'addr': 'u%d' % (n * 8), 'off': 'u%d' % (n * 8), 'xword': 'u%d' % (n * 8), 'sxword': 's%d' % (n * 8)}


def resolve_atoms(rows, elfclass, endian, extra=None):
    m = class_sizes(elfclass)
    if extra:
        m.update(extra)
    import re
    out = []

    def rep(a):
        def one(tok):
            t = tok.group(0)
            t = m.get(t, t)
            if re.match(r'^[us]\d+$', t):
                return t + endian
            return t
        # only rewrite atom tokens (after ':' inside arrays, or whole atom)
        if a.startswith('array[') or a.startswith('prefixed['):
            head, body = a.split('{', 1)
            body = re.sub(r'(?<=:)[a-z]+\d*', one, body)
            return head + '{' + body
        return re.sub(r'^[a-z]+\d*$', one, a)
    for n, a in rows:
        out.append((n, rep(a)))
    return out


def structs_for(world, le, cls, e_type='ET_EXEC', machine='EM_386', osabi='ELFOSABI_SYSV'):
    cache = world.__dict__.setdefault('_elf_structs', {})
    key = (le, cls, e_type, machine, osabi)
    if key not in cache:
        cache[key] = layout.build_elf_structs(world, le, cls, e_type, machine, osabi)
    return cache[key]


def irb(world):
    if not hasattr(world, '_irb'):
        world._irb = layout.IRBuilder(world)
    return world._irb


def expected_from_glibc(name, elfclass):
    suffix, ren = S.GLIBC_STRUCTS[name]
    g = registry.glibc()
    lay = g.struct_layout('Elf%d_%s' % (elfclass, suffix))
    if lay is None:
        raise AnalysisError('L-CONF', name, 'registry typedef Elf%d_%s not parsed' % (elfclass, suffix))
    rows = []
    for (m, size, signed, alen) in lay:
        if alen:
            rows.append((ren.get(m, m), 'bytes:%d' % (size * alen)))
        else:
            rows.append((ren.get(m, m), '%s%d' % ('s' if signed else 'u', size * 8)))
    return rows


def cfg_label(le, cls, extra=''):
    return '[ELF%d,%s%s]' % (cls, 'LSB' if le else 'MSB', extra)


def compare_rows(ctx, rule, construct, label, got, exp, line=None):
    """Per-position obligations; bit structs (bitsN) compare as uN of the registry."""
    n = max(len(got), len(exp))
    for i in range(n):
        g = got[i] if i < len(got) else ('<missing>', '-')
        e = exp[i] if i < len(exp) else ('<none>', '-')
        ga = g[1]
        ea = e[1]
        if ga.startswith('bits') and ea[0] in 'us' and ea[1:].rstrip('<>=').isdigit():
            ga = 'u' + ga[4:] + ea[-1] if ea[-1] in '<>=' else 'u' + ga[4:]
        ok = (g[0] == e[0] or e[0] is None and g[0] is None) and _norm(ga) == _norm(ea)
        ctx.ob(rule, construct, '%s field %d %s' % (label, i, e[0] if e[0] else g[0]), ok,
               msg='field order/width/signedness/byte order differs from the specification',
               got='%s:%s' % g, expected='%s:%s' % e, line=line,
               sample='%s%s.%s: %s == %s' % (construct.split(':')[-1], label, e[0], g[1], e[1]))


def _norm(a):
    return a.replace(' ', '').replace('"', "'")


def check_glibc_struct(ctx, world, name, rule='L-CONF', machines=('EM_386',), construct=None):
    construct = construct or 'elf/structs.py:ELFStructs.%s' % name
    for le in (True, False):
        for cls in (32, 64):
            for mach in machines:
                st = structs_for(world, le, cls, machine=mach)
                node = layout.struct_attr(world, st, name)
                ir = irb(world).to_ir(node)
                got = layout.flatten(world, ir, {})
                endian = '<' if le else '>'
                exp = resolve_atoms(expected_from_glibc(name, cls), cls, endian)
                if name == 'Elf_Ehdr':
                    # e_ident: 16 bytes in the registry; the inner layout is a hand row (gABI)
                    exp = resolve_atoms(S.E_IDENT, cls, endian) + exp[1:]
                compare_rows(ctx, rule, construct, cfg_label(le, cls, ',' + mach if len(machines) > 1 else ''),
                             got, exp, line=node.site[1] if node.site else None)


def check_hand_struct(ctx, world, name, rows=None, rule='L-CONF', machine='EM_386', e_type='ET_EXEC', extra=None,
                      classes=(32, 64), construct=None, label_extra=''):
    construct = construct or 'elf/structs.py:ELFStructs.%s' % name
    for le in (True, False):
        for cls in classes:
            st = structs_for(world, le, cls, machine=machine, e_type=e_type)
            node = layout.struct_attr(world, st, name)
            ir = irb(world).to_ir(node)
            got = layout.flatten(world, ir, {})
            r = rows if rows is not None else S.HAND[name]
            if callable(r):
                r = r(cls)
            exp = resolve_atoms(r, cls, '<' if le else '>', extra(cls) if extra else None)
            compare_rows(ctx, rule, construct, cfg_label(le, cls, label_extra), got, exp,
                         line=node.site[1] if node.site else None)


def enum_of(world, st, struct_name, field):
    node = layout.struct_attr(world, st, struct_name)
    ir = irb(world).to_ir(node)
    for n, f in layout.find_fields(ir):
        if n == field and f[0] == 'enum':
            return f
    return None


def check_enum_field(ctx, world, struct_name, field, table_name=None, pass_through=True, rule='L-ENUM',
                     machine='EM_386', e_type='ET_EXEC', osabi='ELFOSABI_SYSV', expected_table=None, label=''):
    """The field is an Enum over the named table (+ pass-through default when promised)."""
    construct = 'elf/structs.py:ELFStructs.%s' % struct_name
    st = structs_for(world, True, 64, machine=machine, e_type=e_type, osabi=osabi)
    f = enum_of(world, st, struct_name, field)
    inst = '%s.%s%s' % (struct_name, field, label)
    if f is None:
        ctx.ob(rule, construct, inst + ' is Enum', False, msg='code field is not wrapped in an Enum')
        return
    table, default = f[2], f[3]
    if expected_table is None and table_name:
        expected_table = world.table('elf/enums.py', table_name)
    if expected_table is not None:
        exp = dict((k, v) for k, v in expected_table.items() if isinstance(k, str) and k != '_default_')
        ok = table == exp
        diff = sorted(set(table.items()) ^ set(exp.items()))[:4] if not ok else None
        ctx.ob(rule, construct, inst + ' table', ok, msg='enum field does not use the table the configuration calls for',
               got=diff, expected=table_name or 'spec table',
               sample='%s uses %s (%d names)' % (inst, table_name or 'spec table', len(exp)))
    if pass_through:
        ok = (isinstance(default, Sym) and default.name.endswith('Pass')) or (type(default).__name__ == 'Ctor' and default.kind == 'Pass')
        ctx.ob(rule, construct, inst + ' default', ok,
               msg='enum lacks the pass-through default: unknown codes would raise instead of staying integers',
               got=repr(default), expected='_default_=Pass')
