"""Engine E: expression semantics.

(i)   affine/polynomial normal form with uninterpreted terms (`nf`): two expressions are equal iff
      their canonical strings are identical; copy propagation of single-assignment locals,
      positional parameter naming, field loads reduced to the field name.
(ii)  boundary decision tables for one-variable integer predicates (`partition`).
(iii) propositional normalisation of conditions (`cond_nf`).
Spec rows are written in the same little expression language (Python syntax) and go through
the same normaliser.
"""
import ast
from .report import AnalysisError
from .model import walk_no_nested


class FEnv(object):
    """Per-function environment for normalisation."""

    def __init__(self, func=None, params=None, consts=None, inline=True, extra_defs=None):
        self.func = func                    # ast.FunctionDef / Lambda or None
        self.rename = {}                    # actual name -> canonical name
        self.defs = {}                      # local name -> ast expr (single reaching assignment)
        self.consts = consts or {}          # Name -> int (module constants resolved by engine B)
        self.depth = 0
        if func is not None:
            args = func.args
            names = [a.arg for a in args.posonlyargs + args.args]
            if names and names[0] in ('self', 'cls'):
                names = names[1:]
            if params:
                for actual, canon in zip(names, params):
                    if canon:
                        self.rename[actual] = canon
            if inline and not isinstance(func, ast.Lambda):
                self._collect_defs(func)
        if extra_defs:
            self.defs.update(extra_defs)

    def _collect_defs(self, func):
        counts = {}
        exprs = {}
        params = set(a.arg for a in func.args.posonlyargs + func.args.args + func.args.kwonlyargs)
        for n in walk_no_nested(func):
            if isinstance(n, ast.Assign) and len(n.targets) == 1 and isinstance(n.targets[0], ast.Name):
                nm = n.targets[0].id
                counts[nm] = counts.get(nm, 0) + 1
                exprs[nm] = n.value
            elif isinstance(n, (ast.AugAssign, ast.AnnAssign)) and isinstance(n.target, ast.Name):
                counts[n.target.id] = counts.get(n.target.id, 0) + 2
                if isinstance(n, ast.AnnAssign) and n.value is not None:
                    counts[n.target.id] -= 1
                    exprs[n.target.id] = n.value
            elif isinstance(n, (ast.For, ast.comprehension)):
                for t in ast.walk(n.target):
                    if isinstance(t, ast.Name):
                        counts[t.id] = counts.get(t.id, 0) + 2
            elif isinstance(n, ast.Assign):
                for t in n.targets:
                    for x in ast.walk(t):
                        if isinstance(x, ast.Name) and isinstance(x.ctx, ast.Store):
                            counts[x.id] = counts.get(x.id, 0) + 2
            elif isinstance(n, (ast.With,)):
                for it in n.items:
                    if it.optional_vars is not None:
                        for x in ast.walk(it.optional_vars):
                            if isinstance(x, ast.Name):
                                counts[x.id] = counts.get(x.id, 0) + 2
        for nm, c in counts.items():
            if c == 1 and nm not in params:
                self.defs[nm] = exprs[nm]


# polynomial: dict monomial(tuple of atom strings, sorted) -> int coefficient

def _padd(a, b, sign=1):
    out = dict(a)
    for m, c in b.items():
        out[m] = out.get(m, 0) + sign * c
        if out[m] == 0:
            del out[m]
    return out


def _pmul(a, b):
    out = {}
    for m1, c1 in a.items():
        for m2, c2 in b.items():
            m = tuple(sorted(m1 + m2))
            out[m] = out.get(m, 0) + c1 * c2
            if out[m] == 0:
                del out[m]
    return out


def _pconst(p):
    """int value if the polynomial is a constant, else None"""
    if not p:
        return 0
    if len(p) == 1 and () in p:
        return p[()]
    return None


def pstr(p):
    if not p:
        return '0'
    parts = []
    for m in sorted(p, key=lambda m: (len(m) == 0, m)):
        c = p[m]
        if not m:
            parts.append(str(c))
        elif c == 1:
            parts.append('*'.join(m))
        else:
            parts.append('%d*%s' % (c, '*'.join(m)))
    return ' + '.join(parts)


def atom(s):
    return {(s,): 1}


COMM = {'or', 'and_', 'xor'}
STRUCT_FACTORIES = ('structs', '_structs')


def nf(node, env=None):
    """Normal form (polynomial dict) of an expression AST."""
    env = env or FEnv()
    return _nf(node, env)


def nfs(node, env=None):
    return pstr(nf(node, env))


def spec_nf(text, consts=None):
    env = FEnv(consts=consts)
    return pstr(_nf(ast.parse(text, mode='eval').body, env))


def _term(name, args):
    return atom('%s(%s)' % (name, ','.join(args)))


def _nf(n, env):
    if isinstance(n, ast.Constant):
        v = n.value
        if isinstance(v, bool):
            return {(): int(v)} if v else {}
        if isinstance(v, int):
            return {(): v} if v else {}
        if isinstance(v, str):
            return atom(repr(v))
        if isinstance(v, bytes):
            return atom(repr(v))
        if v is None:
            return atom('None')
        return atom(repr(v))
    if isinstance(n, ast.Name):
        if n.id in env.rename:
            return atom(env.rename[n.id])
        if n.id in env.defs and env.depth < 12:
            env.depth += 1
            try:
                return _nf(env.defs[n.id], env)
            finally:
                env.depth -= 1
        if n.id in env.consts and isinstance(env.consts[n.id], int):
            v = env.consts[n.id]
            return {(): v} if v else {}
        return atom(n.id)
    if isinstance(n, ast.BinOp):
        a = _nf(n.left, env)
        b = _nf(n.right, env)
        op = n.op
        if isinstance(op, ast.Add):
            return _padd(a, b)
        if isinstance(op, ast.Sub):
            return _padd(a, b, -1)
        if isinstance(op, ast.Mult):
            return _pmul(a, b)
        ca, cb = _pconst(a), _pconst(b)
        if isinstance(op, ast.LShift) and cb is not None and 0 <= cb < 128:
            return _pmul(a, {(): 1 << cb})
        if isinstance(op, ast.Pow) and ca is not None and cb is not None and 0 <= cb < 128:
            v = ca ** cb
            return {(): v} if v else {}
        if ca is not None and cb is not None:
            try:
                v = {ast.FloorDiv: lambda: ca // cb, ast.Mod: lambda: ca % cb, ast.BitOr: lambda: ca | cb,
                     ast.BitAnd: lambda: ca & cb, ast.BitXor: lambda: ca ^ cb, ast.RShift: lambda: ca >> cb,
                     ast.LShift: lambda: ca << cb}[type(op)]()
                return {(): v} if v else {}
            except Exception:
                pass
        name = {ast.FloorDiv: 'floordiv', ast.Mod: 'mod', ast.BitOr: 'or', ast.BitAnd: 'and_', ast.BitXor: 'xor',
                ast.RShift: 'shr', ast.LShift: 'shl', ast.Div: 'div', ast.Pow: 'pow', ast.MatMult: 'matmul'}[type(op)]
        args = [pstr(a), pstr(b)]
        if name in COMM:
            # flatten nested same-op terms and sort
            flat = []
            for s, p in ((args[0], a), (args[1], b)):
                if len(p) == 1 and list(p.values()) == [1]:
                    (m,) = p.keys()
                    if len(m) == 1 and m[0].startswith(name + '(') and m[0].endswith(')'):
                        flat.extend(_split_args(m[0][len(name) + 1:-1]))
                        continue
                flat.append(s)
            args = sorted(flat)
        return _term(name, args)
    if isinstance(n, ast.UnaryOp):
        a = _nf(n.operand, env)
        if isinstance(n.op, ast.USub):
            return _pmul(a, {(): -1})
        if isinstance(n.op, ast.UAdd):
            return a
        if isinstance(n.op, ast.Invert):
            c = _pconst(a)
            if c is not None:
                return {(): ~c}
            return _term('inv', [pstr(a)])
        if isinstance(n.op, ast.Not):
            return atom(cond_str(n, env))
    if isinstance(n, ast.Subscript):
        sl = n.slice
        if isinstance(sl, ast.Constant) and isinstance(sl.value, str):
            # field load: the container is dropped, the field name is the atom
            base = n.value
            if isinstance(base, ast.Subscript) and isinstance(base.slice, ast.Constant) and isinstance(base.slice.value, str):
                return atom('%s.%s' % (base.slice.value, sl.value))
            return atom(sl.value)
        if isinstance(sl, ast.Slice):
            parts = [pstr(_nf(x, env)) if x is not None else '' for x in (sl.lower, sl.upper, sl.step)]
            return _term('slice', [pstr(_nf(n.value, env))] + parts)
        return _term('index', [pstr(_nf(n.value, env)), pstr(_nf(sl, env))])
    if isinstance(n, ast.Attribute):
        base = n.value
        if isinstance(base, ast.Name) and base.id in ('self', 'cls'):
            return atom(n.attr)
        if isinstance(base, ast.Name) and base.id in env.defs:
            # local alias: look through it (x = f(); x.name  ==  f().name)
            d = env.defs[base.id]
            if isinstance(d, ast.Call) and env.depth < 12:
                env.depth += 1
                try:
                    return _term(n.attr, [pstr(_nf(d, env))])
                finally:
                    env.depth -= 1
            return atom(n.attr)
        if isinstance(base, ast.Call):
            return _term(n.attr, [pstr(_nf(base, env))])
        # header.e_shoff / ctx.pr_datasz / self.header.x -> field name
        return atom(n.attr)
    if isinstance(n, ast.Call):
        f = n.func
        args = [pstr(_nf(a, env)) for a in n.args]
        for kw in n.keywords:
            if kw.arg:
                args.append('%s=%s' % (kw.arg, pstr(_nf(kw.value, env))))
        if isinstance(f, ast.Name):
            if f.id == 'int' and len(n.args) == 1:
                return _nf(n.args[0], env)
            return _term(f.id, args)
        if isinstance(f, ast.Attribute):
            recv = pstr(_nf(f.value, env))
            if recv in STRUCT_FACTORIES:
                # struct factories are configuration, not data: Elf_word('') of whichever factory
                return _term(f.attr, args)
            return _term(f.attr, [recv] + args)
        return _term('call', [pstr(_nf(f, env))] + args)
    if isinstance(n, ast.IfExp):
        return _term('ite', [cond_str(n.test, env), pstr(_nf(n.body, env)), pstr(_nf(n.orelse, env))])
    if isinstance(n, (ast.Compare, ast.BoolOp)):
        return atom(cond_str(n, env))
    if isinstance(n, (ast.Tuple, ast.List)):
        return _term('tuple', [pstr(_nf(e, env)) for e in n.elts])
    if isinstance(n, ast.Starred):
        return _term('star', [pstr(_nf(n.value, env))])
    if isinstance(n, (ast.ListComp, ast.GeneratorExp, ast.SetComp)):
        parts = [pstr(_nf(n.elt, env))]
        for g in n.generators:
            parts.append('for(%s,%s)' % (pstr(_nf(g.target, env)), pstr(_nf(g.iter, env))))
            for c in g.ifs:
                parts.append('if(%s)' % cond_str(c, env))
        return _term('comp', parts)
    if isinstance(n, ast.JoinedStr):
        return atom('fstring')
    if isinstance(n, ast.Lambda):
        return atom('lambda')
    return atom('?' + type(n).__name__)


def _split_args(s):
    out = []
    depth = 0
    cur = ''
    for ch in s:
        if ch == ',' and depth == 0:
            out.append(cur)
            cur = ''
            continue
        if ch in '([':
            depth += 1
        elif ch in ')]':
            depth -= 1
        cur += ch
    if cur:
        out.append(cur)
    return out


# -- conditions -----------------------------------------------------------------------------

def _sign_norm(p):
    """Make the leading coefficient positive; returns (poly, flipped)."""
    if not p:
        return p, False
    lead = sorted(p, key=lambda m: (len(m) == 0, m))[0]
    if p[lead] < 0:
        return dict((m, -c) for m, c in p.items()), True
    return p, False


def cmp_nf(op, left, right, env):
    """Normalise `left op right` to (rel, polystr) with rel in <,<=,==,!=,in,notin,is,isnot."""
    if isinstance(op, (ast.In, ast.NotIn)):
        l = pstr(_nf(left, env))
        if isinstance(right, (ast.Tuple, ast.List, ast.Set)):
            elems = sorted(pstr(_nf(e, env)) for e in right.elts)
            r = '{%s}' % ','.join(elems)
        else:
            r = pstr(_nf(right, env))
        return ('in' if isinstance(op, ast.In) else 'notin', '%s in %s' % (l, r))
    if isinstance(op, (ast.Is, ast.IsNot)):
        return ('is' if isinstance(op, ast.Is) else 'isnot', '%s is %s' % (pstr(_nf(left, env)), pstr(_nf(right, env))))
    a = _nf(left, env)
    b = _nf(right, env)
    # string / non-numeric equality: keep sides
    d = _padd(a, b, -1)
    if isinstance(op, ast.Lt):
        return ('<', pstr(d))
    if isinstance(op, ast.LtE):
        return ('<=', pstr(d))
    if isinstance(op, ast.Gt):
        return ('<', pstr(_pmul(d, {(): -1})))
    if isinstance(op, ast.GtE):
        return ('<=', pstr(_pmul(d, {(): -1})))
    d2, _ = _sign_norm(d)
    if isinstance(op, ast.Eq):
        return ('==', pstr(d2))
    if isinstance(op, ast.NotEq):
        return ('!=', pstr(d2))
    return ('?', pstr(d))


_NEGOP = {ast.Lt: ast.GtE, ast.LtE: ast.Gt, ast.Gt: ast.LtE, ast.GtE: ast.Lt, ast.Eq: ast.NotEq, ast.NotEq: ast.Eq,
          ast.In: ast.NotIn, ast.NotIn: ast.In, ast.Is: ast.IsNot, ast.IsNot: ast.Is}
NEG = {'<': '>=', '<=': '>', '==': '!=', '!=': '==', 'in': 'notin', 'notin': 'in', 'is': 'isnot', 'isnot': 'is'}


def cond_nf(n, env=None, negate=False):
    """Condition -> nested tuple: ('and'|'or', frozenset(...)) | ('atom', rel, text) | ('truth', text, neg)."""
    env = env or FEnv()
    if isinstance(n, ast.Name) and n.id in env.defs and env.depth < 12:
        env.depth += 1
        try:
            return cond_nf(env.defs[n.id], env, negate)
        finally:
            env.depth -= 1
    if isinstance(n, ast.UnaryOp) and isinstance(n.op, ast.Not):
        return cond_nf(n.operand, env, not negate)
    if isinstance(n, ast.BoolOp):
        kind = 'and' if isinstance(n.op, ast.And) else 'or'
        if negate:
            kind = 'or' if kind == 'and' else 'and'
        parts = []
        for v in n.values:
            c = cond_nf(v, env, negate)
            if c[0] == kind:
                parts.extend(c[1])
            else:
                parts.append(c)
        return (kind, frozenset(parts))
    if isinstance(n, ast.Compare):
        parts = []
        left = n.left
        for op, right in zip(n.ops, n.comparators):
            if negate:
                op = _NEGOP[type(op)]()
            rel, text = cmp_nf(op, left, right, env)
            parts.append(('atom', rel, text))
            left = right
        if len(parts) == 1:
            return parts[0]
        return ('or' if negate else 'and', frozenset(parts))
    if isinstance(n, ast.Constant) and isinstance(n.value, bool):
        v = n.value != negate
        return ('const', v)
    return ('truth', pstr(_nf(n, env)), negate)


def cond_str(n, env=None, negate=False):
    return cstr(cond_nf(n, env, negate))


def cstr(c):
    if c[0] in ('and', 'or'):
        return '%s(%s)' % (c[0], ','.join(sorted(cstr(x) for x in c[1])))
    if c[0] == 'atom':
        if c[1] in ('<', '<=', '==', '!=', '>', '>='):
            return '[%s %s 0]' % (c[2], c[1])
        return '[%s:%s]' % (c[1], c[2])
    if c[0] == 'truth':
        return ('!' if c[2] else '') + 'T(%s)' % c[1]
    if c[0] == 'const':
        return str(c[1])
    return repr(c)


class CP(tuple):
    """(condition string, polarity) pair that compares modulo polarity folding of negative atoms:
    ('[x != 0]', True) == ('[x == 0]', False); ('!T(x)', True) == ('T(x)', False); likewise 'is not' / 'not in'.
    Rules build the pairs they read from paths as CP; the expected side may be a plain tuple (tuple.__eq__ defers to the
    subclass)."""
    def __new__(cls, cs, pol):
        return tuple.__new__(cls, _fold(cs, pol))

    def __eq__(self, other):
        if isinstance(other, tuple) and len(other) == 2 and isinstance(other[0], str):
            return tuple.__eq__(self, tuple(_fold(other[0], other[1])))
        return False

    def __ne__(self, other):
        return not self.__eq__(other)

    __hash__ = tuple.__hash__


class Facts(dict):
    """{condition string: truth} of one path, with lookups modulo polarity folding: Facts(pairs).get('[x != 0]') is the
    truth of `x != 0` on the path whether the code tested `x != 0` or `x == 0`."""
    def __init__(self, pairs):
        dict.__init__(self)
        self.contradiction = False      # the same condition taken both ways on one path: infeasible unless its operands were rebound
        for cs, pol in pairs:
            f = _fold(cs, pol)
            if dict.__contains__(self, f[0]) and dict.__getitem__(self, f[0]) != f[1]:
                self.contradiction = True
            dict.__setitem__(self, f[0], f[1])

    def get(self, cs, default=None):
        f = _fold(cs, True)
        if dict.__contains__(self, f[0]):
            v = dict.__getitem__(self, f[0])
            return v if f[1] else (not v)
        return default

    def __contains__(self, cs):
        return dict.__contains__(self, _fold(cs, True)[0])

    def truth(self, text, env=None):
        """truth of a (possibly compound) condition on this path, from the facts: True / False / None (not decided)"""
        return self._truth(ast.parse(text, mode='eval').body, env)

    def _truth(self, t, env):
        whole = self.get(cond_str(t, env))
        if whole is not None:
            return whole
        if isinstance(t, ast.UnaryOp) and isinstance(t.op, ast.Not):
            v = self._truth(t.operand, env)
            return None if v is None else (not v)
        if isinstance(t, ast.BoolOp):
            # De Morgan: the path may carry the dual compound (`if a is None or b is None: return` decides `a is not None and b is not None`)
            dual = ast.BoolOp(op=ast.Or() if isinstance(t.op, ast.And) else ast.And(), values=[ast.UnaryOp(op=ast.Not(), operand=v) for v in t.values])
            dv = self.get(cond_str(ast.fix_missing_locations(dual), env))
            if dv is not None:
                return not dv
            vals = [self._truth(v, env) for v in t.values]
            if isinstance(t.op, ast.And):
                if all(v is True for v in vals):
                    return True
                if any(v is False for v in vals):
                    return False
            else:
                if any(v is True for v in vals):
                    return True
                if all(v is False for v in vals):
                    return False
        return None


def path_events(p, env):
    """Ordered events of one path (sa/paths.Path): ('s', first line of the unparsed statement) for statements,
    ('c', CP(condition, truth)) for branch outcomes (polarity folded), and a final ('end', kind)."""
    from .canon import U, Code as _Code
    out = []
    for ev in p.events:
        if ev[0] == 'stmt':
            out.append(('s', _Code(U(ev[1]).split('\n')[0])))
        elif ev[0] == 'cond':
            out.append(('c', CP(cond_str(ev[1], env), ev[2])))
    out.append(('end', p.end[0]))
    return out


def rows(seq):
    """order-free form of [(condition pairs, outcome)] decision rows: which arm of an if comes first, and in which order the
    tests were made, is spelling; the set of (facts -> outcome) rows is the decision"""
    return sorted(((tuple(sorted((tuple(_fold(c[0], c[1])) for c in conds), key=repr)), out) for conds, out in seq), key=repr)


def cond_atoms(test, env=None):
    """atomic condition strings of a test (conjunctions/disjunctions flattened, negative atoms folded to their positive form)"""
    out = []

    def rec(c):
        if c[0] in ('and', 'or'):
            for x in c[1]:
                rec(x)
        else:
            out.append(_fold(cstr(c), True)[0])
    rec(cond_nf(test, env))
    return out


def outcome(text, pol, env=None):
    """the condition pairs a branch on `text` taken with outcome `pol` puts on a path (conjunctions taken / disjunctions refused
    are split into their parts, as sa/paths does)"""
    from .paths import _outcome
    return tuple(CP(cond_str(t, env), p) for _, t, p in _outcome(ast.parse(text, mode='eval').body, pol))


class _StoreSubst(ast.NodeTransformer):
    def __init__(self, store):
        self.store = store

    def visit_Name(self, n):
        if isinstance(n.ctx, ast.Load) and n.id in self.store:
            import copy as _copy
            return _copy.deepcopy(self.store[n.id])
        return n

    def visit_IfExp(self, n):
        self.generic_visit(n)
        if isinstance(n.test, ast.Constant):
            return n.body if n.test.value else n.orelse
        return n


def path_store(p, upto=None):
    """Symbolic store {local name: expression AST} after the statements of one path (sa/paths.Path), assignments substituted in
    order; stops before the statement that contains `upto` when given.  Names assigned in a loop that the path entered keep
    their last value on the path (one unrolling)."""
    store = {}
    for ev in p.events:
        if ev[0] != 'stmt':
            continue
        st = ev[1]
        if upto is not None and any(x is upto for x in ast.walk(st)):
            break
        if isinstance(st, ast.Assign) and len(st.targets) == 1 and isinstance(st.targets[0], ast.Name):
            import copy as _copy
            store[st.targets[0].id] = _StoreSubst(store).visit(_copy.deepcopy(st.value))
        elif isinstance(st, ast.AugAssign) and isinstance(st.target, ast.Name):
            import copy as _copy
            cur = store.get(st.target.id, ast.Name(id=st.target.id, ctx=ast.Load()))
            store[st.target.id] = ast.BinOp(left=_copy.deepcopy(cur), op=st.op, right=_StoreSubst(store).visit(_copy.deepcopy(st.value)))
        else:
            for x in ast.walk(st):
                if isinstance(x, ast.Name) and isinstance(x.ctx, ast.Store):
                    store.pop(x.id, None)
    return store


def path_value(p, node, env=None, upto=None):
    """normal form of an expression as seen at the end of a path (or just before the statement containing `upto`): locals are
    replaced by what the path assigned to them, conditional expressions on constants folded -- `x if found else None` after
    `found = True` is x, and `size` after `size = n; size //= 2` is n // 2, whichever way the code spelled it"""
    import copy as _copy
    store = path_store(p, upto)
    e = _StoreSubst(store).visit(_copy.deepcopy(node))
    ast.fix_missing_locations(e)
    return nfs(e, env or FEnv())


def return_rows(fnode, env=None):
    """decision rows [(condition pairs, outcome normal form)] of a function: one row per returning path, a conditional
    expression in a return split into its two rows -- `return a if c else b` and `if c: return a` / `return b` give the same rows"""
    from . import paths as _paths
    out = []

    def emit(conds, e):
        if isinstance(e, ast.IfExp):
            emit(conds + list(outcome_ast(e.test, True, env)), e.body)
            emit(conds + list(outcome_ast(e.test, False, env)), e.orelse)
        else:
            out.append((conds, nfs(e, env) if e is not None else 'None'))
    for c, r, p in _paths.returns_with_conds(fnode):
        f = Facts(CP(cond_str(t, env), pol) for t, pol in c)
        if f.contradiction:
            continue
        emit([CP(cond_str(t, env), pol) for t, pol in c], r)
    return out


def outcome_ast(test, pol, env=None):
    from .paths import _outcome
    return tuple(CP(cond_str(t, env), p) for _, t, p in _outcome(test, pol))


def neg(cp):
    """the opposite outcome of a (condition, polarity) pair"""
    return CP(cp[0], not cp[1])


def _split_top(text, sep=' + '):
    out, depth, cur, i = [], 0, '', 0
    while i < len(text):
        ch = text[i]
        if ch in '([{':
            depth += 1
        elif ch in ')]}':
            depth -= 1
        if depth == 0 and text.startswith(sep, i):
            out.append(cur)
            cur = ''
            i += len(sep)
            continue
        cur += ch
        i += 1
    out.append(cur)
    return out


def _neg_poly_text(text):
    """text of -P for the pstr text of P (term order is by monomial, so it is unchanged)"""
    import re as _re
    out = []
    for term in _split_top(text):
        m = _re.match(r'^(-?\d+)\*(.+)$', term)
        if _re.match(r'^-?\d+$', term):
            out.append(str(-int(term)))
        elif m:
            k = -int(m.group(1))
            out.append(m.group(2) if k == 1 else '%d*%s' % (k, m.group(2)))
        else:
            out.append('-1*' + term)
    return ' + '.join(out)


def _fold(cs, pol):
    if isinstance(cs, str):
        if cs.startswith('[') and cs.endswith(' <= 0]'):
            # a <= b  is  not (b < a)
            return ('[' + _neg_poly_text(cs[1:-len(' <= 0]')]) + ' < 0]', not pol)
        if cs.startswith('[') and cs.endswith(' != 0]'):
            return (cs[:-len(' != 0]')] + ' == 0]', not pol)
        if cs.startswith('!T('):
            return (cs[1:], not pol)
        if cs.startswith('[isnot:'):
            return ('[is:' + cs[len('[isnot:'):], not pol)
        if cs.startswith('[notin:'):
            return ('[in:' + cs[len('[notin:'):], not pol)
    return (cs, pol)


def spec_cond(text, consts=None):
    return cond_str(ast.parse(text, mode='eval').body, FEnv(consts=consts))


# -- (ii) boundary decision tables ------------------------------------------------------------

def partition(test_ast, var, points, consts=None, env_vals=None):
    """Evaluate a predicate over one integer variable at the given points with the analyser's
    own evaluator; returns {point: bool}."""
    code = compile(ast.Expression(body=_strip_to_var(test_ast, var)), '<pred>', 'eval')
    out = {}
    for p in points:
        env = dict(env_vals or {})
        env['__v'] = p
        if consts:
            env.update(consts)
        out[p] = bool(eval(code, {'__builtins__': {}}, env))  # pure int comparison built by _strip_to_var
    return out


class _VarSub(ast.NodeTransformer):
    def __init__(self, match):
        self.match = match

    def generic_visit(self, node):
        if self.match(node):
            return ast.copy_location(ast.Name(id='__v', ctx=ast.Load()), node)
        return ast.NodeTransformer.generic_visit(self, node)


def _strip_to_var(test_ast, var):
    """Replace every load of the variable (a field load `X['var']`, `X.var` or a Name) by __v and
    check that nothing else but integer constants/comparisons/boolean operators remains."""
    import copy
    t = copy.deepcopy(test_ast)

    def match(node):
        if isinstance(node, ast.Subscript) and isinstance(node.slice, ast.Constant) and node.slice.value == var:
            return True
        if isinstance(node, ast.Attribute) and node.attr == var:
            return True
        if isinstance(node, ast.Name) and node.id == var:
            return True
        return False
    t = _VarSub(match).visit(t)
    ast.fix_missing_locations(t)
    for n in ast.walk(t):
        if not isinstance(n, (ast.Compare, ast.BoolOp, ast.UnaryOp, ast.Name, ast.Constant, ast.Load, ast.cmpop,
                              ast.boolop, ast.unaryop, ast.BinOp, ast.operator, ast.Attribute)):
            raise AnalysisError('E-ii', var, 'predicate uses a construct outside the decision-table fragment: %s'
                                % type(n).__name__)
        if isinstance(n, ast.Attribute):
            raise AnalysisError('E-ii', var, 'predicate refers to a non-constant: %s' % ast.unparse(n))
    return t


# -- finders ---------------------------------------------------------------------------------

def returns_of(func):
    return [n for n in walk_no_nested(func) if isinstance(n, ast.Return)]


def calls_in(func, name=None, attr=None):
    out = []
    for n in walk_no_nested(func):
        if isinstance(n, ast.Call):
            if name and isinstance(n.func, ast.Name) and n.func.id == name:
                out.append(n)
            elif attr and isinstance(n.func, ast.Attribute) and n.func.attr == attr:
                out.append(n)
    out.sort(key=lambda c: (c.lineno, c.col_offset))
    return out


def arg_of(call, pos=None, kw=None):
    if kw:
        for k in call.keywords:
            if k.arg == kw:
                return k.value
    if pos is not None and len(call.args) > pos:
        return call.args[pos]
    return None


# -- (iii) truth-table comparison of conditions ---------------------------------------------------

def _canon_le(p):
    """integer atom p <= 0 -> (key, negated) with a positive leading coefficient."""
    q, flipped = _sign_norm(p)
    if not flipped:
        return ('[%s <= 0]' % pstr(q), False)
    # p <= 0  ==  not (-p < 0)  ==  not (-p + 1 <= 0)
    q1 = _padd(q, {(): 1})
    return ('[%s <= 0]' % pstr(q1), True)


def cond_tt(n, env=None, negate=False):
    """Condition -> tree over canonical atoms: ('and'|'or', [..]) | ('not', x) | ('var', key) | ('const', b)."""
    env = env or FEnv()
    if isinstance(n, ast.Name) and n.id in env.defs and env.depth < 12:
        env.depth += 1
        try:
            return cond_tt(env.defs[n.id], env, negate)
        finally:
            env.depth -= 1
    if isinstance(n, ast.UnaryOp) and isinstance(n.op, ast.Not):
        return cond_tt(n.operand, env, not negate)
    if isinstance(n, ast.BoolOp):
        kind = 'and' if isinstance(n.op, ast.And) else 'or'
        t = (kind, [cond_tt(v, env, False) for v in n.values])
        return ('not', t) if negate else t
    if isinstance(n, ast.Compare):
        parts = []
        left = n.left
        for op, right in zip(n.ops, n.comparators):
            parts.append(_tt_cmp(op, left, right, env))
            left = right
        t = parts[0] if len(parts) == 1 else ('and', parts)
        return ('not', t) if negate else t
    if isinstance(n, ast.Constant) and isinstance(n.value, bool):
        return ('const', n.value != negate)
    if isinstance(n, ast.IfExp):
        c = cond_tt(n.test, env)
        t = ('or', [('and', [c, cond_tt(n.body, env)]), ('and', [('not', c), cond_tt(n.orelse, env)])])
        return ('not', t) if negate else t
    # truthiness of a value: not (value == 0)
    p = _nf(n, env)
    q, _ = _sign_norm(p)
    t = ('not', ('var', '[%s == 0]' % pstr(q)))
    return ('not', t) if negate else t


def _tt_cmp(op, left, right, env):
    if isinstance(op, (ast.In, ast.NotIn)):
        l = pstr(_nf(left, env))
        if isinstance(right, (ast.Tuple, ast.List, ast.Set)):
            elems = [pstr(_nf(e, env)) for e in right.elts]
            t = ('or', [('var', '[%s is %s]' % (l, e)) for e in sorted(elems)])
        else:
            t = ('var', '[%s in %s]' % (l, pstr(_nf(right, env))))
        return ('not', t) if isinstance(op, ast.NotIn) else t
    a = _nf(left, env)
    b = _nf(right, env)
    if isinstance(op, (ast.Is, ast.IsNot, ast.Eq, ast.NotEq)):
        # comparison with a string/None literal: domain atom
        for x, y in ((a, b), (b, a)):
            ys = pstr(y)
            if len(y) == 1 and list(y.values()) == [1] and (ys.startswith("'") or ys.startswith('b\'') or ys == 'None'):
                t = ('var', '[%s is %s]' % (pstr(x), ys))
                return ('not', t) if isinstance(op, (ast.IsNot, ast.NotEq)) else t
        d, _ = _sign_norm(_padd(a, b, -1))
        t = ('var', '[%s == 0]' % pstr(d))
        return ('not', t) if isinstance(op, (ast.IsNot, ast.NotEq)) else t
    d = _padd(a, b, -1)
    if isinstance(op, ast.LtE):
        key, neg = _canon_le(d)
    elif isinstance(op, ast.Lt):
        key, neg = _canon_le(_padd(d, {(): 1}))
    elif isinstance(op, ast.GtE):
        key, neg = _canon_le(_pmul(d, {(): -1}))
    elif isinstance(op, ast.Gt):
        key, neg = _canon_le(_padd(_pmul(d, {(): -1}), {(): 1}))
    else:
        return ('var', '[?%s]' % pstr(d))
    t = ('var', key)
    return ('not', t) if neg else t


def tt_vars(t, acc=None):
    acc = acc if acc is not None else set()
    if t[0] == 'var':
        acc.add(t[1])
    elif t[0] == 'not':
        tt_vars(t[1], acc)
    elif t[0] in ('and', 'or'):
        for x in t[1]:
            tt_vars(x, acc)
    return acc


def tt_eval(t, asg):
    k = t[0]
    if k == 'var':
        return asg[t[1]]
    if k == 'not':
        return not tt_eval(t[1], asg)
    if k == 'and':
        return all(tt_eval(x, asg) for x in t[1])
    if k == 'or':
        return any(tt_eval(x, asg) for x in t[1])
    if k == 'const':
        return t[1]
    raise ValueError(k)


def tt_equiv(t1, t2, limit=1 << 20):
    """Compare two condition trees over all assignments of their atoms.  `[x is 'A']` atoms over the
    same subject x are mutually exclusive (x takes one value): enumerated over the value domain.
    Returns (equal, counterexample assignment or None, number of assignments)."""
    import itertools
    import re
    vs = sorted(tt_vars(t1) | tt_vars(t2))
    dom = {}
    free = []
    for v in vs:
        m = re.match(r"^\[(.+) is ('.*'|b'.*'|None)\]$", v)
        if m:
            dom.setdefault(m.group(1), []).append((v, m.group(2)))
        else:
            free.append(v)
    subjects = sorted(dom)
    spaces = [[None] + [val for _, val in dom[s]] for s in subjects]   # None = some other value
    total = (1 << len(free))
    for sp in spaces:
        total *= len(sp)
    if total > limit:
        raise AnalysisError('E-iii', 'tt_equiv', 'truth table too large: %d' % total)
    n = 0
    for bits in itertools.product([False, True], repeat=len(free)):
        base = dict(zip(free, bits))
        for choice in itertools.product(*spaces):
            asg = dict(base)
            for s, val in zip(subjects, choice):
                for v, vv in dom[s]:
                    asg[v] = (vv == val)
            n += 1
            if tt_eval(t1, asg) != tt_eval(t2, asg):
                return False, dict((k, v) for k, v in asg.items() if v), n
    return True, None, n


def spec_tt(text, consts=None):
    return cond_tt(ast.parse(text, mode='eval').body, FEnv(consts=consts))


def func_truth_formula(func, env):
    """Boolean function 'returns a true value' of a function whose returns are booleans or
    conditions: OR over returning paths of (path conditions AND return expression)."""
    from . import paths as P
    terms = []
    for conds, ret, p in P.returns_with_conds(func):
        cs = [cond_tt(t, env, negate=not pol) for t, pol in conds]
        if ret is None:
            continue
        cs.append(cond_tt(ret, env))
        terms.append(('and', cs))
    return ('or', terms)


class Trace(list):
    """assignments of one variable; equality with another list is multiset equality (the order of assignments that sit in
    different arms of an if/else is an accident of spelling, and sequencing is decided by the path rules, not here)"""
    def __eq__(self, other):
        if isinstance(other, list):
            return sorted(map(repr, self)) == sorted(map(repr, other))
        return False

    def __ne__(self, other):
        return not self.__eq__(other)

    __hash__ = None


def assign_trace(func, env, names=None):
    """Assignments (incl. augmented) per variable in source order: name -> [(op, normal form)].
    Targets: plain names, self attributes (key 'self.x') and string-subscript stores (key "x['k']")."""
    out = {}
    nodes = [n for n in walk_no_nested(func) if isinstance(n, (ast.Assign, ast.AugAssign, ast.AnnAssign))]
    nodes.sort(key=lambda n: (n.lineno, n.col_offset))
    for n in nodes:
        if isinstance(n, ast.Assign):
            targets, op, val = n.targets, '=', n.value
        elif isinstance(n, ast.AnnAssign):
            if n.value is None:
                continue
            targets, op, val = [n.target], '=', n.value
        else:
            targets, val = [n.target], n.value
            op = {ast.Add: '+=', ast.Sub: '-=', ast.Mult: '*=', ast.FloorDiv: '//=', ast.BitOr: '|=', ast.BitAnd: '&=',
                  ast.LShift: '<<=', ast.RShift: '>>=', ast.BitXor: '^=', ast.Mod: '%='}.get(type(n.op), '?=')
        for t in targets:
            key = _target_key(t)
            if key is None or (names is not None and key not in names):
                continue
            out.setdefault(key, Trace()).append((op, nfs(val, env)))
    return out


def _target_key(t):
    if isinstance(t, ast.Name):
        return t.id
    if isinstance(t, ast.Attribute) and isinstance(t.value, ast.Name) and t.value.id == 'self':
        return 'self.' + t.attr
    if isinstance(t, ast.Subscript) and isinstance(t.slice, ast.Constant) and isinstance(t.slice.value, str):
        base = t.value
        b = base.id if isinstance(base, ast.Name) else (base.attr if isinstance(base, ast.Attribute) else '?')
        return "%s[%s]" % (b, t.slice.value)
    if isinstance(t, ast.Attribute) and isinstance(t.value, ast.Name):
        return '%s.%s' % (t.value.id, t.attr)
    return None
