"""./check <property|all|--self-check> [--tier quick|thorough] [--root /repo] [--replay F] [--no-evidence]"""
import importlib
import os
import sys
import json
import traceback

from .report import Ctx, finish, AnalysisError, VERIF

PROPS = ['C01', 'C02', 'C03', 'C04', 'C05', 'C06', 'C07', 'C08', 'C09', 'C10', 'C11', 'C12', 'C13', 'C14',
         'C15', 'C16', 'C17', 'C19', 'C20']


def run_property(prop, tier, root, seed=0, write_evidence=True, quiet=False, overlay=None, only_rules=None):
    """Run one property's rules; returns (exit_code, ctx)."""
    ctx = Ctx(prop, tier=tier, root=root, seed=seed, quiet=quiet)
    ctx.overlay = overlay
    ctx.only_rules = only_rules
    try:
        mod = importlib.import_module('props.' + prop)
    except ImportError as e:
        ctx.error('CLI', prop, 'no rule module for this property: %s' % e)
        return finish(ctx, write_evidence), ctx
    try:
        mod.run(ctx)
        if tier == 'thorough' and overlay is None and os.environ.get('VERIF_NO_SELFVAL') != '1':
            from . import selfval
            selfval.run(ctx, prop)
            st = ctx.selftest or {}
            if not quiet:
                print('   self-validation: %d breaking variants, %d detected, skipped=%s, missed=%s; neutral variants silent: %s of %s'
                      % (st.get('variants', 0), st.get('detected', 0), st.get('skipped', []), st.get('missed'), st.get('neutral_silent'), st.get('neutral_variants')))
    except AnalysisError as e:
        ctx.error(e.rule, e.construct, e.why)
    except Exception as e:
        tb = traceback.format_exc().strip().split('\n')
        ctx.error('CLI', prop, 'analyser crashed: %s: %s | %s' % (type(e).__name__, e, ' / '.join(tb[-4:])))
    return finish(ctx, write_evidence), ctx


def main(argv):
    args = list(argv)
    tier = os.environ.get('VERIF_TIER', 'quick')
    root = os.environ.get('VERIF_ROOT', '/repo')
    replay = None
    write_ev = True
    seed = int(os.environ.get('VERIF_SEED', '0') or 0)
    targets = []
    i = 0
    while i < len(args):
        a = args[i]
        if a == '--tier':
            tier = args[i + 1]
            i += 2
        elif a == '--root':
            root = args[i + 1]
            i += 2
        elif a == '--replay':
            replay = args[i + 1]
            i += 2
        elif a == '--no-evidence':
            write_ev = False
            i += 1
        elif a == '--self-check':
            targets.append('--self-check')
            i += 1
        else:
            targets.append(a)
            i += 1
    if tier not in ('quick', 'thorough'):
        print('ANALYSIS-ERROR bad tier %r' % tier)
        return 2
    if not targets:
        print(__doc__)
        return 2
    if targets == ['--self-check']:
        from . import selfcheck
        return selfcheck.main()
    if replay:
        # re-evaluate the property and report whether the recorded instance still fails
        data = json.load(open(replay))
        code, ctx = run_property(data['property'], tier, root, seed, write_evidence=False, quiet=True)
        key = '%s|%s|%s' % (data['rule'], data['construct'], data['instance'])
        hit = [f for f in ctx.findings if f.key() == key]
        if hit:
            print('REPLAY still failing: %s' % hit[0].text())
            print('VIOLATION property=%s replay=%s' % (data['property'], replay))
            return 1
        print('REPLAY instance no longer failing: %s' % key)
        return 0
    worst = 0
    if targets == ['all']:
        targets = PROPS
    for p in targets:
        if root != '/repo' and write_ev and os.environ.get('VERIF_FORCE_EVIDENCE') != '1':
            # evidence files describe /repo only
            wev = False
        else:
            wev = write_ev
        code, _ = run_property(p, tier, root, seed, write_evidence=wev)
        worst = max(worst, code) if code != 1 else 1 if worst != 1 else 1
        if code == 1:
            worst = 1
        elif code == 2 and worst == 0:
            worst = 2
    return worst


if __name__ == '__main__':
    try:
        rc = main(sys.argv[1:])
    except SystemExit:
        raise
    except BaseException as e:
        print('ANALYSIS-ERROR analyser crashed at top level: %s: %s' % (type(e).__name__, e))
        traceback.print_exc()
        rc = 2
    sys.stdout.flush()
    sys.exit(rc)
