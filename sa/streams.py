"""Stream operation extraction: the ordered seek/read/tell/parse operations of a statement or
path, normalised through engine E.  Shared by the formula rows (E-i), the walk rules (I) and
the cursor typestate (H)."""
import ast
from . import expr
from .model import walk_no_nested

PARSE_FUNCS = ('struct_parse',)
CSTR_FUNCS = ('parse_cstring_from_stream',)


class Op(object):
    __slots__ = ('kind', 'stream', 'args', 'node')

    def __init__(self, kind, stream, args, node):
        self.kind = kind        # seek | read | tell | parse | cstr | parse_stream | write
        self.stream = stream    # normalised stream expression text
        self.args = args        # tuple of normalised argument texts
        self.node = node

    def t(self):
        return (self.kind, self.stream) + tuple(self.args)

    def __repr__(self):
        return '%s(%s%s)' % (self.kind, self.stream, ''.join(',' + str(a) for a in self.args))


def _calls_postorder(node):
    """Calls of a subtree in evaluation order (arguments before the call), not descending into
    nested function definitions / lambdas."""
    out = []

    def rec(n):
        if isinstance(n, (ast.FunctionDef, ast.AsyncFunctionDef, ast.Lambda, ast.ClassDef)):
            return
        for c in ast.iter_child_nodes(n):
            rec(c)
        if isinstance(n, ast.Call):
            out.append(n)
    rec(node)
    return out


def ops_of(node, env):
    """Stream operations in a statement/expression, in evaluation order."""
    out = []
    for c in _calls_postorder(node):
        f = c.func
        if isinstance(f, ast.Attribute) and f.attr in ('seek', 'read', 'tell', 'write'):
            s = expr.nfs(f.value, env)
            if f.attr == 'seek':
                pos = expr.nfs(c.args[0], env) if c.args else None
                wh = expr.arg_of(c, 1, 'whence')
                whs = ast.unparse(wh).split('.')[-1] if wh is not None else 'SEEK_SET'
                if whs in ('0',):
                    whs = 'SEEK_SET'
                if whs in ('1',):
                    whs = 'SEEK_CUR'
                if whs in ('2',):
                    whs = 'SEEK_END'
                out.append(Op('seek', s, (pos, whs), c))
            elif f.attr == 'read':
                out.append(Op('read', s, (expr.nfs(c.args[0], env) if c.args else None,), c))
            elif f.attr == 'tell':
                out.append(Op('tell', s, (), c))
            else:
                out.append(Op('write', s, (expr.nfs(c.args[0], env) if c.args else None,), c))
        elif isinstance(f, ast.Name) and f.id in PARSE_FUNCS:
            sn = expr.arg_of(c, 0, 'struct')
            st = expr.nfs(sn, env) if sn is not None else None
            sv = expr.arg_of(c, 1, 'stream')
            s = expr.nfs(sv, env) if sv is not None else None
            p = expr.arg_of(c, 2, 'stream_pos')
            out.append(Op('parse', s, (st, expr.nfs(p, env) if p is not None else None), c))
        elif isinstance(f, ast.Name) and f.id in CSTR_FUNCS:
            sv = expr.arg_of(c, 0, 'stream')
            p = expr.arg_of(c, 1, 'stream_pos')
            out.append(Op('cstr', expr.nfs(sv, env) if sv is not None else None,
                          (expr.nfs(p, env) if p is not None else None,), c))
        elif isinstance(f, ast.Attribute) and f.attr in ('parse_stream', '_parse'):
            sv = c.args[0] if c.args else None
            out.append(Op('parse_stream', expr.nfs(sv, env) if sv is not None else None, (expr.nfs(f.value, env),), c))
    return out


def path_ops(path, env):
    out = []
    for ev in path.events:
        if ev[0] == 'stmt':
            st = ev[1]
            if isinstance(st, ast.With):
                for it in st.items:
                    out.extend(ops_of(it.context_expr, env))
            else:
                out.extend(ops_of(st, env))
        elif ev[0] == 'cond':
            out.extend(ops_of(ev[1], env))
    if path.end[0] in ('return', 'raise') and path.end[1] is not None and not (
            path.events and path.events[-1][0] == 'stmt' and path.events[-1][1] is not None and
            isinstance(path.events[-1][1], (ast.Return, ast.Raise))):
        out.extend(ops_of(path.end[1], env))
    return out


def func_ops(func, env):
    """All stream ops of a function in source order (path-insensitive)."""
    out = []
    for st in func.body:
        out.extend(ops_of(st, env))
    return out
