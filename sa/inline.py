"""Front-end, part 2: undo "extract helper" and "extract local" refactorings before the rules look at a tree.

A helper function/method or a local variable that the reference tree (spec/locals.json) does not know is *new*.  When its
definition is simple enough, every use is replaced by the definition (in the analyser's in-memory tree only), so that the rules
see the same statements as before the extraction:

  N11  new helper:  def h(p..): <simple statements>; return e     S[h(a..)]  ->  <statements, p:=a, locals renamed>; S[e]
                    def h(p..): <simple statements>               h(a..)     ->  <statements>
  N10  new local:   t = e  (bound once; all reads in the same block after it; nothing e reads is rebound in between; e free of
                    calls, or read exactly once in the very next statement)   ->  reads of t replaced by e, the binding dropped

Anything that does not fit (several returns, recursion, generators, a helper used inside a loop test with a statement body, ...)
is left alone and the rules judge the tree as it is."""
import ast
import copy

PURE_CALLS = ('len', 'int', 'min', 'max', 'abs', 'ord', 'chr', 'hex', 'str', 'repr', 'bool', 'bytes', 'roundup', 'sizeof', 'initial_length_field_size',
              'isinstance', 'tuple', 'list', 'next', 'bytes2str', 'bytes2hex', 'startswith', 'endswith', 'get', 'format',
              # accessors of the library that only read (they may move a stream they re-position themselves)
              'get_table_offset', 'iter_tags', 'num_tags', 'get_tag', 'sizeof', 'get_machine_arch')


def _is_doc(st):
    return isinstance(st, ast.Expr) and isinstance(st.value, ast.Constant) and isinstance(st.value.value, str)


def _simple_body(fn):
    """-> (statements without docstring and final return, return expression or None) or None when not inlinable"""
    body = [s for s in fn.body if not _is_doc(s) and not isinstance(s, ast.Pass)]
    ret = None
    if body and isinstance(body[-1], ast.Return):
        ret = body[-1].value if body[-1].value is not None else ast.Constant(value=None)
        body = body[:-1]
    for s in body:
        for n in ast.walk(s):
            if isinstance(n, (ast.Return, ast.Yield, ast.YieldFrom, ast.FunctionDef, ast.AsyncFunctionDef, ast.Lambda, ast.Global, ast.Nonlocal, ast.Try, ast.With)):
                return None
    if len(body) > 12:
        return None
    a = fn.args
    if a.vararg or a.kwarg or a.kwonlyargs or a.posonlyargs:
        return None
    for n in ast.walk(fn):
        if isinstance(n, ast.Call) and isinstance(n.func, (ast.Name, ast.Attribute)) and \
                (n.func.id if isinstance(n.func, ast.Name) else n.func.attr) == fn.name:
            return None            # recursion
    return body, ret


class _Subst(ast.NodeTransformer):
    def __init__(self, mapping):
        self.mapping = mapping

    def visit_Name(self, n):
        if n.id in self.mapping:
            v = self.mapping[n.id]
            if isinstance(v, str):
                return ast.copy_location(ast.Name(id=v, ctx=n.ctx), n)
            if isinstance(n.ctx, ast.Load):
                return ast.copy_location(copy.deepcopy(v), n)
        return n


def _stores(node):
    return set(x.id for x in ast.walk(node) if isinstance(x, ast.Name) and isinstance(x.ctx, (ast.Store, ast.Del)))


def _loads(node):
    return [x for x in ast.walk(node) if isinstance(x, ast.Name) and isinstance(x.ctx, ast.Load)]


def _trivial(e):
    return isinstance(e, (ast.Name, ast.Constant)) or (isinstance(e, ast.Attribute) and _trivial(e.value))


class HelperInliner(object):
    def __init__(self, tree, known):
        """known: set of function quals ('f', 'Class.m', 'outer.<locals>.inner') of the reference tree for this module"""
        self.tree = tree
        self.known = known
        self.helpers = {}       # bare name -> (FunctionDef, is_method, is_static)
        self.counter = 0
        self.inlined = []

    def collect(self):
        seen = {}
        for st in self.tree.body:
            if isinstance(st, ast.FunctionDef):
                seen.setdefault(st.name, []).append((st.name, st, False, False))
            elif isinstance(st, ast.ClassDef):
                for m in st.body:
                    if isinstance(m, ast.FunctionDef):
                        decos = [ast.unparse(d) for d in m.decorator_list]
                        if any(d not in ('staticmethod',) for d in decos):
                            continue
                        seen.setdefault(m.name, []).append(('%s.%s' % (st.name, m.name), m, True, 'staticmethod' in decos))
                        # nested helpers of methods
                        self._nested(m, '%s.%s' % (st.name, m.name))
            if isinstance(st, ast.FunctionDef):
                self._nested(st, st.name)
        for name, lst in seen.items():
            if len(lst) == 1 and lst[0][0] not in self.known and not (name.startswith('__') and name.endswith('__')):
                qual, fn, is_m, is_s = lst[0]
                if _simple_body(fn) is not None:
                    self.helpers[name] = (fn, is_m, is_s)

    def _nested(self, outer, qual):
        for st in outer.body:
            if isinstance(st, ast.FunctionDef):
                q = '%s.<locals>.%s' % (qual, st.name)
                if q not in self.known and st.name not in self.helpers and _simple_body(st) is not None and not st.decorator_list:
                    self.helpers[st.name] = (st, False, False)

    # -- call recognition ---------------------------------------------------------------------------
    def _helper_call(self, c):
        if not isinstance(c, ast.Call):
            return None
        f = c.func
        if isinstance(f, ast.Name) and f.id in self.helpers and not self.helpers[f.id][1]:
            return f.id, None
        if isinstance(f, ast.Attribute) and f.attr in self.helpers and self.helpers[f.attr][1]:
            return f.attr, f.value
        return None

    def _bind(self, name, recv, call):
        fn, is_m, is_s = self.helpers[name]
        params = [a.arg for a in fn.args.args]
        defaults = fn.args.defaults
        if is_m and not is_s:
            if not params:
                return None
            self_name, params = params[0], params[1:]
        else:
            self_name = None
        if any(isinstance(a, ast.Starred) for a in call.args) or any(k.arg is None for k in call.keywords):
            return None
        vals = {}
        for p, a in zip(params, call.args):
            vals[p] = a
        if len(call.args) > len(params):
            return None
        for k in call.keywords:
            if k.arg not in params or k.arg in vals:
                return None
            vals[k.arg] = k.value
        for i, p in enumerate(params):
            if p not in vals:
                j = i - (len(params) - len(defaults))
                if j < 0:
                    return None
                vals[p] = defaults[j]
        if self_name is not None:
            vals[self_name] = recv
        return vals

    def expand(self, name, recv, call):
        """-> (pre statements, return expression or None) with parameters substituted and locals renamed"""
        fn = self.helpers[name][0]
        body, ret = _simple_body(fn)
        vals = self._bind(name, recv, call)
        if vals is None:
            return None
        self.counter += 1
        k = self.counter
        stored = set()
        for s in body:
            stored |= _stores(s)
        mapping = {}
        pre = []
        for p, v in vals.items():
            uses = sum(1 for s in body + ([ret] if ret is not None else []) for x in _loads(s) if x.id == p)
            if p in stored or (not _trivial(v) and uses > 1):
                tmp = '%s__h%d' % (p, k)
                pre.append(ast.Assign(targets=[ast.Name(id=tmp, ctx=ast.Store())], value=copy.deepcopy(v), lineno=call.lineno))
                mapping[p] = tmp
            else:
                mapping[p] = v
        for nm in stored:
            if nm not in vals:
                mapping[nm] = '%s__h%d' % (nm, k)
        sub = _Subst(mapping)
        out = pre + [sub.visit(copy.deepcopy(s)) for s in body]
        r = sub.visit(copy.deepcopy(ret)) if ret is not None else None
        for s in out:
            for x in ast.walk(s):
                if hasattr(x, 'lineno'):
                    x.lineno = call.lineno
                    x.end_lineno = call.lineno
        return out, r

    # -- rewriting ----------------------------------------------------------------------------------
    def run(self):
        self.collect()
        if not self.helpers:
            return 0
        for _ in range(3):       # helpers calling helpers
            before = len(self.inlined)
            self._rewrite_blocks(self.tree)
            if len(self.inlined) == before:
                break
        self._drop_unused_helpers()
        ast.fix_missing_locations(self.tree)
        return len(self.inlined)

    def _drop_unused_helpers(self):
        """a helper whose every use was expanded is dropped, so that who-writes rules do not see a second writer"""
        used = set()
        for n in ast.walk(self.tree):
            if isinstance(n, ast.Name) and isinstance(n.ctx, ast.Load):
                used.add(n.id)
            elif isinstance(n, ast.Attribute) and isinstance(n.ctx, ast.Load):
                used.add(n.attr)
        gone = set(h for h in set(self.inlined) if h not in used)
        if not gone:
            return

        def prune(body):
            keep = [st for st in body if not (isinstance(st, ast.FunctionDef) and st.name in gone and self.helpers.get(st.name, (None,))[0] is st)]
            return keep or [ast.Pass()]
        self.tree.body = prune(self.tree.body)
        for n in ast.walk(self.tree):
            if isinstance(n, (ast.ClassDef, ast.FunctionDef)):
                n.body = prune(n.body)

    def _calls_in(self, node):
        out = []
        for x in ast.walk(node):
            hc = self._helper_call(x)
            if hc is not None:
                out.append((x, hc))
        return out

    def _replace(self, root, old, new):
        class R(ast.NodeTransformer):
            def visit_Call(s, n):
                if n is old:
                    return new
                s.generic_visit(n)
                return n
        return R().visit(root)

    def _rewrite_blocks(self, node):
        for fld in ('body', 'orelse', 'finalbody'):
            b = getattr(node, fld, None)
            if isinstance(b, list) and b and isinstance(b[0], ast.stmt):
                setattr(node, fld, self._rewrite_list(b, owner=node))
        for h in getattr(node, 'handlers', []) or []:
            self._rewrite_blocks(h)

    def _rewrite_list(self, stmts, owner):
        out = []
        for st in stmts:
            if isinstance(st, ast.FunctionDef) and st.name in self.helpers and self.helpers[st.name][0] is st:
                out.append(st)          # the helper itself is left as it is
                continue
            if isinstance(st, (ast.FunctionDef, ast.ClassDef, ast.If, ast.For, ast.While, ast.With, ast.Try)):
                # expression-only helpers may sit in the header (test / iter); statement helpers may not
                hdr = [getattr(st, f, None) for f in ('test', 'iter')]
                for h in hdr:
                    if h is None:
                        continue
                    for c, (name, recv) in self._calls_in(h):
                        ex = self.expand(name, recv, c)
                        if ex is not None and not ex[0] and ex[1] is not None:
                            new = self._replace(h, c, ex[1])
                            if h is getattr(st, 'test', None):
                                st.test = new
                            else:
                                st.iter = new
                            self.inlined.append(name)
                self._rewrite_blocks(st)
                out.append(st)
                continue
            calls = self._calls_in(st)
            if len(calls) == 1:
                c, (name, recv) = calls[0]
                ex = self.expand(name, recv, c)
                if ex is not None:
                    pre, r = ex
                    if r is None or (isinstance(st, ast.Expr) and st.value is c and isinstance(r, ast.Constant) and r.value is None):
                        if isinstance(st, ast.Expr) and st.value is c:
                            out.extend(pre)
                            self.inlined.append(name)
                            continue
                    elif r is not None:
                        # `t = helper()` whose result is the helper's own local: that local *is* t (no trailing copy), unless t
                        # already occurs in what was expanded (an argument)
                        if isinstance(st, ast.Assign) and st.value is c and len(st.targets) == 1 and isinstance(st.targets[0], ast.Name) and \
                                isinstance(r, ast.Name) and '__h' in r.id and pre and \
                                not any(isinstance(x, ast.Name) and x.id == st.targets[0].id for q in pre for x in ast.walk(q)):
                            ren = _Subst({r.id: st.targets[0].id})
                            out.extend(ren.visit(q) for q in pre)
                            self.inlined.append(name)
                            continue
                        out.extend(pre)
                        out.append(self._replace(st, c, r))
                        self.inlined.append(name)
                        continue
            elif len(calls) > 1:
                # several helper calls in one statement: only expression helpers, left to right
                ok = True
                exs = []
                for c, (name, recv) in calls:
                    ex = self.expand(name, recv, c)
                    if ex is None or ex[0] or ex[1] is None:
                        ok = False
                        break
                    exs.append((c, ex[1], name))
                if ok:
                    for c, r, name in exs:
                        st = self._replace(st, c, r)
                        self.inlined.append(name)
            out.append(st)
        return out


def inline_new_helpers(tree, known):
    hi = HelperInliner(tree, known)
    n = hi.run()
    return n, sorted(set(hi.inlined))


# ---------------------------------------------------------------------------------------------------
# N10: new single-assignment locals
# ---------------------------------------------------------------------------------------------------

def _has_impure_call(e):
    for x in ast.walk(e):
        if isinstance(x, ast.Call):
            f = x.func
            nm = f.id if isinstance(f, ast.Name) else (f.attr if isinstance(f, ast.Attribute) else None)
            if nm not in PURE_CALLS:
                return True
        if isinstance(x, (ast.Yield, ast.YieldFrom, ast.Await, ast.NamedExpr)):
            return True
    return False


def _read_roots(e):
    """what an expression reads: names, `obj.attr` roots, and `name['key']` slots (a slot read does not count as a read of the
    whole container, so that writes to *other* slots of a parsed record do not clash with it)"""
    out = set()
    slot_bases = set()
    for x in ast.walk(e):
        if isinstance(x, ast.Subscript) and isinstance(x.value, ast.Name) and isinstance(x.slice, ast.Constant) and isinstance(x.slice.value, str):
            out.add('%s[%s]' % (x.value.id, x.slice.value))
            slot_bases.add(id(x.value))
    for x in ast.walk(e):
        if isinstance(x, ast.Name) and id(x) not in slot_bases:
            out.add(x.id)
        elif isinstance(x, ast.Attribute) and isinstance(x.value, ast.Name):
            out.add('%s.%s' % (x.value.id, x.attr))
    return out


def _write_roots(st):
    out = set()
    for x in ast.walk(st):
        if isinstance(x, ast.Name) and isinstance(x.ctx, (ast.Store, ast.Del)):
            out.add(x.id)
        elif isinstance(x, ast.Attribute) and isinstance(x.ctx, (ast.Store, ast.Del)) and isinstance(x.value, ast.Name):
            out.add('%s.%s' % (x.value.id, x.attr))
        elif isinstance(x, ast.Subscript) and isinstance(x.ctx, (ast.Store, ast.Del)):
            if isinstance(x.value, ast.Name) and isinstance(x.slice, ast.Constant) and isinstance(x.slice.value, str):
                out.add('%s[%s]' % (x.value.id, x.slice.value))
                continue
            b = x.value
            while isinstance(b, (ast.Subscript, ast.Attribute)) and not (isinstance(b, ast.Attribute) and isinstance(b.value, ast.Name)):
                b = b.value
            if isinstance(b, ast.Name):
                out.add(b.id)
            elif isinstance(b, ast.Attribute):
                out.add('%s.%s' % (b.value.id, b.attr))
    return out


def _clash(writes, reads):
    """a write clashes with a read of the same thing, a slot write with a read of the whole container, and a rebinding of the
    container with a read of any of its slots"""
    if writes & reads:
        return True
    for wv in writes:
        base = wv.split('[')[0]
        if '[' in wv and base in reads:
            return True
        if '[' not in wv and any(r.startswith(wv + '[') for r in reads):
            return True
    return False


def inline_temps(fn, candidates):
    """Inline the locals of `candidates` (names) where the conditions of N10 hold.  Returns the names inlined."""
    done = []
    for name in sorted(candidates):
        stores = [x for x in ast.walk(fn) if isinstance(x, ast.Name) and x.id == name and isinstance(x.ctx, (ast.Store, ast.Del))]
        loads = [x for x in ast.walk(fn) if isinstance(x, ast.Name) and x.id == name and isinstance(x.ctx, ast.Load)]
        if not stores or not loads:
            continue
        if len(stores) > 1:
            # the same new name bound in several places (one per branch): split into one name per binding when every read is
            # reached by exactly one binding of its own block, then treat each on its own
            if _split_bindings(fn, name, stores, loads):
                done += inline_temps(fn, set('%s__b%d' % (name, i) for i in range(len(stores))))
            continue
        hit = _find_block(fn, stores[0])
        if hit is None:
            continue
        block, idx = hit
        st = block[idx]
        if not (isinstance(st, ast.Assign) and len(st.targets) == 1 and st.targets[0] is stores[0]):
            continue
        rhs = st.value
        # a fresh mutable object (a list/dict/set display or comprehension) has an identity: every read of the name is the
        # *same* object, which a copy of the display at each read would not be.  Only a single read may take it over.
        if isinstance(rhs, (ast.List, ast.Dict, ast.Set, ast.ListComp, ast.DictComp, ast.SetComp)) and len(loads) != 1:
            continue
        # all reads in later statements of the same block
        later = block[idx + 1:]
        inside = [x for s in later for x in ast.walk(s) if isinstance(x, ast.Name) and x.id == name and isinstance(x.ctx, ast.Load)]
        if len(inside) != len(loads):
            continue
        impure = _has_impure_call(rhs)
        if impure:
            # only: read exactly once, in the next statement that is not a call-free plain assignment (those commute with the
            # binding: they neither call anything nor touch what it reads or writes), and not inside a loop/branch body of it
            if len(loads) != 1 or not later:
                continue
            skip = 0
            while skip < len(later) and isinstance(later[skip], ast.Assign) and not _has_impure_call(later[skip].value) and \
                    not any(x.id == name for x in _loads(later[skip])) and not _clash(_write_roots(later[skip]), _read_roots(rhs)) and \
                    all(isinstance(t, ast.Name) for t in later[skip].targets):
                skip += 1
            if skip >= len(later):
                continue
            if skip:
                # move the binding down to just before its use (the skipped statements commute with it)
                block[idx:idx + 1 + skip] = block[idx + 1:idx + 1 + skip] + [block[idx]]
                idx += skip
                st = block[idx]
                later = block[idx + 1:]
            nxt = later[0]
            if isinstance(nxt, (ast.For, ast.While, ast.If, ast.With, ast.Try, ast.FunctionDef)):
                hdr = [getattr(nxt, f, None) for f in ('test', 'iter')]
                if not any(h is not None and any(x is loads[0] for x in ast.walk(h)) for h in hdr) or isinstance(nxt, ast.While):
                    continue
            elif not any(x is loads[0] for x in ast.walk(nxt)):
                continue
            last_use = 0
        else:
            last_use = max(i for i, s in enumerate(later) if any(x.id == name for x in _loads(s)))
        # nothing the expression reads is rebound between the binding and the last use
        reads = _read_roots(rhs)
        clash = False
        for s in later[:last_use + 1]:
            if _clash(_write_roots(s), reads):
                # a statement that both uses t and rebinds an operand (x = f(t, x)) is fine only if it is the using statement
                # itself and a plain assignment (right-hand side evaluated first)
                # (for a binding with calls the using statement is the very next one: its right-hand side, where the name is read,
                # is evaluated before its own targets are stored)
                if impure and s is later[0] and isinstance(s, ast.Assign) and any(x is loads[0] for x in ast.walk(s.value)):
                    continue
                if not (isinstance(s, (ast.Assign, ast.AugAssign)) and not impure and s is later[last_use] and
                        not any(_clash(_write_roots(z), reads) for z in later[:last_use])):
                    clash = True
        if clash:
            continue
        # loops: a read inside a loop body of a later statement sees the value of the binding; operands rebound inside that loop
        # would change the meaning
        bad = False
        for s in later[:last_use + 1]:
            for lp in ast.walk(s):
                if isinstance(lp, (ast.For, ast.While)) and any(x.id == name for x in _loads(lp)):
                    if _clash(_write_roots(lp), reads) or impure:
                        bad = True
        if bad:
            continue
        sub = _Subst({name: rhs})
        for i, s in enumerate(later):
            block[idx + 1 + i] = sub.visit(s)
        del block[idx]
        done.append(name)
    if done:
        ast.fix_missing_locations(fn)
    return done


def _split_bindings(fn, name, stores, loads):
    scopes = []
    for i, st_name in enumerate(stores):
        hit = _find_block(fn, st_name)
        if hit is None:
            return False
        block, idx = hit
        mine = []
        for s in block[idx + 1:]:
            if any(isinstance(x, ast.Name) and x.id == name and isinstance(x.ctx, ast.Store) for x in ast.walk(s)):
                break
            mine += [x for x in ast.walk(s) if isinstance(x, ast.Name) and x.id == name and isinstance(x.ctx, ast.Load)]
        scopes.append((st_name, mine))
    covered = [id(x) for st_name, mine in scopes for x in mine]
    if sorted(covered) != sorted(id(x) for x in loads) or len(set(covered)) != len(covered):
        return False
    for i, (st_name, mine) in enumerate(scopes):
        st_name.id = '%s__b%d' % (name, i)
        for x in mine:
            x.id = '%s__b%d' % (name, i)
    return True


def _find_block(root, target_name_node):
    for n in ast.walk(root):
        for fld in ('body', 'orelse', 'finalbody'):
            b = getattr(n, fld, None)
            if isinstance(b, list):
                for i, st in enumerate(b):
                    if isinstance(st, ast.Assign) and len(st.targets) == 1 and st.targets[0] is target_name_node:
                        return b, i
    return None


# ---------------------------------------------------------------------------------------------------
# N27: arms of an if/elif chain folded into a new module-level table (`elif name in TABLE: ... TABLE[name] ...`) are unfolded
# again: one arm per distinct value of the table, the lookup replaced by that value.
# ---------------------------------------------------------------------------------------------------

def expand_table_dispatch(tree, known_globals):
    tables = {}
    for st in tree.body:
        if isinstance(st, ast.Assign) and len(st.targets) == 1 and isinstance(st.targets[0], ast.Name) and isinstance(st.value, ast.Dict) and \
                st.targets[0].id not in known_globals and st.value.keys and \
                all(isinstance(k, ast.Constant) and isinstance(k.value, (str, int)) for k in st.value.keys):
            tables[st.targets[0].id] = st.value
    if not tables:
        return 0
    count = [0]

    class T(ast.NodeTransformer):
        def visit_If(self, n):
            self.generic_visit(n)
            t = n.test
            if isinstance(t, ast.Compare) and len(t.ops) == 1 and isinstance(t.ops[0], ast.In) and isinstance(t.comparators[0], ast.Name) and \
                    t.comparators[0].id in tables:
                tab = tables[t.comparators[0].id]
                subj = t.left
                groups = []      # [(value dump, value ast, [key constants])] in first-appearance order
                for k, v in zip(tab.keys, tab.values):
                    d = ast.dump(v)
                    for g in groups:
                        if g[0] == d:
                            g[2].append(k)
                            break
                    else:
                        groups.append((d, v, [k]))
                sd = ast.dump(subj)

                class S(ast.NodeTransformer):
                    def __init__(s, val):
                        s.val = val

                    def visit_Subscript(s, x):
                        s.generic_visit(x)
                        if isinstance(x.value, ast.Name) and x.value.id == t.comparators[0].id and ast.dump(x.slice) == sd and isinstance(x.ctx, ast.Load):
                            return copy.deepcopy(s.val)
                        return x
                arms = []
                for d, v, keys in groups:
                    test = ast.Compare(left=copy.deepcopy(subj), ops=[ast.In()], comparators=[ast.Tuple(elts=[copy.deepcopy(k) for k in keys], ctx=ast.Load())]) \
                        if len(keys) > 1 else ast.Compare(left=copy.deepcopy(subj), ops=[ast.Eq()], comparators=[copy.deepcopy(keys[0])])
                    body = [S(v).visit(copy.deepcopy(b)) for b in n.body]
                    arms.append(ast.If(test=test, body=body, orelse=[]))
                for a, b in zip(arms, arms[1:]):
                    a.orelse = [b]
                arms[-1].orelse = n.orelse
                count[0] += 1
                return ast.copy_location(arms[0], n)
            return n
    T().visit(tree)
    if count[0]:
        ast.fix_missing_locations(tree)
    return count[0]


# ---------------------------------------------------------------------------------------------------
# N27b: a *new* constant table (module level or class level) consulted with .get() to pick a name or number that the statements
# right after it use is the if/elif chain it replaced:
#     v = T.get(S); if v is None: raise E; x = getattr(obj, v)(..)
#  -> if S == k1: x = obj.c1(..) elif S == k2: .. else: raise E
# (one arm per key, the statements that use v copied into each arm with v replaced by the constant, tests on constants folded,
# getattr with a constant name written as the attribute)
# ---------------------------------------------------------------------------------------------------

class _ConstFold(ast.NodeTransformer):
    def visit_Call(self, n):
        self.generic_visit(n)
        if isinstance(n.func, ast.Name) and n.func.id == 'getattr' and len(n.args) == 2 and not n.keywords and isinstance(n.args[1], ast.Constant) and \
                isinstance(n.args[1].value, str) and n.args[1].value.isidentifier():
            return ast.copy_location(ast.Attribute(value=n.args[0], attr=n.args[1].value, ctx=ast.Load()), n)
        return n

    @staticmethod
    def _truth(t):
        if isinstance(t, ast.Compare) and len(t.ops) == 1 and isinstance(t.left, ast.Constant) and isinstance(t.comparators[0], ast.Constant) and \
                isinstance(t.ops[0], (ast.Is, ast.IsNot)) and (t.left.value is None or t.comparators[0].value is None):
            same = t.left.value is None and t.comparators[0].value is None
            return same if isinstance(t.ops[0], ast.Is) else not same
        if isinstance(t, ast.UnaryOp) and isinstance(t.op, ast.Not):
            v = _ConstFold._truth(t.operand)
            return None if v is None else (not v)
        if isinstance(t, ast.Constant) and (t.value is None or isinstance(t.value, (str, int))):
            return bool(t.value)
        return None

    def fold_block(self, stmts):
        out = []
        for st in stmts:
            st = self.visit(st)
            if isinstance(st, ast.If):
                tv = self._truth(st.test)
                if tv is not None:
                    out.extend(self.fold_block(st.body if tv else st.orelse))
                    if out and isinstance(out[-1], (ast.Raise, ast.Return, ast.Continue, ast.Break)):
                        break
                    continue
            out.append(st)
            if isinstance(st, (ast.Raise, ast.Return, ast.Continue, ast.Break)):
                break
        return out


def expand_table_get(tree, known_globals, known_classattrs):
    tables = {}       # name -> Dict   (class-level tables by bare attribute name)
    for st in tree.body:
        if isinstance(st, ast.Assign) and len(st.targets) == 1 and isinstance(st.targets[0], ast.Name) and st.targets[0].id not in known_globals:
            tables[st.targets[0].id] = st.value
        if isinstance(st, ast.ClassDef):
            for c in st.body:
                if isinstance(c, ast.Assign) and len(c.targets) == 1 and isinstance(c.targets[0], ast.Name) and \
                        '%s.%s' % (st.name, c.targets[0].id) not in known_classattrs:
                    tables[c.targets[0].id] = c.value
    tables = dict((k, v) for k, v in tables.items() if isinstance(v, ast.Dict) and v.keys and
                  all(isinstance(x, ast.Constant) and isinstance(x.value, (str, int)) for x in v.keys) and
                  all(isinstance(x, ast.Constant) and isinstance(x.value, (str, int)) for x in v.values))
    if not tables:
        return 0
    count = [0]

    def table_of(e):
        if isinstance(e, ast.Name) and e.id in tables:
            return tables[e.id]
        if isinstance(e, ast.Attribute) and e.attr in tables and isinstance(e.value, ast.Name):
            return tables[e.attr]
        return None

    def rewrite(fn, stmts):
        for i, st in enumerate(stmts):
            for fld in ('body', 'orelse', 'finalbody'):
                b = getattr(st, fld, None)
                if isinstance(b, list) and b and isinstance(b[0], ast.stmt) and not isinstance(st, (ast.FunctionDef, ast.ClassDef)):
                    setattr(st, fld, rewrite(fn, b))
            if not (isinstance(st, ast.Assign) and len(st.targets) == 1 and isinstance(st.targets[0], ast.Name) and isinstance(st.value, ast.Call) and
                    isinstance(st.value.func, ast.Attribute) and st.value.func.attr == 'get' and not st.value.keywords and
                    (len(st.value.args) == 1 or (len(st.value.args) == 2 and isinstance(st.value.args[1], ast.Constant) and st.value.args[1].value is None))):
                continue
            tab = table_of(st.value.func.value)
            subj = st.value.args[0]
            if tab is None or not _trivial(subj):
                continue
            v = st.targets[0].id
            if sum(1 for x in ast.walk(fn) if isinstance(x, ast.Name) and x.id == v and isinstance(x.ctx, ast.Store)) != 1:
                continue
            rest = stmts[i + 1:]
            uses = [k for k, r in enumerate(rest) if any(isinstance(x, ast.Name) and x.id == v for x in ast.walk(r))]
            if not uses or sum(1 for x in ast.walk(fn) if isinstance(x, ast.Name) and x.id == v and isinstance(x.ctx, ast.Load)) != \
                    sum(1 for r in rest for x in ast.walk(r) if isinstance(x, ast.Name) and x.id == v):
                continue
            use = rest[:uses[-1] + 1]
            # the subject must not be rebound by the statements that are copied
            if _clash(set().union(*[_write_roots(r) for r in use]), _read_roots(subj)):
                continue
            arms = []
            groups = []      # keys with the same value share an arm: [(value, [keys])] in first-appearance order
            for k, c in zip(tab.keys, tab.values):
                for g in groups:
                    if ast.dump(g[0]) == ast.dump(c):
                        g[1].append(k)
                        break
                else:
                    groups.append((c, [k]))
            for c, ks in groups + [(ast.Constant(value=None), None)]:
                body = _ConstFold().fold_block([_Subst({v: c}).visit(copy.deepcopy(r)) for r in use]) or [ast.Pass()]
                if ks is None:
                    test = None
                elif len(ks) == 1:
                    test = ast.Compare(left=copy.deepcopy(subj), ops=[ast.Eq()], comparators=[copy.deepcopy(ks[0])])
                else:
                    test = ast.Compare(left=copy.deepcopy(subj), ops=[ast.In()], comparators=[ast.Tuple(elts=[copy.deepcopy(k) for k in ks], ctx=ast.Load())])
                arms.append((test, body))
            chain = arms[-1][1]
            for test, body in reversed(arms[:-1]):
                chain = [ast.If(test=test, body=body, orelse=chain)]
            count[0] += 1
            for x in chain:
                ast.copy_location(x, st)
            return stmts[:i] + chain + rewrite(fn, rest[uses[-1] + 1:])
        return stmts

    for fn in ast.walk(tree):
        if isinstance(fn, ast.FunctionDef):
            fn.body = rewrite(fn, fn.body)
    if count[0]:
        ast.fix_missing_locations(tree)
    return count[0]


# ---------------------------------------------------------------------------------------------------
# N30: a new module-level constant (a string/number, or a tuple/list/set of such, possibly concatenated from other new constants)
# is written out again where it is used: `form in _STRX_FORMS` -> `form in ('DW_FORM_strx', ...)`
# ---------------------------------------------------------------------------------------------------

def inline_new_constants(tree, known_globals):
    consts = {}

    def value_of(v):
        if isinstance(v, ast.Constant) and isinstance(v.value, (str, int, bytes)):
            return v
        if isinstance(v, (ast.Tuple, ast.List, ast.Set)) and all(isinstance(e, ast.Constant) for e in v.elts):
            return ast.Tuple(elts=list(v.elts), ctx=ast.Load())
        if isinstance(v, ast.Name) and v.id in consts:
            return consts[v.id]
        if isinstance(v, ast.BinOp) and isinstance(v.op, ast.Add):
            a, b = value_of(v.left), value_of(v.right)
            if isinstance(a, ast.Tuple) and isinstance(b, ast.Tuple):
                return ast.Tuple(elts=list(a.elts) + list(b.elts), ctx=ast.Load())
        return None
    counts = {}
    for st in tree.body:
        if isinstance(st, ast.Assign) and len(st.targets) == 1 and isinstance(st.targets[0], ast.Name):
            counts[st.targets[0].id] = counts.get(st.targets[0].id, 0) + 1
    for st in tree.body:
        if isinstance(st, ast.Assign) and len(st.targets) == 1 and isinstance(st.targets[0], ast.Name):
            nm = st.targets[0].id
            if nm in known_globals or counts.get(nm) != 1:
                continue
            v = value_of(st.value)
            if v is not None:
                consts[nm] = v
    if not consts:
        return []
    used = set()

    class S(ast.NodeTransformer):
        def visit_Name(self, n):
            if isinstance(n.ctx, ast.Load) and n.id in consts:
                used.add(n.id)
                return ast.copy_location(copy.deepcopy(consts[n.id]), n)
            return n
    for st in tree.body:
        if isinstance(st, (ast.FunctionDef, ast.ClassDef)):
            # not where a local of the same name is bound
            S().visit(st)
    if used:
        ast.fix_missing_locations(tree)
    return sorted(used)
