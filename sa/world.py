"""Per-run analysis world: source model + abstract interpreter + evaluated tables."""
from .model import Model
from .absint import Interp, Unknown, ClassV
from .report import AnalysisError


class World(object):
    def __init__(self, root='/repo', overlay=None, sources=None):
        self.model = Model(root, overlay=overlay, sources=sources)
        self.interp = Interp(self.model)
        self._tables = None

    def table(self, mod, name):
        v = self.interp.global_value(mod, name)
        if isinstance(v, Unknown):
            raise AnalysisError('B-EVAL', '%s:%s' % (mod, name), 'table evaluates to Unknown (%s)' % v.why)
        return v

    def all_enum_names(self):
        """name -> set(values) over every ENUM_* dict of elf/enums.py and dwarf/enums.py plus
        the DW_OP table; used by G-LIT."""
        if self._tables is not None:
            return self._tables
        names = {}
        for mod in ('elf/enums.py', 'dwarf/enums.py'):
            env = self.interp.module_env(mod)
            for k, v in env.vars.items():
                if isinstance(v, dict) and k.startswith('ENUM'):
                    for n, val in v.items():
                        if isinstance(n, str):
                            names.setdefault(n, set()).add(val if isinstance(val, int) else None)
                        if isinstance(val, dict):   # ENUMMAP_EXTRA_D_TAG_MACHINE
                            for n2, v2 in val.items():
                                if isinstance(n2, str):
                                    names.setdefault(n2, set()).add(v2 if isinstance(v2, int) else None)
        ops = self.interp.module_env('dwarf/dwarf_expr.py').vars.get('DW_OP_name2opcode')
        if isinstance(ops, dict):
            for n, val in ops.items():
                names.setdefault(n, set()).add(val)
        env = self.interp.module_env('dwarf/constants.py')
        for k, v in env.vars.items():
            if k.startswith('DW_') and isinstance(v, int):
                names.setdefault(k, set()).add(v)
        self._tables = names
        return names


_cache = {}


def get_world(ctx):
    key = (ctx.root, id(ctx.overlay) if getattr(ctx, 'overlay', None) else None)
    w = getattr(ctx, '_world', None)
    if w is None:
        w = World(ctx.root, overlay=getattr(ctx, 'overlay', None))
        ctx._world = w
        ctx.analysed.update(w.model.stats())
        ctx.analysed['front_end'] = dict(functions_with_locals_renamed_to_reference=len(w.model.renamed),
                                         new_helpers_or_locals_expanded=[list(x) for x in w.model.inlined][:20])
    return w
