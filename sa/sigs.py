"""Engine G (signatures): ordered parse signature of a small parser closure/lambda.

A parser function takes a stream and returns a list of parsed operands.  Its signature is the list of operand
kinds in parse order: the layout atom of each struct parsed (resolved through the closure environment by the
abstract interpreter and the layout IR), blob(len-atom) for read_blob, nested(len-atom) for a recursive
expression parse.  Conditional parsers yield {keyset: signature} tables.
"""
import ast
from .absint import FuncV, Node, Unknown, Env, Obj
from .report import AnalysisError
from . import dwconf, dispatch


class P(object):
    """symbolic parsed value"""

    def __init__(self, kind, atom):
        self.kind = kind   # 'parsed' | 'blob' | 'nested'
        self.atom = atom

    def sig(self):
        if self.kind == 'parsed':
            return self.atom
        return '%s(%s)' % (self.kind, self.atom)


class SigEval(object):
    def __init__(self, world, structs_obj=None):
        self.world = world
        self.interp = world.interp
        self.structs_obj = structs_obj
        self.order = []     # parse events in evaluation order

    def sig_of(self, fv):
        """-> list of operand signatures, or dict {frozenset(keys)|'else': list|'raise'} for conditional parsers."""
        if not isinstance(fv, FuncV):
            raise AnalysisError('G-SIG', '?', 'dispatch entry is not a function: %r' % (fv,))
        node = fv.node
        params = [a.arg for a in node.args.args]
        if len(params) != 1:
            raise AnalysisError('G-SIG', fv.name, 'parser does not take exactly the stream')
        self.stream = params[0]
        env = Env(parent=fv.env, mod=fv.mod)
        self.sym = {}
        if isinstance(node, ast.Lambda):
            return self.ret_sig(node.body, env)
        return self.block(node.body, env)

    def block(self, stmts, env):
        for i, st in enumerate(stmts):
            if isinstance(st, ast.Assign) and len(st.targets) == 1 and isinstance(st.targets[0], ast.Name):
                self.sym[st.targets[0].id] = self.value(st.value, env)
            elif isinstance(st, ast.Return):
                return self.ret_sig(st.value, env)
            elif isinstance(st, ast.If):
                # conditional on a parsed value
                subj = None
                for n in ast.walk(st.test):
                    if isinstance(n, ast.Name) and isinstance(self.sym.get(n.id), P):
                        subj = n.id
                if subj is None:
                    raise AnalysisError('G-SIG', 'parser', 'branch not on a parsed value: %s' % ast.unparse(st.test))
                table = {}
                prefix = [self.sym[subj].sig()]
                for b in dispatch.extract_chain(st, dispatch.subject_name(subj), universe=range(0, 256)):
                    saved = dict(self.sym)
                    if b.is_else:
                        if len(b.body) == 1 and isinstance(b.body[0], ast.If):
                            raise AnalysisError('G-SIG', 'parser', 'unmodelled test %s' % ast.unparse(b.body[0].test))
                        r = 'raise' if any(isinstance(x, ast.Raise) for x in b.body) else self.block(b.body, env)
                        table['else'] = r
                    else:
                        r = 'raise' if any(isinstance(x, ast.Raise) for x in b.body) else self.block(b.body, env)
                        table[frozenset(b.keys)] = r
                    self.sym = saved
                return ('cond', prefix, table)
            elif isinstance(st, (ast.Expr, ast.Pass)):
                continue
            elif isinstance(st, ast.Raise):
                return 'raise'
            else:
                raise AnalysisError('G-SIG', 'parser', 'statement not modelled: %s' % type(st).__name__)
        return None

    def ret_sig(self, e, env):
        # list concatenation of operand lists: [a] + other_parser(stream)
        if isinstance(e, ast.BinOp) and isinstance(e.op, ast.Add):
            l, r = self.ret_sig(e.left, env), self.ret_sig(e.right, env)
            if not (isinstance(l, list) and isinstance(r, list)):
                raise AnalysisError('G-SIG', 'parser', 'concatenation of conditional operand lists not modelled: %s' % ast.unparse(e))
            return l + r
        # delegation to another operand parser on the same stream: g(stream) where g is a parser closure
        if isinstance(e, ast.Call) and len(e.args) == 1 and not e.keywords and isinstance(e.args[0], ast.Name) and e.args[0].id == self.stream:
            fv = self.interp.eval(e.func, env)
            if isinstance(fv, FuncV):
                sub = SigEval(self.world, self.structs_obj)
                r = sub.sig_of(fv)
                if not isinstance(r, list):
                    raise AnalysisError('G-SIG', 'parser', 'delegation to a conditional parser not modelled: %s' % ast.unparse(e))
                return r
        if not isinstance(e, (ast.List, ast.Tuple)):
            raise AnalysisError('G-SIG', 'parser', 'parser does not return a list display: %s' % ast.unparse(e))
        out = []
        for el in e.elts:
            v = self.value(el, env)
            if isinstance(v, P):
                out.append(v)
            else:
                raise AnalysisError('G-SIG', 'parser', 'operand is not a parsed value: %s' % ast.unparse(el))
        # operands already parsed into names keep their parse order; check order == list order for inline parses
        return [v.sig() for v in out]

    def value(self, e, env):
        if isinstance(e, ast.Name) and e.id in self.sym:
            return self.sym[e.id]
        if isinstance(e, ast.Call):
            f = e.func
            if isinstance(f, ast.Name) and f.id == 'struct_parse':
                if len(e.args) < 2 or not (isinstance(e.args[1], ast.Name) and e.args[1].id == self.stream):
                    raise AnalysisError('G-SIG', 'parser', 'struct_parse not on the parser stream: %s' % ast.unparse(e))
                if len(e.args) > 2 or e.keywords:
                    raise AnalysisError('G-SIG', 'parser', 'positioned parse inside an operand parser')
                node = self.interp.eval(e.args[0], env)
                if isinstance(node, Unknown):
                    raise AnalysisError('G-SIG', 'parser', 'struct not resolvable: %s (%s)' % (ast.unparse(e.args[0]), node.why))
                return P('parsed', dwconf.atom_of(self.world, node))
            if isinstance(f, ast.Name) and f.id == 'read_blob':
                if not (isinstance(e.args[0], ast.Name) and e.args[0].id == self.stream):
                    raise AnalysisError('G-SIG', 'parser', 'read_blob not on the parser stream')
                ln = self.value(e.args[1], env)
                if not (isinstance(ln, P) and ln.kind == 'parsed'):
                    raise AnalysisError('G-SIG', 'parser', 'blob length is not a parsed value')
                return P('blob', ln.atom)
            if isinstance(f, ast.Attribute) and f.attr == 'parse_expr' and isinstance(f.value, ast.Call) and \
                    isinstance(f.value.func, ast.Name) and f.value.func.id == 'DWARFExprParser':
                sarg = self.interp.eval(f.value.args[0], env) if f.value.args else None
                if self.structs_obj is not None and sarg is not self.structs_obj:
                    raise AnalysisError('G-SIG', 'parser', 'nested expression parsed with different structs')
                b = self.value(e.args[0], env)
                if not (isinstance(b, P) and b.kind == 'blob'):
                    raise AnalysisError('G-SIG', 'parser', 'nested parser argument is not a blob read from the stream')
                return P('nested', b.atom)
        return None
