"""Engine G: dispatch extraction -- if/elif chains keyed on constants, and small helpers to
summarise what a branch does (constructed class, calls made, fields read)."""
import ast
from .report import AnalysisError
from .model import walk_no_nested


class Branch(object):
    def __init__(self, keys, extra, body, test, is_else=False):
        self.keys = keys          # frozenset of constants (str/int) or None for else
        self.extra = extra        # list of extra conjunct ASTs
        self.body = body
        self.test = test
        self.is_else = is_else

    @property
    def line(self):
        return self.test.lineno if self.test is not None else (self.body[0].lineno if self.body else 0)


def _const(n, consts):
    if isinstance(n, ast.Constant) and isinstance(n.value, (str, int, bytes)) and not isinstance(n.value, bool):
        return n.value
    if isinstance(n, ast.Name) and consts and n.id in consts:
        return consts[n.id]
    if isinstance(n, ast.Attribute) and consts:
        # SHN_INDICES.SHN_XINDEX style
        try:
            dotted = ast.unparse(n)
        except Exception:
            return None
        if dotted in consts:
            return consts[dotted]
        if n.attr in consts:
            return consts[n.attr]
    return None


def keys_of_test(test, is_subject, consts=None, universe=None):
    """-> (frozenset(keys) | None, [extra conjuncts]).  None when the test is not about the subject."""
    extra = []
    parts = [test]
    if isinstance(test, ast.BoolOp) and isinstance(test.op, ast.And):
        parts = list(test.values)
    keys = None
    for p in parts:
        k = _keys_atom(p, is_subject, consts, universe)
        if k is not None and keys is None:
            keys = k
        else:
            extra.append(p)
    return keys, extra


def _keys_atom(p, is_subject, consts, universe):
    if isinstance(p, ast.BoolOp) and isinstance(p.op, ast.Or):
        acc = set()
        for v in p.values:
            k = _keys_atom(v, is_subject, consts, universe)
            if k is None:
                return None
            acc |= k
        return frozenset(acc)
    if isinstance(p, ast.Compare) and len(p.ops) == 2 and universe is not None and is_subject(p.comparators[0]):
        lo = _const(p.left, consts)
        hi = _const(p.comparators[1], consts)
        if isinstance(lo, int) and isinstance(hi, int) and all(isinstance(o, (ast.Lt, ast.LtE)) for o in p.ops):
            lo2 = lo if isinstance(p.ops[0], ast.LtE) else lo + 1
            hi2 = hi if isinstance(p.ops[1], ast.LtE) else hi - 1
            return frozenset(u for u in universe if isinstance(u, int) and lo2 <= u <= hi2)
        return None
    if isinstance(p, ast.Compare) and len(p.ops) == 1:
        l, op, r = p.left, p.ops[0], p.comparators[0]
        if isinstance(op, ast.Eq):
            if is_subject(l):
                c = _const(r, consts)
                return frozenset([c]) if c is not None else None
            if is_subject(r):
                c = _const(l, consts)
                return frozenset([c]) if c is not None else None
        if isinstance(op, ast.In) and is_subject(l):
            if isinstance(r, (ast.Tuple, ast.List, ast.Set)):
                cs = [_const(e, consts) for e in r.elts]
                if all(c is not None for c in cs):
                    return frozenset(cs)
                return None
            if isinstance(r, ast.Constant) and isinstance(r.value, str) and universe is not None:
                # `x in ('DW_FORM_ref_addr')` is a substring test: evaluate over the finite name set
                return frozenset(u for u in universe if isinstance(u, str) and u in r.value)
            c = _const(r, consts)
            if isinstance(c, (tuple, list, set, frozenset, dict)):
                return frozenset(c)
        if isinstance(op, (ast.LtE, ast.Lt, ast.GtE, ast.Gt)) and universe is not None and is_subject(l):
            c = _const(r, consts)
            if isinstance(c, int):
                f = {ast.LtE: lambda u: u <= c, ast.Lt: lambda u: u < c, ast.GtE: lambda u: u >= c,
                     ast.Gt: lambda u: u > c}[type(op)]
                return frozenset(u for u in universe if isinstance(u, int) and f(u))
    return None


def extract_chain(if_node, is_subject, consts=None, universe=None):
    """Flatten an if/elif/else chain into branches.  Tests not about the subject stop the chain
    (the remainder is returned as an else-branch holding the nested If)."""
    out = []
    node = if_node
    while True:
        keys, extra = keys_of_test(node.test, is_subject, consts, universe)
        if keys is None:
            out.append(Branch(None, [], [node], node.test, is_else=True))
            return out
        out.append(Branch(keys, extra, node.body, node.test))
        if len(node.orelse) == 1 and isinstance(node.orelse[0], ast.If):
            node = node.orelse[0]
            continue
        if node.orelse:
            out.append(Branch(None, [], node.orelse, None, is_else=True))
        return out


def find_chain(func, is_subject, consts=None, universe=None, min_branches=2):
    """First if/elif chain (in source order) of the function whose first test is about the subject."""
    cands = []
    for n in walk_no_nested(func):
        if isinstance(n, ast.If):
            keys, _ = keys_of_test(n.test, is_subject, consts, universe)
            if keys is not None:
                cands.append(n)
    cands.sort(key=lambda n: (n.lineno, n.col_offset))
    # drop chains that are the elif-tail of another candidate
    tails = set()
    for n in cands:
        m = n
        while len(m.orelse) == 1 and isinstance(m.orelse[0], ast.If):
            m = m.orelse[0]
            tails.add(id(m))
    heads = [n for n in cands if id(n) not in tails]
    out = []
    for h in heads:
        br = extract_chain(h, is_subject, consts, universe)
        if len(br) >= min_branches:
            out.append(br)
    return out


def subject_name(*names):
    def f(n):
        return isinstance(n, ast.Name) and n.id in names
    return f


def subject_src(*srcs):
    want = set(s.replace(' ', '').replace('"', "'") for s in srcs)

    def f(n):
        try:
            return ast.unparse(n).replace(' ', '').replace('"', "'") in want
        except Exception:
            return False
    return f


def returned_calls(stmts):
    """Calls appearing as `return <Call>` at the top of a branch body (not nested defs)."""
    out = []
    for st in stmts:
        for n in [st] + list(walk_no_nested(st)):
            if isinstance(n, ast.Return) and isinstance(n.value, ast.Call):
                out.append(n.value)
    return out


def callee_name(call):
    f = call.func
    if isinstance(f, ast.Name):
        return f.id
    if isinstance(f, ast.Attribute):
        if isinstance(f.value, ast.Name) and f.value.id in ('self', 'cls'):
            return 'self.' + f.attr
        return f.attr
    return None


def field_reads(node, container_names=None):
    """Constant-string subscripts / attribute loads read in a subtree: set of field names."""
    out = set()
    for n in ast.walk(node):
        if isinstance(n, ast.Subscript) and isinstance(n.slice, ast.Constant) and isinstance(n.slice.value, str):
            if container_names is None or (isinstance(n.value, ast.Name) and n.value.id in container_names):
                out.add(n.slice.value)
        elif isinstance(n, ast.Attribute) and container_names and isinstance(n.value, ast.Name) and \
                n.value.id in container_names:
            out.add(n.attr)
    return out
