"""Engine F (structured part): enumeration of the acyclic paths of a function body.

A path is a list of events:
  ('cond', test_ast, polarity)   branch taken
  ('stmt', stmt_ast)             simple statement executed
  ('loop', node, 'enter'|'skip') loop body entered once / skipped
and ends in ('return', expr|None) | ('raise', exc_ast) | ('fall',) | ('break',) | ('continue',).
Loops are unrolled once (enter) or skipped; that is enough for the dominance-style facts the rules
ask (a check precedes a use on every path; which returns exist under which conditions).
"""
import ast
from .report import AnalysisError

MAX_PATHS = 20000


class Path(object):
    __slots__ = ('events', 'end')

    def __init__(self, events, end):
        self.events = events
        self.end = end

    def conds(self, asserts=True):
        """branch outcomes of the path; with asserts=False the conditions that only `assert` statements put there are left out
        (an assertion states a belief about the values, it does not decide between outcomes)"""
        return [(e[1], e[2]) for e in self.events if e[0] == 'cond' and (asserts or len(e) < 4 or e[3] != 'assert')]

    def stmts(self):
        return [e[1] for e in self.events if e[0] == 'stmt']


RAISING_HELPERS = ('elf_assert', 'dwarf_assert', '_assert_with_exception')


def _is_assert_false(st):
    """elf_assert(False, ...) / dwarf_assert(False, ...) / assert False"""
    if isinstance(st, ast.Expr) and isinstance(st.value, ast.Call) and isinstance(st.value.func, ast.Name) and \
            st.value.func.id in RAISING_HELPERS and st.value.args:
        a = st.value.args[0]
        return isinstance(a, ast.Constant) and a.value is False
    if isinstance(st, ast.Assert):
        return isinstance(st.test, ast.Constant) and st.test.value is False
    return False


def _outcome(test, pol):
    """branch outcome as condition events: a conjunction taken (or a disjunction refused) is each of its parts taken (refused),
    so `if a and b:` and `if a: if b:` give the same facts on the path into the body"""
    if isinstance(test, ast.BoolOp) and ((isinstance(test.op, ast.And) and pol) or (isinstance(test.op, ast.Or) and not pol)):
        out = []
        for v in test.values:
            out += _outcome(v, pol)
        return out
    if isinstance(test, ast.UnaryOp) and isinstance(test.op, ast.Not):
        return _outcome(test.operand, not pol)
    return [('cond', test, pol)]


def enum_paths(stmts, limit=MAX_PATHS):
    """All paths through a statement list."""
    res = []
    _walk(list(stmts), [], res, limit)
    return res


def func_paths(func, limit=MAX_PATHS):
    return enum_paths(func.body, limit)


def _walk(stmts, prefix, res, limit, k=None):
    """k: continuation -- list of statement lists to run after `stmts` falls through."""
    if len(res) > limit:
        raise AnalysisError('F-PATHS', '?', 'path budget exceeded')
    k = k or []
    if not stmts:
        if k:
            return _walk(list(k[0]), prefix, res, limit, k[1:])
        res.append(Path(prefix, ('fall',)))
        return
    st = stmts[0]
    rest = stmts[1:]
    if isinstance(st, ast.Return):
        res.append(Path(prefix + [('stmt', st)], ('return', st.value)))
    elif isinstance(st, ast.Raise):
        res.append(Path(prefix + [('stmt', st)], ('raise', st.exc)))
    elif _is_assert_false(st):
        res.append(Path(prefix + [('stmt', st)], ('raise', st)))
    elif isinstance(st, ast.Break):
        res.append(Path(prefix, ('break',)))
    elif isinstance(st, ast.Continue):
        res.append(Path(prefix, ('continue',)))
    elif isinstance(st, ast.If):
        _walk(list(st.body), prefix + _outcome(st.test, True), res, limit, [rest] + k)
        _walk(list(st.orelse), prefix + _outcome(st.test, False), res, limit, [rest] + k)
    elif isinstance(st, (ast.For, ast.While)):
        # skip the loop
        skipev = prefix + [('loop', st, 'skip')]
        if isinstance(st, ast.While) and isinstance(st.test, ast.Constant) and st.test.value is True:
            pass  # `while True` cannot be skipped
        else:
            _walk(list(st.orelse), skipev, res, limit, [rest] + k)
        # enter once: body paths; break/fall/continue continue after the loop
        sub = []
        ev = [('loop', st, 'enter')]
        if isinstance(st, ast.While):
            ev.append(('cond', st.test, True))
        _walk(list(st.body), [], sub, limit)
        for p in sub:
            if p.end[0] in ('fall', 'continue', 'break'):
                _walk(list(rest), prefix + ev + p.events + [('loopend', st, p.end[0])], res, limit, k)
            else:
                res.append(Path(prefix + ev + p.events, p.end))
    elif isinstance(st, ast.Try):
        # normal path through body (+else, finally); handler paths start from the try entry
        _walk(list(st.body) + list(st.orelse) + list(st.finalbody), prefix, res, limit, [rest] + k)
        for h in st.handlers:
            _walk(list(h.body) + list(st.finalbody), prefix + [('except', h)], res, limit, [rest] + k)
    elif isinstance(st, ast.With):
        _walk(list(st.body), prefix + [('stmt', st)], res, limit, [rest] + k)
    elif isinstance(st, ast.Assert):
        _walk(rest, prefix + [e + ('assert',) for e in _outcome(st.test, True)], res, limit, k)
        res.append(Path(prefix + [e + ('assert',) for e in _outcome(st.test, False)], ('raise', st)))
    elif isinstance(st, ast.Expr) and isinstance(st.value, ast.Call) and isinstance(st.value.func, ast.Name) and \
            st.value.func.id in ('elf_assert', 'dwarf_assert') and st.value.args:
        # modelled as: if not cond: raise
        _walk(rest, prefix + [('cond', st.value.args[0], True), ('stmt', st)], res, limit, k)
        res.append(Path(prefix + [('cond', st.value.args[0], False), ('stmt', st)], ('raise', st)))
    else:
        _walk(rest, prefix + [('stmt', st)], res, limit, k)


def returns_with_conds(func, asserts=True):
    """[(conds, return_expr)] for every returning path."""
    out = []

    def emit(conds, e, p):
        # `return a if c else b` is the two returning paths of `if c: return a / else: return b`
        if isinstance(e, ast.IfExp):
            emit(conds + [(t, pol) for _, t, pol in _outcome(e.test, True)], e.body, p)
            emit(conds + [(t, pol) for _, t, pol in _outcome(e.test, False)], e.orelse, p)
            return
        # a conditional expression inside a call-free return expression (`return T[a if c else b]`) decides the same two rows
        inner = [x for x in ast.walk(e) if isinstance(x, ast.IfExp)] if e is not None else []
        if len(inner) == 1 and not any(isinstance(x, (ast.Call, ast.NamedExpr, ast.Yield, ast.Await)) for x in ast.walk(e)):
            import copy as _copy

            class R(ast.NodeTransformer):
                def __init__(s, arm):
                    s.arm = arm

                def visit_IfExp(s, n):
                    return n.body if s.arm else n.orelse
            t = inner[0].test
            a = ast.fix_missing_locations(R(True).visit(_copy.deepcopy(e)))
            b = ast.fix_missing_locations(R(False).visit(_copy.deepcopy(e)))
            emit(conds + [(c, pol) for _, c, pol in _outcome(t, True)], a, p)
            emit(conds + [(c, pol) for _, c, pol in _outcome(t, False)], b, p)
            return
        out.append((conds, e, p))
    for p in func_paths(func):
        if p.end[0] == 'return':
            emit(list(p.conds(asserts)), p.end[1], p)
    return out


def contains_node(tree, node):
    for n in ast.walk(tree):
        if n is node:
            return True
    return False


def paths_reaching(func, target):
    """Paths (truncated at the statement containing `target`) that reach the target node."""
    out = []
    for p in func_paths(func):
        for i, ev in enumerate(p.events):
            hit = False
            if ev[0] == 'stmt':
                if isinstance(ev[1], ast.With):
                    hit = any(contains_node(it.context_expr, target) for it in ev[1].items)   # the body is walked separately
                else:
                    hit = contains_node(ev[1], target)
            elif ev[0] == 'cond':
                hit = contains_node(ev[1], target)
            if hit:
                out.append(Path(p.events[:i], ('at', target)))
                break
        else:
            if p.end[0] in ('return', 'raise') and p.end[1] is not None and contains_node(p.end[1], target):
                out.append(Path(p.events, ('at', target)))
    return out
