"""Rule G-OWNER: size-dependent decoding facts are read from the unit that owns the data.

The normal forms of engine E drop receivers (`cu.header.address_size` and `self.structs.address_size` both read
`address_size`), so a wrong-owner slip -- the container's default address size / offset size / byte order used where the
unit's own is required -- is invisible to the formula rules.  This rule looks at the receiver chain instead:

  in a DWARF-layer function that has a unit in scope (parameter cu/CU/tu, or self.cu / die.cu), every read of an OWNED
  attribute must be rooted at the unit (cu.*, self.cu.*, ...) or at a structs object handed in as a parameter; a chain rooted
  at the object's own section-level structs (self.structs, self.dwarfinfo.structs, self.config, ...) is reported, unless
  the (function, attribute) pair is in the exception table with its reason.

A single-assignment local alias of a chain root is followed (structs = cu.structs)."""
import ast
from .model import walk_no_nested

OWNED = ('address_size', 'dwarf_format', 'the_Dwarf_target_addr', 'the_Dwarf_offset', 'initial_length_field_size', 'little_endian',
         'dwarf_version', 'the_Dwarf_initial_length')
UNIT_NAMES = ('cu', 'CU', 'tu', 'TU', 'unit')
UNIT_CLASSES = ('CompileUnit', 'TypeUnit')
CONTAINER_ROOTS = ('self.structs', 'self._structs', 'self.dwarfinfo.structs', 'self.config', 'self.base_structs', 'self.dwarfinfo.config',
                   'dwarfinfo.structs', 'dwarfinfo.config')

# (construct, attribute) -> reason: reads of section-level structs that are right although a unit is in scope
EXC_OWNER = {
    ('dwarf/ranges.py:RangeLists._parse_range_list_from_stream', 'the_Dwarf_target_addr'):
        'DWARF v4 .debug_ranges pairs are read with the section-level address size (the optional cu only resolves indexed forms); '
        'upstream limitation, same on every path, recorded in DESIGN.md §8.6',
}


def _root_text(node, aliases, depth=0):
    """unparsed receiver chain with a single-assignment local alias at its root replaced by its definition"""
    n = node
    while isinstance(n, (ast.Attribute, ast.Subscript)):
        n = n.value
    if isinstance(n, ast.Call):
        return ast.unparse(node)
    if isinstance(n, ast.Name) and n.id in aliases and depth < 4:
        full = ast.unparse(node)
        base = _root_text(aliases[n.id], aliases, depth + 1)
        return base + full[len(n.id):]
    return ast.unparse(node)


def scan(func):
    """[(attr, chain_text, owner_class, lineno)] for the OWNED reads of a function; owner_class in unit/container/param/other"""
    fn = func.node
    params = [a.arg for a in fn.args.args + fn.args.kwonlyargs]
    single = {}
    counts = {}
    for st in ast.walk(fn):
        if isinstance(st, ast.Assign) and len(st.targets) == 1 and isinstance(st.targets[0], ast.Name):
            counts[st.targets[0].id] = counts.get(st.targets[0].id, 0) + 1
            single[st.targets[0].id] = st.value
        elif isinstance(st, (ast.For, ast.comprehension)) and isinstance(st.target, ast.Name):
            counts[st.target.id] = counts.get(st.target.id, 0) + 2
    aliases = dict((k, v) for k, v in single.items() if counts.get(k) == 1 and isinstance(v, (ast.Attribute, ast.Name)))
    in_unit_class = func.cls is not None and (func.cls.name in UNIT_CLASSES or any(func.cls.is_subclass_of(c) for c in UNIT_CLASSES))
    out = []
    for n in ast.walk(fn):
        if isinstance(n, ast.Attribute) and n.attr in OWNED and isinstance(n.ctx, ast.Load):
            chain = _root_text(n.value, aliases)
            root = chain.split('.')[0]
            if any(chain == r or chain.startswith(r + '.') for r in CONTAINER_ROOTS):
                cls = 'unit' if in_unit_class and chain.startswith('self.structs') else 'container'
            elif root in UNIT_NAMES or chain.startswith('self.cu') or '.cu.' in chain or chain.endswith('.cu') or root in ('die', 'DIE') or \
                    (in_unit_class and root == 'self'):
                cls = 'unit'
            elif root in params:
                cls = 'param'
            else:
                cls = 'other'
            out.append((n.attr, chain, cls, n.lineno))
    return out


def has_unit_in_scope(func):
    fn = func.node
    params = [a.arg for a in fn.args.args + fn.args.kwonlyargs]
    if any(p in UNIT_NAMES for p in params):
        return True
    for n in ast.walk(fn):
        if isinstance(n, ast.Attribute) and n.attr == 'cu' and isinstance(n.value, ast.Name) and n.value.id in ('self', 'die'):
            return True
        if isinstance(n, ast.Name) and isinstance(n.ctx, ast.Store) and n.id in UNIT_NAMES:
            return True
    return False


def header_locals(func):
    """locals bound to a header parsed in this function: name = struct_parse(<...header...>, ...)"""
    out = set()
    for st in ast.walk(func.node):
        if isinstance(st, ast.Assign) and len(st.targets) == 1 and isinstance(st.targets[0], ast.Name) and isinstance(st.value, ast.Call) and \
                isinstance(st.value.func, ast.Name) and st.value.func.id == 'struct_parse' and st.value.args and 'header' in ast.unparse(st.value.args[0]).lower():
            out.add(st.targets[0].id)
    return out


def gowner_headers(ctx, world, mods):
    """G-OWNER for table walks that parse one header per set (address-range sets, name lookup sets): the address size that sizes
    and aligns the set's tuples is the one in the *set's own header*; the section-level structs only know the file's default."""
    n = 0
    for f in world.model.library_funcs():
        rel = f.mod.replace('elftools/', '')
        if rel not in mods:
            continue
        hs = header_locals(f)
        if not hs:
            continue
        for x in ast.walk(f.node):
            chain = None
            if isinstance(x, ast.Subscript) and isinstance(x.slice, ast.Constant) and x.slice.value == 'address_size' and isinstance(x.ctx, ast.Load):
                chain = ast.unparse(x.value)
            elif isinstance(x, ast.Attribute) and x.attr == 'address_size' and isinstance(x.ctx, ast.Load):
                chain = ast.unparse(x.value)
            if chain is None:
                continue
            n += 1
            root = chain.split('.')[0].split('[')[0]
            ok = root in hs
            ctx.ob('G-OWNER', f.construct, 'address_size read through %s' % chain, ok, got=chain, line=x.lineno,
                   msg='the tuple size / padding of a set is computed from the section-level default address size instead of the address '
                       'size in the set\'s own header: a set of the other address size is misaligned and loses tuples',
                   sample='%s: %s.address_size (the set header)' % (f.construct, chain))
    return n


def gowner(ctx, world, mods, only=None):
    """Arm G-OWNER over the functions of `mods` (relative module names) that have a unit in scope."""
    n = 0
    for f in world.model.library_funcs():
        rel = f.mod.replace('elftools/', '')
        if rel not in mods:
            continue
        if only is not None and not any(f.qual.startswith(o) for o in only):
            continue
        if f.cls is not None and f.cls.name in UNIT_CLASSES:
            continue
        if not has_unit_in_scope(f):
            continue
        for attr, chain, cls, line in scan(f):
            n += 1
            exc = EXC_OWNER.get((f.construct, attr))
            ok = cls in ('unit', 'param', 'other') or exc is not None
            ctx.ob('G-OWNER', f.construct, '%s read through %s' % (attr, chain), ok, got=cls, line=line,
                   msg='a size-dependent decoding fact is taken from the section-level default structs although a unit is in scope: '
                       'a unit whose address size / offset size differs from the container default is decoded with the wrong width or stride',
                   sample='%s: %s.%s (%s)' % (f.construct, chain, attr, cls if exc is None else 'exception: ' + exc[:60]))
    return n
