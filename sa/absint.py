"""Engines B and D core: a small abstract interpreter for the *declarative* parts of the
repository -- module-level constant tables and the struct-building methods.

It is the analyser's own evaluator over abstract values; no repository code is imported
or run.  Configuration variables are concrete; construct constructors become `Node`
values (the layout IR is derived from them in layout.py); anything not modelled evaluates
to `Unknown`, and a rule that needs an Unknown value ends as ANALYSIS-ERROR.
"""
import ast
from .report import AnalysisError
from .model import walk_no_nested


class Unknown(object):
    def __init__(self, why=''):
        self.why = why

    def __repr__(self):
        return 'Unknown(%s)' % self.why


class Sym(object):
    """An opaque imported symbol (e.g. construct.Pass, os.SEEK_CUR)."""

    def __init__(self, name):
        self.name = name

    def __repr__(self):
        return 'Sym(%s)' % self.name

    def __eq__(self, o):
        return isinstance(o, Sym) and o.name == self.name

    def __hash__(self):
        return hash(('Sym', self.name))


class Node(object):
    """Result of calling a construct constructor: kind + evaluated arguments."""

    def __init__(self, kind, args, kwargs, site=None):
        self.kind = kind
        self.args = args
        self.kwargs = kwargs
        self.site = site     # (mod, lineno)

    def __repr__(self):
        return 'Node(%s,%r,%r)' % (self.kind, self.args, self.kwargs)


class Ctor(object):
    """A construct constructor as a first-class value (ULInt8, CString, ...)."""

    def __init__(self, kind):
        self.kind = kind

    def __repr__(self):
        return 'Ctor(%s)' % self.kind

    def __eq__(self, o):
        return isinstance(o, Ctor) and o.kind == self.kind

    def __hash__(self):
        return hash(('Ctor', self.kind))


class Obj(object):
    def __init__(self, cls):
        self.cls = cls        # ClassV
        self.attrs = {}

    def __repr__(self):
        return 'Obj(%s)' % (self.cls.ci.name if self.cls else '?')


class ClassV(object):
    def __init__(self, ci, interp):
        self.ci = ci
        self.attrs = {}
        self._done = False

    def __repr__(self):
        return 'ClassV(%s)' % self.ci.name


class FuncV(object):
    def __init__(self, node, env, mod, self_obj=None, name=None, clsv=None):
        self.node = node      # FunctionDef or Lambda
        self.env = env
        self.mod = mod
        self.self_obj = self_obj
        self.name = name or getattr(node, 'name', '<lambda>')
        self.clsv = clsv

    def __repr__(self):
        return 'FuncV(%s)' % self.name


class BoundBuiltin(object):
    def __init__(self, recv, name):
        self.recv = recv
        self.name = name

    def __eq__(self, o):
        return isinstance(o, BoundBuiltin) and self.recv is None and o.recv is None and self.name == o.name

    def __hash__(self):
        return hash(('BB', self.name))


class Env(object):
    def __init__(self, parent=None, mod=None):
        self.vars = {}
        self.parent = parent
        self.mod = mod if mod is not None else (parent.mod if parent else None)

    def lookup(self, name):
        e = self
        while e is not None:
            if name in e.vars:
                return e.vars[name]
            e = e.parent
        raise KeyError(name)

    def has(self, name):
        try:
            self.lookup(name)
            return True
        except KeyError:
            return False


class _Return(Exception):
    def __init__(self, v):
        self.v = v


class _Break(Exception):
    pass


class _Continue(Exception):
    pass


class _Raise(Exception):
    def __init__(self, what):
        self.what = what


CONSTRUCT_MODS = ('elftools/construct/', 'elftools/common/construct_utils.py')
# helpers of the repository that are pure functions over ints: evaluated by inlining
PURE_HELPER_MODS = ('elftools/common/utils.py',)

MAX_DEPTH = 40


class Interp(object):
    def __init__(self, model):
        self.model = model
        self.mod_envs = {}
        self.class_vals = {}
        self.depth = 0
        self.steps = 0
        self._loading = set()
        self.mod_errors = {}

    # -- modules -----------------------------------------------------------------
    def module_env(self, mod):
        mod = self.model.relpath(mod)
        if mod in self.mod_envs:
            return self.mod_envs[mod]
        env = Env(mod=mod)
        self.mod_envs[mod] = env
        if mod in self._loading:
            return env
        self._loading.add(mod)
        tree = self.model.trees[mod]
        for st in tree.body:
            try:
                self.exec_stmt(st, env)
            except (_Return, _Break, _Continue, _Raise):
                pass
            except AnalysisError as e:
                # the names this statement binds become Unknown; a rule that needs them fails closed
                self.mod_errors.setdefault(mod, []).append(e)
                for n in ast.walk(st):
                    if isinstance(n, ast.Name) and isinstance(n.ctx, ast.Store):
                        env.vars[n.id] = Unknown('statement failed: %s' % e.why)
        self._loading.discard(mod)
        return env

    def global_value(self, mod, name):
        env = self.module_env(mod)
        if name in env.vars:
            return env.vars[name]
        raise AnalysisError('B-EVAL', '%s:%s' % (mod, name), 'module-level name not found')

    # -- statements ---------------------------------------------------------------
    def exec_block(self, stmts, env):
        for st in stmts:
            self.exec_stmt(st, env)

    def exec_stmt(self, st, env):
        self.steps += 1
        if self.steps > 5000000:
            raise AnalysisError('B-EVAL', env.mod, 'step budget exceeded')
        if isinstance(st, ast.Assign):
            v = self.eval(st.value, env)
            for t in st.targets:
                self.assign(t, v, env)
        elif isinstance(st, ast.AnnAssign):
            if st.value is not None:
                self.assign(st.target, self.eval(st.value, env), env)
        elif isinstance(st, ast.AugAssign):
            cur = self.eval(_load(st.target), env)
            v = self.binop(st.op, cur, self.eval(st.value, env))
            self.assign(st.target, v, env)
        elif isinstance(st, ast.Expr):
            self.eval(st.value, env)
        elif isinstance(st, (ast.FunctionDef, ast.AsyncFunctionDef)):
            env.vars[st.name] = FuncV(st, env, env.mod)
        elif isinstance(st, ast.ClassDef):
            ci = None
            for c in self.model.classes.get(st.name, []):
                if c.node is st:
                    ci = c
            if ci is None:
                # local class (e.g. FormattedEntry inside a method)
                from .model import ClassInfo
                ci = ClassInfo(env.mod, st.name, st)
                ci.base_names = [self.model._name_of(b) for b in st.bases]
                for bn in ci.base_names:
                    b = self.model.resolve_class(env.mod, bn) if bn else None
                    if b:
                        ci.bases.append(b)
            env.vars[st.name] = self.class_value(ci, env)
        elif isinstance(st, ast.Return):
            raise _Return(self.eval(st.value, env) if st.value is not None else None)
        elif isinstance(st, ast.If):
            t = self.truth(self.eval(st.test, env))
            if t is None:
                raise AnalysisError('B-EVAL', '%s:%d' % (env.mod, st.lineno),
                                    'branch on a value the evaluator does not know: %s' % ast.unparse(st.test))
            self.exec_block(st.body if t else st.orelse, env)
        elif isinstance(st, ast.For):
            it = self.eval(st.iter, env)
            seq = self.iterate(it)
            if seq is None:
                raise AnalysisError('B-EVAL', '%s:%d' % (env.mod, st.lineno),
                                    'loop over unknown iterable: %s' % ast.unparse(st.iter))
            broke = False
            for x in seq:
                self.assign(st.target, x, env)
                try:
                    self.exec_block(st.body, env)
                except _Break:
                    broke = True
                    break
                except _Continue:
                    continue
            if not broke:
                self.exec_block(st.orelse, env)
        elif isinstance(st, ast.While):
            n = 0
            while True:
                t = self.truth(self.eval(st.test, env))
                if t is None:
                    raise AnalysisError('B-EVAL', '%s:%d' % (env.mod, st.lineno), 'while on unknown condition')
                if not t:
                    break
                n += 1
                if n > 100000:
                    raise AnalysisError('B-EVAL', '%s:%d' % (env.mod, st.lineno), 'loop bound exceeded')
                try:
                    self.exec_block(st.body, env)
                except _Break:
                    break
                except _Continue:
                    continue
        elif isinstance(st, (ast.Import, ast.ImportFrom)):
            self.exec_import(st, env)
        elif isinstance(st, ast.Pass):
            pass
        elif isinstance(st, ast.Assert):
            t = self.truth(self.eval(st.test, env))
            if t is False:
                raise _Raise('AssertionError')
        elif isinstance(st, ast.Raise):
            raise _Raise(ast.unparse(st.exc) if st.exc else 'reraise')
        elif isinstance(st, ast.Break):
            raise _Break()
        elif isinstance(st, ast.Continue):
            raise _Continue()
        elif isinstance(st, ast.Try):
            try:
                self.exec_block(st.body, env)
            except _Raise:
                for h in st.handlers:
                    self.exec_block(h.body, env)
                    break
            else:
                self.exec_block(st.orelse, env)
            self.exec_block(st.finalbody, env)
        elif isinstance(st, ast.With):
            for item in st.items:
                v = self.eval(item.context_expr, env)
                if item.optional_vars is not None:
                    self.assign(item.optional_vars, v, env)
            self.exec_block(st.body, env)
        elif isinstance(st, (ast.Global, ast.Nonlocal)):
            pass
        elif isinstance(st, ast.Delete):
            pass
        else:
            raise AnalysisError('B-EVAL', '%s:%d' % (env.mod, getattr(st, 'lineno', 0)),
                                'statement kind not modelled: %s' % type(st).__name__)

    def exec_import(self, st, env):
        if isinstance(st, ast.ImportFrom):
            target = self.model._resolve_import(env.mod, st.module, st.level)
            for a in st.names:
                if a.name == '*':
                    if target in self.model.sources and not target.startswith('elftools/construct/'):
                        src = self.module_env(target)
                        for k, v in src.vars.items():
                            if not k.startswith('_'):
                                env.vars[k] = v
                    continue
                nm = a.asname or a.name
                env.vars[nm] = self.import_symbol(target, a.name)
        else:
            for a in st.names:
                env.vars[a.asname or a.name.split('.')[0]] = Sym('module:' + a.name)

    def import_symbol(self, target, name):
        if target in self.model.sources:
            if target.startswith(CONSTRUCT_MODS[0]) or target == CONSTRUCT_MODS[1]:
                return self.construct_symbol(target, name)
            src = self.module_env(target)
            if name in src.vars:
                return src.vars[name]
            # submodule import: from . import x
            return Sym('%s.%s' % (target, name))
        return Sym('%s.%s' % (target, name))

    def construct_symbol(self, target, name):
        # classes deriving from Construct/Adapter and the macro functions become constructors
        return Ctor(name)

    # -- classes -------------------------------------------------------------------
    def class_value(self, ci, env=None):
        key = id(ci.node)
        if key in self.class_vals:
            return self.class_vals[key]
        cv = ClassV(ci, self)
        self.class_vals[key] = cv
        cenv = Env(parent=env if env is not None else self.module_env(ci.mod), mod=ci.mod)
        for st in ci.node.body:
            if isinstance(st, (ast.FunctionDef, ast.AsyncFunctionDef)):
                cv.attrs[st.name] = FuncV(st, cenv.parent, ci.mod, clsv=cv)
                cenv.vars[st.name] = cv.attrs[st.name]     # visible to later class-body statements
            elif isinstance(st, ast.Expr) and isinstance(st.value, ast.Constant):
                continue
            else:
                try:
                    self.exec_stmt(st, cenv)
                except (_Raise, _Return):
                    pass
        for k, v in cenv.vars.items():
            if k not in cv.attrs:
                cv.attrs[k] = v
        return cv

    def class_lookup(self, cv, name):
        for c in cv.ci.mro():
            v = self.class_value(c)
            if name in v.attrs:
                return v.attrs[name]
        raise KeyError(name)

    def is_construct_class(self, ci):
        return any(c.mod.startswith('elftools/construct/') or c.name in ('Construct', 'Adapter', 'Subconstruct')
                   for c in ci.mro()) or any(b in ('Construct', 'Adapter', 'Subconstruct') for b in ci.base_names)

    def instantiate(self, cv, args, kwargs, site):
        if self.is_construct_class(cv.ci):
            return Node(cv.ci.name, args, kwargs, site)
        try:
            new = self.class_lookup(cv, '__new__')
        except KeyError:
            new = None
        if isinstance(new, FuncV):
            return self.call_func(new, [cv] + list(args), kwargs, site)
        obj = Obj(cv)
        try:
            init = self.class_lookup(cv, '__init__')
        except KeyError:
            init = None
        if isinstance(init, FuncV):
            self.call_func(init, [obj] + list(args), kwargs, site)
        return obj

    # -- assignment ----------------------------------------------------------------
    def assign(self, t, v, env):
        if isinstance(t, ast.Name):
            env.vars[t.id] = v
        elif isinstance(t, (ast.Tuple, ast.List)):
            seq = self.iterate(v)
            if seq is None:
                for e in t.elts:
                    self.assign(e.value if isinstance(e, ast.Starred) else e, Unknown('unpack'), env)
                return
            seq = list(seq)
            star = [i for i, e in enumerate(t.elts) if isinstance(e, ast.Starred)]
            if star:
                i = star[0]
                after = len(t.elts) - i - 1
                for e, x in zip(t.elts[:i], seq[:i]):
                    self.assign(e, x, env)
                self.assign(t.elts[i].value, seq[i:len(seq) - after], env)
                for e, x in zip(t.elts[i + 1:], seq[len(seq) - after:]):
                    self.assign(e, x, env)
            else:
                for e, x in zip(t.elts, seq):
                    self.assign(e, x, env)
        elif isinstance(t, ast.Attribute):
            o = self.eval(t.value, env)
            if isinstance(o, (Obj, ClassV)):
                o.attrs[t.attr] = v
        elif isinstance(t, ast.Subscript):
            o = self.eval(t.value, env)
            k = self.eval(t.slice, env)
            if isinstance(o, dict) and _hashable(k):
                o[k] = v
            elif isinstance(o, list) and isinstance(k, int):
                try:
                    o[k] = v
                except IndexError:
                    pass
        elif isinstance(t, ast.Starred):
            self.assign(t.value, v, env)

    # -- expressions ---------------------------------------------------------------
    def truth(self, v):
        if isinstance(v, Unknown):
            return None
        if isinstance(v, (Node, Obj, ClassV, FuncV, Ctor, Sym)):
            return True
        try:
            return bool(v)
        except Exception:
            return None

    def iterate(self, v):
        if isinstance(v, (list, tuple, set, frozenset, range, str, bytes)):
            return list(v)
        if isinstance(v, dict):
            return list(v.keys())
        return None

    def eval(self, e, env):
        m = getattr(self, 'e_' + type(e).__name__, None)
        if m is None:
            return Unknown('expr %s' % type(e).__name__)
        return m(e, env)

    def e_Constant(self, e, env):
        return e.value

    def e_Name(self, e, env):
        try:
            return env.lookup(e.id)
        except KeyError:
            pass
        if e.id in BUILTINS:
            return BoundBuiltin(None, e.id)
        if e.id in ('True', 'False', 'None'):
            return {'True': True, 'False': False, 'None': None}[e.id]
        return Unknown('name %s' % e.id)

    def e_Tuple(self, e, env):
        return tuple(self.eval_elts(e.elts, env))

    def e_List(self, e, env):
        return list(self.eval_elts(e.elts, env))

    def e_Set(self, e, env):
        out = set()
        for x in self.eval_elts(e.elts, env):
            if _hashable(x):
                out.add(x)
        return out

    def eval_elts(self, elts, env):
        out = []
        for x in elts:
            if isinstance(x, ast.Starred):
                v = self.eval(x.value, env)
                seq = self.iterate(v)
                if seq is None:
                    out.append(Unknown('starred'))
                else:
                    out.extend(seq)
            else:
                out.append(self.eval(x, env))
        return out

    def e_Dict(self, e, env):
        d = {}
        for k, v in zip(e.keys, e.values):
            if k is None:
                vv = self.eval(v, env)
                if isinstance(vv, dict):
                    d.update(vv)
                else:
                    d[Unknown('**')] = vv
            else:
                kk = self.eval(k, env)
                if _hashable(kk):
                    d[kk] = self.eval(v, env)
        return d

    def e_JoinedStr(self, e, env):
        out = []
        for v in e.values:
            if isinstance(v, ast.Constant):
                out.append(str(v.value))
            else:
                x = self.eval(v.value, env)
                if isinstance(x, (int, str)) and v.format_spec is None:
                    out.append(str(x))
                else:
                    return Unknown('fstring')
        return ''.join(out)

    def e_UnaryOp(self, e, env):
        v = self.eval(e.operand, env)
        if isinstance(e.op, ast.Not):
            t = self.truth(v)
            return Unknown('not') if t is None else (not t)
        if isinstance(v, (int, float)) and not isinstance(v, bool) or isinstance(v, bool):
            if isinstance(e.op, ast.USub):
                return -v
            if isinstance(e.op, ast.UAdd):
                return +v
            if isinstance(e.op, ast.Invert):
                return ~v
        return Unknown('unary')

    def e_BinOp(self, e, env):
        return self.binop(e.op, self.eval(e.left, env), self.eval(e.right, env))

    def binop(self, op, a, b):
        if isinstance(a, Unknown) or isinstance(b, Unknown):
            return Unknown('binop')
        try:
            if isinstance(op, ast.Add):
                if isinstance(a, (list, tuple, str, bytes, int, float)) and type(a) == type(b) or \
                        (isinstance(a, (int, float)) and isinstance(b, (int, float))):
                    return a + b
            elif isinstance(op, ast.Sub):
                if isinstance(a, (int, float, set)) and isinstance(b, (int, float, set)):
                    return a - b
            elif isinstance(op, ast.Mult):
                if isinstance(a, (int, float, str, list, tuple)) and isinstance(b, (int, float)) or \
                        isinstance(b, (str, list, tuple)) and isinstance(a, int):
                    return a * b
            elif isinstance(op, ast.FloorDiv):
                return a // b
            elif isinstance(op, ast.Div):
                return a / b
            elif isinstance(op, ast.Mod):
                if isinstance(a, str):
                    if isinstance(b, tuple):
                        if any(not isinstance(x, (int, str, float)) for x in b):
                            return Unknown('%')
                    elif not isinstance(b, (int, str, float)):
                        return Unknown('%')
                    return a % b
                return a % b
            elif isinstance(op, ast.Pow):
                if isinstance(a, int) and isinstance(b, int) and abs(b) < 200:
                    return a ** b
            elif isinstance(op, ast.LShift):
                if isinstance(b, int) and b < 200:
                    return a << b
            elif isinstance(op, ast.RShift):
                return a >> b
            elif isinstance(op, ast.BitOr):
                if isinstance(a, dict) and isinstance(b, dict):
                    d = dict(a)
                    d.update(b)
                    return d
                return a | b
            elif isinstance(op, ast.BitAnd):
                return a & b
            elif isinstance(op, ast.BitXor):
                return a ^ b
        except Exception:
            return Unknown('binop error')
        return Unknown('binop')

    def e_BoolOp(self, e, env):
        last = None
        for v in e.values:
            last = self.eval(v, env)
            t = self.truth(last)
            if t is None:
                return Unknown('boolop')
            if isinstance(e.op, ast.And) and not t:
                return last
            if isinstance(e.op, ast.Or) and t:
                return last
        return last

    def e_Compare(self, e, env):
        left = self.eval(e.left, env)
        for op, r in zip(e.ops, e.comparators):
            right = self.eval(r, env)
            res = self.compare(op, left, right)
            if isinstance(res, Unknown):
                return res
            if not res:
                return False
            left = right
        return True

    def compare(self, op, a, b):
        if isinstance(a, Unknown) or isinstance(b, Unknown):
            return Unknown('compare')
        try:
            if isinstance(op, ast.Eq):
                return _eq(a, b)
            if isinstance(op, ast.NotEq):
                return not _eq(a, b)
            if isinstance(op, (ast.Is, ast.IsNot)) and isinstance(a, BoundBuiltin) and isinstance(b, BoundBuiltin):
                return (a == b) == isinstance(op, ast.Is)
            if isinstance(op, ast.Is):
                return a is b or (a is None and b is None) or (type(a) in (bool, int, str) and _eq(a, b))
            if isinstance(op, ast.IsNot):
                return not (a is b or (type(a) in (bool, int, str) and _eq(a, b)))
            if isinstance(op, ast.In) and type(b).__name__ == 'CtxV':
                return a in b.d
            if isinstance(op, ast.In):
                if isinstance(b, (dict, set, frozenset, list, tuple, str, bytes, range)):
                    return a in b if _hashable(a) or isinstance(b, (list, tuple)) else False
                return Unknown('in')
            if isinstance(op, ast.NotIn):
                if isinstance(b, (dict, set, frozenset, list, tuple, str, bytes, range)):
                    return a not in b
                return Unknown('in')
            if isinstance(op, ast.Lt):
                return a < b
            if isinstance(op, ast.LtE):
                return a <= b
            if isinstance(op, ast.Gt):
                return a > b
            if isinstance(op, ast.GtE):
                return a >= b
        except Exception:
            return Unknown('compare error')
        return Unknown('compare')

    def e_IfExp(self, e, env):
        t = self.truth(self.eval(e.test, env))
        if t is None:
            return Unknown('ifexp on unknown: %s' % ast.unparse(e.test))
        return self.eval(e.body if t else e.orelse, env)

    def e_Lambda(self, e, env):
        return FuncV(e, env, env.mod)

    def e_Attribute(self, e, env):
        o = self.eval(e.value, env)
        return self.getattr(o, e.attr)

    def getattr(self, o, name):
        if type(o).__name__ == 'CtxV':
            return o.d[name] if name in o.d else Unknown('ctx field %s not in case' % name)
        if isinstance(o, Obj):
            if name in o.attrs:
                return o.attrs[name]
            try:
                v = self.class_lookup(o.cls, name)
            except KeyError:
                return Unknown('attr %s' % name)
            if isinstance(v, FuncV):
                return FuncV(v.node, v.env, v.mod, self_obj=o, name=v.name, clsv=v.clsv)
            return v
        if isinstance(o, ClassV):
            try:
                return self.class_lookup(o, name)
            except KeyError:
                return Unknown('class attr %s' % name)
        if isinstance(o, (dict, list, str, set, tuple, bytes)):
            return BoundBuiltin(o, name)
        if isinstance(o, Sym):
            return Sym(o.name + '.' + name)
        if isinstance(o, Node):
            return Unknown('node attr %s' % name)
        return Unknown('attr %s' % name)

    def e_Subscript(self, e, env):
        o = self.eval(e.value, env)
        if isinstance(e.slice, ast.Slice):
            lo = self.eval(e.slice.lower, env) if e.slice.lower else None
            hi = self.eval(e.slice.upper, env) if e.slice.upper else None
            st = self.eval(e.slice.step, env) if e.slice.step else None
            if isinstance(o, (list, tuple, str, bytes)) and all(x is None or isinstance(x, int) for x in (lo, hi, st)):
                return o[lo:hi:st]
            return Unknown('slice')
        k = self.eval(e.slice, env)
        if type(o).__name__ == 'CtxV':
            return o.d[k] if _hashable(k) and k in o.d else Unknown('ctx field %r not in case' % (k,))
        if isinstance(o, Unknown) or isinstance(k, Unknown):
            return Unknown('subscript')
        try:
            if isinstance(o, dict):
                if _hashable(k) and k in o:
                    return o[k]
                return Unknown('missing key %r' % (k,))
            if isinstance(o, (list, tuple, str, bytes)) and isinstance(k, int):
                return o[k]
        except Exception:
            pass
        return Unknown('subscript')

    def e_ListComp(self, e, env):
        return list(self.comp(e.generators, env, lambda en: self.eval(e.elt, en)))

    def e_GeneratorExp(self, e, env):
        return list(self.comp(e.generators, env, lambda en: self.eval(e.elt, en)))

    def e_SetComp(self, e, env):
        return set(x for x in self.comp(e.generators, env, lambda en: self.eval(e.elt, en)) if _hashable(x))

    def e_DictComp(self, e, env):
        d = {}
        for k, v in self.comp(e.generators, env, lambda en: (self.eval(e.key, en), self.eval(e.value, en))):
            if _hashable(k):
                d[k] = v
        return d

    def comp(self, gens, env, fn):
        out = []

        def rec(i, en):
            if i == len(gens):
                out.append(fn(en))
                return
            g = gens[i]
            seq = self.iterate(self.eval(g.iter, en))
            if seq is None:
                raise AnalysisError('B-EVAL', '%s:%d' % (env.mod, g.iter.lineno),
                                    'comprehension over unknown iterable: %s' % ast.unparse(g.iter))
            for x in seq:
                e2 = Env(parent=en)
                self.assign(g.target, x, e2)
                ok = True
                for c in g.ifs:
                    t = self.truth(self.eval(c, e2))
                    if t is None:
                        raise AnalysisError('B-EVAL', '%s:%d' % (env.mod, c.lineno), 'comprehension filter unknown')
                    if not t:
                        ok = False
                        break
                if ok:
                    rec(i + 1, e2)
        rec(0, env)
        return out

    def e_Starred(self, e, env):
        return self.eval(e.value, env)

    def e_NamedExpr(self, e, env):
        v = self.eval(e.value, env)
        self.assign(e.target, v, env)
        return v

    # -- calls ----------------------------------------------------------------------
    def e_Call(self, e, env):
        # super().__new__(cls) / super().__init__()
        if isinstance(e.func, ast.Attribute) and isinstance(e.func.value, ast.Call) and \
                isinstance(e.func.value.func, ast.Name) and e.func.value.func.id == 'super':
            if e.func.attr == '__new__':
                args = self.eval_elts(e.args, env)
                if args and isinstance(args[0], ClassV):
                    return Obj(args[0])
                return Unknown('super new')
            return None
        if isinstance(e.func, ast.Name) and e.func.id == 'globals' and not env.has('globals'):
            g = env
            while g.parent is not None:
                g = g.parent
            return dict(g.vars)
        f = self.eval(e.func, env)
        args = self.eval_elts(e.args, env)
        kwargs = {}
        for kw in e.keywords:
            if kw.arg is None:
                v = self.eval(kw.value, env)
                if isinstance(v, dict):
                    for k, x in v.items():
                        kwargs[k] = x
                else:
                    kwargs[Unknown('**kw')] = v
            else:
                kwargs[kw.arg] = self.eval(kw.value, env)
        site = (env.mod, e.lineno)
        return self.call(f, args, kwargs, site, e)

    def call(self, f, args, kwargs, site, e=None):
        if isinstance(f, Ctor):
            return Node(f.kind, args, kwargs, site)
        if isinstance(f, ClassV):
            return self.instantiate(f, args, kwargs, site)
        if isinstance(f, FuncV):
            return self.call_func(f, args, kwargs, site)
        if isinstance(f, BoundBuiltin):
            return self.call_builtin(f, args, kwargs)
        if isinstance(f, Sym) and f.name.endswith('namedtuple') and args and isinstance(args[0], str):
            return Ctor('nt:' + args[0])
        if isinstance(f, Node):
            # calling an un-named construct factory result, e.g. ULEB128 partially applied: not used
            return Unknown('call of node')
        return Unknown('call of %r' % (f,))

    def call_func(self, f, args, kwargs, site):
        self.depth += 1
        if self.depth > MAX_DEPTH:
            self.depth -= 1
            return Unknown('depth')
        try:
            env = Env(parent=f.env, mod=f.mod)
            node = f.node
            a = node.args
            params = [p.arg for p in a.posonlyargs + a.args]
            actual = list(args)
            if f.self_obj is not None:
                actual = [f.self_obj] + actual
            defaults = [None] * (len(params) - len(a.defaults)) + list(a.defaults)
            for i, p in enumerate(params):
                if i < len(actual):
                    env.vars[p] = actual[i]
                elif p in kwargs:
                    env.vars[p] = kwargs[p]
                elif defaults[i] is not None:
                    env.vars[p] = self.eval(defaults[i], f.env)
                else:
                    env.vars[p] = Unknown('missing arg %s' % p)
            if a.vararg:
                env.vars[a.vararg.arg] = tuple(actual[len(params):])
            for p, d in zip(a.kwonlyargs, a.kw_defaults):
                if p.arg in kwargs:
                    env.vars[p.arg] = kwargs[p.arg]
                elif d is not None:
                    env.vars[p.arg] = self.eval(d, f.env)
            if a.kwarg:
                env.vars[a.kwarg.arg] = dict((k, v) for k, v in kwargs.items() if k not in params)
            if isinstance(node, ast.Lambda):
                return self.eval(node.body, env)
            try:
                self.exec_block(node.body, env)
            except _Return as r:
                return r.v
            return None
        finally:
            self.depth -= 1

    def call_builtin(self, f, args, kwargs):
        r = f.recv
        n = f.name
        if any(isinstance(x, Unknown) for x in args) and n not in ('append', 'insert', 'update', 'dict', 'list', 'map',
                                                                    'tuple', 'extend', 'setdefault', 'isinstance'):
            return Unknown('builtin arg')
        try:
            if r is None:
                if n == 'dict':
                    d = {}
                    if args:
                        if isinstance(args[0], dict):
                            d.update(args[0])
                        else:
                            seq = self.iterate(args[0])
                            if seq is None:
                                return Unknown('dict()')
                            for kv in seq:
                                d[kv[0]] = kv[1]
                    d.update(kwargs)
                    return d
                if n == 'map' and len(args) == 2 and isinstance(args[0], FuncV):
                    seq = self.iterate(args[1])
                    if seq is None:
                        return Unknown('map()')
                    return [self.call_func(args[0], [x], {}, None) for x in seq]
                if n == 'list':
                    return list(self.iterate(args[0])) if args else []
                if n == 'tuple':
                    return tuple(self.iterate(args[0])) if args else ()
                if n in ('set', 'frozenset'):
                    return set(x for x in self.iterate(args[0]) if _hashable(x)) if args else set()
                if n == 'len':
                    return len(args[0]) if isinstance(args[0], (list, tuple, dict, set, str, bytes)) else Unknown('len')
                if n == 'range':
                    return range(*args) if all(isinstance(x, int) for x in args) else Unknown('range')
                if n == 'sorted':
                    return sorted(self.iterate(args[0]))
                if n == 'reversed':
                    return list(reversed(self.iterate(args[0])))
                if n == 'enumerate':
                    return list(enumerate(self.iterate(args[0]), *args[1:]))
                if n == 'zip':
                    return list(zip(*[self.iterate(a) for a in args]))
                if n in ('min', 'max', 'sum', 'abs', 'int', 'str', 'bool', 'chr', 'ord', 'hex', 'bytes', 'float', 'round'):
                    if all(isinstance(x, (int, str, float, bool, bytes, list, tuple)) for x in args):
                        return dict(min=min, max=max, sum=sum, abs=abs, int=int, str=str, bool=bool, chr=chr,
                                    ord=ord, hex=hex, bytes=bytes, float=float, round=round)[n](*args)
                    return Unknown(n)
                if n == 'isinstance':
                    return Unknown('isinstance')
                if n == 'type':
                    for tn, tt in (('bool', bool), ('int', int), ('str', str), ('bytes', bytes), ('list', list),
                                   ('tuple', tuple), ('dict', dict), ('float', float)):
                        if type(args[0]) is tt:
                            return BoundBuiltin(None, tn)
                    return Unknown('type')
                if n == 'print':
                    return None
                return Unknown('builtin %s' % n)
            if isinstance(r, dict):
                if n == 'update':
                    for a in args:
                        if isinstance(a, dict):
                            r.update(a)
                        else:
                            seq = self.iterate(a)
                            if seq is None:
                                r[Unknown('update')] = a
                            else:
                                for kv in seq:
                                    r[kv[0]] = kv[1]
                    r.update(kwargs)
                    return None
                if n == 'items':
                    return list(r.items())
                if n == 'keys':
                    return list(r.keys())
                if n == 'values':
                    return list(r.values())
                if n == 'copy':
                    return dict(r)
                if n == 'get':
                    return r.get(args[0], args[1] if len(args) > 1 else None)
                if n == 'setdefault':
                    return r.setdefault(args[0], args[1] if len(args) > 1 else None)
                if n == 'pop':
                    return r.pop(*args)
            if isinstance(r, list):
                if n == 'append':
                    r.append(args[0])
                    return None
                if n == 'insert':
                    r.insert(args[0], args[1])
                    return None
                if n == 'extend':
                    r.extend(self.iterate(args[0]))
                    return None
                if n == 'index':
                    return r.index(args[0])
                if n == 'copy':
                    return list(r)
                if n == 'pop':
                    return r.pop(*args)
            if isinstance(r, set):
                if n == 'add':
                    r.add(args[0])
                    return None
                if n == 'union':
                    return r.union(*args)
            if isinstance(r, str):
                if n in ('lower', 'upper', 'startswith', 'endswith', 'split', 'replace', 'strip', 'lstrip',
                         'rstrip', 'join', 'format', 'encode', 'find', 'title', 'capitalize'):
                    if n == 'join':
                        return r.join(self.iterate(args[0]))
                    return getattr(r, n)(*args, **kwargs)
            if isinstance(r, bytes):
                if n in ('decode', 'startswith', 'endswith'):
                    return getattr(r, n)(*args)
            if isinstance(r, (tuple, list)) and n in ('index', 'count'):
                return getattr(r, n)(*args)
        except Exception:
            return Unknown('builtin error %s' % n)
        return Unknown('method %s' % n)


BUILTINS = set('map dict list tuple set frozenset len range sorted reversed enumerate zip min max sum abs int str bool '
               'chr ord hex bytes float round isinstance type print'.split())


def _hashable(k):
    try:
        hash(k)
    except TypeError:
        return False
    return not isinstance(k, Unknown)


def _eq(a, b):
    if isinstance(a, (Node, Obj, FuncV)) or isinstance(b, (Node, Obj, FuncV)):
        return a is b
    return a == b


def _load(t):
    import copy
    t2 = copy.copy(t)
    t2.ctx = ast.Load()
    return t2
