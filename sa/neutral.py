"""tools/neutral_variants.py <kind> <outdir>  -- write a behaviour-preserving variant of /repo's elftools+scripts to <outdir>.

Used to test the checks for false alarms (DESIGN.md §8.7): every check must stay silent on these.
kinds:
  unparse   every module re-emitted by ast.unparse (formatting, comments, parenthesisation, string quoting normalised)
  rename    every function-local variable (not parameters, not globals) renamed  x -> x_r  consistently
  reorder   `a == b` comparisons of a name/subscript with a constant flipped to `b == a` is NOT done (changes nothing we
            test); instead: if/else with a negated test is not generated either -- kept minimal on purpose
  docstrip  docstrings removed, `pass` inserted where a body would become empty
"""
import ast
import os
import shutil
import sys
import builtins


def local_names(fn):
    params = set(a.arg for a in fn.args.args + fn.args.kwonlyargs + fn.args.posonlyargs)
    if fn.args.vararg:
        params.add(fn.args.vararg.arg)
    if fn.args.kwarg:
        params.add(fn.args.kwarg.arg)
    declared = set()
    stores = set()
    nested_params = set()
    for n in ast.walk(fn):
        if isinstance(n, (ast.Global, ast.Nonlocal)):
            declared |= set(n.names)
        elif isinstance(n, ast.Name) and isinstance(n.ctx, (ast.Store, ast.Del)):
            stores.add(n.id)
        elif isinstance(n, (ast.FunctionDef, ast.Lambda)) and n is not fn:
            a = n.args
            nested_params |= set(x.arg for x in a.args + a.kwonlyargs + a.posonlyargs)
            if isinstance(n, ast.FunctionDef):
                stores.discard(n.name)
        elif isinstance(n, ast.ExceptHandler) and n.name:
            pass
    return stores - params - declared - nested_params - set(dir(builtins))


class Renamer(ast.NodeTransformer):
    def visit_FunctionDef(self, fn):
        names = local_names(fn)
        # do not descend with a second renaming into nested defs: one consistent map for the whole subtree
        for n in ast.walk(fn):
            if isinstance(n, ast.Name) and n.id in names:
                n.id = n.id + '_r'
        # nested functions: their own locals were renamed by the walk above only if they collide; run on them too
        for i, st in enumerate(fn.body):
            pass
        return fn


class AugExpand(ast.NodeTransformer):
    """x += e  ->  x = x + e   (names only)"""
    def visit_AugAssign(self, n):
        self.generic_visit(n)
        if isinstance(n.target, ast.Name):
            return ast.Assign(targets=[ast.Name(id=n.target.id, ctx=ast.Store())],
                              value=ast.BinOp(left=ast.Name(id=n.target.id, ctx=ast.Load()), op=n.op, right=n.value), lineno=n.lineno)
        return n


class IfInvert(ast.NodeTransformer):
    """if c: A else: B  ->  if not c: B else: A   (plain two-armed ifs whose else is not an elif chain)"""
    def visit_If(self, n):
        self.generic_visit(n)
        if n.orelse and not (len(n.orelse) == 1 and isinstance(n.orelse[0], ast.If)):
            return ast.If(test=ast.UnaryOp(op=ast.Not(), operand=n.test), body=n.orelse, orelse=n.body, lineno=n.lineno)
        return n


class CmpFlip(ast.NodeTransformer):
    """a < b -> b > a ; a == b -> b == a   (single comparisons)"""
    FLIP = {ast.Lt: ast.Gt, ast.Gt: ast.Lt, ast.LtE: ast.GtE, ast.GtE: ast.LtE, ast.Eq: ast.Eq, ast.NotEq: ast.NotEq}

    def visit_Compare(self, n):
        self.generic_visit(n)
        if len(n.ops) == 1 and type(n.ops[0]) in self.FLIP:
            return ast.Compare(left=n.comparators[0], ops=[self.FLIP[type(n.ops[0])]()], comparators=[n.left])
        return n


class ExtractLocal(ast.NodeTransformer):
    """return <expr>  ->  result__ = <expr>; return result__     (single new single-assignment local per return)"""
    def __init__(self):
        self.k = 0

    def _block(self, stmts):
        out = []
        for st in stmts:
            if isinstance(st, ast.Return) and st.value is not None and not isinstance(st.value, (ast.Name, ast.Constant)):
                self.k += 1
                nm = 'result__%d' % self.k
                out.append(ast.Assign(targets=[ast.Name(id=nm, ctx=ast.Store())], value=st.value, lineno=st.lineno))
                out.append(ast.Return(value=ast.Name(id=nm, ctx=ast.Load()), lineno=st.lineno))
            else:
                out.append(st)
        return out

    def generic_visit(self, node):
        super().generic_visit(node)
        for fld in ('body', 'orelse', 'finalbody'):
            b = getattr(node, fld, None)
            if isinstance(b, list) and b and isinstance(b[0], ast.stmt):
                setattr(node, fld, self._block(b))
        return node


class AddPass(ast.NodeTransformer):
    """a no-op statement at the start of every function body (after the docstring) and of every loop body"""
    def _ins(self, body):
        k = 1 if body and isinstance(body[0], ast.Expr) and isinstance(body[0].value, ast.Constant) and isinstance(body[0].value.value, str) else 0
        return body[:k] + [ast.Pass()] + body[k:]

    def visit_FunctionDef(self, n):
        self.generic_visit(n)
        n.body = self._ins(n.body)
        return n

    def visit_For(self, n):
        self.generic_visit(n)
        n.body = [ast.Pass()] + n.body
        return n
    visit_While = visit_For


class Msgs(ast.NodeTransformer):
    """error message texts changed (raise X('...'), elf_assert(c, '...'), dwarf_assert(c, '...'))"""
    def _touch(self, node):
        for x in ast.walk(node):
            if isinstance(x, ast.Constant) and isinstance(x.value, str) and ' ' in x.value:
                x.value = x.value + ' (!)'

    def visit_Raise(self, n):
        if n.exc is not None and isinstance(n.exc, ast.Call):
            for a in n.exc.args:
                self._touch(a)
        return n

    def visit_Call(self, n):
        self.generic_visit(n)
        if isinstance(n.func, ast.Name) and n.func.id in ('elf_assert', 'dwarf_assert') and len(n.args) > 1:
            self._touch(n.args[1])
        return n


class KwPos(ast.NodeTransformer):
    """struct_parse(s, stream, stream_pos=p) -> struct_parse(s, stream, p), and the other way round for 3-positional calls"""
    def visit_Call(self, n):
        self.generic_visit(n)
        if isinstance(n.func, ast.Name) and n.func.id == 'struct_parse':
            if len(n.args) == 2 and len(n.keywords) == 1 and n.keywords[0].arg == 'stream_pos':
                n.args.append(n.keywords[0].value)
                n.keywords = []
            elif len(n.args) == 3 and not n.keywords:
                n.keywords = [ast.keyword(arg='stream_pos', value=n.args[2])]
                n.args = n.args[:2]
        return n


class ParamRename(object):
    """parameters (not self/cls) of private functions and methods renamed p -> p_arg, keyword call sites of those functions in the
    same module updated"""
    def run(self, t):
        renamed = {}
        for node in ast.walk(t):
            if isinstance(node, ast.FunctionDef) and node.name.startswith('_') and not node.name.startswith('__'):
                a = node.args
                if a.vararg or a.kwarg or a.kwonlyargs:
                    continue
                names = [x.arg for x in a.args if x.arg not in ('self', 'cls')]
                used = set(x.id for x in ast.walk(node) if isinstance(x, ast.Name))
                mp = dict((n, n + '_arg') for n in names if n + '_arg' not in used)
                inner = [x for x in ast.walk(node) if isinstance(x, (ast.FunctionDef, ast.Lambda)) and x is not node]
                if any(set(y.arg for y in i.args.args) & set(mp) for i in inner):
                    continue
                for x in a.args:
                    if x.arg in mp:
                        x.arg = mp[x.arg]
                for x in ast.walk(node):
                    if isinstance(x, ast.Name) and x.id in mp:
                        x.id = mp[x.id]
                renamed.setdefault(node.name, []).append(mp)
        for c in ast.walk(t):
            if isinstance(c, ast.Call):
                nm = c.func.id if isinstance(c.func, ast.Name) else (c.func.attr if isinstance(c.func, ast.Attribute) else None)
                if nm in renamed and len(renamed[nm]) == 1:
                    for k in c.keywords:
                        if k.arg in renamed[nm][0]:
                            k.arg = renamed[nm][0][k.arg]
        return t


class DocStrip(ast.NodeTransformer):
    def _strip(self, node):
        self.generic_visit(node)
        b = node.body
        if b and isinstance(b[0], ast.Expr) and isinstance(b[0].value, ast.Constant) and isinstance(b[0].value.value, str):
            node.body = b[1:] or [ast.Pass()]
        return node
    visit_FunctionDef = _strip
    visit_ClassDef = _strip
    visit_Module = _strip




KINDS = ('unparse', 'rename', 'docstrip', 'augexpand', 'ifinvert', 'cmpflip', 'extract', 'addpass', 'kwpos')   # 'paramrename' exists as a tool kind; it also renames parameters that other modules pass by keyword, so the pinned suite does not survive it   # 'msgs' exists but two pinned tests compare message text


def transform(kind, text):
    """behaviour-preserving variant of one module's source text"""
    t = ast.parse(text)
    if kind == 'rename':
        for node in t.body:
            if isinstance(node, ast.FunctionDef):
                Renamer().visit_FunctionDef(node)
            elif isinstance(node, ast.ClassDef):
                for m in node.body:
                    if isinstance(m, ast.FunctionDef):
                        Renamer().visit_FunctionDef(m)
    elif kind == 'docstrip':
        t = DocStrip().visit(t)
    elif kind == 'augexpand':
        t = AugExpand().visit(t)
    elif kind == 'ifinvert':
        t = IfInvert().visit(t)
    elif kind == 'cmpflip':
        t = CmpFlip().visit(t)
    elif kind == 'extract':
        t = ExtractLocal().visit(t)
    elif kind == 'addpass':
        t = AddPass().visit(t)
    elif kind == 'msgs':
        t = Msgs().visit(t)
    elif kind == 'kwpos':
        t = KwPos().visit(t)
    elif kind == 'paramrename':
        t = ParamRename().run(t)
    elif kind != 'unparse':
        raise ValueError(kind)
    ast.fix_missing_locations(t)
    return ast.unparse(t) + '\n'


def variant_sources(kind, sources):
    """{relpath: text} overlay for a whole source map (elftools/ and scripts/)"""
    out = {}
    for rel, text in sources.items():
        try:
            out[rel] = transform(kind, text)
        except SyntaxError:
            pass
    return out
