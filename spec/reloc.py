"""psABI relocation formulas (DESIGN.md appendix A.8).  v = value in place, S = symbol value,
A = r_addend, P = r_offset.  Formula is the *effective* one (addend already 0 for REL recipes)."""

RECIPES = {
    '_RELOCATION_RECIPES_X86': ('ENUM_RELOC_TYPE_i386', {'R_386_NONE': (4, 'v'), 'R_386_32': (4, 'S + v'), 'R_386_PC32': (4, 'S + v - P')}),
    '_RELOCATION_RECIPES_X64': ('ENUM_RELOC_TYPE_x64', {'R_X86_64_NONE': (8, 'v'), 'R_X86_64_64': (8, 'S + A'), 'R_X86_64_PC32': (4, 'S + A - P'),
                                                        'R_X86_64_32': (4, 'S + A'), 'R_X86_64_32S': (4, 'S + A')}),
    '_RELOCATION_RECIPES_ARM': ('ENUM_RELOC_TYPE_ARM', {'R_ARM_ABS32': (4, 'S + v')}),
    '_RELOCATION_RECIPES_AARCH64': ('ENUM_RELOC_TYPE_AARCH64', {'R_AARCH64_ABS64': (8, 'S + A'), 'R_AARCH64_ABS32': (4, 'S + A'),
                                                                'R_AARCH64_PREL32': (4, 'S + A - P')}),
    '_RELOCATION_RECIPES_MIPS_REL': ('ENUM_RELOC_TYPE_MIPS', {'R_MIPS_NONE': (4, 'v'), 'R_MIPS_32': (4, 'S + v')}),
    '_RELOCATION_RECIPES_MIPS_RELA': ('ENUM_RELOC_TYPE_MIPS', {'R_MIPS_NONE': (4, 'v'), 'R_MIPS_32': (4, 'S + A'), 'R_MIPS_64': (8, 'S + A')}),
    '_RELOCATION_RECIPES_PPC64': ('ENUM_RELOC_TYPE_PPC64', {'R_PPC64_ADDR32': (4, 'S + A'), 'R_PPC64_REL32': (4, 'S + A - P'), 'R_PPC64_ADDR64': (8, 'S + A')}),
    '_RELOCATION_RECIPES_S390X': ('ENUM_RELOC_TYPE_S390X', {'R_390_32': (4, 'S + A'), 'R_390_PC32': (4, 'S + A - P'), 'R_390_64': (8, 'S + A')}),
    '_RELOCATION_RECIPES_LOONGARCH': ('ENUM_RELOC_TYPE_LOONGARCH', {
        'R_LARCH_NONE': (4, 'v'), 'R_LARCH_32': (4, 'S + A'), 'R_LARCH_64': (8, 'S + A'),
        'R_LARCH_ADD8': (1, 'v + S + A'), 'R_LARCH_SUB8': (1, 'v - S - A'), 'R_LARCH_ADD16': (2, 'v + S + A'), 'R_LARCH_SUB16': (2, 'v - S - A'),
        'R_LARCH_ADD32': (4, 'v + S + A'), 'R_LARCH_SUB32': (4, 'v - S - A'), 'R_LARCH_ADD64': (8, 'v + S + A'), 'R_LARCH_SUB64': (8, 'v - S - A'),
        'R_LARCH_32_PCREL': (4, 'S + A - P'), 'R_LARCH_64_PCREL': (8, 'S + A - P')}),
}

# machine string -> (recipe table(s), flavour)  flavour: 'REL' | 'RELA' | 'ANY' | 'SPLIT' (RELA table / REL table)
MACHINES = {
    'x86': ('_RELOCATION_RECIPES_X86', 'REL'),
    'x64': ('_RELOCATION_RECIPES_X64', 'RELA'),
    'MIPS': (('_RELOCATION_RECIPES_MIPS_RELA', '_RELOCATION_RECIPES_MIPS_REL'), 'SPLIT'),
    'ARM': ('_RELOCATION_RECIPES_ARM', 'REL'),
    # RELA-only psABIs (ELF for the Arm 64-bit Architecture §5.7; 64-bit PowerPC ELF ABI §3.5; zSeries ELF ABI): every recipe of
    # these tables takes r_addend, so a REL entry must be rejected with the relocation error (it used to end in KeyError:
    # findings/C08-rel-flavour; the first version of these rows said ANY, i.e. mirrored the code instead of the ABI)
    'AArch64': ('_RELOCATION_RECIPES_AARCH64', 'RELA'),
    '64-bit PowerPC': ('_RELOCATION_RECIPES_PPC64', 'RELA'),
    'IBM S/390': ('_RELOCATION_RECIPES_S390X', 'RELA'),
    'LoongArch': ('_RELOCATION_RECIPES_LOONGARCH', 'RELA'),
}
WIDTHS = {4: 'Elf_word', 8: 'Elf_word64', 1: 'Elf_byte', 2: 'Elf_half'}

# dynamic relocation tables: result key -> (class, pointer tag, size tag, entsize tag / flavour)
DYN_TABLES = {
    'REL': ('RelocationTable', 'DT_REL', 'DT_RELSZ', 'DT_RELENT', False),
    'RELA': ('RelocationTable', 'DT_RELA', 'DT_RELASZ', 'DT_RELAENT', True),
    'RELR': ('RelrRelocationTable', 'DT_RELR', 'DT_RELRSZ', 'DT_RELRENT', None),
    'JMPREL': ('RelocationTable', 'DT_JMPREL', 'DT_PLTRELSZ', 'DT_PLTREL', 'DT_RELA'),
}
