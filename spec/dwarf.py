"""DWARF specification rows (DESIGN.md appendix A.2-A.7).  Atoms: uN/sN, off (4/8 by DWARF format), addr (by unit
address size), initlen, uleb, sleb, cstr, u24, bytes:N, offset (stream-offset capture, consumes nothing),
array[..]{..}, prefixed[len]{..}, repeat_until[..]{..}.  Each row cites its source section."""

UT = ['DW_UT_compile', 'DW_UT_partial', 'DW_UT_skeleton', 'DW_UT_split_compile', 'DW_UT_type', 'DW_UT_split_type']


def cu_header(case):
    """DWARF5 §7.5.1.1-3; DWARF2-4 §7.5.1"""
    v = case['version']
    base = [('unit_length', 'initlen'), ('version', 'u16')]
    if v < 5:
        return base + [('debug_abbrev_offset', 'off'), ('address_size', 'u8')]
    ut = case['unit_type']
    rows = base + [('unit_type', 'u8'), ('address_size', 'u8'), ('debug_abbrev_offset', 'off')]
    if ut in ('DW_UT_skeleton', 'DW_UT_split_compile'):
        rows.append(('dwo_id', 'u64'))
    elif ut in ('DW_UT_type', 'DW_UT_split_type'):
        rows += [('type_signature', 'u64'), ('type_offset', 'off')]
    return rows


def cu_cases():
    out = [{'version': v} for v in (2, 3, 4)]
    out += [{'version': 5, 'unit_type': ut} for ut in UT]
    return out


# DWARF4 §7.5.1.2 (.debug_types)
TU_HEADER = [('unit_length', 'initlen'), ('version', 'u16'), ('debug_abbrev_offset', 'off'), ('address_size', 'u8'),
             ('signature', 'u64'), ('type_offset', 'off')]

# DWARF5 §7.5.3 (the code is read by the caller)
ABBREV_HEAD = [('tag', 'uleb'), ('children_flag', 'u8')]
ABBREV_SPEC = {False: [('name', 'uleb'), ('form', 'uleb')], True: [('name', 'uleb'), ('form', 'uleb'), ('value', 'sleb')]}


def lineprog_header(case):
    """DWARF5 §6.2.4; DWARF2-4 §6.2.4"""
    v = case['version']
    rows = [('unit_length', 'initlen'), ('version', 'u16')]
    if v >= 5:
        rows += [('address_size', 'u8'), ('segment_selector_size', 'u8')]
    rows += [('header_length', 'off'), ('minimum_instruction_length', 'u8')]
    if v >= 4:
        rows.append(('maximum_operations_per_instruction', 'u8'))
    rows += [('default_is_stmt', 'u8'), ('line_base', 's8'), ('line_range', 'u8'), ('opcode_base', 'u8'),
             ('standard_opcode_lengths', 'array[ctx.opcode_base-1]{standard_opcode_lengths:u8}')]
    if v >= 5:
        rows += [(None, 'prefixed[u8]{uleb,uleb}'), (None, 'prefixed[uleb]{opaque:FormattedEntry}'),
                 (None, 'prefixed[u8]{uleb,uleb}'), (None, 'prefixed[uleb]{opaque:FormattedEntry}')]
    else:
        rows += [(None, "repeat_until[obj==b'']{include_directory:cstr}"),
                 (None, 'repeat_until[notobj.name]{name:cstr,dir_index:uleb,mtime:uleb,length:uleb}')]
    return rows


FILE_ENTRY = {True: [('name', 'cstr'), ('dir_index', 'uleb'), ('mtime', 'uleb'), ('length', 'uleb')], False: [('name', 'cstr')]}


def cie_header(case):
    """DWARF5 §6.4.1 / §7.24; version 1 (DWARF2), 3, 4"""
    v = case['version']
    rows = [('length', 'initlen'), ('CIE_id', 'off'), ('version', 'u8'), ('augmentation', 'cstr')]
    if v >= 4:
        rows += [('address_size', 'u8'), ('segment_size', 'u8')]
    rows += [('code_alignment_factor', 'uleb'), ('data_alignment_factor', 'sleb'),
             ('return_address_register', 'uleb' if v > 1 else 'u8')]
    return rows


FDE_HEADER = [('length', 'initlen'), ('CIE_pointer', 'off'), ('initial_location', 'addr'), ('address_range', 'addr')]
# DWARF5 §6.1.2
ARANGES_HEADER = [('unit_length', 'initlen'), ('version', 'u16'), ('debug_info_offset', 'off'), ('address_size', 'u8'),
                  ('segment_size', 'u8')]
# DWARF4 §6.1.1
NAMELUT_HEADER = [('unit_length', 'initlen'), ('version', 'u16'), ('debug_info_offset', 'off'), ('debug_info_length', 'off')]
# DWARF5 §7.26 / §7.27
STR_OFFSETS_HEADER = [('unit_length', 'initlen'), ('version', 'u16'), ('padding', 'u16')]
ADDR_HEADER = [('unit_length', 'initlen'), ('version', 'u16'), ('address_size', 'u8'), ('segment_selector_size', 'u8')]
# DWARF5 §7.28 / §7.29
LISTS_HEADER = [('cu_offset', 'offset'), ('unit_length', 'initlen'), ('offset_after_length', 'offset'), ('version', 'u16'),
                ('address_size', 'u8'), ('segment_selector_size', 'u8'), ('offset_count', 'u32'), ('offset_table_offset', 'offset')]
# DWARF5 §7.3.6 (version is an unsigned half in the standard; the code reads it signed -- value 5 unaffected, listed)
DEBUGSUP = [('version', 's16'), ('is_supplementary', 'u8'), ('sup_filename', 'cstr')]
DEBUGALTLINK = [('sup_filename', 'cstr'), ('sup_checksum', 'bytes:20')]

CLD = 'prefixed[uleb]{u8}'
LLE = {  # DWARF5 §7.7.3 / Table 7.10
    'DW_LLE_end_of_list': [],
    'DW_LLE_base_addressx': [('index', 'uleb')],
    'DW_LLE_startx_endx': [('start_index', 'uleb'), ('end_index', 'uleb'), ('loc_expr', CLD)],
    'DW_LLE_startx_length': [('start_index', 'uleb'), ('length', 'uleb'), ('loc_expr', CLD)],
    'DW_LLE_offset_pair': [('start_offset', 'uleb'), ('end_offset', 'uleb'), ('loc_expr', CLD)],
    'DW_LLE_default_location': [('loc_expr', CLD)],
    'DW_LLE_base_address': [('address', 'addr')],
    'DW_LLE_start_end': [('start_address', 'addr'), ('end_address', 'addr'), ('loc_expr', CLD)],
    'DW_LLE_start_length': [('start_address', 'addr'), ('length', 'uleb'), ('loc_expr', CLD)],
}
RLE = {  # DWARF5 §7.25 / Table 7.30
    'DW_RLE_end_of_list': [],
    'DW_RLE_base_addressx': [('index', 'uleb')],
    'DW_RLE_startx_endx': [('start_index', 'uleb'), ('end_index', 'uleb')],
    'DW_RLE_startx_length': [('start_index', 'uleb'), ('length', 'uleb')],
    'DW_RLE_offset_pair': [('start_offset', 'uleb'), ('end_offset', 'uleb')],
    'DW_RLE_base_address': [('address', 'addr')],
    'DW_RLE_start_end': [('start_address', 'addr'), ('end_address', 'addr')],
    'DW_RLE_start_length': [('start_address', 'addr'), ('length', 'uleb')],
}

# DWARF5 §7.5.6 Table 7.6 (+ GNU extensions); 'ref_addr' depends on the version (addr in v2, off in v3+)
FORMS = {
    'DW_FORM_addr': 'addr', 'DW_FORM_addrx': 'uleb', 'DW_FORM_addrx1': 'u8', 'DW_FORM_addrx2': 'u16', 'DW_FORM_addrx3': 'u24',
    'DW_FORM_addrx4': 'u32',
    'DW_FORM_block1': 'prefixed[u8]{u8}', 'DW_FORM_block2': 'prefixed[u16]{u8}', 'DW_FORM_block4': 'prefixed[u32]{u8}',
    'DW_FORM_block': 'prefixed[uleb]{u8}',
    'DW_FORM_data1': 'u8', 'DW_FORM_data2': 'u16', 'DW_FORM_data4': 'u32', 'DW_FORM_data8': 'u64', 'DW_FORM_data16': 'array[16]{u8}',
    'DW_FORM_sdata': 'sleb', 'DW_FORM_udata': 'uleb',
    'DW_FORM_string': 'cstr', 'DW_FORM_strp': 'off', 'DW_FORM_strp_sup': 'off', 'DW_FORM_line_strp': 'off',
    'DW_FORM_strx': 'uleb', 'DW_FORM_strx1': 'u8', 'DW_FORM_strx2': 'u16', 'DW_FORM_strx3': 'u24', 'DW_FORM_strx4': 'u32',
    'DW_FORM_flag': 'u8', 'DW_FORM_flag_present': 'bytes:0',
    'DW_FORM_ref1': 'u8', 'DW_FORM_ref2': 'u16', 'DW_FORM_ref4': 'u32', 'DW_FORM_ref8': 'u64', 'DW_FORM_ref_udata': 'uleb',
    'DW_FORM_ref_addr': 'ref_addr', 'DW_FORM_ref_sig8': 'u64', 'DW_FORM_ref_sup4': 'u32', 'DW_FORM_ref_sup8': 'u64',
    'DW_FORM_sec_offset': 'off', 'DW_FORM_exprloc': 'prefixed[uleb]{u8}', 'DW_FORM_indirect': 'uleb',
    'DW_FORM_implicit_const': 'none',
    'DW_FORM_loclistx': 'uleb', 'DW_FORM_rnglistx': 'uleb',
    'DW_FORM_GNU_addr_index': 'uleb', 'DW_FORM_GNU_str_index': 'uleb', 'DW_FORM_GNU_ref_alt': 'off', 'DW_FORM_GNU_strp_alt': 'off',
}

# DWARF5 §7.7.1 Table 7.9 (+ GNU / WASM extensions): operand signatures
def _ops():
    t = {}
    for n in ('deref dup drop over swap rot xderef abs and div minus mod mul neg not or plus shl shr shra xor eq ge gt le lt ne nop '
              'push_object_address form_tls_address call_frame_cfa stack_value GNU_push_tls_address GNU_uninit').split():
        t['DW_OP_' + n] = []
    for i in range(32):
        t['DW_OP_lit%d' % i] = []
        t['DW_OP_reg%d' % i] = []
        t['DW_OP_breg%d' % i] = ['sleb']
    t.update({
        'DW_OP_addr': ['addr'], 'DW_OP_const1u': ['u8'], 'DW_OP_const1s': ['s8'], 'DW_OP_const2u': ['u16'], 'DW_OP_const2s': ['s16'],
        'DW_OP_const4u': ['u32'], 'DW_OP_const4s': ['s32'], 'DW_OP_const8u': ['u64'], 'DW_OP_const8s': ['s64'],
        'DW_OP_constu': ['uleb'], 'DW_OP_consts': ['sleb'], 'DW_OP_pick': ['u8'], 'DW_OP_plus_uconst': ['uleb'],
        'DW_OP_bra': ['s16'], 'DW_OP_skip': ['s16'], 'DW_OP_fbreg': ['sleb'], 'DW_OP_regx': ['uleb'], 'DW_OP_bregx': ['uleb', 'sleb'],
        'DW_OP_piece': ['uleb'], 'DW_OP_bit_piece': ['uleb', 'uleb'], 'DW_OP_deref_size': ['u8'], 'DW_OP_xderef_size': ['u8'],
        'DW_OP_call2': ['u16'], 'DW_OP_call4': ['u32'], 'DW_OP_call_ref': ['off'], 'DW_OP_implicit_value': ['blob(uleb)'],
        'DW_OP_implicit_pointer': ['off', 'sleb'], 'DW_OP_GNU_implicit_pointer': ['off', 'sleb'],
        'DW_OP_entry_value': ['nested(uleb)'], 'DW_OP_GNU_entry_value': ['nested(uleb)'],
        'DW_OP_const_type': ['uleb', 'blob(u8)'], 'DW_OP_GNU_const_type': ['uleb', 'blob(u8)'],
        'DW_OP_regval_type': ['uleb', 'uleb'], 'DW_OP_GNU_regval_type': ['uleb', 'uleb'],
        'DW_OP_deref_type': ['u8', 'uleb'], 'DW_OP_GNU_deref_type': ['u8', 'uleb'], 'DW_OP_xderef_type': ['u8', 'uleb'],
        'DW_OP_convert': ['uleb'], 'DW_OP_GNU_convert': ['uleb'], 'DW_OP_reinterpret': ['uleb'], 'DW_OP_GNU_reinterpret': ['uleb'],
        'DW_OP_addrx': ['uleb'], 'DW_OP_constx': ['uleb'], 'DW_OP_GNU_addr_index': ['uleb'], 'DW_OP_GNU_const_index': ['uleb'],
        'DW_OP_GNU_parameter_ref': ['u32'],
        'DW_OP_WASM_location': ['wasm'],
    })
    return t


OPS = _ops()
OP_MARKERS = ('DW_OP_lo_user', 'DW_OP_hi_user')
