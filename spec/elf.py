"""Specification rows for ELF structures.

GLIBC_STRUCTS: pyelftools struct attribute -> glibc typedef base name (Elf32_/Elf64_ prefix added per
class); the expected layout is *derived* from the vendored elf.h (engine C), not written here.
HAND rows (DESIGN.md appendix A.1) cover what elf.h has no typedef for.  Atoms: uN/sN fixed ints,
addr/off/xword/sxword class-sized, cstr, pad:N, bytes:N, bitsN, array[expr]{name:atom}.
"""

GLIBC_STRUCTS = {
    # struct attr        glibc suffix   member renames (glibc -> pyelftools)
    'Elf_Ehdr': ('Ehdr', {}),
    'Elf_Phdr': ('Phdr', {}),
    'Elf_Shdr': ('Shdr', {}),
    'Elf_Chdr': ('Chdr', {}),
    'Elf_Sym': ('Sym', {}),
    'Elf_Rel': ('Rel', {}),
    'Elf_Rela': ('Rela', {}),
    'Elf_Dyn': ('Dyn', {}),
    'Elf_Sunw_Syminfo': ('Syminfo', {}),
    'Elf_Verneed': ('Verneed', {}),
    'Elf_Vernaux': ('Vernaux', {}),
    'Elf_Verdef': ('Verdef', {}),
    'Elf_Verdaux': ('Verdaux', {}),
    'Elf_Nhdr': ('Nhdr', {}),
}

# e_ident: gABI ch.4 "ELF Identification" (16 bytes)
E_IDENT = [('EI_MAG', 'array[4]{EI_MAG:u8}'), ('EI_CLASS', 'u8'), ('EI_DATA', 'u8'), ('EI_VERSION', 'u8'),
           ('EI_OSABI', 'u8'), ('EI_ABIVERSION', 'u8'), (None, 'pad:7')]

# MIPS64 ELF spec §2.9: r_info is (word sym, byte ssym, byte type3, byte type2, byte type) in file order
MIPS64_REL = [('r_offset', 'addr'), ('r_sym', 'u32'), ('r_ssym', 'u8'), ('r_type3', 'u8'), ('r_type2', 'u8'),
              ('r_type', 'u8')]
MIPS64_RELA = MIPS64_REL + [('r_addend', 's64')]

HAND = {
    # gABI ch.5 "Hash Table"
    'Elf_Hash': [('nbuckets', 'u32'), ('nchains', 'u32'), ('buckets', "array[ctx['nbuckets']]{buckets:u32}"),
                 ('chains', "array[ctx['nchains']]{chains:u32}")],
    # GNU hash: 4 words, bloom words class-sized, buckets words
    'Gnu_Hash': [('nbuckets', 'u32'), ('symoffset', 'u32'), ('bloom_size', 'u32'), ('bloom_shift', 'u32'),
                 ('bloom', "array[ctx['bloom_size']]{bloom:xword}"),
                 ('buckets', "array[ctx['nbuckets']]{buckets:u32}")],
    # glibc csu/abi-note
    'Elf_abi': [('abi_os', 'u32'), ('abi_major', 'u32'), ('abi_minor', 'u32'), ('abi_tiny', 'u32')],
    # binutils stabs: 12 bytes
    'Elf_Stabs': [('n_strx', 'u32'), ('n_type', 'u8'), ('n_other', 'u8'), ('n_desc', 'u16'), ('n_value', 'u32')],
    # ARM IHI 0045 §2.2
    'Elf_Attr_Subsection_Header': [('length', 'u32'), ('vendor_name', 'cstr')],
    'Elf_Versym': [('ndx', 'u16')],
    'Elf_Relr': [('r_offset', 'addr')],
    'Elf_Arm_Attribute_Tag': [('tag', 'uleb')],
    'Elf_RiscV_Attribute_Tag': [('tag', 'uleb')],
    # GDB "Separate Debug Files": C string, pad to 4 from the start, crc word
    'Gnu_debuglink': [('filename', 'cstr'), (None, 'pad:@filename:' + ','.join(str(3 - n % 4) for n in range(12))), ('checksum', 'u32')],     # CRC at the next 4-byte boundary after name + NUL
}

# linux/elfcore.h struct elf_prpsinfo
PRPSINFO_32 = [('pr_state', 'u8'), ('pr_sname', 'bytes:1'), ('pr_zomb', 'u8'), ('pr_nice', 'u8'), ('pr_flag', 'xword'),
               ('pr_uid', 'ugid'), ('pr_gid', 'ugid'), ('pr_pid', 'u32'), ('pr_ppid', 'u32'), ('pr_pgrp', 'u32'),
               ('pr_sid', 'u32'), ('pr_fname', 'bytes:16'), ('pr_psargs', 'bytes:80')]
PRPSINFO_64 = PRPSINFO_32[:4] + [(None, 'pad:4')] + PRPSINFO_32[4:]
# 32-bit machines whose kernel uid/gid in elf_prpsinfo is 16-bit (linux __kernel_uid_t is unsigned short)
UGID16_MACHINES_32 = ('EM_MN10300', 'EM_ARM', 'EM_CRIS', 'EM_FRV', 'EM_386', 'EM_M32R', 'EM_68K', 'EM_S390', 'EM_SH',
                      'EM_SPARC')

# readelf.c NT_FILE
NT_FILE = [('num_map_entries', 'xword'), ('page_size', 'xword'),
           (None, 'array[ctx.num_map_entries]{vm_start:addr,vm_end:addr,page_offset:off}'),
           ('filename', 'array[ctx.num_map_entries]{filename:cstr}')]

# machine -> section-type / segment-type table selection (gABI processor supplements)
SH_TYPE_TABLE = {'EM_ARM': 'ENUM_SH_TYPE_ARM', 'EM_AARCH64': 'ENUM_SH_TYPE_AARCH64', 'EM_X86_64': 'ENUM_SH_TYPE_AMD64',
                 'EM_MIPS': 'ENUM_SH_TYPE_MIPS', 'EM_RISCV': 'ENUM_SH_TYPE_RISCV'}
P_TYPE_TABLE = {'EM_ARM': 'ENUM_P_TYPE_ARM', 'EM_AARCH64': 'ENUM_P_TYPE_AARCH64', 'EM_MIPS': 'ENUM_P_TYPE_MIPS',
                'EM_RISCV': 'ENUM_P_TYPE_RISCV'}

# Enum fields that must carry a pass-through default (unknown codes stay integers)
PASS_THROUGH = {
    'Elf_Ehdr': ['EI_VERSION', 'EI_OSABI', 'e_type', 'e_machine', 'e_version'],
    'Elf_Phdr': ['p_type'],
    'Elf_Shdr': ['sh_type'],
    'Elf_Chdr': ['ch_type'],
    'Elf_Sym': ['st_shndx'],
    'Elf_Dyn': ['d_tag'],
    'Elf_Nhdr': ['n_type'],
    'Elf_Versym': ['ndx'],
    'Elf_abi': ['abi_os'],
    'Elf_Prop': ['pr_type'],
    'Elf_Sunw_Syminfo': ['si_boundto'],
    'Elf_Arm_Attribute_Tag': ['tag'],
    'Elf_RiscV_Attribute_Tag': ['tag'],
}
# field -> enum table expected (by table name in elf/enums.py); machine-dependent ones are handled in code
ENUM_TABLE = {
    ('Elf_Ehdr', 'EI_CLASS'): 'ENUM_EI_CLASS', ('Elf_Ehdr', 'EI_DATA'): 'ENUM_EI_DATA',
    ('Elf_Ehdr', 'EI_VERSION'): 'ENUM_E_VERSION', ('Elf_Ehdr', 'EI_OSABI'): 'ENUM_EI_OSABI',
    ('Elf_Ehdr', 'e_type'): 'ENUM_E_TYPE', ('Elf_Ehdr', 'e_machine'): 'ENUM_E_MACHINE',
    ('Elf_Ehdr', 'e_version'): 'ENUM_E_VERSION',
    ('Elf_Chdr', 'ch_type'): 'ENUM_ELFCOMPRESS_TYPE',
    ('Elf_Sym', 'st_shndx'): 'ENUM_ST_SHNDX',
    ('Elf_Versym', 'ndx'): 'ENUM_VERSYM',
    ('Elf_abi', 'abi_os'): 'ENUM_NOTE_ABI_TAG_OS',
    ('Elf_Prop', 'pr_type'): 'ENUM_NOTE_GNU_PROPERTY_TYPE',
    ('Elf_Sunw_Syminfo', 'si_boundto'): 'ENUM_SUNW_SYMINFO_BOUNDTO',
    ('Elf_Arm_Attribute_Tag', 'tag'): 'ENUM_ATTR_TAG_ARM',
    ('Elf_RiscV_Attribute_Tag', 'tag'): 'ENUM_ATTR_TAG_RISCV',
}
