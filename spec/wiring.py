"""Dispatch and wiring tables (DESIGN.md appendix A.9)."""

# section type -> (class constructed, link kind)  link kind: None | 'strtab' | 'symtab' | 'index'
MAKE_SECTION = {
    'SHT_STRTAB': ('StringTableSection', None),
    'SHT_NULL': ('NullSection', None),
    'SHT_SYMTAB': ('SymbolTableSection', 'strtab'),
    'SHT_DYNSYM': ('SymbolTableSection', 'strtab'),
    'SHT_SUNW_LDYNSYM': ('SymbolTableSection', 'strtab'),
    'SHT_SYMTAB_SHNDX': ('SymbolTableIndexSection', 'index'),
    'SHT_SUNW_syminfo': ('SUNWSyminfoTableSection', 'symtab'),
    'SHT_GNU_verneed': ('GNUVerNeedSection', 'strtab'),
    'SHT_GNU_verdef': ('GNUVerDefSection', 'strtab'),
    'SHT_GNU_versym': ('GNUVerSymSection', 'symtab'),
    'SHT_REL': ('RelocationSection', None),
    'SHT_RELA': ('RelocationSection', None),
    'SHT_DYNAMIC': ('DynamicSection', None),
    'SHT_NOTE': ('NoteSection', None),
    'SHT_ARM_ATTRIBUTES': ('ARMAttributesSection', None),
    'SHT_RISCV_ATTRIBUTES': ('RISCVAttributesSection', None),
    'SHT_HASH': ('ELFHashSection', 'symtab'),
    'SHT_GNU_HASH': ('GNUHashSection', 'symtab'),
    'SHT_RELR': ('RelrRelocationSection', None),
}
MAKE_SECTION_STAB = ('SHT_PROGBITS', '.stab', 'StabSection')
MAKE_SECTION_ELSE = 'Section'

MAKE_SEGMENT = {'PT_INTERP': 'InterpSegment', 'PT_DYNAMIC': 'DynamicSegment', 'PT_NOTE': 'NoteSegment'}
MAKE_SEGMENT_ELSE = 'Segment'

# gABI extended numbering: function -> (header field, escape value, fallback field of section header 0)
EXT_NUMBERING = {
    'num_sections': ('e_shnum', 0, 'sh_size'),
    'num_segments': ('e_phnum', 0xffff, 'sh_info'),
    'get_shstrndx': ('e_shstrndx', 0xffff, 'sh_link'),
}

# linked-section validators: helper -> accepted target types
LINK_VALIDATORS = {
    '_get_linked_strtab_section': ('SHT_STRTAB',),
    '_get_linked_symtab_section': ('SHT_SYMTAB', 'SHT_DYNSYM'),
}
