"""C10 -- answers do not depend on query history or stream position.

Histories are not explored (static analysis does not explore histories); decided are the two structural conditions
that make history matter (DESIGN.md §3 C10):
 1. cursor independence: H-CUR / H-YIELD over every function of the package;
 2. cache transparency: J-PAIR, J-BISECT, J-KEY, J-WHO, J-PURE over every lazily built cache and navigation link.
"""
import ast
from sa.canon import U
from sa.world import get_world
from sa import expr, paths, dispatch, hrules, cursor, partial
from sa.model import walk_no_nested
from sa.report import AnalysisError

DI = 'dwarf/dwarfinfo.py'
PAIRS = [('dwarf/dwarfinfo.py', 'DWARFInfo', '_cu_offsets_map', '_cu_cache'),
         ('dwarf/compileunit.py', 'CompileUnit', '_diemap', '_dielist'),
         ('dwarf/typeunit.py', 'TypeUnit', '_diemap', '_dielist')]
MUTATORS = ('insert', 'append', 'pop', 'remove', 'clear', 'sort', 'extend', 'reverse', '__setitem__', '__delitem__')

# who may write which attribute / construct which identity-carrying object (frozen from reading; DESIGN.md B.3)
WRITERS = {
    '_parent': {('dwarf/die.py', 'DIE.__init__'), ('dwarf/die.py', 'DIE.set_parent')},
    '_terminator': {('dwarf/die.py', 'DIE.__init__'), ('dwarf/compileunit.py', 'CompileUnit.iter_DIE_children'), ('dwarf/typeunit.py', 'TypeUnit.iter_DIE_children')},
    '_section_name_map': {('elf/elffile.py', 'ELFFile.__init__'), ('elf/elffile.py', 'ELFFile._make_section_name_map')},
    '_symbol_name_map': {('elf/sections.py', 'SymbolTableSection.__init__'), ('elf/sections.py', 'SymbolTableSection.get_symbol_by_name'),
                         ('elf/dynamic.py', 'DynamicSegment.__init__'), ('elf/dynamic.py', 'DynamicSegment.get_symbol_by_name')},
    '_cu_cache': {(DI, 'DWARFInfo.__init__'), (DI, 'DWARFInfo._cached_CU_at_offset')},
    '_cu_offsets_map': {(DI, 'DWARFInfo.__init__'), (DI, 'DWARFInfo._cached_CU_at_offset')},
    '_abbrevtable_cache': {(DI, 'DWARFInfo.__init__'), (DI, 'DWARFInfo.get_abbrev_table')},
    '_linetable_cache': {(DI, 'DWARFInfo.__init__'), (DI, 'DWARFInfo._parse_line_program_at_offset')},
    '_type_units_by_sig': {(DI, 'DWARFInfo.__init__'), (DI, 'DWARFInfo._parse_debug_types')},
    '_dielist': {('dwarf/compileunit.py', 'CompileUnit.__init__'), ('dwarf/compileunit.py', 'CompileUnit.get_top_DIE'), ('dwarf/compileunit.py', 'CompileUnit._get_cached_DIE'),
                 ('dwarf/typeunit.py', 'TypeUnit.__init__'), ('dwarf/typeunit.py', 'TypeUnit.get_top_DIE'), ('dwarf/typeunit.py', 'TypeUnit._get_cached_DIE')},
    '_diemap': {('dwarf/compileunit.py', 'CompileUnit.__init__'), ('dwarf/compileunit.py', 'CompileUnit.get_top_DIE'), ('dwarf/compileunit.py', 'CompileUnit._get_cached_DIE'),
                ('dwarf/typeunit.py', 'TypeUnit.__init__'), ('dwarf/typeunit.py', 'TypeUnit.get_top_DIE'), ('dwarf/typeunit.py', 'TypeUnit._get_cached_DIE')},
    '_abbrev_table': {('dwarf/compileunit.py', 'CompileUnit.__init__'), ('dwarf/compileunit.py', 'CompileUnit.get_abbrev_table'),
                      ('dwarf/typeunit.py', 'TypeUnit.__init__'), ('dwarf/typeunit.py', 'TypeUnit.get_abbrev_table')},
    '_entry_cache': {('dwarf/callframe.py', 'CallFrameInfo.__init__'), ('dwarf/callframe.py', 'CallFrameInfo._parse_entry_at')},
    '_decoded_table': {('dwarf/callframe.py', 'CFIEntry.__init__'), ('dwarf/callframe.py', 'CFIEntry.get_decoded')},
    '_decoded_entries': {('dwarf/lineprogram.py', 'LineProgram.__init__'), ('dwarf/lineprogram.py', 'LineProgram.get_entries')},
    '_cached_relocations': {('elf/relocation.py', 'RelrRelocationTable.__init__'), ('elf/relocation.py', 'RelrRelocationTable.num_relocations'),
                            ('elf/relocation.py', 'RelrRelocationTable.get_relocation')},
    '_num_tags': {('elf/dynamic.py', 'Dynamic.__init__'), ('elf/dynamic.py', 'Dynamic.num_tags')},
    '_stringtable': {('elf/dynamic.py', 'Dynamic.__init__'), ('elf/dynamic.py', 'Dynamic._get_stringtable')},
    '_num_symbols': {('elf/dynamic.py', 'DynamicSegment.__init__'), ('elf/dynamic.py', 'DynamicSegment.num_symbols')},
    '_has_indexes': {('elf/gnuversions.py', 'GNUVerNeedSection.__init__'), ('elf/gnuversions.py', 'GNUVerNeedSection.has_indexes')},
    '_structs_cache': {('dwarf/structs.py', 'DWARFStructs.__new__')},
    '_entries': {('dwarf/namelut.py', 'NameLUT.__init__'), ('dwarf/namelut.py', 'NameLUT.set_entries')} | set(
        ('dwarf/namelut.py', 'NameLUT.' + m) for m in ('get_entries', '__len__', '__getitem__', '__iter__', 'items', 'get', 'get_cu_headers')),
    '_cu_headers': {('dwarf/namelut.py', 'NameLUT.__init__'), ('dwarf/namelut.py', 'NameLUT.set_entries')} | set(
        ('dwarf/namelut.py', 'NameLUT.' + m) for m in ('get_entries', '__len__', '__getitem__', '__iter__', 'items', 'get', 'get_cu_headers')),
    '_num_entry': {('ehabi/ehabiinfo.py', 'EHABIInfo.__init__'), ('ehabi/ehabiinfo.py', 'EHABIInfo.num_entry')},
}
CONSTRUCTORS = {
    'DIE': {('dwarf/compileunit.py', 'CompileUnit.get_top_DIE'), ('dwarf/compileunit.py', 'CompileUnit._get_cached_DIE'),
            ('dwarf/typeunit.py', 'TypeUnit.get_top_DIE'), ('dwarf/typeunit.py', 'TypeUnit._get_cached_DIE'),
            # throwaway entry read for a description string only (abbrev code and tag), never handed out, under preserve_stream_pos
            ('dwarf/descriptions.py', '_import_extra')},
    'CompileUnit': {(DI, 'DWARFInfo._parse_CU_at_offset')},
    'TypeUnit': {(DI, 'DWARFInfo._parse_TU_at_offset')},
    'AbbrevTable': {(DI, 'DWARFInfo.get_abbrev_table')},
    'LineProgram': {(DI, 'DWARFInfo._parse_line_program_at_offset')},
}
# lazily run bodies: (module, function, own cache slots)
LAZY = [
    ('elf/elffile.py', 'ELFFile._make_section_name_map', {'_section_name_map'}),
    ('dwarf/lineprogram.py', 'LineProgram._decode_line_program', {'_decoded_entries'}),
    ('dwarf/callframe.py', 'CFIEntry._decode_CFI_table', {'_decoded_table'}),
    ('dwarf/callframe.py', 'CallFrameInfo._parse_entries', {'entries', '_entry_cache'}),
    ('dwarf/namelut.py', 'NameLUT._get_entries', {'_entries', '_cu_headers'}),
    ('dwarf/dwarfinfo.py', 'DWARFInfo._parse_debug_types', {'_type_units_by_sig'}),
    ('elf/relocation.py', 'RelrRelocationTable.iter_relocations', {'_cached_relocations'}),
    ('dwarf/abbrevtable.py', 'AbbrevTable._parse_abbrev_table', {'_abbrev_map'}),
    ('dwarf/aranges.py', 'ARanges._get_entries', {'entries'}),
]
# J-KEY exceptions: one symbol, one reason
KEY_EXC = {
    (DI, 'DWARFInfo._parse_line_program_at_offset', 'structs'):
        'for well-formed DWARF the unit parameters of a line program are a function of its statement-list offset',
}


def run(ctx):
    w = get_world(ctx)
    ctx.explanation.append(
        'C10: stream-cursor typestate (K/D/E/U per alias class, effect summaries over the call graph, yield rule, public-entry '
        'preconditions) over every function of elftools (H-CUR/H-YIELD); parallel cache arrays mutated only pairwise at the same '
        'index (J-PAIR); bisect probes guarded and paired with bisect_right (J-BISECT); memo keys complete (J-KEY); cache attributes, '
        'navigation links and identity-carrying constructors written only in their designated methods (J-WHO); lazily run bodies '
        'write nothing but their own cache slot (J-PURE).')
    ctx.assumptions += ['distinct section descriptors hold distinct streams (one BytesIO per debug section, checked under C11)',
                        'receiver hints and named cursor exceptions of sa/cursor.py',
                        'equality of results under actual interleavings is a model-checking/runtime question: not decided']
    for r, d in (('H-CUR', 'no relative stream use at an unknown position; no public entry reads before positioning'),
                 ('H-YIELD', 'no generator resumes into a relative use'), ('J-PAIR', 'parallel arrays mutated pairwise at the same index'),
                 ('J-BISECT', 'bisect probes guarded'), ('J-KEY', 'memo value depends only on the key'),
                 ('J-WHO', 'caches/links/identity objects written only in designated methods'), ('J-PURE', 'lazy bodies write only their own cache')):
        ctx.rule(r, d)
    ctx.guard('H-CUR', 'cursor', hrules.run_h, ctx, w)
    ctx.floor('H-CUR', 80)
    cur = hrules.cursor_of(w)
    for k in sorted(cursor.EXC_REL):
        ctx.note('cursor exception (relative use): %s -- %s%s' % (k, cursor.EXC_REL[k], '' if k in cur.used_exceptions else ' [UNUSED]'))
    for k in sorted(cursor.EXC_EDGE):
        ctx.note('cursor exception (call edge): %s -- %s%s' % (k, cursor.EXC_EDGE[k], '' if k in cur.used_exceptions else ' [UNUSED]'))
    for k in list(cursor.EXC_REL) + list(cursor.EXC_EDGE):
        if k not in cur.used_exceptions:
            ctx.error('H-CUR', '%s:%s' % (k[0], k[1]), 'named cursor exception no longer matches any construct (anchor vanished): %s' % (k[2],))
    st = cur.stats
    if st['stream_ops'] < 250 or st['yields'] < 40:
        ctx.error('H-CUR', 'package', 'too few stream operations/yields analysed: %r' % (st,))
    ctx.rule('H-PRES', 'nested parses at foreign positions stay inside preserve_stream_pos')
    ctx.guard('H-PRES', 'preserve sites', check_preserve, ctx, w)
    ctx.floor('H-PRES', 3)
    ctx.guard('J-PAIR', 'pairs', check_pairs, ctx, w)
    ctx.floor('J-PAIR', 6)
    ctx.guard('J-BISECT', 'bisect', check_bisect, ctx, w)
    # get_CU_containing walks from the nearest cached unit: only a half-open extent test selects the same unit whatever the
    # cache held (rule owned by C04/C13, shared)
    from props import C04
    ctx.guard('J-BISECT', 'unit containing an offset', C04.check_cu_containing, ctx, w, 'J-BISECT')
    ctx.floor('J-BISECT', 5)
    ctx.guard('J-KEY', 'memo keys', check_keys, ctx, w)
    ctx.floor('J-KEY', 4)
    ctx.guard('J-WHO', 'writers', check_who, ctx, w)
    ctx.floor('J-WHO', 29)
    ctx.guard('J-PURE', 'lazy bodies', check_pure, ctx, w)
    ctx.floor('J-PURE', 8)
    ctx.rule('J-SHARED', 'parse-time methods of (shared, cached) constructs write nothing onto the construct')
    ctx.rule('J-ALIAS', 'containers owned by another (cached) object are copied before they are changed')
    ctx.guard('J-SHARED', 'constructs', check_shared, ctx, w)
    ctx.guard('J-ALIAS', 'aliases', check_alias, ctx, w)
    ctx.floor('J-ALIAS', 1)
    ctx.floor('J-SHARED', 7)
    ctx.rule('J-LAZY', 'a lazily computed private slot is read only in its accessor, after the accessor ran, or in the sentinel test that makes it run')
    ctx.guard('J-LAZY', 'lazy slots', check_lazy, ctx, w)
    ctx.floor('J-LAZY', 6)
    ctx.rule('J-PARTIAL', 'no container kept on an object is observable half-filled: not filled between yields, and incremental caches are read by key only')
    ctx.guard('J-PARTIAL', 'partial containers', partial.check_partial, ctx, w)
    ctx.floor('J-PARTIAL', 9)


# nested parse at a position unrelated to the caller's sequential parse: must run under preserve_stream_pos
PRESERVE_SITES = [
    ('dwarf/callframe.py', 'CallFrameInfo._parse_cie_for_fde', 'self.stream', '_parse_entry_at'),
    ('dwarf/dwarf_util.py', '_resolve_via_offset_table', 'stream', 'struct_parse'),
    ('dwarf/descriptions.py', '_import_extra', 'die.stream', 'DIE'),
]


def check_preserve(ctx, w):
    for mod, q, stream, inner in PRESERVE_SITES:
        f = w.model.func(mod, q)
        calls = [n for n in walk_no_nested(f.node) if isinstance(n, ast.Call) and (dispatch.callee_name(n) or '').split('.')[-1] == inner]
        if not calls:
            raise AnalysisError('H-PRES', f.construct, 'protected call %s not found' % inner)
        withs = [n for n in walk_no_nested(f.node) if isinstance(n, ast.With) and any(
            isinstance(it.context_expr, ast.Call) and dispatch.callee_name(it.context_expr) == 'preserve_stream_pos' and
            it.context_expr.args and U(it.context_expr.args[0]) == stream for it in n.items)]
        ok = all(any(paths.contains_node(wn, c) for wn in withs) for c in calls)
        ctx.ob('H-PRES', f.construct, '%s inside preserve_stream_pos(%s)' % (inner, stream), ok,
               msg='a parse at a position unrelated to the caller\'s sequential parse must restore the stream position: the callers '
                   'continue reading where they were', line=f.node.lineno, sample='%s: %s under preserve_stream_pos(%s)' % (q, inner, stream))


def _mutations(fnode, attr):
    """[(kind, index-arg text, stmt)] of mutations of self.<attr> in a function"""
    out = []
    for st in walk_no_nested(fnode):
        if isinstance(st, ast.Expr) and isinstance(st.value, ast.Call) and isinstance(st.value.func, ast.Attribute) and \
                st.value.func.attr in MUTATORS and U(st.value.func.value) == 'self.' + attr:
            c = st.value
            out.append((c.func.attr, U(c.args[0]) if c.args else '', st))
        elif isinstance(st, ast.Assign):
            for t in st.targets:
                if isinstance(t, ast.Subscript) and U(t.value) == 'self.' + attr:
                    out.append(('setitem', U(t.slice), st))
                elif isinstance(t, ast.Attribute) and U(t) == 'self.' + attr:
                    out.append(('assign', U(st.value), st))
        elif isinstance(st, ast.Delete):
            for t in st.targets:
                if isinstance(t, ast.Subscript) and U(t.value) == 'self.' + attr:
                    out.append(('delitem', U(t.slice), st))
        elif isinstance(st, ast.AugAssign) and U(st.target) == 'self.' + attr:
            out.append(('augassign', '', st))
    return out


def check_pairs(ctx, w):
    for mod, cls, keys, vals in PAIRS:
        ci = w.model.cls(cls, mod)
        for mname, m in sorted(ci.methods.items()):
            mk = _mutations(m.node, keys)
            mv = _mutations(m.node, vals)
            if not mk and not mv:
                continue
            if mname == '__init__':
                ok = [x[0] for x in mk] == ['assign'] and [x[0] for x in mv] == ['assign'] and mk[0][1] == '[]' and mv[0][1] == '[]'
                ctx.ob('J-PAIR', m.construct, '%s/%s start empty together' % (keys, vals), ok)
                continue
            ok = len(mk) == len(mv)
            why = None
            if ok:
                for a, b in zip(sorted(mk, key=lambda x: x[2].lineno), sorted(mv, key=lambda x: x[2].lineno)):
                    if a[0] != b[0] or a[1] != b[1] or a[0] not in ('insert',):
                        ok = False
                        why = (a[:2], b[:2])
                    # adjacent statements in the same block
                    if abs(a[2].lineno - b[2].lineno) > 2 or not _same_block(m.node, a[2], b[2]):
                        ok = False
                        why = 'not adjacent in one block'
            ctx.ob('J-PAIR', m.construct, '%s/%s mutated together, same method and index' % (keys, vals), ok, got=why or ([x[:2] for x in mk], [x[:2] for x in mv]),
                   msg='the key array and the object array of a bisect cache must be updated together with insert(i, .) at the same index',
                   line=m.node.lineno, sample='%s: %s.insert(i,.) with %s.insert(i,.)' % (m.construct, keys, vals))
        # nobody outside the class touches them
        for f in w.model.library_funcs():
            if f.cls is ci or (f.cls is not None and f.cls.is_subclass_of(cls)):
                continue
            for n in ast.walk(f.node):
                if isinstance(n, ast.Attribute) and n.attr in (keys, vals) and isinstance(n.ctx, ast.Store) and \
                        not (isinstance(n.value, ast.Name) and n.value.id == 'self'):
                    ctx.ob('J-PAIR', f.construct, 'foreign write to %s' % n.attr, False)


def _same_block(fnode, a, b):
    for n in ast.walk(fnode):
        for fld in ('body', 'orelse', 'finalbody'):
            blk = getattr(n, fld, None)
            if isinstance(blk, list) and a in blk and b in blk:
                return True
    return False


def check_bisect(ctx, w):
    sites = []
    for f in w.model.library_funcs():
        for n in walk_no_nested(f.node):
            if isinstance(n, ast.Call) and isinstance(n.func, ast.Name) and n.func.id in ('bisect_right', 'bisect_left', 'bisect', 'insort', 'insort_right', 'insort_left'):
                sites.append((f, n))
    for f, n in sites:
        env = expr.FEnv(f.node, inline=False)
        ctx.ob('J-BISECT', f.construct, 'flavour bisect_right (probe [i-1])', n.func.id == 'bisect_right', got=n.func.id,
               msg='the hit tests of this repository probe keys[i-1]; that pairs only with bisect_right')
        # the [i-1] probe of a possibly empty list must be guarded.  A site whose index is bound to a name is judged by the
        # paired-cache rule below (guard i >= 1 or a preceding get_top_DIE()); a site used directly as a subscript needs the list
        # to be known non-empty on every path that reaches it
        bound = any(isinstance(st, ast.Assign) and st.value is n for st in ast.walk(f.node))
        if bound:
            ok = True
        else:
            ok = True
            reach = paths.paths_reaching(f.node, n)
            for p in reach:
                facts = expr.Facts(expr.CP(expr.cond_str(t, env), pol) for t, pol in p.conds())
                if not any(v is True and k.startswith('T(') for k, v in facts.items()):
                    ok = False
            ok = ok and bool(reach)
        ctx.ob('J-BISECT', f.construct, 'probe guarded (i >= 1 / non-empty)', ok, msg='[i-1] probe of a possibly empty key list is not guarded',
               sample='%s: bisect_right probe guarded' % f.construct)
    ctx.ob('J-BISECT', 'package', 'bisect sites found', len(sites) >= 5, got=len(sites))
    # paired bisect caches (PAIRS): hit test, guarded probe, miss inserts, and the "top DIE sits at index 0" invariant
    n_pair_sites = 0
    for mod, cls, keys, vals in PAIRS:
        ci = w.model.cls(cls, mod)
        for mname, m in sorted(ci.methods.items()):
            for st in walk_no_nested(m.node):
                if isinstance(st, ast.Assign) and isinstance(st.value, ast.Call) and isinstance(st.value.func, ast.Name) and \
                        st.value.func.id.startswith('bisect') and len(st.value.args) == 2 and U(st.value.args[0]) == 'self.' + keys and \
                        isinstance(st.targets[0], ast.Name):
                    n_pair_sites += 1
                    _pair_site(ctx, w, ci, m, st, keys, vals)
        top = ci.find_method('get_top_DIE')
        if top is not None and top.cls is ci:
            _top_invariant(ctx, w, ci, top, keys, vals)
    ctx.ob('J-BISECT', 'package', 'paired bisect cache sites found', n_pair_sites >= 4, got=n_pair_sites)


def _conjuncts(test, pol):
    """atomic (test, polarity) facts implied by a branch outcome: a true `a and b` gives a, b; a false `a or b` gives !a, !b"""
    if isinstance(test, ast.BoolOp) and ((isinstance(test.op, ast.And) and pol) or (isinstance(test.op, ast.Or) and not pol)):
        out = []
        for v in test.values:
            out += _conjuncts(v, pol)
        return out
    if isinstance(test, ast.UnaryOp) and isinstance(test.op, ast.Not):
        return _conjuncts(test.operand, not pol)
    return [(test, pol)]


def _pair_site(ctx, w, ci, m, st, keys, vals):
    ivar = st.targets[0].id
    key = U(st.value.args[1])
    env = expr.FEnv(m.node, inline=False)
    probe = 'self.%s[%s - 1]' % (keys, ivar)
    hit_val = 'self.%s[%s - 1]' % (vals, ivar)
    eq = expr.spec_cond('%s == %s' % (key, probe))
    pos = (expr.spec_cond('%s >= 1' % ivar), expr.spec_cond('%s > 0' % ivar))
    hit_paths = miss_paths = 0
    ok_hit = ok_guard = ok_miss = True
    why = None
    for p in paths.func_paths(m.node):
        facts = []          # (cond_str, polarity) in order
        seen_site = False
        top_called = False
        for ev in p.events + [('end',) + tuple(p.end)]:
            node = ev[1] if len(ev) > 1 and isinstance(ev[1], ast.AST) else None
            if node is st:
                seen_site = True
                continue
            if node is not None and not seen_site:
                if any(isinstance(c, ast.Call) and U(c.func) == 'self.get_top_DIE' for c in ast.walk(node)):
                    top_called = True
                continue
            if not seen_site or node is None:
                continue
            if ev[0] == 'cond':
                # evaluation order inside a conjunction: the probe must follow the guard
                conj = _conjuncts(node, ev[2]) if ev[2] or isinstance(node, ast.BoolOp) else [(node, ev[2])]
                atoms = node.values if isinstance(node, ast.BoolOp) and isinstance(node.op, ast.And) else [node]
                guarded = top_called or any(c in pos and pl for c, pl in facts)
                for a in atoms:
                    if probe in U(a) and not guarded:
                        ok_guard = False
                        why = 'probe %s evaluated without %s >= 1 / get_top_DIE()' % (probe, ivar)
                    if expr.cond_str(a, env) in pos:
                        guarded = True
                for t, pl in conj:
                    facts.append((expr.cond_str(t, env), pl))
                continue
            src = U(node)
            if hit_val in src:
                hit_paths += 1
                if (eq, True) not in facts:
                    ok_hit = False
                    why = 'value %s used without the test %s == %s' % (hit_val, key, probe)
            ins_k = [c for c in ast.walk(node) if isinstance(c, ast.Call) and U(c.func) == 'self.%s.insert' % keys]
            for c in ins_k:
                miss_paths += 1
                if (eq, True) in facts or [U(a) for a in c.args] != [ivar, key]:
                    ok_miss = False
                    why = 'insert(%s) on a hit path or not at (%s, %s)' % (', '.join(U(a) for a in c.args), ivar, key)
                # the object list is updated on the same path, by insert at the same index
                vcalls = [x for e2 in p.events if len(e2) > 1 and isinstance(e2[1], ast.AST) for x in ast.walk(e2[1])
                          if isinstance(x, ast.Call) and isinstance(x.func, ast.Attribute) and U(x.func.value) == 'self.%s' % vals and x.func.attr in MUTATORS]
                if len(vcalls) != 1 or vcalls[0].func.attr != 'insert' or len(vcalls[0].args) != 2 or U(vcalls[0].args[0]) != ivar:
                    ok_miss = False
                    why = 'object list %s not updated by insert(%s, .) on the miss path: %s' % (vals, ivar, [U(x) for x in vcalls])
    flavour = st.value.func.id
    if hit_paths == 0 and miss_paths == 0:
        # the index only selects a start key (get_CU_containing): the probe guard is the whole obligation
        ctx.ob('J-BISECT', m.construct, 'start-key probe guarded', ok_guard and flavour == 'bisect_right', got=why, line=st.lineno,
               msg='[i-1] probe of a possibly empty key list is not guarded')
        return
    ctx.ob('J-BISECT', m.construct, 'paired cache: %s[i-1] returned only when the key matches' % vals, ok_hit and hit_paths > 0 and flavour == 'bisect_right',
           got=why or (hit_paths, flavour), line=st.lineno, msg='random access and sequential iteration must meet in this one cache site: a hit returns the cached object '
           'exactly when keys[i-1] equals the requested key', sample='%s: hit iff %s == %s' % (m.construct, key, probe))
    ctx.ob('J-BISECT', m.construct, 'paired cache: probe guarded', ok_guard, got=why, line=st.lineno, msg='[i-1] probe of a possibly empty key list is not guarded')
    ctx.ob('J-BISECT', m.construct, 'paired cache: miss inserts the key at the bisect index', ok_miss and miss_paths > 0, got=why or miss_paths, line=st.lineno,
           msg='a miss must insert the new object at the bisect index with exactly the requested key, and never on a hit path')


def _top_invariant(ctx, w, ci, top, keys, vals):
    """get_top_DIE answers `self.<vals>[0]` whenever the cache is non-empty: so every other insert must come after a
    get_top_DIE() call on its path (the top DIE has the smallest offset of the unit, bisect keeps it at index 0)."""
    env = expr.FEnv(top.node, inline=False)
    off = [a for a in ('cu_die_offset', 'tu_die_offset') if ('self.' + a) in U(top.node)]
    cached = fresh = 0
    ok = True
    why = None
    for p in paths.func_paths(top.node):
        facts = [(expr.cond_str(t, env), pl) for t, pl in p.conds()]
        ins = [(U(c.func), [U(a) for a in c.args]) for s in p.stmts() for c in ast.walk(s)
               if isinstance(c, ast.Call) and isinstance(c.func, ast.Attribute) and c.func.attr == 'insert']
        if ('T(_%s)' % keys.lstrip('_'), True) in facts or ('T(%s)' % keys, True) in facts:
            cached += 1
            if p.end[0] != 'return' or U(p.end[1]) != 'self.%s[0]' % vals or ins:
                ok = False
                why = 'cached path does not return %s[0]' % vals
        elif p.end[0] == 'return':
            fresh += 1
            kk = [a for f_, a in ins if f_ == 'self.%s.insert' % keys]
            vv = [a for f_, a in ins if f_ == 'self.%s.insert' % vals]
            if len(kk) != 1 or len(vv) != 1 or kk[0][0] != '0' or vv[0][0] != '0' or not off or kk[0][1] != 'self.' + off[0] or \
                    U(p.end[1]) != vv[0][1]:
                ok = False
                why = ('fresh path inserts', kk, vv)
    ctx.ob('J-BISECT', top.construct, 'top DIE cached at index 0 with its offset', ok and cached >= 1 and fresh >= 1, got=why or (cached, fresh), line=top.node.lineno,
           msg='get_top_DIE must return the index-0 entry when the cache is non-empty and otherwise insert the parsed top DIE at index 0 under its own offset')
    n = 0
    for mname, m in sorted(ci.methods.items()):
        if m is top:
            continue
        for c in walk_no_nested(m.node):
            if isinstance(c, ast.Call) and U(c.func) in ('self.%s.insert' % keys, 'self.%s.append' % keys):
                n += 1
                dom = True
                for p in paths.paths_reaching(m.node, c):
                    if not any(isinstance(x, ast.Call) and U(x.func) == 'self.get_top_DIE' for e in p.events if len(e) > 1 and isinstance(e[1], ast.AST)
                               for x in ast.walk(e[1])):
                        dom = False
                ctx.ob('J-BISECT', m.construct, 'insert into %s dominated by get_top_DIE()' % keys, dom, line=c.lineno,
                       msg='get_top_DIE() answers %s[0] whenever the cache is non-empty: a random access that caches another DIE first makes every later '
                           'top-DIE query (iteration, parent links, line programs) start from the wrong DIE' % vals,
                       sample='%s: every path to %s.insert passes get_top_DIE()' % (m.construct, keys))
    ctx.ob('J-BISECT', ci.name, 'random-access insert sites found', n >= 1, got=n)


ALIAS_MUTATORS = ('append', 'insert', 'extend', 'pop', 'remove', 'sort', 'clear', 'update', 'setdefault', 'popitem', 'add', 'discard', 'reverse')
ALIAS_COPIERS = ('copy', 'deepcopy', 'list', 'dict', 'set', 'tuple', 'sorted', 'bytearray', 'frozenset')


def _alias_sites(fnode):
    """[(local, source text, mutation node)]: a local bound to a field of another object (x = obj.attr / obj[k] / call().attr,
    not through a copying call) and then changed in place (mutator method, item store/delete) -- in the function or in a
    closure nested in it"""
    def root(n):
        while isinstance(n, (ast.Attribute, ast.Subscript)):
            n = n.value
        return n
    alias = {}
    rebound = {}
    for st in ast.walk(fnode):
        if isinstance(st, ast.Assign) and len(st.targets) == 1 and isinstance(st.targets[0], ast.Name):
            nm = st.targets[0].id
            rebound[nm] = rebound.get(nm, 0) + 1
            v = st.value
            if isinstance(v, (ast.Attribute, ast.Subscript)) and not isinstance(v, ast.Constant):
                r = root(v)
                if isinstance(r, ast.Call) or (isinstance(r, ast.Name) and r.id != 'self'):
                    alias.setdefault(nm, []).append(U(v))
    out = []
    for n in ast.walk(fnode):
        tgt = None
        if isinstance(n, ast.Call) and isinstance(n.func, ast.Attribute) and n.func.attr in ALIAS_MUTATORS and isinstance(n.func.value, ast.Name) and \
                n.func.value.id in alias:
            tgt = n.func.value.id
        elif isinstance(n, (ast.Assign, ast.Delete)):
            for t in n.targets:
                if isinstance(t, ast.Subscript) and isinstance(t.value, ast.Name) and t.value.id in alias:
                    tgt = t.value.id
        if tgt:
            out.append((tgt, alias[tgt], n))
    return out


def check_alias(ctx, w):
    """A decoded table / header / list obtained from another object (typically a cached one: cie.get_decoded(), a unit's
    header, a parent's list) is shared state: changing it in place changes what every other holder sees later, so the answer to
    an identical query depends on what was decoded before.  Expected count on a correct tree is zero; the copying idiom
    (copy.copy / list(...)) is what the code uses, and those sites are counted as the rule's instances."""
    n_copy = 0
    for f in w.model.library_funcs():
        if f.mod.startswith('elftools/construct/') or '<locals>' in f.qual:
            continue
        for nm, srcs, node in _alias_sites(f.node):
            ctx.ob('J-ALIAS', f.construct, '%s (alias of %s) changed in place' % (nm, srcs[0][:50]), False, line=node.lineno, got=U(node)[:80],
                   msg='a container that belongs to another object is changed in place through a local alias: every other holder of '
                       'that object (a cached CIE table shared by its FDEs, a shared header) sees the change, so identical queries answer '
                       'differently depending on what was decoded before; copy it first')
        # the copying idiom: x = copy.copy(obj.attr) / list(obj.attr) followed by an in-place change of x
        for st in ast.walk(f.node):
            if isinstance(st, ast.Assign) and len(st.targets) == 1 and isinstance(st.targets[0], ast.Name) and isinstance(st.value, ast.Call):
                cn = st.value.func.attr if isinstance(st.value.func, ast.Attribute) else (st.value.func.id if isinstance(st.value.func, ast.Name) else None)
                if cn in ALIAS_COPIERS and st.value.args and isinstance(st.value.args[0], (ast.Attribute, ast.Subscript)):
                    r = st.value.args[0]
                    while isinstance(r, (ast.Attribute, ast.Subscript)):
                        r = r.value
                    if isinstance(r, ast.Call) or (isinstance(r, ast.Name) and r.id != 'self'):
                        nm = st.targets[0].id
                        changed = any(isinstance(x, ast.Call) and isinstance(x.func, ast.Attribute) and x.func.attr in ALIAS_MUTATORS and
                                      isinstance(x.func.value, ast.Name) and x.func.value.id == nm for x in ast.walk(f.node)) or \
                            any(isinstance(x, ast.Subscript) and isinstance(x.ctx, ast.Store) and isinstance(x.value, ast.Name) and x.value.id == nm for x in ast.walk(f.node))
                        if changed:
                            n_copy += 1
                            ctx.ob('J-ALIAS', f.construct, '%s copied from %s before it is changed' % (nm, U(st.value.args[0])[:50]), True,
                                   sample='%s: %s = %s' % (f.construct, nm, U(st.value)[:60]))
    ctx.analysed['copy_before_change_sites'] = n_copy


def check_keys(ctx, w):
    """Pattern: if K in self.C: return self.C[K] ... self.C[K] = V  -- V depends on no parameter outside K."""
    n_sites = 0
    for f in w.model.library_funcs():
        params = [a.arg for a in f.node.args.args if a.arg not in ('self', 'cls')]
        if not params:
            continue
        for n in walk_no_nested(f.node):
            if isinstance(n, ast.If) and isinstance(n.test, ast.Compare) and len(n.test.ops) == 1 and isinstance(n.test.ops[0], (ast.In, ast.NotIn)):
                cache = n.test.comparators[0]
                cs = U(cache)
                # the cache may be reached through a local alias and may live on another object (cu.dwarfinfo._cache):
                # what makes it a memo is a private container that is tested for the key and stored under it
                resolved = cs
                if isinstance(cache, ast.Name):
                    defs0 = [st.value for st in walk_no_nested(f.node) if isinstance(st, ast.Assign) and len(st.targets) == 1 and
                             isinstance(st.targets[0], ast.Name) and st.targets[0].id == cache.id]
                    if len(defs0) == 1 and isinstance(defs0[0], ast.Attribute):
                        resolved = U(defs0[0])
                if not ((resolved.startswith('self._') or resolved.startswith('cls._')) or
                        ('.' in resolved and resolved.rsplit('.', 1)[1].startswith('_') and not resolved.rsplit('.', 1)[1].startswith('__'))):
                    continue
                key = n.test.left
                stores = [s for s in walk_no_nested(f.node) if isinstance(s, ast.Assign) and isinstance(s.targets[0], ast.Subscript) and
                          U(s.targets[0].value) == cs]
                if not stores:
                    continue
                n_sites += 1
                key_names = set(x.id for x in ast.walk(key) if isinstance(x, ast.Name))
                env = expr.FEnv(f.node)
                # expand key through single-assignment locals
                frontier = set(key_names)
                for k in list(key_names):
                    if k in env.defs:
                        frontier |= set(x.id for x in ast.walk(env.defs[k]) if isinstance(x, ast.Name))
                dep = _param_deps(f.node, stores[0].value, params, env)
                extra = sorted(p for p in dep if p not in frontier)
                excused = [p for p in extra if (f.mod.replace('elftools/', ''), f.qual, p) in KEY_EXC]
                for p in excused:
                    ctx.note('J-KEY exception %s %s: %s' % (f.construct, p, KEY_EXC[(f.mod.replace('elftools/', ''), f.qual, p)]))
                extra = [p for p in extra if p not in excused]
                # field-level: data attributes the value reads from non-self objects must also feed the key
                # (unless the key holds the whole parameter they come from)
                vattrs = _data_attrs(stores[0].value, env)
                kattrs = _data_attrs(key, env)
                whole = set(x.id for x in ast.walk(key) if isinstance(x, ast.Name) and x.id in params) | set(
                    p for k in key_names if k in env.defs for p in params if any(isinstance(x, ast.Name) and x.id == p and not _is_attr_base(env.defs[k], x)
                                                                                  for x in ast.walk(env.defs[k])))
                missing = sorted(a for a, roots in vattrs.items() if a not in kattrs and roots and not (roots & whole) and
                                 not any((f.mod.replace('elftools/', ''), f.qual, r) in KEY_EXC for r in roots))
                if missing:
                    extra = extra + ['field ' + a for a in missing]
                ctx.ob('J-KEY', f.construct, 'cache %s keyed by %s' % (cs, U(key)), not extra, got=extra,
                       msg='the cached value depends on a parameter that is not part of the cache key: a later call with another '
                           'value of it gets the stale answer', line=n.lineno, sample='%s: value depends only on %s' % (f.construct, sorted(frontier)))
    ctx.analysed['memo_sites'] = n_sites
    # one cache, one key, one producer: stores into the same private container under the same key expression must store the same
    # expression.  Two different producers under one key (the table of this file / of the supplementary file, both by bare offset)
    # mean the key does not say which of them answered first.  Also covers the `v = C.get(K); if v is None: v = C[K] = E` idiom.
    n_prod = 0
    for f in w.model.library_funcs():
        alias = {}
        for st in walk_no_nested(f.node):
            if isinstance(st, ast.Assign) and len(st.targets) == 1 and isinstance(st.targets[0], ast.Name) and isinstance(st.value, ast.Attribute):
                alias.setdefault(st.targets[0].id, set()).add(U(st.value))
        groups = {}
        for st in walk_no_nested(f.node):
            if not isinstance(st, ast.Assign):
                continue
            for t in st.targets:
                if not isinstance(t, ast.Subscript):
                    continue
                c = t.value
                res = U(c)
                if isinstance(c, ast.Name):
                    if len(alias.get(c.id, ())) != 1:
                        continue
                    res = list(alias[c.id])[0]
                last = res.rsplit('.', 1)[-1]
                if '.' not in res or not last.startswith('_') or last.startswith('__'):
                    continue
                groups.setdefault((res, U(t.slice)), []).append(st)
        for (res, key), sts in sorted(groups.items()):
            vals = sorted(set(U(x.value) for x in sts))
            n_prod += 1
            ctx.ob('J-KEY', f.construct, 'cache %s[%s] has one producer' % (res, key), len(vals) == 1, got=vals[:3], line=sts[0].lineno,
                   msg='the same private container receives, under the same key expression, values from different producers: whichever '
                       'ran first answers for the other as well', sample='%s: %s[%s] = %s' % (f.construct, res, key, vals[0][:60]))
    ctx.analysed['memo_producer_sites'] = n_prod
    # memos shared by all instances (a module-level or class-level container): what an instance method stores there is computed from
    # that instance; every attribute of `self` the method branches on decides the value and has to be part of the key
    n_shared = 0
    for f in w.model.library_funcs():
        tree = w.model.trees.get(f.mod)
        if tree is None or not f.node.args.args or f.node.args.args[0].arg != 'self':
            continue
        modlevel = set(t.id for st in tree.body if isinstance(st, ast.Assign) and isinstance(st.value, (ast.Dict, ast.Call)) for t in st.targets if isinstance(t, ast.Name))
        env = expr.FEnv(f.node)
        for st in walk_no_nested(f.node):
            if not isinstance(st, ast.Assign):
                continue
            for t in st.targets:
                if not isinstance(t, ast.Subscript):
                    continue
                c = t.value
                shared = (isinstance(c, ast.Name) and c.id in modlevel) or \
                    (isinstance(c, ast.Attribute) and isinstance(c.value, ast.Name) and (c.value.id == 'cls' or c.value.id[:1].isupper())) or \
                    (isinstance(c, ast.Attribute) and U(c.value) in ('type(self)', 'self.__class__'))
                if not shared:
                    continue
                n_shared += 1
                knodes = [t.slice]
                for x in ast.walk(t.slice):
                    if isinstance(x, ast.Name) and x.id in env.defs:
                        knodes.append(env.defs[x.id])
                kattrs = set(x.attr for k in knodes for x in ast.walk(k) if isinstance(x, ast.Attribute) and isinstance(x.value, ast.Name) and x.value.id == 'self')
                tested = set()
                for n in walk_no_nested(f.node):
                    tests = [n.test] if isinstance(n, (ast.If, ast.IfExp, ast.While)) else []
                    for tt in tests:
                        for x in ast.walk(tt):
                            if isinstance(x, ast.Attribute) and isinstance(x.value, ast.Name) and x.value.id == 'self':
                                tested.add(x.attr)
                missing = sorted(tested - kattrs)
                ctx.ob('J-KEY', f.construct, 'shared memo %s keyed by every attribute of self the method branches on' % U(c), not missing, got=missing, line=st.lineno,
                       msg='a container shared by all instances is filled from one instance: the value depends on an attribute of self that is not part '
                           'of the key, so the instance that comes first decides for the others')
    ctx.analysed['shared_memo_sites'] = n_shared
    # lazy slots: if self._x is None: self._x = f()  -- f takes no parameter of the enclosing function
    for f in w.model.library_funcs():
        params = set(a.arg for a in f.node.args.args if a.arg not in ('self', 'cls'))
        for n in walk_no_nested(f.node):
            if isinstance(n, ast.If) and isinstance(n.test, ast.Compare) and isinstance(n.test.ops[0], ast.Is) and \
                    isinstance(n.test.comparators[0], ast.Constant) and n.test.comparators[0].value is None and \
                    isinstance(n.test.left, ast.Attribute) and U(n.test.left).startswith('self._'):
                slot = U(n.test.left)
                for s in n.body:
                    if isinstance(s, ast.Assign) and U(s.targets[0]) == slot:
                        used = set(x.id for x in ast.walk(s.value) if isinstance(x, ast.Name)) & params
                        ctx.ob('J-KEY', f.construct, 'lazy slot %s' % slot, not used, got=sorted(used),
                               msg='a lazily filled slot is computed from a parameter of the call that happens to come first')


def _is_attr_base(tree, name_node):
    for x in ast.walk(tree):
        if isinstance(x, (ast.Attribute, ast.Subscript)) and x.value is name_node:
            return True
    return False


def _data_attrs(value, env, depth=0, loopvars=None):
    """attribute names read from non-self objects in an expression (expanded through single-assignment locals and
    comprehension variables) -> {attr: set(root names)}"""
    out = {}
    loopvars = dict(loopvars or {})
    for x in ast.walk(value):
        if isinstance(x, (ast.ListComp, ast.GeneratorExp, ast.SetComp, ast.DictComp)):
            for g in x.generators:
                roots = set(n.id for n in ast.walk(g.iter) if isinstance(n, ast.Name))
                for t in ast.walk(g.target):
                    if isinstance(t, ast.Name):
                        loopvars[t.id] = roots
    for x in ast.walk(value):
        if isinstance(x, ast.Attribute) and isinstance(x.value, ast.Name) and x.value.id not in ('self', 'cls'):
            roots = loopvars.get(x.value.id, {x.value.id})
            out.setdefault(x.attr, set()).update(roots)
        elif isinstance(x, ast.Name) and x.id in env.defs and depth < 6:
            for a, r in _data_attrs(env.defs[x.id], env, depth + 1, loopvars).items():
                out.setdefault(a, set()).update(r)
    return out


def _param_deps(fnode, value, params, env, depth=0):
    out = set()
    for x in ast.walk(value):
        if isinstance(x, ast.Name):
            if x.id in params:
                out.add(x.id)
            elif x.id in env.defs and depth < 6:
                out |= _param_deps(fnode, env.defs[x.id], params, env, depth + 1)
    return out


def check_who(ctx, w):
    for attr, allowed in sorted(WRITERS.items()):
        writers = set()
        for f in w.model.library_funcs():
            for n in walk_no_nested(f.node):
                hit = False
                if isinstance(n, ast.Attribute) and n.attr == attr and isinstance(n.ctx, (ast.Store, ast.Del)):
                    hit = True
                elif isinstance(n, ast.Call) and isinstance(n.func, ast.Attribute) and n.func.attr in MUTATORS + ('update', 'setdefault') and \
                        isinstance(n.func.value, ast.Attribute) and n.func.value.attr == attr:
                    hit = True
                elif isinstance(n, ast.Subscript) and isinstance(n.ctx, (ast.Store, ast.Del)) and isinstance(n.value, ast.Attribute) and n.value.attr == attr:
                    hit = True
                elif isinstance(n, ast.Call) and isinstance(n.func, ast.Name) and n.func.id == 'setattr' and len(n.args) >= 2 and \
                        isinstance(n.args[1], ast.Constant) and n.args[1].value == attr:
                    hit = True
                if hit:
                    q = f.qual.split('.<locals>.')[0]
                    writers.add((f.mod.replace('elftools/', ''), q))
        extra = sorted(writers - allowed)
        ctx.ob('J-WHO', 'attribute ' + attr, 'written only in its designated methods', not extra, got=extra, expected=sorted(allowed),
               msg='a cache attribute / navigation link is written outside the methods that own it',
               sample='%s written only by %s' % (attr, sorted(q for m, q in allowed)))
        if not writers:
            ctx.error('J-WHO', attr, 'no writer of this cache attribute found (anchor vanished)')
    for cname, allowed in sorted(CONSTRUCTORS.items()):
        sites = set()
        for f in w.model.library_funcs():
            for n in walk_no_nested(f.node):
                if isinstance(n, ast.Call) and isinstance(n.func, ast.Name) and n.func.id == cname:
                    sites.add((f.mod.replace('elftools/', ''), f.qual.split('.<locals>.')[0]))
        extra = sorted(sites - allowed)
        ctx.ob('J-WHO', 'constructor ' + cname, 'constructed only at the designated (cached) sites', not extra and bool(sites), got=extra, expected=sorted(allowed),
               msg='objects whose identity the caches hand out must be created only behind their cache',
               sample='%s( only in %s' % (cname, sorted(q for m, q in allowed)))


def check_pure(ctx, w):
    for mod, q, own in LAZY:
        f = w.model.func(mod, q)
        effects = []
        for n in walk_no_nested(f.node):
            tgt = None
            if isinstance(n, ast.Attribute) and isinstance(n.ctx, ast.Store) and isinstance(n.value, ast.Name) and n.value.id == 'self':
                tgt = ('store', n.attr, 'self.' + n.attr)
            elif isinstance(n, ast.Subscript) and isinstance(n.ctx, ast.Store) and U(n.value).startswith('self'):
                root = _root_attr(n.value)
                tgt = ('setitem', root, U(n))
            elif isinstance(n, ast.Call) and isinstance(n.func, ast.Attribute) and n.func.attr in MUTATORS + ('update', 'setdefault') and \
                    U(n.func.value).startswith('self'):
                root = _root_attr(n.func.value)
                tgt = ('mutate', root, U(n.func))
            elif isinstance(n, ast.Call) and isinstance(n.func, ast.Name) and n.func.id == 'setattr' and n.args and U(n.args[0]).startswith('self'):
                tgt = ('setattr', None, U(n)[:40])
            if tgt and tgt[1] not in own:
                effects.append(tgt)
        if not effects:
            ctx.ob('J-PURE', f.construct, 'writes only its own cache', True, sample='%s writes nothing observable but %s' % (f.construct, sorted(own)))
        for kind, root, text in effects:
            ctx.ob('J-PURE', f.construct, 'writes %s' % text, False, msg='a lazily run computation mutates state another public observable reads: '
                   'that observable differs before and after the first call', line=f.node.lineno)


def check_shared(ctx, w):
    """Construct objects are built once per DWARFStructs/ELFStructs configuration and shared by every later parse
    (DWARFStructs._structs_cache): a _parse/_decode that stores parse-derived data on `self` leaks one input into the next."""
    n = 0
    for rel, tree in sorted(w.model.trees.items()):
        if not rel.startswith('elftools/') or rel.startswith('elftools/construct/'):
            continue
        for cls in [x for x in ast.walk(tree) if isinstance(x, ast.ClassDef)]:
            bases = [b.id if isinstance(b, ast.Name) else (b.attr if isinstance(b, ast.Attribute) else None) for b in cls.bases]
            is_construct = any(b and (b in ('Construct', 'Subconstruct', 'Adapter') or
                                      any(c.is_subclass_of('Construct') for c in w.model.classes.get(b, []))) for b in bases)
            if not is_construct:
                continue
            for m in cls.body:
                if isinstance(m, ast.FunctionDef) and m.name in ('_parse', '_decode', '_encode', '_build', '_sizeof'):
                    n += 1
                    writes = []
                    for x in ast.walk(m):
                        if isinstance(x, ast.Attribute) and isinstance(x.ctx, (ast.Store, ast.Del)) and isinstance(x.value, ast.Name) and x.value.id == 'self':
                            writes.append(U(x))
                        elif isinstance(x, ast.Subscript) and isinstance(x.ctx, (ast.Store, ast.Del)) and U(x.value).startswith('self.'):
                            writes.append(U(x))
                        elif isinstance(x, ast.Call) and isinstance(x.func, ast.Attribute) and x.func.attr in MUTATORS + ('update', 'setdefault') and \
                                U(x.func.value).startswith('self.'):
                            writes.append(U(x.func))
                    ctx.ob('J-SHARED', '%s:%s.%s' % (rel.replace('elftools/', ''), cls.name, m.name), 'writes nothing onto the construct', not writes, got=writes,
                           msg='a parse-time method stores data on the (shared, cached) construct object: the next parse with the same '
                               'structs sees state left by this one', line=m.lineno,
                           sample='%s.%s: no store to self.*' % (cls.name, m.name))
    ctx.analysed['construct_parse_methods'] = n


def _root_attr(node):
    # self['x'] -> 'header[x]' ; self.a.b -> 'a'
    n = node
    while isinstance(n, (ast.Attribute, ast.Subscript, ast.Call)):
        if isinstance(n, ast.Attribute) and isinstance(n.value, ast.Name) and n.value.id == 'self':
            return n.attr
        if isinstance(n, ast.Subscript) and isinstance(n.value, ast.Name) and n.value.id == 'self':
            return 'self[%s]' % U(n.slice)
        n = n.value if not isinstance(n, ast.Call) else n.func
    return None


MUTANTS = [
    ('get-tag-lazy-bound', 'elf/dynamic.py', "        offset = self._offset + n * self._tagsize\n", "        if self._num_tags != -1 and n >= self._num_tags:\n            raise IndexError(n)\n        offset = self._offset + n * self._tagsize\n", 'J-LAZY'),
    ('cie-regorder-alias', 'dwarf/callframe.py', "            reg_order = copy.copy(cie_decoded_table.reg_order)", "            reg_order = cie_decoded_table.reg_order", 'J-ALIAS'),
    ('accessor-nopos', 'elf/sections.py', "        entry = struct_parse(\n            self.structs.Elf_Sym,\n            self.stream,\n            stream_pos=entry_offset)\n        # Find the symbol name in the associated string table", "        entry = struct_parse(\n            self.structs.Elf_Sym,\n            self.stream)\n        # Find the symbol name in the associated string table", 'H-CUR'),
    ('pair-append', DI, "        self._cu_cache.insert(i, cu)", "        self._cu_cache.append(cu)", 'J-PAIR'),
    ('bisect-left', 'dwarf/compileunit.py', "        i = bisect_right(self._diemap, offset)", "        i = bisect_left(self._diemap, offset)", 'J-BISECT'),
    ('preserve-gone', 'dwarf/callframe.py', "        with preserve_stream_pos(self.stream):\n            return self._parse_entry_at(cie_offset)", "        if True:\n            return self._parse_entry_at(cie_offset)", 'H-PRES'),
    ('preserve-gone-2', 'dwarf/dwarf_util.py', "    with preserve_stream_pos(stream):\n        return base_offset +", "    if True:\n        return base_offset +", 'H-PRES'),
    ('const-key', DI, "        if offset not in self._abbrevtable_cache:\n            self._abbrevtable_cache[offset] = AbbrevTable(", "        if 0 not in self._abbrevtable_cache:\n            self._abbrevtable_cache[0] = AbbrevTable(", 'J-KEY'),
    ('die-noseek', 'dwarf/die.py', "            stream.seek(self.offset)\n            self.abbrev_code", "            self.abbrev_code", 'H-CUR'),
    ('foreign-parent', 'dwarf/compileunit.py', "            child.set_parent(die)\n", "            child._parent = die\n", 'J-WHO'),
    ('die-elsewhere', 'dwarf/die.py', "        return self.cu.iter_DIE_children(self)", "        return (DIE(self.cu, self.stream, c.offset) for c in self.cu.iter_DIE_children(self))", 'J-WHO'),
    ('gnuhash-seek-out', 'elf/hash.py', "        while True:\n            # The symbol lookup below moves the (shared) stream, so position it\n            # at the chain word of the current symbol on every iteration.\n            self.elffile.stream.seek(self._chain_pos + (symidx - self.params['symoffset']) * self._wordsize)\n", "        self.elffile.stream.seek(self._chain_pos + (symidx - self.params['symoffset']) * self._wordsize)\n        while True:\n", 'H-CUR'),
    ('ranges-gen-tell', 'dwarf/ranges.py', "        while offset < end_offset:\n            range_list = struct_parse(self.structs.Dwarf_rnglists_entries, stream, offset)\n            offset = stream.tell()\n            yield range_list", "        stream.seek(offset)\n        while stream.tell() < end_offset:\n            yield struct_parse(self.structs.Dwarf_rnglists_entries, stream)", 'H-YIELD'),
    ('stabs-no-seek', 'elf/sections.py', "            stabs = struct_parse(\n                self.structs.Elf_Stabs,\n                self.stream,\n                stream_pos=offset)", "            stabs = struct_parse(\n                self.structs.Elf_Stabs,\n                self.stream)", 'H-'),
    ('construct-parse-cache', 'dwarf/structs.py', "                    context[self.format_field + \"_parser\"] = parser", "                    self._last_parser = parser", 'J-SHARED'),
    ('lazy-mutates-header', 'dwarf/callframe.py', "        table = []\n\n        # Keeps a stack", "        table = []\n        self.header['decoded'] = True\n\n        # Keeps a stack", 'J-PURE'),
    ('abbrev-noseek', 'dwarf/abbrevtable.py', "        self.stream.seek(self.offset)\n", "", 'H-CUR'),
]


def _is_sentinel(v):
    if isinstance(v, ast.IfExp):
        return _is_sentinel(v.body) or _is_sentinel(v.orelse)
    return (isinstance(v, ast.Constant) and v.value is None) or U(v) == '-1'


def check_lazy(ctx, w):
    """Lazy slots are discovered, not listed: a private attribute that __init__ sets to a sentinel (None / -1) and exactly one other method
    assigns.  Whether that method already ran is history; so any *other* function may read the slot only (a) in a pure sentinel test whose
    sentinel branch calls something (`if self._x is None: self._make_x()`: the ensure idiom), (b) after such an ensure statement or after a
    call of the accessor in the same function.  A function that branches on "already computed?" for any other purpose (a bound check that
    exists only once the count is known) answers differently before and after the first call of the accessor."""
    funcs = [f for f in w.model.library_funcs() if '/construct/' not in f.mod]
    init = {}
    for f in funcs:
        if f.qual.endswith('.__init__'):
            for n in walk_no_nested(f.node):
                if isinstance(n, ast.Assign) and len(n.targets) == 1 and isinstance(n.targets[0], ast.Attribute) and isinstance(n.targets[0].value, ast.Name) and \
                        n.targets[0].value.id == 'self' and n.targets[0].attr.startswith('_') and _is_sentinel(n.value):
                    init.setdefault(n.targets[0].attr, set()).add(f.qual.rsplit('.', 1)[0])
    n_slots = 0
    for attr in sorted(init):
        writers = {}
        for f in funcs:
            for n in walk_no_nested(f.node):
                if isinstance(n, ast.Attribute) and n.attr == attr and isinstance(n.ctx, ast.Store) and not f.qual.endswith('__init__'):
                    writers.setdefault(f.qual.split('.<locals>.')[0], f)
        if len(writers) != 1:
            continue
        acc = list(writers)[0]
        accname = acc.split('.')[-1]
        n_slots += 1
        bad = []
        for f in funcs:
            q = f.qual.split('.<locals>.')[0]
            if q == acc or q.endswith('__init__'):
                continue
            par = {}
            for x in ast.walk(f.node):
                for c in ast.iter_child_nodes(x):
                    par[id(c)] = x
            loads = [n for n in walk_no_nested(f.node) if isinstance(n, ast.Attribute) and n.attr == attr and isinstance(n.ctx, ast.Load)]
            if not loads:
                continue
            # ensure statements: if <pure sentinel test on the slot>: <body containing a call>   (no else)
            ensures = []
            for st in walk_no_nested(f.node):
                if isinstance(st, ast.If) and not st.orelse and any(isinstance(c, ast.Call) for b in st.body for c in ast.walk(b)):
                    t = st.test
                    pure = (isinstance(t, ast.Compare) and len(t.ops) == 1 and isinstance(t.left, ast.Attribute) and t.left.attr == attr and
                            isinstance(t.ops[0], (ast.Is, ast.Eq)) and _is_sentinel(t.comparators[0])) or \
                           (isinstance(t, ast.UnaryOp) and isinstance(t.op, ast.Not) and isinstance(t.operand, ast.Attribute) and t.operand.attr == attr)
                    if pure:
                        ensures.append(st)
            acc_calls = [c for c in walk_no_nested(f.node) if isinstance(c, ast.Call) and isinstance(c.func, ast.Attribute) and c.func.attr == accname]
            for ld in loads:
                ok = False
                for e in ensures:
                    if any(x is ld for x in ast.walk(e.test)) or ld.lineno > e.lineno:
                        ok = True
                if any((c.lineno, c.col_offset) <= (ld.lineno, ld.col_offset) for c in acc_calls):
                    ok = True
                if not ok:
                    bad.append('%s:%d' % (q, ld.lineno))
        ctx.ob('J-LAZY', 'slot ' + attr, 'read only in %s, after it, or in the sentinel test that runs it' % acc, not bad, got=bad[:4],
               msg='a function other than the accessor branches on whether the lazily computed value exists yet: its answer differs before and '
                   'after the first call of the accessor', sample='%s: accessor %s' % (attr, acc))
    ctx.analysed['lazy_slots'] = n_slots
