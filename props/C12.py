"""C12 -- DWARF expressions are split into exactly their operations and operands.

Decides (DESIGN.md §3 C12): the operation name table vs the registry and its reverse map (shared with C17); the
dispatch table built by _init_dispatch_table: every named operation has a parser (G-EXH) whose ordered operand
signature -- width, signedness, byte order, format/address dependence resolved through the layout IR -- equals the
DWARF 5 §7.7.1 row (G-SIG); the parse loop structure (offset before the opcode byte, fresh stream, end on empty read).
"""
import ast
from sa.canon import U
from sa.world import get_world
from sa import dwconf, layout, expr, paths, streams, dispatch, literals, sigs, hrules
from sa.absint import FuncV, Unknown
from sa.report import AnalysisError
from spec import dwarf as D

MOD = 'dwarf/dwarf_expr.py'


def run(ctx):
    w = get_world(ctx)
    ctx.explanation.append(
        'C12: DW_OP name table evaluated (engine B) incl. generated lit/reg/breg ranges; _init_dispatch_table abstractly '
        'interpreted for every (byte order, format, address size, version): each opcode maps to a parser closure whose ordered '
        'operand signature is derived from the structs it parses through the layout IR and compared with the §7.7.1 row '
        '(G-SIG); every named operation has a parser (G-EXH); parse loop structure (W-LOOP); one-to-one names (R-INV).')
    ctx.assumptions += ['re-encoding round trip on concrete byte strings is a runtime relation (not decided)',
                        'operand rows transcribed in /verif/spec/dwarf.py (DWARF5 Table 7.9, GNU/WASM extensions)']
    for r, d in (('G-EXH', 'every named operation has a parser'), ('G-SIG', 'operand signature equals the specification row'),
                 ('W-LOOP', 'parse loop records offsets and ends on empty read'), ('R-INV', 'names and opcodes are one-to-one')):
        ctx.rule(r, d)
    configs = dwconf.CONFIGS_QUICK if ctx.tier == 'thorough' else [(True, 32, 4, 4), (False, 64, 8, 5), (True, 64, 4, 2), (False, 32, 8, 3)]
    for cfg in configs:
        ctx.guard('G-SIG', 'dispatch %s' % (cfg,), check_table, ctx, w, cfg)
    ctx.floor('G-SIG', 600)
    ctx.floor('G-EXH', 600)
    ctx.guard('W-LOOP', 'parse_expr', check_loop, ctx, w)
    ctx.floor('W-LOOP', 6)
    ctx.guard('R-INV', 'names', check_names, ctx, w)


def check_table(ctx, w, cfg):
    le, fmt, asz, ver = cfg
    interp = w.interp
    st = dwconf.structs_for(w, le, fmt, asz, ver)
    env = interp.module_env(MOD)
    fn = env.vars.get('_init_dispatch_table')
    if not isinstance(fn, FuncV):
        raise AnalysisError('G-SIG', MOD + ':_init_dispatch_table', 'function not found')
    table = interp.call_func(fn, [st], {}, None)
    if not isinstance(table, dict):
        raise AnalysisError('G-SIG', MOD + ':_init_dispatch_table', 'dispatch table not evaluable: %r' % (table,))
    names = env.vars.get('DW_OP_name2opcode')
    construct = MOD + ':_init_dispatch_table'
    lab = dwconf.label(le, fmt, asz, ver)
    ev = sigs.SigEval(w, st)
    for name in sorted(names):
        if name in D.OP_MARKERS:
            continue
        code = names[name]
        fv = table.get(code)
        ctx.ob('G-EXH', construct, '%s %s' % (name, lab), isinstance(fv, FuncV),
               msg='operation has a name but no operand parser: parsing an expression containing it raises KeyError',
               got=repr(fv), sample='dispatch[%s] exists %s' % (name, lab))
        if not isinstance(fv, FuncV):
            continue
        want = D.OPS.get(name)
        if want is None:
            ctx.note('operation %s has a parser but no specification row (listed)' % name)
            continue
        try:
            got = ev.sig_of(fv)
        except AnalysisError as e:
            ctx.error('G-SIG', construct, '%s: %s' % (name, e.why))
            continue
        exp = [a for n, a in dwconf.resolve([(None, x) for x in want if x not in ('wasm',) and '(' not in x], le, fmt, asz, ver)]
        # rebuild expected list preserving blob()/nested() wrappers
        exp_full = []
        for x in want:
            if x == 'wasm':
                exp_full.append('wasm')
            elif '(' in x:
                k, inner = x[:-1].split('(')
                exp_full.append('%s(%s)' % (k, dwconf.resolve([(None, inner)], le, fmt, asz, ver)[0][1]))
            else:
                exp_full.append(dwconf.resolve([(None, x)], le, fmt, asz, ver)[0][1])
        if exp_full == ['wasm']:
            e = '<' if le else '>'
            want_tab = ('cond', ['u8' + e], {frozenset([0, 1, 2]): ['u8' + e, 'uleb'], frozenset([3]): ['u8' + e, 'u32' + e], 'else': 'raise'})
            ok = got == want_tab
            ctx.ob('G-SIG', construct, '%s %s' % (name, lab), ok, got=repr(got)[:300], expected='u8 kind; 0-2: uleb; 3: u32; else error',
                   msg='WASM location operand differs from the WebAssembly DWARF extension')
            continue
        ctx.ob('G-SIG', construct, '%s %s' % (name, lab), got == exp_full, got=got, expected=exp_full,
               msg='operand kinds/width/signedness/order differ from DWARF 5 §7.7.1',
               sample='%s operands %s %s' % (name, exp_full, lab))
    for code in sorted(k for k in table if isinstance(k, int)):
        if code not in set(names.values()):
            ctx.ob('G-EXH', construct, 'opcode %#x is named' % code, False, msg='dispatch entry for an opcode without a name')


def check_loop(ctx, w):
    f = w.model.func(MOD, 'DWARFExprParser.parse_expr')
    env = expr.FEnv(f.node, params=('expr',), inline=False)
    tr = expr.assign_trace(f.node, env)
    ctx.ob('W-LOOP', f.construct, 'private stream over the expression bytes', tr.get('stream') == [('=', 'BytesIO(bytes(expr))')], got=tr.get('stream'))
    ctx.ob('W-LOOP', f.construct, 'offset = tell() before the opcode byte',
           tr.get('offset') == [('=', 'tell(stream)')] and tr.get('byte') == [('=', 'read(stream,1)')], got=(tr.get('offset'), tr.get('byte')))
    whiles = [n for n in ast.walk(f.node) if isinstance(n, ast.While)]
    ok = len(whiles) == 1
    # one iteration, over paths: position then opcode byte; an empty read leaves the loop with nothing recorded; otherwise the
    # operation is decoded, its operands parsed by the dispatch entry of that opcode, and recorded -- in this order
    def norm_body(stm):
        """the statements of one decoded operation in a spelling-free form: the dispatch entry may or may not have a name, the
        record may be built with positional or keyword fields, the fallback name may be formatted in any way"""
        out = []
        for x in stm:
            if x.startswith('op_name = DW_OP_opcode2name.get(op, '):
                out.append('op_name = DW_OP_opcode2name.get(op, <fmt>)')
            elif x == 'arg_parser = self._dispatch_table[op]':
                continue
            elif x in ('args = arg_parser(stream)', 'args = self._dispatch_table[op](stream)'):
                out.append('args = self._dispatch_table[op](stream)')
            elif x.startswith('parsed.append(DWARFExprOp('):
                c = ast.parse(str(x)).body[0].value.args[0]
                flds = dict(zip(('op', 'op_name', 'args', 'offset'), [U(a) for a in c.args]))
                flds.update((k.arg, U(k.value)) for k in c.keywords)
                out.append('record ' + ','.join('%s=%s' % kv for kv in sorted(flds.items())))
            else:
                out.append(str(x))
        return out
    want = ['offset = stream.tell()', 'byte = stream.read(1)', 'op = ord(byte)', 'op_name = DW_OP_opcode2name.get(op, <fmt>)',
            'args = self._dispatch_table[op](stream)', 'record args=args,offset=offset,op=op,op_name=op_name']
    seen = set()
    why = None
    for p in (paths.enum_paths(whiles[0].body) if ok else []):
        ev = expr.path_events(p, env)
        stm = [x[1] for x in ev if x[0] == 's']
        cs = [x[1] for x in ev if x[0] == 'c']
        empty = expr.CP('T(byte)', False)
        if cs == [empty]:
            seen.add('end')
            good = stm == want[:2] and ev[-1] == ('end', 'break') and ev.index(('c', cs[0])) == 2
        elif cs == [expr.neg(empty)]:
            seen.add('op')
            good = norm_body(stm) == want and ev[-1] == ('end', 'fall')
        else:
            good = False
        if not good:
            ok, why = False, ev
    ctx.ob('W-LOOP', f.construct, 'loop body order', ok and seen == {'end', 'op'}, got=why or sorted(seen), expected=want,
           msg='parse loop no longer records (offset, opcode, name, args) per operation in stream order')
    ctx.ob('W-LOOP', f.construct, 'ends on empty read', ok and 'end' in seen)
    g = w.model.func(MOD, 'DWARFExprParser.__init__')
    tr = expr.assign_trace(g.node, expr.FEnv(g.node, params=('structs',)))
    ctx.ob('W-LOOP', g.construct, 'dispatch table built from the unit structs', tr.get('self._dispatch_table') == [('=', '_init_dispatch_table(structs)')],
           got=tr.get('self._dispatch_table'))
    h = w.model.func(MOD, '_init_dispatch_table.<locals>.add')
    src = [U(s) for s in h.node.body]
    ctx.ob('W-LOOP', h.construct, 'registration keyed by the opcode of the name', src == ['table[DW_OP_name2opcode[opcode_name]] = func'], got=src)
    ctx.guard('H-CUR', 'cursor', hrules.run_h, ctx, w, [MOD])
    # "operand values with correct signedness and width": the LEB128 operands (consts, fbreg, bregN, constu, ...) are decoded by the two
    # LEB128 constructs, whose loop summaries are decided by C16's rule (shared)
    from props import C16
    ctx.rule('L-LEB', 'LEB128 operand decoders: loop summary (7 payload bits per byte, stop at bit 7 clear, SLEB sign extension unconditional on bit 6)')
    ctx.guard('L-LEB', 'ULEB128', C16.check_leb, ctx, w, C16.CU, 'ULEB128._parse', False)
    ctx.guard('L-LEB', 'SLEB128', C16.check_leb, ctx, w, C16.CU, 'SLEB128._parse', True)
    ctx.floor('L-LEB', 16)
    rb = w.model.func('common/utils.py', 'read_blob')
    got = [expr.nfs(r.value, expr.FEnv(rb.node, params=('stream', 'length'))) for r in expr.returns_of(rb.node)]
    ctx.ob('W-LOOP', rb.construct, 'read_blob reads `length` single bytes', got == ["comp(struct_parse(ULInt8(''),stream),for(i,range(length)))"], got=got)


def check_names(ctx, w):
    env = w.interp.module_env(MOD)
    fwd = env.vars.get('DW_OP_name2opcode')
    inv = env.vars.get('DW_OP_opcode2name')
    byval = {}
    for n, v in fwd.items():
        byval.setdefault(v, []).append(n)
    for v, ns in sorted(byval.items()):
        real = [n for n in ns if n not in D.OP_MARKERS]
        ctx.ob('R-INV', MOD + ':DW_OP_name2opcode', 'opcode %#x' % v, len(real) <= 1 and inv.get(v) in ns, got=(real, inv.get(v)),
               msg='names and opcodes are not in one-to-one correspondence')


MUTANTS = [
    ('const2s-unsigned', MOD, "add('DW_OP_const2s', parse_arg_struct(structs.Dwarf_int16('')))", "add('DW_OP_const2s', parse_arg_struct(structs.the_Dwarf_uint16))", 'G-SIG'),
    ('bregx-swapped', MOD, "add('DW_OP_bregx', parse_arg_struct2(structs.the_Dwarf_uleb128,\n                                         structs.the_Dwarf_sleb128))", "add('DW_OP_bregx', parse_arg_struct2(structs.the_Dwarf_sleb128,\n                                         structs.the_Dwarf_uleb128))", 'G-SIG'),
    ('regx-removed', MOD, "    add('DW_OP_regx', parse_arg_struct(structs.the_Dwarf_uleb128))\n", "", 'G-EXH'),
    ('wasm-kind3', MOD, "return [op, struct_parse(structs.the_Dwarf_uint32, stream)]", "return [op, struct_parse(structs.the_Dwarf_uleb128, stream)]", 'G-SIG'),
    ('call4-16', MOD, "add('DW_OP_call4', parse_arg_struct(structs.the_Dwarf_uint32))", "add('DW_OP_call4', parse_arg_struct(structs.the_Dwarf_uint16))", 'G-SIG'),
    ('call_ref-addr', MOD, "add('DW_OP_call_ref', parse_arg_struct(structs.the_Dwarf_offset))", "add('DW_OP_call_ref', parse_arg_struct(structs.the_Dwarf_target_addr))", 'G-SIG'),
    ('breg-uleb', MOD, "add('DW_OP_breg%s' % n, parse_arg_struct(structs.the_Dwarf_sleb128))", "add('DW_OP_breg%s' % n, parse_arg_struct(structs.the_Dwarf_uleb128))", 'G-SIG'),
    ('lit-range', MOD, "    for n in range(0, 32):\n        add('DW_OP_lit%s' % n, parse_noargs())", "    for n in range(0, 31):\n        add('DW_OP_lit%s' % n, parse_noargs())", 'G-EXH'),
    ('typedblob-len', MOD, "read_blob(stream, struct_parse(structs.the_Dwarf_uint8, stream))]", "read_blob(stream, struct_parse(structs.the_Dwarf_uleb128, stream))]", 'G-SIG'),
    ('nested-len', MOD, "            size = struct_parse(structs.the_Dwarf_uleb128, stream)\n            nested_expr_blob", "            size = struct_parse(structs.the_Dwarf_uint8, stream)\n            nested_expr_blob", 'G-SIG'),
    ('addr-offset', MOD, "return lambda stream: [struct_parse(structs.the_Dwarf_target_addr,\n                                            stream)]", "return lambda stream: [struct_parse(structs.the_Dwarf_offset,\n                                            stream)]", 'G-SIG'),
    ('offset-after', MOD, "            offset = stream.tell()\n            byte = stream.read(1)", "            byte = stream.read(1)\n            offset = stream.tell()", 'W-LOOP'),
    ('opcode-dup', MOD, "    DW_OP_over=0x14,", "    DW_OP_over=0x13,", None),
    ('int8-endian', 'dwarf/structs.py', "            self.Dwarf_int16 = SBInt16", "            self.Dwarf_int16 = SLInt16", 'G-SIG'),
    ('deref_type-order', MOD, "add('DW_OP_deref_type', parse_arg_struct2(structs.the_Dwarf_uint8,\n                                              structs.the_Dwarf_uleb128))", "add('DW_OP_deref_type', parse_arg_struct2(structs.the_Dwarf_uleb128,\n                                              structs.the_Dwarf_uint8))", 'G-SIG'),
]
