"""C02 -- section and segment contents, string tables and address mapping are exact.

Decides (DESIGN.md §3 C02): Elf_Chdr layout per class; Section.__init__ wiring of logical size/alignment;
the three data paths of Section.data (positions and lengths in normal form, size check dominating the
return); Segment.data / interpreter / string-table reads; address_offsets condition and yield;
section_in_segment against binutils' strict rule by truth-table comparison.
"""
import ast
from sa.canon import U
from sa.world import get_world
from sa import elfconf, expr, paths, streams, dispatch, literals
from sa.report import AnalysisError

SEC = 'elf/sections.py'
SEG = 'elf/segments.py'
EF = 'elf/elffile.py'

# binutils ELF_SECTION_IN_SEGMENT_1 (check_vma=1, strict=1), first four conjuncts (DESIGN.md A.11)
SECTION_IN_SEGMENT = (
    "(((sh_flags & SHF_TLS) != 0 and p_type in ('PT_TLS', 'PT_GNU_RELRO', 'PT_LOAD')) or "
    " ((sh_flags & SHF_TLS) == 0 and p_type not in ('PT_TLS', 'PT_PHDR'))) and "
    "not ((sh_flags & SHF_ALLOC) == 0 and p_type in ('PT_LOAD', 'PT_DYNAMIC', 'PT_GNU_EH_FRAME', 'PT_GNU_RELRO', 'PT_GNU_STACK')) and "
    "((sh_flags & SHF_ALLOC) == 0 or (sh_addr >= p_vaddr and sh_addr - p_vaddr + sh_size <= p_memsz and "
    "  (p_memsz == 0 or sh_addr - p_vaddr <= p_memsz - 1))) and "
    "(sh_type == 'SHT_NOBITS' or (sh_offset >= p_offset and sh_offset - p_offset + sh_size <= p_filesz and "
    "  (p_filesz == 0 or sh_offset - p_offset <= p_filesz - 1)))")


def path_assigns(path, env):
    out = {}
    for st in path.stmts():
        if isinstance(st, ast.Assign) and len(st.targets) == 1:
            t = st.targets[0]
            if isinstance(t, ast.Attribute) and isinstance(t.value, ast.Name) and t.value.id == 'self':
                out[t.attr] = expr.nfs(st.value, env)
    return out


def run(ctx):
    w = get_world(ctx)
    ctx.explanation.append(
        'C02: Elf_Chdr layout vs glibc (L-CONF); per-path stream positions/lengths of Section.data, Segment.data, '
        'get_interp_name, get_string in affine normal form against spec rows (E-i); compression-size check on every '
        'returning compressed path (R-DOM); address_offsets and section_in_segment compared with the specification '
        'formula by exhaustive truth table over canonical atoms (E-iii).')
    ctx.assumptions += ['zlib inflates correctly (runtime, not decided)', 'parse_cstring_from_stream returns the bytes up to NUL']
    ctx.rule('L-CONF', 'Elf_Chdr layout equals glibc Elf32_Chdr/Elf64_Chdr')
    ctx.rule('W-SEC', 'Section constructor wires logical size/alignment/compression type')
    ctx.rule('E-i', 'stream positions and lengths equal the specification formulas on every path')
    ctx.rule('R-DOM', 'size check raising ELFCompressionError dominates the compressed return')
    ctx.rule('E-iii', 'condition equals the specification formula (truth table)')
    ctx.rule('G-LIT', 'enum-family literals are defined names')
    ctx.guard('L-CONF', 'Elf_Chdr', elfconf.check_glibc_struct, ctx, w, 'Elf_Chdr')
    ctx.guard('L-ENUM', 'ch_type', elfconf.check_enum_field, ctx, w, 'Elf_Chdr', 'ch_type', 'ENUM_ELFCOMPRESS_TYPE')
    ctx.floor('L-CONF', 14)
    ctx.guard('W-SEC', 'Section.__init__', check_section_init, ctx, w)
    ctx.floor('W-SEC', 8)
    ctx.guard('E-i', 'Section.data', check_section_data, ctx, w)
    ctx.guard('E-i', 'simple reads', check_simple_reads, ctx, w)
    ctx.floor('E-i', 10)
    ctx.guard('E-iii', 'address_offsets', check_address_offsets, ctx, w)
    ctx.guard('E-iii', 'section_in_segment', check_sis, ctx, w)
    ctx.floor('E-iii', 4)
    ctx.rule('J-KEY', 'bytes returned by data() that come out of a container shared between sections are keyed by what identifies the section')
    ctx.guard('J-KEY', 'Section.data', check_data_keys, ctx, w)
    ctx.floor('J-KEY', 3)
    ctx.guard('G-LIT', 'literals', literals.glit, ctx, w, [SEC, SEG],
              only={SEC: ('Section.', 'StringTableSection.', 'NullSection.')})


UNIQUE_KEY_PARTS = ('sh_offset',)      # with `self` / id(self): what no two sections of one file share (names, types, sizes are shared)


def check_data_keys(ctx, w):
    """Every returning path of Section.data(): the returned expression, with locals replaced by what the path assigned, is
    searched for element reads (x[k], x.get(k), x.pop(k), x.setdefault(k, ..)) from a container that outlives this section object's
    own state -- reached through self.elffile, a module global or a class attribute.  Such a read is a cache shared by all sections
    of the file: its key must contain the section's file offset or the section object itself.  Section names are not unique
    (COMDAT .debug_macro / .group / .text.* sections), neither are types or sizes."""
    import copy
    f = w.model.func(SEC, 'Section.data')
    local_names = set(x.id for x in ast.walk(f.node) if isinstance(x, ast.Name) and isinstance(x.ctx, ast.Store)) | set(a.arg for a in f.node.args.args)

    def root(e):
        chain = []
        while isinstance(e, ast.Attribute):
            chain.append(e.attr)
            e = e.value
        return (e.id if isinstance(e, ast.Name) else None), list(reversed(chain))

    def shared(container):
        r, chain = root(container)
        if r == 'self':
            return bool(chain) and chain[0] in ('elffile', '__class__') and len(chain) >= 2
        if r in ('Section', 'type') or (r is not None and r not in local_names and r not in ('self',)):
            return bool(chain) or isinstance(container, ast.Name)
        return False

    n = 0
    for conds, r, pth in paths.returns_with_conds(f.node):
        n += 1
        if r is None:
            continue
        e = expr._StoreSubst(expr.path_store(pth)).visit(copy.deepcopy(r))
        for x in ast.walk(e):
            cont = key = None
            if isinstance(x, ast.Subscript) and not isinstance(x.slice, ast.Slice):
                cont, key = x.value, x.slice
            elif isinstance(x, ast.Call) and isinstance(x.func, ast.Attribute) and x.func.attr in ('get', 'pop', 'setdefault') and x.args:
                cont, key = x.func.value, x.args[0]
            if cont is None or not shared(cont):
                continue
            ktxt = U(key)
            ok = any(isinstance(k, ast.Constant) and k.value in UNIQUE_KEY_PARTS for k in ast.walk(key)) or \
                any(isinstance(k, ast.Attribute) and k.attr in UNIQUE_KEY_PARTS for k in ast.walk(key)) or \
                any(isinstance(k, ast.Name) and k.id == 'self' and not any(isinstance(a, ast.Attribute) and a.value is k for a in ast.walk(key)) and
                    not any(isinstance(a, ast.Subscript) and a.value is k for a in ast.walk(key)) for k in ast.walk(key))
            ctx.ob('J-KEY', f.construct, 'shared container %s read with key %s' % (U(cont)[:60], ktxt[:60]), ok, line=getattr(r, 'lineno', None), got=ktxt,
                   msg='data() returns an element of a container shared by all sections of the file under a key two sections can share: '
                       'the second one gets the first one\'s bytes')
    for _ in range(n):
        ctx.ob('J-KEY', f.construct, 'returning path examined', True)


def check_section_init(ctx, w):
    f = w.model.func(SEC, 'Section.__init__')
    env = expr.FEnv(f.node, params=('header', 'name', 'elffile'), inline=False)
    ps = [p for p in paths.func_paths(f.node) if p.end[0] == 'fall']
    if len(ps) != 2:
        raise AnalysisError('W-SEC', f.construct, 'expected two construction paths, got %d' % len(ps))
    prop = w.model.func(SEC, 'Section.compressed')
    prets = [expr.nfs(r.value, expr.FEnv(prop.node)) for r in expr.returns_of(prop.node)]
    ctx.ob('W-SEC', prop.construct, 'returns _compressed', prets == ['_compressed'], got=prets)
    for p in ps:
        conds = [expr.CP(expr.cond_str(t, env), pol) for t, pol in p.conds()]
        if len(conds) != 1 or conds[0][0] != 'T(compressed)':
            raise AnalysisError('W-SEC', f.construct, 'construction branches on %r, expected self.compressed' % conds)
        comp = conds[0][1]
        asg = path_assigns(p, env)
        ctx.ob('W-SEC', f.construct, '_compressed flag test', asg.get('_compressed') == expr.spec_nf('sh_flags & SHF_COMPRESSED'),
               msg='compressed flag is not sh_flags & SHF_COMPRESSED', got=asg.get('_compressed'), line=f.node.lineno)
        if comp:
            ops = [o.t() for o in streams.path_ops(p, env)]
            ctx.ob('W-SEC', f.construct, 'compression header parsed at sh_offset',
                   ops == [('parse', 'stream', 'Elf_Chdr', 'sh_offset')], got=ops,
                   expected=[('parse', 'stream', 'Elf_Chdr', 'sh_offset')],
                   msg='compression header is not parsed with Elf_Chdr at the section offset')
            want = {'_compression_type': 'ch_type', '_decompressed_size': 'ch_size', '_decompressed_align': 'ch_addralign'}
        else:
            want = {'_decompressed_size': 'sh_size', '_decompressed_align': 'sh_addralign'}
        for k, v in sorted(want.items()):
            ctx.ob('W-SEC', f.construct, '%s <- %s (%s)' % (k, v, 'compressed' if comp else 'plain'), asg.get(k) == v,
                   msg='logical size/alignment/type taken from the wrong field', got=asg.get(k), expected=v,
                   sample='Section.%s = %s when %scompressed' % (k, v, '' if comp else 'not '))
    for pn, attr in (('data_size', '_decompressed_size'), ('data_alignment', '_decompressed_align')):
        g = w.model.func(SEC, 'Section.' + pn)
        got = [expr.nfs(r.value, expr.FEnv(g.node)) for r in expr.returns_of(g.node)]
        ctx.ob('W-SEC', g.construct, 'returns ' + attr, got == [attr], got=got, expected=[attr])


def check_section_data(ctx, w):
    f = w.model.func(SEC, 'Section.data')
    # data_size is a property returning _decompressed_size: canonicalise both to data_size
    env = expr.FEnv(f.node)
    env.rename['_dummy'] = '_dummy'

    def canon(s):
        return s.replace('_decompressed_size', 'data_size') if s else s
    import copy
    allp = paths.func_paths(f.node)
    seen = {'nobits': 0, 'zlib': 0, 'plain': 0, 'unknown-compression': 0}
    INFLATED = 'decompress(decompressobj(zlib), read(stream, sh_size - sizeof(Elf_Chdr)), data_size)'

    def subst_cond(p, t):
        # the test as a condition over what the path computed (a local `result` or the expression itself: the same value)
        e = expr._StoreSubst(expr.path_store(p, upto=t)).visit(copy.deepcopy(t))
        return canon(expr.cond_str(ast.fix_missing_locations(e), env))
    for p in allp:
        conds = [expr.CP(expr.cond_str(t, env), pol) for t, pol in p.conds()]
        cd = expr.Facts(conds)
        rv = canon(expr.path_value(p, p.end[1], env)) if p.end[0] == 'return' and p.end[1] is not None else None
        ops = [tuple(canon(x) if isinstance(x, str) else x for x in o.t()) for o in streams.path_ops(p, env)]
        nob = cd.get(expr.spec_cond("sh_type == 'SHT_NOBITS'"))
        comp = cd.get('T(compressed)')
        zl = cd.get(expr.spec_cond("_compression_type == 'ELFCOMPRESS_ZLIB'"))
        if nob is None:
            raise AnalysisError('E-i', f.construct, 'NOBITS test not found on a path: %r' % (conds,))
        if nob:
            seen['nobits'] += 1
            ok = p.end[0] == 'return' and not ops and canon(expr.nfs(p.end[1], env)) == expr.spec_nf("b'\\x00' * data_size")
            ctx.ob('E-i', f.construct, 'NOBITS path', ok, msg='NOBITS data is not a zero block of the logical size read without I/O',
                   got=(ops, canon(expr.nfs(p.end[1], env)) if p.end[0] == 'return' else p.end[0]),
                   expected="b'\\x00' * data_size", sample='Section.data NOBITS -> zero block of data_size')
            continue
        if comp is None:
            raise AnalysisError('E-i', f.construct, 'compressed test not found on a path: %r' % (conds,))
        if comp and zl:
            szc = expr.Facts(expr.CP(subst_cond(p, t), pol) for t, pol in p.conds()).get(expr.spec_cond('len(%s) != data_size' % INFLATED))
            if p.end[0] == 'return':
                seen['zlib'] += 1
                want = [('seek', 'stream', expr.spec_nf('sh_offset + sizeof(Elf_Chdr)'), 'SEEK_SET'),
                        ('read', 'stream', expr.spec_nf('sh_size - sizeof(Elf_Chdr)'))]
                ctx.ob('E-i', f.construct, 'compressed payload extent', ops == want,
                       msg='compressed payload is not read from sh_offset+sizeof(Chdr) for sh_size-sizeof(Chdr) bytes',
                       got=ops, expected=want, sample='Section.data zlib: seek sh_offset+sizeof(Chdr); read sh_size-sizeof(Chdr)')
                ctx.ob('R-DOM', f.construct, 'size check before compressed return', szc is False,
                       msg='a compressed return path does not pass the decompressed-size check', got=conds)
                # inflation bounded by the declared size hides a stream that inflates to MORE than declared from the length
                # comparison: then the path must also have established that nothing is left beyond the bound
                bounded = any(isinstance(c, ast.Call) and isinstance(c.func, ast.Attribute) and c.func.attr == 'decompress' and len(c.args) + len(c.keywords) >= 2 and
                              any(c is x for st in p.stmts() for x in ast.walk(st)) for c in ast.walk(f.node))
                rest = [(expr.cond_str(t, env), pol) for t, pol in p.conds() if 'unconsumed_tail' in U(t) or '.eof' in U(t) or 'unused_data' in U(t)]
                ctx.ob('R-DOM', f.construct, 'bounded inflation: remainder beyond the declared size rejected', (not bounded) or
                       any(('unconsumed_tail' in c and pol is False) or ('eof' in c and 'unconsumed' not in c and pol is True) for c, pol in rest), got=rest,
                       msg='decompress(payload, declared size) stops at the declared size: a stream that inflates to more passes the length check '
                           'truncated, unless the path tests that nothing remains (unconsumed_tail / eof)')
                ctx.ob('E-i', f.construct, 'returns inflated result', rv == expr.spec_nf(INFLATED), got=rv)
            elif p.end[0] == 'raise':
                remainder = any('unconsumed_tail' in U(t) and pol for t, pol in p.conds())      # the other rejection of this branch
                ok = (szc is True or remainder) and p.end[1] is not None and 'ELFCompressionError' in U(p.end[1])
                ctx.ob('R-DOM', f.construct, 'size mismatch raises ELFCompressionError', ok, got=conds)
        elif comp and zl is False:
            seen['unknown-compression'] += 1
            ok = p.end[0] == 'raise' and p.end[1] is not None and 'ELFCompressionError' in U(p.end[1])
            ctx.ob('E-i', f.construct, 'unknown compression raises', ok, msg='unknown compression type is not rejected')
        elif comp is False:
            seen['plain'] += 1
            want = [('seek', 'stream', 'sh_offset', 'SEEK_SET'), ('read', 'stream', 'data_size')]
            ok = p.end[0] == 'return' and ops == want and rv == expr.spec_nf('read(stream, data_size)')
            ctx.ob('E-i', f.construct, 'plain extent', ok, msg='plain data is not read from sh_offset for the logical size',
                   got=ops, expected=want, sample='Section.data plain: seek sh_offset; read data_size')
    for k, v in sorted(seen.items()):
        ctx.ob('E-i', f.construct, 'path class %s exists' % k, v >= 1, msg='expected data path missing')
    # the inflate call is bounded by data_size
    dz = [c for c in ast.walk(f.node) if isinstance(c, ast.Call) and isinstance(c.func, ast.Attribute) and c.func.attr == 'decompress']
    dz = [c for c in dz if 'unconsumed_tail' not in U(c)]      # (the probe for a remainder is not the inflation)
    ok = bool(dz) and all(len(c.args) == 2 and expr.nfs(c.args[0], env) == expr.spec_nf('read(stream, sh_size - sizeof(Elf_Chdr))')
                          and canon(expr.nfs(c.args[1], env)) == 'data_size' for c in dz)
    ctx.ob('E-i', f.construct, 'decompress(payload, data_size)', ok,
           msg='inflation is not applied to the payload bounded by the logical size',
           got=[(expr.nfs(c.args[0], env), expr.nfs(c.args[1], env) if len(c.args) > 1 else None) for c in dz])


def check_simple_reads(ctx, w):
    rows = [
        (SEG, 'Segment.data', (), [('seek', 'stream', 'p_offset', 'SEEK_SET'), ('read', 'stream', 'p_filesz')], 'read(stream,p_filesz)'),
        (SEG, 'InterpSegment.get_interp_name', (), [('parse', 'stream', "CString('',encoding='utf-8')", 'p_offset')], None),
        (SEC, 'StringTableSection.get_string', ('offset',), [('cstr', 'stream', expr.spec_nf('sh_offset + offset'))], None),
    ]
    for mod, q, params, want, ret in rows:
        f = w.model.func(mod, q)
        env = expr.FEnv(f.node, params=params)
        ps = [p for p in paths.func_paths(f.node) if p.end[0] == 'return']
        for p in ps:
            ops = [o.t() for o in streams.path_ops(p, env)]
            ctx.ob('E-i', f.construct, 'stream ops', ops == want, msg='position/length differs from the specification',
                   got=ops, expected=want, line=f.node.lineno, sample='%s: %s' % (q, want))
            if ret:
                ctx.ob('E-i', f.construct, 'returns', expr.nfs(p.end[1], env) == ret, got=expr.nfs(p.end[1], env), expected=ret)
        ctx.ob('E-i', f.construct, 'has a returning path', bool(ps))
    f = w.model.func(SEC, 'StringTableSection.get_string')
    env = expr.FEnv(f.node, params=('offset',))
    got = [expr.nfs(r.value, env) for r in expr.returns_of(f.node)]
    want = expr.spec_nf("decode(parse_cstring_from_stream(stream, sh_offset + offset), 'utf-8', errors='replace') "
                        "if parse_cstring_from_stream(stream, sh_offset + offset) else ''")
    ctx.ob('E-i', f.construct, 'decoded string or empty', got == [want], got=got, expected=want)
    g = w.model.func(SEG, 'Segment.__getitem__')
    got = [expr.nfs(r.value, expr.FEnv(g.node, params=('name',))) for r in expr.returns_of(g.node)]
    ctx.ob('E-i', g.construct, 'self[name] = header[name]', got == ['index(header,name)'], got=got)
    g = w.model.func(SEC, 'Section.__getitem__')
    got = [expr.nfs(r.value, expr.FEnv(g.node, params=('name',))) for r in expr.returns_of(g.node)]
    ctx.ob('E-i', g.construct, 'self[name] = header[name]', got == ['index(header,name)'], got=got)
    # Section.stream is the file stream
    g = w.model.func(SEC, 'Section.__init__')
    env = expr.FEnv(g.node, params=('header', 'name', 'elffile'), inline=False)
    asg = {}
    for st in g.node.body:
        if isinstance(st, ast.Assign) and isinstance(st.targets[0], ast.Attribute):
            asg[st.targets[0].attr] = expr.nfs(st.value, env)
    ctx.ob('E-i', g.construct, 'stream/header wiring', asg.get('stream') == 'stream' and asg.get('header') == 'header' and
           asg.get('elffile') == 'elffile' and asg.get('structs') == 'structs', got=asg)


def check_address_offsets(ctx, w):
    f = w.model.func(EF, 'ELFFile.address_offsets')
    env = expr.FEnv(f.node, params=('start', 'size'))
    loops = [n for n in ast.walk(f.node) if isinstance(n, ast.For)]
    if len(loops) != 1:
        raise AnalysisError('E-iii', f.construct, 'expected one loop')
    lp = loops[0]
    it = expr.nfs(lp.iter, env)
    ctx.ob('E-iii', f.construct, 'iterates PT_LOAD segments', it in ("iter_segments(self,type='PT_LOAD')", "iter_segments(self,'PT_LOAD')"),
           msg='address mapping does not consider exactly the PT_LOAD segments', got=it)
    ifs = [n for n in lp.body if isinstance(n, ast.If)]
    ys = [n for n in ast.walk(lp) if isinstance(n, ast.Yield)]
    if len(ifs) != 1 or len(ys) != 1:
        raise AnalysisError('E-iii', f.construct, 'expected one condition and one yield in the loop')
    got = expr.cond_tt(ifs[0].test, env)
    want = expr.spec_tt('start >= p_vaddr and start + size <= p_vaddr + p_filesz')
    eq, cex, n = expr.tt_equiv(got, want)
    ctx.ob('E-iii', f.construct, 'containment condition', eq,
           msg='a range is mapped by a segment iff it is wholly inside [p_vaddr, p_vaddr+p_filesz): condition differs',
           got=cex, expected='start >= p_vaddr and start+size <= p_vaddr+p_filesz',
           sample='address_offsets: start>=p_vaddr and start+size<=p_vaddr+p_filesz (%d assignments)' % n, line=ifs[0].lineno)
    yv = expr.nfs(ys[0].value, env)
    ctx.ob('E-iii', f.construct, 'yielded offset', yv == expr.spec_nf('start - p_vaddr + p_offset'),
           msg='file offset is not start - p_vaddr + p_offset', got=yv, expected=expr.spec_nf('start - p_vaddr + p_offset'))
    # "the file offset(s) given by exactly those loadable segments that wholly contain it": every PT_LOAD is examined -- no path through the loop
    # body leaves the loop or the function (overlay images map one address range from several segments)
    exits = [p.end[0] for p in paths.enum_paths(lp.body) if p.end[0] in ('return', 'break', 'raise')]
    ctx.ob('E-iii', f.construct, 'every PT_LOAD segment is examined (the walk does not stop at the first hit)', not exits, got=exits,
           msg='the walk over the loadable segments ends early: a range contained in several segments is mapped through the first one only')
    d = [a for a in f.node.args.defaults]
    ctx.ob('E-iii', f.construct, 'default size 1', len(d) == 1 and isinstance(d[0], ast.Constant) and d[0].value == 1)


def check_sis(ctx, w):
    f = w.model.func(SEG, 'Segment.section_in_segment')
    env = expr.FEnv(f.node, params=('section',))
    got = expr.func_truth_formula(f.node, env)
    want = expr.spec_tt(SECTION_IN_SEGMENT)
    eq, cex, n = expr.tt_equiv(got, want)
    ctx.ob('E-iii', f.construct, 'strict containment rule', eq,
           msg="decision differs from binutils' ELF_SECTION_IN_SEGMENT_1(check_vma=1, strict=1) on some combination "
               "of segment type, flags and extent conditions", got=cex, expected='spec formula (DESIGN.md A.11)',
           sample='section_in_segment == T and A and V and F over %d assignments' % n, line=f.node.lineno)
    ctx.analysed['section_in_segment_assignments'] = n
    # the flag constants used are the gABI bits
    sh = w.interp.module_env('elf/constants.py').vars.get('SH_FLAGS')
    vals = getattr(sh, 'attrs', {})
    ctx.ob('E-iii', 'elf/constants.py:SH_FLAGS', 'SHF_ALLOC/SHF_TLS/SHF_COMPRESSED bits',
           vals.get('SHF_ALLOC') == 0x2 and vals.get('SHF_TLS') == 0x400 and vals.get('SHF_COMPRESSED') == 0x800,
           got=(vals.get('SHF_ALLOC'), vals.get('SHF_TLS'), vals.get('SHF_COMPRESSED')), expected=(2, 0x400, 0x800))


S1 = 'elf/sections.py'
S2 = 'elf/segments.py'
MUTANTS = [
    ('chdr-reserved', 'elf/structs.py', "fields.insert(1, self.Elf_word('ch_reserved'))", "pass", 'L-CONF'),
    ('chdr-size-word', 'elf/structs.py', "self.Elf_xword('ch_size')", "self.Elf_word('ch_size')", 'L-CONF'),
    ('read-full', S1, "compressed = self.stream.read(self['sh_size'] - hdr_size)", "compressed = self.stream.read(self['sh_size'])", 'E-i'),
    ('seek-nohdr', S1, "self.stream.seek(self['sh_offset'] + hdr_size)", "self.stream.seek(self['sh_offset'])", 'E-i'),
    ('sizecheck-gone', S1, "if len(result) != self._decompressed_size:", "if False:", 'R-DOM'),
    ('plain-shsize', S1, "result = self.stream.read(self._decompressed_size)", "result = self.stream.read(self['sh_entsize'])", 'E-i'),
    ('nobits-shsize', S1, "return b'\\0'*self.data_size", "return b'\\0'*self['sh_addralign']", 'E-i'),
    ('align-from-size', S1, "self._decompressed_align = header['ch_addralign']", "self._decompressed_align = header['ch_size']", 'W-SEC'),
    ('flag-alloc', S1, "header['sh_flags'] & SH_FLAGS.SHF_COMPRESSED", "header['sh_flags'] & SH_FLAGS.SHF_ALLOC", 'W-SEC'),
    ('seg-memsz', S2, "return self.stream.read(self['p_filesz'])", "return self.stream.read(self['p_memsz'])", 'E-i'),
    ('interp-vaddr', S2, "path_offset = self['p_offset']", "path_offset = self['p_vaddr']", 'E-i'),
    ('string-offset', S1, "table_offset + offset)", "offset)", 'E-i'),
    ('addr-end-lt', 'elf/elffile.py', "end <= seg['p_vaddr'] + seg['p_filesz']", "end < seg['p_vaddr'] + seg['p_filesz']", 'E-iii'),
    ('addr-memsz', 'elf/elffile.py', "end <= seg['p_vaddr'] + seg['p_filesz']", "end <= seg['p_vaddr'] + seg['p_memsz']", 'E-iii'),
    ('addr-yield', 'elf/elffile.py', "yield start - seg['p_vaddr'] + seg['p_offset']", "yield start + seg['p_offset']", 'E-iii'),
    ('addr-load', 'elf/elffile.py', "for seg in self.iter_segments(type='PT_LOAD'):", "for seg in self.iter_segments():", 'E-iii'),
    ('sis-relro', S2, "segtype in ('PT_TLS', 'PT_GNU_RELRO', 'PT_LOAD')):", "segtype in ('PT_TLS', 'PT_LOAD')):", 'E-iii'),
    ('sis-le', S2, "secaddr - vaddr + section['sh_size'] <= self['p_memsz'] and", "secaddr - vaddr + section['sh_size'] < self['p_memsz'] and", 'E-iii'),
    ('sis-filesz', S2, "secoffset - poffset + section['sh_size'] <= self['p_filesz'] and", "secoffset - poffset + section['sh_size'] <= self['p_memsz'] and", 'E-iii'),
    ('sis-nobits', S2, "if sectype == 'SHT_NOBITS':", "if sectype == 'SHT_NULL':", 'E-iii'),
    ('sis-stack', S2, "'PT_GNU_RELRO', 'PT_GNU_STACK')):", "'PT_GNU_RELRO')):", 'E-iii'),
    ('sis-alloc', S2, "if secflags & SH_FLAGS.SHF_ALLOC:", "if secflags & SH_FLAGS.SHF_WRITE:", 'E-iii'),
    ('sis-strict', S2, "(self['p_filesz'] == 0 or secoffset - poffset <= self['p_filesz'] - 1))", "(self['p_filesz'] == 0 or secoffset - poffset <= self['p_filesz']))", 'E-iii'),
]
